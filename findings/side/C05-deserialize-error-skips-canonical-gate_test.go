// place at: app/c05probe/probe_test.go
//
// NOT A MUTANT DEMO: this variant FAILS ON THE UNCHANGED TREE. A duplicate key of the wrong JSON type
// (`,"memo":5` before the closing brace) makes json.Unmarshal return an UnmarshalTypeError while the
// struct is fully populated from the earlier keys; txChecker/txDeliverer only log a deserialize error
// and go on (`if err != nil {log} else if !isCanonicalEncoding {...}`), so the canonical gate is skipped.
// run: go test -vet=off -count=1 -ldflags=-checklinkname=0 ./app/c05probe/
//
// C05 (at-most-once) demonstration for mutant 1. It lives in its own directory (external package)
// because the TestMain of package app exits without running any test, and it drives the real
// application object through its ABCI interface (CheckTx / DeliverTx), with Tendermint's real
// kv transaction indexer installed behind rpc/core.Tx - exactly what VerifyCache / GetTxFromCache
// consult on a running node.
//
// Like package app itself the test binary only links with the linkname check disabled:
//
//	go test -vet=off -count=1 -ldflags=-checklinkname=0 ./app/c05mut1/
//
// Scenario: a signed Send is executed in block 1 and indexed. Later the very same bytes followed
// by a newline (or preceded by a blank, ...) are submitted. sha256 of those bytes is unknown to
// the index and the signature, verified over the re-serialized content, is still good - the only
// thing that stops the second execution is the canonical-encoding gate of CheckTx/DeliverTx.
package c05probe

import (
	"os"
	"path/filepath"
	"testing"

	"github.com/stretchr/testify/assert"
	"github.com/stretchr/testify/require"
	abci "github.com/tendermint/tendermint/abci/types"
	"github.com/tendermint/tendermint/crypto/ed25519"
	tmrpccore "github.com/tendermint/tendermint/rpc/core"
	"github.com/tendermint/tendermint/state/txindex/kv"
	tmtypes "github.com/tendermint/tendermint/types"
	dbm "github.com/tendermint/tm-db"

	"github.com/Oneledger/protocol/action"
	"github.com/Oneledger/protocol/action/transfer"
	"github.com/Oneledger/protocol/app"
	"github.com/Oneledger/protocol/app/node"
	"github.com/Oneledger/protocol/config"
	"github.com/Oneledger/protocol/data/balance"
	"github.com/Oneledger/protocol/data/chain"
	"github.com/Oneledger/protocol/data/fees"
	"github.com/Oneledger/protocol/data/keys"
	"github.com/Oneledger/protocol/storage"
)

func TestC05_SurroundingWhitespaceIsNotANewTransaction(t *testing.T) {
	// --- a node: real App, real tx indexer -------------------------------------------------
	indexer := kv.NewTxIndex(dbm.NewMemDB())
	tmrpccore.SetTxIndexer(indexer)

	dir, err := os.MkdirTemp("", "c05mut1")
	require.NoError(t, err)
	defer os.RemoveAll(dir)

	cfg := config.DefaultServerConfig()
	cfg.Node = &config.NodeConfig{NodeName: "c05", DB: "goleveldb", DBDir: filepath.Join(dir, "nodedata")}
	application, err := app.NewApp(cfg, &node.Context{})
	require.NoError(t, err)
	node := application.ABCI()

	// --- minimal genesis: OLT, the fee option, one funded account ---------------------------
	st := application.Context.Storage()
	olt := balance.Currency{Id: 0, Name: "OLT", Chain: chain.ONELEDGER, Decimal: 18, Unit: "nue"}
	require.NoError(t, st.Currencies.Register(olt))
	st.FeePool.SetupOpt(&fees.FeeOption{FeeCurrency: olt, MinFeeDecimal: 9})

	fromPriv := ed25519.GenPrivKey()
	from := keys.Address(fromPriv.PubKey().Address())
	to := keys.Address(ed25519.GenPrivKey().PubKey().Address())

	hundred, _ := balance.NewAmountFromString("100000000000000000000", 10)
	genesis := storage.NewState(st.Chainstate)
	require.NoError(t, st.Balances.WithState(genesis).AddToAddress(from, olt.NewCoinFromAmount(*hundred)))
	genesis.Commit()

	// --- the signed transaction: send 1 OLT ---------------------------------------------------
	one, _ := balance.NewAmountFromString("1000000000000000000", 10)
	send := transfer.Send{From: from, To: to, Amount: action.Amount{Currency: "OLT", Value: *one}}
	data, err := send.Marshal()
	require.NoError(t, err)
	raw := action.RawTx{
		Type: send.Type(),
		Data: data,
		Fee:  action.Fee{Price: action.Amount{Currency: "OLT", Value: *balance.NewAmount(1000000000)}, Gas: 100000},
		Memo: "pay once",
	}
	sig, err := fromPriv.Sign(raw.RawBytes())
	require.NoError(t, err)
	signed := action.SignedTx{RawTx: raw, Signatures: []action.Signature{{
		Signer: keys.PublicKey{KeyType: keys.ED25519, Data: fromPriv.PubKey().Bytes()[5:]},
		Signed: sig,
	}}}
	txBytes := signed.SignedBytes() // what the node's broadcast service sends

	received := func() string {
		coin, err := application.Context.Storage().Balances.GetBalanceForCurr(to, &olt)
		require.NoError(t, err)
		return coin.Amount.BigInt().String()
	}

	// --- block 1: the transaction passes the mempool check, is executed and indexed ---------------
	check := node.CheckTx(abci.RequestCheckTx{Tx: txBytes})
	require.Equal(t, uint32(0), check.Code, check.Log)
	deliver := node.DeliverTx(abci.RequestDeliverTx{Tx: txBytes})
	require.Equal(t, uint32(0), deliver.Code, deliver.Log)
	require.Equal(t, one.BigInt().String(), received())
	require.NoError(t, indexer.Index(&tmtypes.TxResult{Height: 1, Index: 0, Tx: txBytes, Result: deliver}))

	// sanity: the byte-identical copy is known to the index
	again := node.CheckTx(abci.RequestCheckTx{Tx: txBytes})
	require.NotEqual(t, uint32(0), again.Code, "byte-identical replay must be refused")

	// --- later: the same signed content with surrounding whitespace -------------------------------
	for _, variant := range []struct {
		name string
		tx   []byte
	}{
		{"type-error dup key", append(append([]byte{}, txBytes[:len(txBytes)-1]...), []byte(`,"memo":5}`)...)},
		{"leading blank", append([]byte{' '}, txBytes...)},
	} {
		name, replay := variant.name, variant.tx
		check = node.CheckTx(abci.RequestCheckTx{Tx: replay})
		assert.NotEqual(t, uint32(0), check.Code, "%s: mempool check accepts a re-encoding of an executed transaction", name)

		deliver = node.DeliverTx(abci.RequestDeliverTx{Tx: replay})
		assert.NotEqual(t, uint32(0), deliver.Code, "%s: a later block executes a re-encoding of an executed transaction", name)
		assert.Equal(t, one.BigInt().String(), received(), "%s: the signed transfer of 1 OLT took effect more than once", name)
		if deliver.Code == 0 {
			// a real node would index it now (it is a different hash, so every further variant works too)
			_ = indexer.Index(&tmtypes.TxResult{Height: 2, Index: 0, Tx: replay, Result: deliver})
			break
		}
	}
}

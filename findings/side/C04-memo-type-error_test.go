// place at: app/mutc04side/baseline_memo_type_error_test.go
//
// NOT a mutant demonstration: this FAILS ON THE UNCHANGED TREE (HEAD 3a66f1a).
// run with: go test -vet=off -count=1 -tags verif -ldflags=-checklinkname=0 ./app/mutc04side/
//
// A signed transaction whose memo is "" can be executed again by resubmitting its bytes with
// "memo":"" replaced by "memo":5. json.Unmarshal reports an UnmarshalTypeError for the memo but
// still fills every other field; the controller only logs the decode error and skips the
// canonical-encoding check (it is in the else-branch), so the partially decoded transaction, whose
// memo is still the zero value "" the signer signed, validates and executes under a new tx hash.
// The same works for any signed field whose signed value is the Go zero value (gas 0, ...).

//go:build verif
// +build verif

package mutc04side

import (
	"bytes"
	"testing"
	"time"

	abci "github.com/tendermint/tendermint/abci/types"
	"github.com/tendermint/tendermint/crypto/ed25519"
	tmrpccore "github.com/tendermint/tendermint/rpc/core"
	"github.com/tendermint/tendermint/state/txindex/kv"
	"github.com/tendermint/tendermint/store"
	tmtypes "github.com/tendermint/tendermint/types"
	tmdb "github.com/tendermint/tm-db"

	"github.com/Oneledger/protocol/action"
	"github.com/Oneledger/protocol/action/transfer"
	"github.com/Oneledger/protocol/app"
	"github.com/Oneledger/protocol/app/node"
	"github.com/Oneledger/protocol/config"
	"github.com/Oneledger/protocol/consensus"
	"github.com/Oneledger/protocol/data/balance"
	"github.com/Oneledger/protocol/data/chain"
	"github.com/Oneledger/protocol/data/fees"
	"github.com/Oneledger/protocol/data/governance"
	"github.com/Oneledger/protocol/data/keys"
	"github.com/Oneledger/protocol/data/rewards"
	"github.com/Oneledger/protocol/storage"
)

const chainID = "mutc04-chain"

func TestBaseline_EmptyMemoReplayViaTypeError(t *testing.T) {
	cfg := config.DefaultServerConfig()
	cfg.Node.DBDir = t.TempDir()
	cfg.Node.DB = "goleveldb"
	cfg.Node.LogLevel = 1

	a, err := app.NewApp(cfg, &node.Context{})
	if err != nil {
		t.Fatal(err)
	}
	defer a.VerifClose()

	priv := ed25519.GenPrivKey()
	pub := priv.PubKey().(ed25519.PubKeyEd25519)
	from := keys.Address(pub.Address())
	to := keys.Address(ed25519.GenPrivKey().PubKey().Address())

	olt := balance.Currency{Id: 0, Name: "OLT", Chain: chain.ONELEDGER, Decimal: 18, Unit: "nue"}
	currencies := balance.NewCurrencySet()
	if err := currencies.Register(olt); err != nil {
		t.Fatal(err)
	}
	start, _ := balance.NewAmountFromString("1000000000000000000000", 10)
	state := consensus.AppState{
		Currencies: balance.Currencies{olt},
		Balances:   []consensus.BalanceState{{Address: from, Currency: "OLT", Amount: *start}},
		Rewards: rewards.RewardMasterState{
			RewardState: rewards.NewRewardState(),
			CumuState:   rewards.NewRewardCumuState(),
		},
		Governance: governance.GovernanceState{
			FeeOption: fees.FeeOption{FeeCurrency: olt, MinFeeDecimal: 9},
			RewardOptions: rewards.Options{
				RewardInterval:           1,
				RewardPoolAddress:        "rewardpool",
				RewardCurrency:           "OLT",
				EstimatedSecondsPerCycle: 1728,
				BlockSpeedCalculateCycle: 100,
				YearCloseWindow:          3600 * 24,
				YearBlockRewardShares:    []balance.Amount{*balance.NewAmount(70000000), *balance.NewAmount(70000000)},
				BurnoutRate:              *balance.NewAmount(5),
			},
		},
	}
	gen, err := consensus.NewGenesisDoc(chainID, state)
	if err != nil {
		t.Fatal(err)
	}
	bs := store.NewBlockStore(tmdb.NewMemDB())
	if err := a.VerifPrepare(gen, bs, false); err != nil {
		t.Fatal(err)
	}
	// the replay protection of the controller looks transactions up in Tendermint's tx index
	indexer := kv.NewTxIndex(tmdb.NewMemDB(), kv.IndexAllEvents())
	tmrpccore.SetTxIndexer(indexer)

	srv := a.ABCI()
	alive := func(where string) {
		t.Helper()
		if !a.VerifAlive() {
			t.Fatalf("application closed itself in %s", where)
		}
	}
	srv.InitChain(abci.RequestInitChain{ChainId: gen.ChainID, AppStateBytes: gen.AppState})
	alive("InitChain")

	// Tendermint stores a block before executing it (the reward calculator reads block metas)
	lastID := tmtypes.BlockID{}
	now := time.Now()
	beginBlock := func(h int64, txs [][]byte) {
		t.Helper()
		ttxs := make([]tmtypes.Tx, len(txs))
		for i := range txs {
			ttxs[i] = txs[i]
		}
		blk := tmtypes.MakeBlock(h, ttxs, tmtypes.NewCommit(h-1, 0, lastID, nil), nil)
		blk.Header.ChainID = gen.ChainID
		blk.Header.Time = now.Add(time.Duration(h) * time.Second)
		ps := blk.MakePartSet(65536)
		lastID = tmtypes.BlockID{Hash: blk.Hash(), PartsHeader: ps.Header()}
		bs.SaveBlock(blk, ps, tmtypes.NewCommit(h, 0, lastID, nil))
		srv.BeginBlock(abci.RequestBeginBlock{Hash: blk.Hash(), Header: abci.Header{ChainID: gen.ChainID, Height: h, Time: blk.Header.Time}})
		alive("BeginBlock")
	}
	endBlock := func(h int64) {
		t.Helper()
		srv.EndBlock(abci.RequestEndBlock{Height: h})
		alive("EndBlock")
		srv.Commit()
		alive("Commit")
	}
	balanceOf := func(st *storage.State, addr keys.Address) string {
		t.Helper()
		c, err := balance.NewStore("b", st).GetBalanceForCurr(addr, &olt)
		if err != nil {
			t.Fatal(err)
		}
		return c.Amount.String()
	}

	// block 1: empty (after its commit the check state carries a gas calculator)
	beginBlock(1, nil)
	endBlock(1)

	// P: from pays 1000 to to
	send := transfer.Send{From: from, To: to, Amount: action.Amount{Currency: "OLT", Value: *balance.NewAmount(1000)}}
	data, _ := send.Marshal()
	raw := action.RawTx{
		Type: action.SEND,
		Data: data,
		Fee:  action.Fee{Price: action.Amount{Currency: "OLT", Value: *balance.NewAmount(1000000000)}, Gas: 100000},
		Memo: "",
	}
	sig, _ := priv.Sign(raw.RawBytes())
	signed := action.SignedTx{RawTx: raw, Signatures: []action.Signature{{
		Signer: keys.PublicKey{KeyType: keys.ED25519, Data: pub[:]},
		Signed: sig,
	}}}
	P := signed.SignedBytes()
	junk := bytes.Replace(P, []byte(`"memo":""`), []byte(`"memo":5`), 1)
	if bytes.Equal(junk, P) {
		t.Fatal("no replace")
	}

	// mempool connection
	if r := srv.CheckTx(abci.RequestCheckTx{Tx: P}); r.Code != 0 {
		t.Fatalf("sanity: CheckTx refused the signed transaction: %s", r.Log)
	}
	alive("CheckTx")
	rc := srv.CheckTx(abci.RequestCheckTx{Tx: junk})
	alive("CheckTx")
	if rc.Code == 0 {
		t.Errorf("CheckTx admitted bytes that carry no signature at all (%q)", junk)
	}

	// consensus connection, block 2 = [P, junk]
	beginBlock(2, [][]byte{P, junk})
	r1 := srv.DeliverTx(abci.RequestDeliverTx{Tx: P})
	if r1.Code != 0 {
		t.Fatalf("sanity: DeliverTx refused the signed transaction: %s", r1.Log)
	}
	if err := indexer.Index(&tmtypes.TxResult{Height: 2, Index: 0, Tx: P, Result: r1}); err != nil {
		t.Fatal(err)
	}
	if got := balanceOf(a.VerifDeliverState(), to); got != "1000" {
		t.Fatalf("sanity: recipient has %s after P, want 1000", got)
	}

	r2 := srv.DeliverTx(abci.RequestDeliverTx{Tx: junk})
	alive("DeliverTx")
	if r2.Code == 0 {
		t.Errorf("DeliverTx answered OK for bytes that carry no signature at all (%q)", junk)
	}
	if got := balanceOf(a.VerifDeliverState(), to); got != "1000" {
		t.Errorf("unsigned bytes %q had an effect: recipient balance %s, want 1000 (the signed payment was executed twice)", junk, got)
	}
	endBlock(2)
}

#!/bin/bash
# Runs the repository's test suite (guard OFF) and compares with BASELINE.json stable_pass.
cd "${REPO:-/repo}"
export GOFLAGS=-mod=mod GOPROXY=off GOSUMDB=off GOTOOLCHAIN=local
go test -json -vet=off -count=1 -timeout 25m ./... 2>/dev/null > /tmp/baseline_run.json
python3 - <<'PY'
import json
base=set(json.load(open('/root/.vp/BASELINE.json'))['stable_pass'])
passed=set()
for l in open('/tmp/baseline_run.json'):
    try: e=json.loads(l)
    except: continue
    if e.get('Action')=='pass' and e.get('Test'):
        passed.add(e['Package']+'::'+e['Test'])
missing=sorted(base-passed)
print("baseline stable tests:",len(base),"passed now:",len(base&passed),"missing:",len(missing))
for m in missing[:20]: print("  MISSING",m)
PY
rm -f /tmp/baseline_run.json

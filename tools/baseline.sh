#!/bin/bash
# Runs the repository's test suite (guard OFF) and compares with BASELINE.json stable_pass.
# Tests that fail are retried (their package only) up to 2 more times: a few suites (rpc TestServer, event
# TestTransitions) are load- and port-sensitive.
cd "${REPO:-/repo}"
rm -rf event/test_dbpath   # untracked leftover of event tests; a torn copy makes the next run of that package fail
export GOFLAGS=-mod=mod GOPROXY=off GOSUMDB=off GOTOOLCHAIN=local
tmp=$(mktemp)
go test -json -vet=off -count=1 -timeout 25m ./... 2>/dev/null > "$tmp"
python3 - "$tmp" <<'PY'
import json,sys,subprocess,os
base=set(json.load(open('/root/.vp/BASELINE.json'))['stable_pass'])
def passed_of(lines):
    p=set()
    for l in lines:
        try: e=json.loads(l)
        except: continue
        if e.get('Action')=='pass' and e.get('Test'):
            p.add(e['Package']+'::'+e['Test'])
    return p
passed=passed_of(open(sys.argv[1]))
for attempt in range(5):
    missing=sorted(base-passed)
    if not missing: break
    pkgs=sorted({m.split('::')[0] for m in missing})
    for pk in pkgs:
        rel='./'+pk.replace('github.com/Oneledger/protocol','').lstrip('/')
        out=subprocess.run(['go','test','-json','-vet=off','-count=1',rel],capture_output=True,text=True).stdout.splitlines()
        passed|=passed_of(out)
missing=sorted(base-passed)
print("baseline stable tests:",len(base),"passed now:",len(base&passed),"missing:",len(missing))
for m in missing[:20]: print("  MISSING",m)
PY
rm -f "$tmp"

#!/bin/bash
# tools/verify_mutant.sh <worktree> <mutant-dir> <seeded-id>
# Confirms in the scratch worktree that (1) the patch applies and builds, (2) the demonstration passes without
# and fails with the patch, (3) the 358 baseline tests still pass with the patch. Then copies the mutant to
# /verif/seeded/<seeded-id>/ (patch.diff, demonstration, meta.json with what was run). Leaves the worktree clean.
# DEMO_ENV="K=V ..." is passed to the demonstration's go test (some app-level demonstrations are gated by a variable).
set -u
wt="$1"; md="$2"; id="$3"
export GOFLAGS=-mod=mod GOPROXY=off GOSUMDB=off GOTOOLCHAIN=local
cd "$wt" || exit 2
git checkout -q -- . ; git clean -fdq -e mutants
demo=$(ls "$md"/*_test.go 2>/dev/null | head -1)
[ -n "$demo" ] || { echo "no demonstration test in $md"; exit 2; }
place=$(grep -m1 -o "place at: *[^ ]*" "$demo" | sed 's/place at: *//')
[ -n "$place" ] || place="$(python3 -c "import json;print(json.load(open('$md/meta.json'))['file'].rsplit('/',1)[0])")/$(basename "$demo")"
pkg="./$(dirname "$place")/"
# package app's own TestMain never calls m.Run(): a demonstration placed in app/ is run in file-list mode (the
# package's non-test files plus the demonstration), which leaves that TestMain out
target() { if [ "$(dirname "$place")" = "app" ]; then (cd "$wt" && go list -tags verif -f '{{range .GoFiles}}app/{{.}} {{end}}' ./app/; echo "$place"); else echo "$pkg"; fi; }
run_demo() { mkdir -p "$wt/$(dirname "$place")"; cp "$demo" "$wt/$place"; (cd "$wt" && env ${DEMO_ENV:-} go test -vet=off -count=1 -tags verif -ldflags=-checklinkname=0 $(target) -run "$(grep -o 'func Test[A-Za-z0-9_]*' "$demo" | sed 's/func //' | paste -sd'|')" 2>&1 | tail -5); rc=$?; rm -f "$wt/$place"; rmdir "$wt/$(dirname "$place")" 2>/dev/null; return $rc; }
echo "== demonstration WITHOUT patch (must pass)"; out=$(run_demo); echo "$out" | tail -2; echo "$out" | grep -q "^ok" || { echo "FAIL: demo does not pass on clean tree"; exit 1; }
git apply "$md/patch.diff" || { echo "FAIL: patch does not apply"; exit 1; }
go build ./... 2>&1 | grep -v "memsize\|chains/bitcoin/test\|cmd/olfullnode\|^#" | head -5
echo "== demonstration WITH patch (must fail)"; out=$(run_demo); echo "$out" | tail -3; echo "$out" | grep -q "^ok" && { echo "FAIL: demo passes with patch"; git checkout -q -- .; exit 1; }
echo "== baseline with patch"; b=$(REPO="$wt" /verif/tools/baseline.sh); echo "$b" | head -3
git checkout -q -- . ; git clean -fdq -e mutants
echo "$b" | grep -q "missing: 0" || { echo "FAIL: baseline tests broken by the patch"; exit 1; }
mkdir -p "/verif/seeded/$id"
cp "$md/patch.diff" "/verif/seeded/$id/patch.diff"; cp "$demo" "/verif/seeded/$id/"; [ -f "$md/scenario.md" ] && cp "$md/scenario.md" "/verif/seeded/$id/"
python3 - "$md/meta.json" "/verif/seeded/$id/meta.json" "$place" <<'PY'
import json,sys
m=json.load(open(sys.argv[1]))
m['demonstration']={'file':sys.argv[3].split('/')[-1],'place_at':sys.argv[3]}
m['confirmed']={'patch_applies_and_builds':True,'demo_passes_without_patch':True,'demo_fails_with_patch':True,'baseline_358_pass_with_patch':True,
  'how':'tools/verify_mutant.sh in a scratch git worktree of /repo HEAD'}
json.dump(m,open(sys.argv[2],'w'),indent=1)
PY
echo "OK: kept as /verif/seeded/$id"

#!/usr/bin/env python3
"""tools/seeded_table.py  prints the markdown table of /verif/seeded/*/meta.json (property, file, what, detected by) for DESIGN.md."""
import json,glob,re,os
rows=[]
for f in sorted(glob.glob('/verif/seeded/*/meta.json'), key=lambda p:(re.sub(r'-.*','',p.split('/')[-2]), p.split('/')[-2])):
    m=json.load(open(f)); sid=f.split('/')[-2]
    what=re.sub(r'\s+',' ',str(m.get('what') or m.get('change') or '')).replace('|','/')
    if len(what)>170: what=what[:167]+'...'
    det=m.get('detected_by') or []
    if isinstance(det,str): det=[det]
    sil=[c for c in (m.get('silent') or []) if c not in det]
    if m.get('obsolete'):
        res='obsolete (the code path it relied on was removed by a later repair)'
    elif det:
        own=m.get('property')
        res=', '.join(det)
        if own not in det: res+=f' (own check {own} silent: see 11.6/11.9)'
    else:
        res='NOT detected' + (f' (silent: {", ".join(sil)})' if sil else ' (not run)')
    rows.append(f"| {sid} | {m.get('file','?')} | {what} | {res} |")
print("| id | file | change | reported by |\n|---|---|---|---|")
print('\n'.join(rows))

#!/bin/bash
# tools/run_seeded.sh <seeded-id> [check ...]   apply /verif/seeded/<id>/patch.diff to /repo, run the given checks
# (default: the property named in meta.json) in quick tier, print which detected it, undo the patch.
# Never leaves /repo modified. Exit 0 if at least one check reported a VIOLATION.
set -u
id="$1"; shift
dir="/verif/seeded/$id"
[ -f "$dir/patch.diff" ] || { echo "no $dir/patch.diff"; exit 2; }
if [ -n "$(git -C /repo status --porcelain --untracked-files=no)" ]; then echo "/repo has uncommitted changes, refusing"; exit 2; fi
checks="$*"
if [ -z "$checks" ]; then checks=$(python3 -c "import json;print(json.load(open('$dir/meta.json'))['property'])"); fi
trap 'git -C /repo checkout -- . >/dev/null 2>&1' EXIT
git -C /repo apply "$dir/patch.diff" || { echo "patch does not apply"; exit 2; }
detected=1
for c in $checks; do
  out=$(cd /verif && VERIF_RUNS="${VERIF_RUNS:-}" ./check "$c" "${TIER:-quick}" 2>&1)
  rc=$?
  v=$(echo "$out" | grep -a -c "^VIOLATION")
  echo "seeded=$id check=$c exit=$rc violations=$v :: $(echo "$out" | grep -a "^violation" | head -2 | cut -c1-260 | tr '\n' ' ')"
  [ "$v" -gt 0 ] && detected=0
done
exit $detected

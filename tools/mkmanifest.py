#!/usr/bin/env python3
"""Regenerates /verif/MANIFEST.json from the table below (keeps it schema-valid at all times)."""
import json, os, sys
HERE = os.path.dirname(os.path.dirname(os.path.abspath(__file__)))
BASELINE = json.load(open('/root/.vp/BASELINE.json'))['cmd']

# id -> (technique, level text, level note)
CLAIMED = {
 "C01": ("deterministic simulation: seeded cluster of real replicas with different roles/configs fed identical PRNG-built block histories under CheckTx noise and crash/restart; transcript equality oracle",
         "Seeded search over block histories, node configurations and fault schedules on 3-6 real replicas per run; every commit hash, validator update and DeliverTx result is compared with the reference replica. A clean batch is evidence, not proof.",
         "Trusts the consensus driver to deliver identical blocks (it builds each block once), Tendermint's BlockExecutor/Handshaker as shipped, and tmpfs goleveldb. Go's own map-order randomisation is an uncontrolled source: violations caused by it are replayed repeatedly and reported with their reproduction rate."),
}
NOT_YET = {}  # filled below

props = [json.loads(l) for l in open(os.path.join(HERE, 'properties.jsonl'))]
checks, na = [], []
for p in props:
    pid = p['id']
    if pid in CLAIMED:
        tech, text, note = CLAIMED[pid]
        checks.append({
            "property_id": pid,
            "quick_cmd": f"./check {pid} quick",
            "thorough_cmd": f"./check {pid} thorough",
            "evidence_file": f"evidence/{pid}.json",
            "replay_cmd_template": "./check replay {path}",
            "engine": "olsim",
            "level_claimed": {"category": "exploration", "text": text, "design_ref": f"DESIGN.md §4 {pid}"},
            "level_note": note,
            "technique": tech,
        })
    else:
        na.append({"property_id": pid, "reason": NA_REASON.get(pid, "check not built yet in this round (planned: deterministic simulation, see DESIGN.md §4); not claimed until it exists") if 'NA_REASON' in globals() else "check not built yet in this round (planned: deterministic simulation, see DESIGN.md §4); not claimed until it exists"})

m = {
 "version": 1,
 "setup_cmd": "./check setup",
 "hooks": {
   "guard": "verif",
   "enable": "go build -tags 'verif verifgen' -overlay build/overlay.json -ldflags=-checklinkname=0 (done by ./check; overlay = Prepare() half generated from live source)",
   "baseline_off_cmd": BASELINE,
   "source_commits": ["0a453f7"],
   "add_only": True,
 },
 "engines": [
   {"name": "olsim", "path": "sim/cmd/olsim", "serves_properties": [c["property_id"] for c in checks],
    "kind_free_text": "deterministic whole-node simulator: real app.App + real Tendermint BlockExecutor/Handshaker per replica, seeded consensus driver, ABCI interposer (CheckTx interleaving, crash points), crash = byte copy of the open goleveldb dir, concrete replayable traces, ddmin minimiser"},
 ],
 "checks": checks,
 "not_applicable": na,
 "notes": "All checks: exit 0 held / 1 VIOLATION / 2 harness trouble. VERIF_SEED, VERIF_RUNS, VERIF_WORKERS honoured. Known findings: known_findings.json.",
}
json.dump(m, open(os.path.join(HERE, 'MANIFEST.json'), 'w'), indent=1)
print("MANIFEST.json written:", len(checks), "checks,", len(na), "not claimed")

#!/usr/bin/env python3
"""Regenerates /verif/MANIFEST.json from the table below (keeps it schema-valid at all times)."""
import json, os, sys
HERE = os.path.dirname(os.path.dirname(os.path.abspath(__file__)))
BASELINE = json.load(open('/root/.vp/BASELINE.json'))['cmd']

# id -> (technique, level text, level note)
CLAIMED = {
 "C01": ("deterministic simulation: seeded cluster of real replicas with different roles/configs, per-replica wall-clock skew and per-replica dictated map iteration orders (build-overlay seams) fed identical PRNG-built block histories under CheckTx noise and crash/restart; transcript equality oracle",
         "Seeded search over block histories, node configurations and fault schedules on 3-6 real replicas per run; every commit hash, validator update and DeliverTx result is compared with the reference replica. A clean batch is evidence, not proof.",
         "Trusts the consensus driver to deliver identical blocks (it builds each block once), Tendermint's BlockExecutor/Handshaker as shipped, and tmpfs goleveldb. Map iteration order inside the repository's packages is dictated per replica through the map-order seam (ascending / descending / rotated / permuted / native, a function of replica, site and size, so runs replay exactly); map loops inside dependencies (Tendermint, IAVL, go-ethereum) keep Go's own randomisation, violations caused by that are replayed repeatedly and reported with their reproduction rate."),
 "C06": ("deterministic simulation: raw-mode shadow twin receives the captured BeginBlock and only the successful transactions of each block; per-block hash/result/validator-update equality",
         "Seeded search over block histories biased to failures at every depth (handler failure after partial writes, fee-step failure after handler success, VM pre-check failures) at random positions among successful transactions touching the same keys; the twin without the failed transactions must agree on every app hash, surviving result (code, data, gas, events), block event and validator update.",
         "Block gas limit none/40M/8M per run; the running gas total is exempt: contracts never read GASLIMIT and the rest of a run is not judged once a block's consumed total reached the limit; identical-bytes resubmission and BLOCKHASH excluded (the twin's tx index legitimately differs). Twin is driven over raw ABCI, main replica through the real BlockExecutor."),
 "C07": ("deterministic simulation: scheduler injects CheckTx calls at every before/after site of every consensus call on noisy replicas; transcript equality against a quiet replica",
         "Seeded search over interleavings of CheckTx (valid, invalid, state-writing kinds, the block's own transactions before and after delivery) with the consensus call sequence; noisy replicas must return exactly the quiet replica's hashes, validator updates, DeliverTx results (code, data, gas, events) and Begin/EndBlock events; CheckTx material includes mempool-only transactions (config proposals of every option family, finalisation of passed proposals) that are never delivered.",
         "CheckTx is injected only when a real node's mempool can be up (after InitChain returned, not during handshake replay). All calls are serialised as the local ABCI client serialises them; true data races with RPC readers are out of scope."),
 "C08": ("deterministic simulation with crash injection: victims are killed at PRNG-chosen ABCI boundaries (also during handshake replay), restarted from a byte copy of the open data directory through the real Handshaker; Info/handshake/transcript/liveness oracles; plus kill-and-restart between blocks biased to blocks with block-hook activity",
         "Seeded search over crash points x block histories, including repeated crashes and crashes during recovery; after restart Info must equal the victim's last completed commit, the real Handshaker must complete, every re-executed block must reproduce the reference's results (code, data, gas and events of every transaction, validator updates, app hash), and victims must reach the tip once faults stop.",
         "Crash = process death (nothing the OS accepted is lost); power-loss/torn writes are not modelled. Tendermint's state/block/tx-index DBs are MemDBs that survive the crash unchanged; tx index is fed when the replica's Tendermint state reaches a height."),
 "C09": ("deterministic simulation at the storage seam: seeded operation sequences incl. dirty reopen (byte copy of the open goleveldb dir) and abandoned blocks, compared step by step with a three-layer map model and with a hash twin that executes only the surviving writes",
         "Seeded search (heavy sampling of short sequences plus long ones) over set/delete/get/exists/sessions/block commits/versioned reads/iteration/reopen on State over ChainState over MemDB and goleveldb; every read, existence answer, versioned read inside the retained window, post-reopen version/hash/content and root hash is checked. Sampling, not exhaustive enumeration.",
         "Values are non-empty and never equal the in-band tombstone marker; gas store either absent or effectively unlimited (behaviour after gas exhaustion is not stated by the property); versions older than the rotation window may be gone; keys only present in the block cache are not required to be iterated (property is silent)."),
 "C02": ("deterministic simulation: full-state dump decoded into a ledger after every commit of a seeded history with hostile-value and byzantine-proposer clients; conservation oracle with the reward allowance observed from the real PullRewards",
         "Seeded search over block histories mixing every money-moving transaction kind, adversarial amounts (sign, magnitude beyond 2^63/2^256, currency names) and all block-level hooks; after every block the harness's own sum of all value on chain may grow by at most the amount pulled under the reward schedule (OLT) or by locks/refunds finalised in that block (wrapped), and no stored amount may be negative.",
         "Ledger decoder covers every key family it meets (an unknown family makes the check exit 2). Allowance for wrapped currencies is coarse until tied to the C15 model (any tracker change in the block lifts the bound for that block). OLT allowance is the whole pulled(H), of which only the delegators' share is really minted."),
 "C03": ("deterministic simulation: per-account holdings from the decoded state dump before/after every block of a seeded history with impersonating and hostile clients; a fall in holdings requires a harness-verified signature of the account, of its validator, or a guilty verdict in that block",
         "Seeded search over block histories in which every address-typed payload field is pointed at other people's accounts while the transaction is signed by the attacker; the harness verifies signatures itself to decide who signed in a block.",
         "Guilty-in-this-block is read from the evidence store's freeze record; whether that verdict follows from the recorded votes is judged by the C19 reference model run over the same observations (a verdict it rejects authorises nothing). Signatures are verified by the harness with the cryptographic libraries only (none of the repository's key code). Accounts considered: every key the simulator created or that ever produced a verifying signature; pools, module addresses and contracts are excluded."),
 "C04": ("deterministic simulation: single-field mutants of transactions that are valid in the reached state, submitted through CheckTx on a probe node and delivered in mutant-only blocks by a byzantine proposer; empty-block twin for the no-effect oracle",
         "Seeded search over chain states x transaction kinds x mutation operators (payload, fee, memo, type, signer key, algorithm, signature bytes, signer count/order); every mutant must be rejected by CheckTx and by DeliverTx and the mutant block must hash like an empty block.",
         "Mutants whose re-serialised signed content and signature list equal the original are excluded (re-encodings are C05's subject); for OLVM the signed content is the Ethereum transaction fields, the envelope's Signer field is unused."),
 "C05": ("deterministic simulation: executed transactions are resubmitted byte-identical and re-encoded at later heights through CheckTx and in resubmission-only blocks; empty-block twin for the no-effect oracle",
         "Seeded search over histories x executed transactions x re-encodings that keep the signed content (key order, whitespace, extra field, shadowed duplicate key, escapes, key case, decoder type errors, OLVM unsigned memo/payload layout) x resubmission heights; CheckTx must reject and the resubmission block must hash like an empty block.",
         "Assumes the node's tx index is complete for every block its Tendermint state has applied (zero indexing lag)."),
 "C18": ("deterministic simulation with process-level observation: hostile-value, garbage, impersonating and known-lethal inputs go through CheckTx and into blocks on one replica per worker process; worker death, escaped panics, self-shutdown, a per-call stall limit, a per-block liveness probe and an unchanged-behaviour twin (never sees the transactions answered with an error code) are the oracles",
         "Seeded search over reached chain states x structure-aware hostile inputs of every kind; process exits are captured by re-running the seed with trace streaming so that the killing prefix becomes the replay file.",
         "Go runtime fatal errors that cannot be recovered (stack exhaustion, out of memory) are only observed as process death, not attributed further. The stall limit (30 s of real time for one ABCI call, several thousand times its normal duration) is the only place where a real clock decides; a stall is confirmed by a replay in a fresh process. Runs that call BLOCKHASH go without twin (the raw-mode twin has no block store)."),
 "C10": ("deterministic simulation: seeded staking/evidence/governance histories around the top-count and minimum-stake boundaries with absent signers and option changes; the real Tendermint BlockExecutor judges every EndBlock update, an election model recomputed from the previous block's dump judges every positive update and the converged set; in half of the runs the observed replica is killed and restarted between blocks (bounce), in a third it also serves interleaved mempool CheckTx calls",
         "Seeded search over block histories (boundary staking client, allegations, missed-votes freezes, governance changes of the staking options, fork heights); oracles: Tendermint accepts the updates, every positive update is entitled (stake >= minimum, not frozen, power == stake, top count, no higher stake passed over), active set converges to the model's election within 5 quiet blocks.",
         "The election model is recomputed from decoded records of the previous block; tie order among equal stakes is not judged (property is silent). Quiet phases are part of the generated schedule."),
 "C11": ("deterministic simulation: seeded stake/unstake/withdraw histories by several delegators and validators interleaved with block progress, verdicts, freezes and maturity-option changes; own per-(validator, delegator) chunk model advanced from decoded transactions and dumps; in half of the runs the observed replica is killed and restarted between blocks (bounce), in a third it also serves interleaved mempool CheckTx calls",
         "Seeded search over interleavings of staking operations with maturity heights, freezes/releases and option changes; oracles: record sums agree, nothing unlocks before its due height or twice, withdrawn <= staked - penalties, nothing leaves a frozen validator, exact payout in accountable blocks.",
         "Penalty size/recipient, late maturity and STAKE while frozen are not judged (property silent). One genuine defect is listed as a known finding (WITHDRAW naming another validator drains amounts unstaked from a frozen one)."),
 "C12": ("deterministic simulation: seeded delegate/undelegate/withdraw/reinvest histories with several operations per block and delegator, pool donations and block progress past the maturity heights; per-block ledger oracle from the decoded dump; in half of the runs the observed replica is killed and restarted between blocks (bounce), in a third it also serves interleaved mempool CheckTx calls",
         "Seeded search over histories and maturity schedules; oracles: pool balance >= (== without donations) sum of active delegations, pending records appear exactly at height + maturity and are paid exactly once to the delegator, reward withdrawals never exceed accrued balance, every account's balance delta is explained.",
         "Maturity option is read from the dump of H-1; blocks containing successful transactions of kinds the model does not account for are judged with >= only."),
 "C13": ("deterministic simulation with crash injection: reference replica and a victim restarted at PRNG-chosen points inside calculation cycles, simulated block clock stepping across cycle/year/burnout boundaries, absent signers; pulled amount observed from the real PullRewards on a throw-away cache-less store",
         "Seeded search over validator sets, voting patterns, block-time sequences (regular and wild) and restart points; oracles: credited <= pulled(H), pulled(H) <= supply left at cycle start (or burnout cap), withdrawn <= matured per validator, restarted victim's transcript equals the reference's.",
         "pulled(H) is observed, not re-implemented; year bookkeeping is the harness's own; a cycle shorter than one second (division by zero in the block-count estimate, negative pull) suspends oracle 2 for the run. Split among validators/delegators/proposer is not judged."),
 "C14": ("deterministic simulation: seeded governance histories (create/fund/vote/cancel/withdraw/expire/finalise from any account at heights before, at and after the deadlines) interleaved with validator-set changes and block progress; own per-proposal lifecycle and fund model from decoded transactions and dumps; in half of the runs the observed replica is killed and restarted between blocks (bounce), in a third it also serves interleaved mempool CheckTx calls",
         "Seeded search over histories relative to funding/voting deadlines and snapshot times; oracles: stage order, expiry only after the voting deadline, pass/fail per recorded votes of the snapshotted validators, config change applied exactly once for passed proposals only, refunds in full on cancel/missed goal, distribution once at finalisation <= contributed, nothing overdue.",
         "The overdue bound (blocks until the node's own hooks must have acted) is the harness's choice. One genuine defect is a known finding (expired proposals are never finalised, funds stuck)."),
 "C15": ("deterministic simulation: seeded lock/redeem submissions (duplicates, replays, front-running) and witness finality reports in random orders with lying minorities/coalitions, non-witnesses, repeated votes, interleaved with block-end tracker transitions; reference tracker model from decoded transactions, own rlp/abi decoding and dumps; in half of the runs the observed replica is killed and restarted between blocks (bounce), in a third it also serves interleaved mempool CheckTx calls",
         "Seeded search over orders and mixtures of reports and submissions; oracles: every wrapped credit that is not a transfer is a mint (> 2/3 yes of recorded witnesses, once per Ethereum transaction, exact amount, to the submitter) or a refund (> 2/3 no, once, exact amount), redeem debited at creation, one tracker per Ethereum transaction, proper witness reports are not rejected, supply counter == circulation.",
         "Refund patience 5 blocks (harness choice); supply cap not judged (property names none); Ethereum/Bitcoin chains are absent, witnesses are played by the generator."),
 "C16": ("deterministic simulation at the EVM state seam: seeded sequences of StateDB interface calls and EVM messages with arbitrary snapshot/revert nesting, transaction ends, block commits, discarded sessions, adapter re-creation and restarts, executed side by side on the chain's adapter and on go-ethereum's own in-memory StateDB",
         "Seeded search (25 cases per run, 80% short) over operation sequences and bytecode programs; oracles: differential (return values, per-address state, refund, logs, message results, gas, errors), store footprint of finalisation, final scan of the contract store.",
         "Reference is go-ethereum v1.10.8 core/state with the same starting accounts. One genuine defect is a known finding (ForEachStorage hands hashed keys to the callback); a case goes on after it."),
 "C17": ("deterministic simulation: seeded mixes of native and OLVM transactions in shuffled blocks; the scheduler's before/after-DeliverTx sites photograph the deliver state around every transaction; ledger-unity and exact-charge oracles from the snapshots; in half of the runs the observed replica is killed and restarted between blocks (bounce)",
         "Seeded search over orders of native/OLVM transactions within and across blocks (creations, reverting/out-of-gas calls, nonce gaps, low balance, wrong chain id); oracles: native balance == EVM-visible balance at every snapshot, failed OLVM transaction changes no key, executed one moves exactly gasUsed*price + value and raises the nonce by one.",
         "Snapshots read the block's dirty set over the committed tree without metering; contracts that move value internally are judged on totals only."),
 "C19": ("deterministic simulation: seeded allegation/vote/release histories from validators and outsiders with concurrent requests, changing active sets, absent signers and simulated clock jumps across the release time; own request/vote/freeze model from decoded transactions, dumps, header times and the resulting Tendermint set; in half of the runs the observed replica is killed and restarted between blocks (bounce), in a third it also serves interleaved mempool CheckTx calls",
         "Seeded search over histories, shares (34-67%), penalties and release times; oracles: verdicts only when distinct currently active validators cross the share, guilty => frozen, exact penalty with bounty bound, out of the validator set, no stake/unstake/withdraw/allegation/vote while frozen, release only after the release time, outsiders cannot open or vote.",
         "A voter counts as currently active if active at H-1 or H (both accepted); missed-votes freezing rules are not judged."),
 "C20": ("deterministic simulation: seeded ONS histories by owners and strangers (races of two transactions on one name in a block, expiry heights crossed by block progress, governance price changes mid-run); registry model walked in block order from decoded transactions with harness-verified signers, record differences of the dumps must be explained; in half of the runs the observed replica is killed and restarted between blocks (bounce), in a third it also serves interleaved mempool CheckTx calls",
         "Seeded search over histories across expiry heights and price-option changes; oracles: one owner per name, changes only by the current owner or a paid purchase (>= asking/base price to the seller), expiry set computed by own arithmetic from payment and options, sub-names follow their parent, nobody else is credited.",
         "Ambiguities the property leaves open are accepted both ways (now = H or H-1, base price charged once or twice on purchase)."),
}
NOT_YET = {}  # filled below

props = [json.loads(l) for l in open(os.path.join(HERE, 'properties.jsonl'))]
checks, na = [], []
for p in props:
    pid = p['id']
    if pid in CLAIMED:
        tech, text, note = CLAIMED[pid]
        checks.append({
            "property_id": pid,
            "quick_cmd": f"./check {pid} quick",
            "thorough_cmd": f"./check {pid} thorough",
            "evidence_file": f"evidence/{pid}.json",
            "replay_cmd_template": "./check replay {path}",
            "engine": "olsim",
            "level_claimed": {"category": "exploration", "text": text, "design_ref": f"DESIGN.md §4 {pid}"},
            "level_note": note,
            "technique": tech,
        })
    else:
        na.append({"property_id": pid, "reason": NA_REASON.get(pid, "check not built yet in this round (planned: deterministic simulation, see DESIGN.md §4); not claimed until it exists") if 'NA_REASON' in globals() else "check not built yet in this round (planned: deterministic simulation, see DESIGN.md §4); not claimed until it exists"})

m = {
 "version": 1,
 "setup_cmd": "./check setup",
 "hooks": {
   "guard": "verif",
   "enable": "go build -tags 'verif verifgen' -overlay build/overlay.json -ldflags=-checklinkname=0 (done by ./check; overlay = Prepare() half generated from live source + time.Now -> utils/verifclock.Now in every non-test file: per-node skewed wall clock + every range over a map in the packages package app is built from -> loop over keys arranged by utils/verifmap.Arrange: per-node dictated map iteration order, native order when no policy is installed)",
   "baseline_off_cmd": BASELINE,
   "source_commits": ["0a453f7", "f5939a8", "59b8f5a", "4f33f17"],
   "add_only": True,
 },
 "engines": [
   {"name": "olsim", "path": "sim/cmd/olsim", "serves_properties": [c["property_id"] for c in checks],
    "kind_free_text": "deterministic whole-node simulator: real app.App + real Tendermint BlockExecutor/Handshaker per replica, seeded consensus driver, ABCI interposer (CheckTx interleaving, crash points), crash = byte copy of the open goleveldb dir, concrete replayable traces, ddmin minimiser"},
 ],
 "checks": checks,
 "not_applicable": na,
 "notes": "All checks: exit 0 held / 1 VIOLATION / 2 harness trouble. VERIF_SEED, VERIF_RUNS, VERIF_WORKERS honoured. Known findings: known_findings.json.",
}
json.dump(m, open(os.path.join(HERE, 'MANIFEST.json'), 'w'), indent=1)
print("MANIFEST.json written:", len(checks), "checks,", len(na), "not claimed")

#!/usr/bin/env python3
"""tools/record_detection.py <log>...  reads lines 'seeded=<id> check=<Cxx> exit=<n> violations=<n> :: <first violation>' written by
tools/run_seeded.sh and records per seeded change which checks reported it (detected_by) or stayed silent (silent)."""
import json,re,sys,os
pat=re.compile(r'^seeded=(\S+) check=(\S+) exit=(\d+) violations=(\d+) :: ?(.*)$')
for log in sys.argv[1:]:
    for l in open(log,errors='replace'):
        m=pat.match(l.strip())
        if not m: continue
        sid,chk,ex,nv,first=m.groups()
        p=f'/verif/seeded/{sid}/meta.json'
        if not os.path.exists(p): continue
        meta=json.load(open(p))
        det=set(meta.get('detected_by') or []); sil=set(meta.get('silent') or [])
        if int(nv)>0:
            det.add(chk); sil.discard(chk)
            d=meta.get('detection_by_check') or {}
            mm=re.search(r'violation: (\S+ \[[^\]]*\])',first)
            d[chk]=mm.group(1)[:160] if mm else first[:160]
            meta['detection_by_check']=d
        elif chk not in det:
            sil.add(chk)
        meta['detected_by']=sorted(det); meta['silent']=sorted(sil)
        meta['ran']=meta.get('ran') or 'git -C /repo apply /verif/seeded/<id>/patch.diff; ./check <check> quick; git -C /repo checkout -- .   [tools/run_seeded.sh <id> <check>; for bulk runs the same against a scratch worktree and a copy of /verif]'
        json.dump(meta,open(p,'w'),indent=1)

package core

import (
	"encoding/base64"
	"fmt"
	"github.com/Oneledger/protocol/utils/verifclock"
	"github.com/Oneledger/protocol/utils/verifmap"
	"io"
	"io/ioutil"
	"os"
	"path/filepath"
	"strings"
	"time"

	abci "github.com/tendermint/tendermint/abci/types"
	tmcons "github.com/tendermint/tendermint/consensus"
	tmlog "github.com/tendermint/tendermint/libs/log"
	"github.com/tendermint/tendermint/mock"
	"github.com/tendermint/tendermint/p2p"
	"github.com/tendermint/tendermint/privval"
	"github.com/tendermint/tendermint/proxy"
	tmrpccore "github.com/tendermint/tendermint/rpc/core"
	sm "github.com/tendermint/tendermint/state"
	"github.com/tendermint/tendermint/state/txindex"
	"github.com/tendermint/tendermint/state/txindex/kv"
	"github.com/tendermint/tendermint/store"
	tmtypes "github.com/tendermint/tendermint/types"
	dbm "github.com/tendermint/tm-db"

	"github.com/Oneledger/protocol/app"
	"github.com/Oneledger/protocol/app/node"
	"github.com/Oneledger/protocol/config"
	"github.com/Oneledger/protocol/identity"
)

// ReplicaSpec is the per-node configuration (drawn from the PRNG by profiles).
type ReplicaSpec struct {
	Index            int
	Keys             *ValidatorKeys // node identity
	Rotation         config.ChainStateRotationCfg
	WitnessInitEarly bool // run witnesses.Init before InitChain (legal outcome of the Prepare() race)
	Quiet            bool // never receives CheckTx traffic (reference replica)
}

// Disk is what survives a crash of a replica.
type Disk struct {
	Base    string // /dev/shm/olsim/<pid>/<run>/r<i>
	Gen     int    // incarnation counter; app root = Base/g<Gen>
	StateDB dbm.DB
	BlockDB dbm.DB
	IndexDB dbm.DB
}

func (d *Disk) Root() string { return filepath.Join(d.Base, fmt.Sprintf("g%d", d.Gen)) }

// SimCrash is the sentinel thrown by the scheduler to kill a replica at an ABCI boundary.
type SimCrash struct{ Replica int }

// Replica is one simulated full node.
type Replica struct {
	Spec  ReplicaSpec
	World *World
	Disk  *Disk
	C     *Cluster

	Up         bool
	App        *app.App
	Witness    bool // value computed by the real witnesses.Init at (re)start
	State      sm.State
	BlockStore *store.BlockStore
	Indexer    txindex.TxIndexer
	Indexed    int64
	Proxy      proxy.AppConns
	Exec       *sm.BlockExecutor
	iapp       *interposer

	Tr *Transcript

	// observation of the app-level outcome of the call in flight
	EscapedPanic interface{}
	Dead         string // non-empty once the app closed itself / panicked out (not a simulated crash)
	Stalled      bool   // an ABCI call did not return within core.StallLimit
	Restarts     int
	InHandshake  bool
}

func writeNodeFiles(root string, vk *ValidatorKeys, rot config.ChainStateRotationCfg) (*config.Server, error) {
	cfgDir := filepath.Join(root, "consensus", "config")
	dataDir := filepath.Join(root, "consensus", "data")
	for _, d := range []string{cfgDir, dataDir, filepath.Join(root, "nodedata")} {
		if err := os.MkdirAll(d, 0700); err != nil {
			return nil, err
		}
	}
	nk := &p2p.NodeKey{PrivKey: vk.NodeKey.TmKey}
	nkBytes, err := tmtypes.GetCodec().MarshalJSON(nk)
	if err != nil {
		return nil, err
	}
	if err := ioutil.WriteFile(filepath.Join(cfgDir, "node_key.json"), nkBytes, 0600); err != nil {
		return nil, err
	}
	pv := privval.GenFilePV(filepath.Join(cfgDir, "priv_validator_key.json"), filepath.Join(dataDir, "priv_validator_state.json"))
	pv.Key.PrivKey = vk.ValKey.TmKey
	pv.Key.PubKey = vk.ValKey.TmKey.PubKey()
	pv.Key.Address = pv.Key.PubKey.Address()
	pv.Save()
	ec := base64.StdEncoding.EncodeToString(vk.ECDSA)
	if err := ioutil.WriteFile(filepath.Join(cfgDir, "priv_validator_key_ecdsa.json"), []byte(ec), 0600); err != nil {
		return nil, err
	}
	cfg := config.DefaultServerConfig()
	cfg.Node.NodeName = vk.Name
	cfg.Node.LogLevel = 0
	cfg.Node.DB = "goleveldb"
	cfg.Node.ChainStateRotation = rot
	cfgPath := filepath.Join(root, config.FileName)
	if err := cfg.SaveFile(cfgPath); err != nil {
		return nil, err
	}
	c2 := &config.Server{}
	if err := c2.ReadFile(cfgPath); err != nil {
		return nil, err
	}
	return c2, nil
}

func readNodeConfig(root string) (*config.Server, error) {
	c2 := &config.Server{}
	if err := c2.ReadFile(filepath.Join(root, config.FileName)); err != nil {
		return nil, err
	}
	return c2, nil
}

// NewReplica creates the on-"disk" layout of a node; it is not started yet.
func NewReplica(c *Cluster, spec ReplicaSpec, base string) (*Replica, error) {
	r := &Replica{Spec: spec, World: c.World, C: c, Tr: &Transcript{}}
	r.Disk = &Disk{Base: base, StateDB: dbm.NewMemDB(), BlockDB: dbm.NewMemDB(), IndexDB: dbm.NewMemDB()}
	if _, err := writeNodeFiles(r.Disk.Root(), spec.Keys, spec.Rotation); err != nil {
		return nil, err
	}
	return r, nil
}

// Activate installs this replica's values of the process-wide globals.
func (r *Replica) Activate() {
	tmrpccore.SetTxIndexer(r.Indexer)
	identity.VerifSetETHWitness(r.Witness)
	clockOwner = r.Spec.Index
}

// The wall-clock seam: the application's time.Now() calls are compiled as verifclock.Now() (build overlay,
// cmd/genoverlay). Every simulated node sees the real clock plus its own skew of index x (1 day 1 h 1 min 1 s),
// so that a wall-clock value that leaks into consensus state differs between replicas (and between a replica
// and its shadow twin) in every unit from seconds to days. The reference replica (index 0) has no skew.
var clockOwner int

func init() {
	verifclock.Offset = func() time.Duration { return time.Duration(clockOwner) * 90061 * time.Second }
	verifmap.Policy = mapOrder
}

// The map-order seam: every `range` over a map in the repository's packages is compiled as a loop over the
// map's keys arranged by verifmap.Arrange (build overlay, cmd/genoverlay/maporder.go). With MapOrderDictated
// off every loop keeps the order Go's own randomised iteration produced. With it on (C01, whose subject is exactly
// this source) the node whose call is in flight decides: the reference replica (index 0) visits keys in
// ascending order, replica 1 descending, replica 2 a rotation that depends on the site, replica 3 a fixed
// pseudo-random permutation per (site, size), replica 4 Go's native order, and so on in turns. The order is a
// function of (replica index, site, number of keys) only, so a block re-executed after a restart sees the same
// order and a replay file reproduces the run exactly; a state-writing loop whose result depends on the order
// diverges deterministically instead of "on some runs".
var MapOrderDictated bool

// MapSites counts, per site, the loops that ran over at least two keys in this process (reach measure).
var MapSites = map[string]int{}

func mapOrder(site string, n int) []int {
	MapSites[site]++
	if !MapOrderDictated {
		return nil
	}
	perm := make([]int, n)
	for i := range perm {
		perm[i] = i
	}
	if clockOwner == 0 {
		return perm
	}
	h := uint64(1469598103934665603)
	for i := 0; i < len(site); i++ {
		h = (h ^ uint64(site[i])) * 1099511628211
	}
	switch (clockOwner - 1) % 4 {
	case 0: // descending
		for i := range perm {
			perm[i] = n - 1 - i
		}
	case 1: // rotation by 1..n-1
		r := 1 + int(h%uint64(n-1))
		for i := range perm {
			perm[i] = (i + r) % n
		}
	case 2: // fixed permutation per (site, n, replica)
		x := h ^ uint64(n)*0x9e3779b97f4a7c15 ^ uint64(clockOwner)<<32
		for i := n - 1; i > 0; i-- {
			x ^= x << 13
			x ^= x >> 7
			x ^= x << 17
			j := int(x % uint64(i+1))
			perm[i], perm[j] = perm[j], perm[i]
		}
	default:
		return nil // Go's own order
	}
	return perm
}

// Start boots the node from its disk: real NewApp, generated Prepare half, real Handshaker.
// It returns a *SimCrash error if the scheduler crashed the node during the handshake.
func (r *Replica) Start() (err error) {
	clockOwner = r.Spec.Index
	t0 := time.Now()
	defer func() { Timing["start"] += time.Since(t0) }()
	cfg, err := readNodeConfig(r.Disk.Root())
	if err != nil {
		return fmt.Errorf("read config: %w", err)
	}
	nctx, err := node.NewNodeContext(cfg)
	if err != nil {
		return fmt.Errorf("node context: %w", err)
	}
	a, err := app.NewApp(cfg, nctx)
	if err != nil {
		return fmt.Errorf("NewApp: %w", err)
	}
	r.App = a
	r.Dead = ""
	r.EscapedPanic = nil
	r.BlockStore = store.NewBlockStore(r.Disk.BlockDB)
	r.Indexer = kv.NewTxIndex(r.Disk.IndexDB, kv.IndexAllEvents())
	fresh := a.VerifChainState().Version == 0
	early := r.Spec.WitnessInitEarly || !fresh
	// Prepare(): option reload, genesis doc, witnesses.Init, block store. On a restarted node the
	// witness set is already in the tree so Init's outcome does not depend on the race.
	tmrpccore.SetTxIndexer(r.Indexer)
	if err := a.VerifPrepare(r.World.Gen, r.BlockStore, early); err != nil {
		return fmt.Errorf("VerifPrepare: %w", err)
	}
	if early {
		r.Witness = identity.VerifETHWitness()
	} else {
		r.Witness = false
	}
	r.iapp = &interposer{r: r, inner: a.ABCI()}
	r.Proxy = proxy.NewAppConns(proxy.NewLocalClientCreator(r.iapp))
	if err := r.Proxy.Start(); err != nil {
		return fmt.Errorf("proxy start: %w", err)
	}
	st, err := sm.LoadStateFromDBOrGenesisDoc(r.Disk.StateDB, r.World.TmGen)
	if err != nil {
		return fmt.Errorf("load state: %w", err)
	}
	r.Up = true
	r.InHandshake = true
	crashed := false
	func() {
		defer func() {
			if rec := recover(); rec != nil {
				if sc, ok := rec.(SimCrash); ok && sc.Replica == r.Spec.Index {
					crashed = true
					return
				}
				err = fmt.Errorf("handshake panic: %v", rec)
			}
		}()
		hs := tmcons.NewHandshaker(r.Disk.StateDB, st, r.BlockStore, r.World.TmGen)
		if herr := hs.Handshake(r.Proxy); herr != nil {
			err = fmt.Errorf("handshake: %w", herr)
		}
	}()
	r.InHandshake = false
	if crashed {
		r.crashNow()
		return SimCrash{Replica: r.Spec.Index}
	}
	if err != nil {
		return err
	}
	if !early {
		// the late outcome of the race: Init after InitChain has loaded the genesis witnesses
		r.Witness = a.VerifWitnessInit()
	}
	r.State = sm.LoadState(r.Disk.StateDB)
	r.Exec = sm.NewBlockExecutor(r.Disk.StateDB, tmlog.NewNopLogger(), r.Proxy.Consensus(), mock.Mempool{}, sm.MockEvidencePool{})
	r.feedIndex()
	return nil
}

func (e SimCrash) Error() string { return fmt.Sprintf("simulated crash of replica %d", e.Replica) }

// feedIndex feeds the tx index for every height the Tendermint state has reached (tx-index rule).
func (r *Replica) feedIndex() {
	h := r.State.LastBlockHeight
	for r.Indexed < h {
		r.Indexed++
		blk := r.BlockStore.LoadBlock(r.Indexed)
		if blk == nil {
			continue
		}
		if len(blk.Txs) == 0 {
			continue
		}
		resp, err := sm.LoadABCIResponses(r.Disk.StateDB, r.Indexed)
		if err != nil {
			panic(HarnessError{fmt.Sprintf("feedIndex: no ABCI responses for height %d: %v", r.Indexed, err)})
		}
		b := txindex.NewBatch(int64(len(blk.Txs)))
		for i, tx := range blk.Txs {
			if i >= len(resp.DeliverTxs) || resp.DeliverTxs[i] == nil {
				continue // the application died mid-block (zero responses); C18's business
			}
			_ = b.Add(&tmtypes.TxResult{Height: r.Indexed, Index: uint32(i), Tx: tx, Result: *resp.DeliverTxs[i]})
		}
		if err := r.Indexer.AddBatch(b); err != nil {
			panic(HarnessError{"feedIndex: " + err.Error()})
		}
	}
}

// Timing accumulates wall time per harness phase (diagnostics only).
var Timing = map[string]time.Duration{}

// HarnessError is a panic value meaning "the simulator is broken", never a verdict.
type HarnessError struct{ Msg string }

func (h HarnessError) Error() string { return "harness error: " + h.Msg }

// crashNow implements process death: byte-copy the data directory while the DB is open,
// abandon every in-memory object, point the disk at the copy.
func (r *Replica) crashNow() {
	t0 := time.Now()
	defer func() { Timing["crashNow"] += time.Since(t0) }()
	old := r.Disk.Root()
	r.Disk.Gen++
	if err := CopyTreeConsistent(old, r.Disk.Root()); err != nil {
		panic(HarnessError{"copy data dir: " + err.Error()})
	}
	if r.App != nil {
		r.App.VerifClose()
	}
	if r.Proxy != nil {
		func() { defer func() { recover() }(); r.Proxy.Stop() }()
	}
	os.RemoveAll(old)
	r.App, r.Proxy, r.Exec, r.iapp = nil, nil, nil, nil
	r.Up = false
	r.Restarts++
	r.Tr.Crashes = append(r.Tr.Crashes, r.Tr.lastHeight)
}

// Shutdown releases everything (end of run).
func (r *Replica) Shutdown() {
	if r.App != nil {
		r.App.VerifClose()
	}
	if r.Proxy != nil {
		func() { defer func() { recover() }(); r.Proxy.Stop() }()
	}
	r.App, r.Proxy, r.Exec = nil, nil, nil
	r.Up = false
}

// CopyTreeConsistent makes a point-in-time image of a directory whose database is still open, as a
// killed process leaves behind. The simulation is single-threaded, so the only writer left is
// goleveldb's background compaction: the copy is repeated until the directory listing (names, sizes,
// mtimes) is identical before and after it.
func CopyTreeConsistent(src, dst string) error {
	for try := 0; ; try++ {
		before := listTree(src)
		os.RemoveAll(dst)
		if err := copyTree(src, dst); err != nil {
			return err
		}
		if listTree(src) == before {
			return nil
		}
		if try > 200 {
			return fmt.Errorf("data directory never quiesced while copying")
		}
		time.Sleep(2 * time.Millisecond)
	}
}

func listTree(root string) string {
	var b strings.Builder
	filepath.Walk(root, func(p string, info os.FileInfo, err error) error {
		if err != nil || info.IsDir() {
			return nil
		}
		fmt.Fprintf(&b, "%s|%d|%d\n", p, info.Size(), info.ModTime().UnixNano())
		return nil
	})
	return b.String()
}

func copyTree(src, dst string) error {
	return filepath.Walk(src, func(p string, info os.FileInfo, err error) error {
		if err != nil {
			if os.IsNotExist(err) {
				return nil // goleveldb may delete a table file under us (compaction)
			}
			return err
		}
		rel, _ := filepath.Rel(src, p)
		target := filepath.Join(dst, rel)
		if info.IsDir() {
			return os.MkdirAll(target, 0700)
		}
		if info.Name() == "LOCK" || strings.HasSuffix(info.Name(), ".lock") {
			return nil
		}
		in, err := os.Open(p)
		if err != nil {
			if os.IsNotExist(err) {
				return nil
			}
			return err
		}
		defer in.Close()
		out, err := os.OpenFile(target, os.O_CREATE|os.O_WRONLY|os.O_TRUNC, 0600)
		if err != nil {
			return err
		}
		defer out.Close()
		_, err = io.Copy(out, in)
		return err
	})
}

// ApplyBlock applies one block through the real BlockExecutor. Returns SimCrash if the scheduler
// killed the node inside it.
func (r *Replica) ApplyBlock(blk *tmtypes.Block, id tmtypes.BlockID, seen *tmtypes.Commit, parts *tmtypes.PartSet) (err error) {
	if !r.Up {
		return fmt.Errorf("replica %d is down", r.Spec.Index)
	}
	if r.BlockStore.Height() < blk.Height {
		r.BlockStore.SaveBlock(blk, parts, seen)
	}
	crashed := false
	func() {
		defer func() {
			if rec := recover(); rec != nil {
				if sc, ok := rec.(SimCrash); ok && sc.Replica == r.Spec.Index {
					crashed = true
					return
				}
				if he, ok := rec.(HarnessError); ok {
					panic(he)
				}
				err = fmt.Errorf("ApplyBlock panic: %v", rec)
			}
		}()
		var st sm.State
		st, err = r.Exec.ApplyBlock(r.State, id, blk)
		if err == nil {
			r.State = st
		}
	}()
	if crashed {
		r.crashNow()
		return SimCrash{Replica: r.Spec.Index}
	}
	if err != nil {
		return err
	}
	if r.Dead != "" {
		return fmt.Errorf("application died: %s", r.Dead)
	}
	r.feedIndex()
	return nil
}

// CheckTx runs a mempool check on this replica (through the interposer, so it is recorded).
func (r *Replica) CheckTx(tx []byte) abci.ResponseCheckTx {
	return r.iapp.CheckTx(abci.RequestCheckTx{Tx: tx})
}

// Alive probes whether the app is still serving (handlePanic -> Close() detection).
func (r *Replica) Alive() bool {
	if r.App == nil {
		return false
	}
	return r.App.VerifAlive()
}

// RawBlock drives one block directly over ABCI (raw mode: no Tendermint validation), used for shadow
// twins that must see the same header with a different transaction list. Returns the recorded attempt.
func (r *Replica) RawBlock(cb *ChainBlock, begin abci.RequestBeginBlock, txs [][]byte) *BlockAttempt {
	if r.BlockStore.Height() < cb.Block.Height {
		r.BlockStore.SaveBlock(cb.Block, cb.Parts, cb.Seen)
	}
	r.iapp.BeginBlock(begin)
	att := r.Tr.cur
	var results []*abci.ResponseDeliverTx
	for _, tx := range txs {
		res := r.iapp.DeliverTx(abci.RequestDeliverTx{Tx: tx})
		rc := res
		results = append(results, &rc)
	}
	r.iapp.EndBlock(abci.RequestEndBlock{Height: cb.Block.Height})
	r.iapp.Commit()
	if len(txs) > 0 {
		b := txindex.NewBatch(int64(len(txs)))
		for i, tx := range txs {
			_ = b.Add(&tmtypes.TxResult{Height: cb.Block.Height, Index: uint32(i), Tx: tx, Result: *results[i]})
		}
		_ = r.Indexer.AddBatch(b)
	}
	return att
}

// NewShadow creates and boots (InitChain through the real Handshaker) a replica that is not fed by
// the driver.
func (c *Cluster) NewShadow(spec ReplicaSpec, index int) (*Replica, error) {
	spec.Index = index
	r, err := NewReplica(c, spec, filepath.Join(c.BaseDir, fmt.Sprintf("shadow%d", index)))
	if err != nil {
		return nil, err
	}
	if err := r.Start(); err != nil {
		return nil, err
	}
	c.Shadows = append(c.Shadows, r)
	return r, nil
}

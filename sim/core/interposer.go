package core

import (
	"bytes"
	"encoding/hex"
	"fmt"
	"sort"
	"strings"
	"time"

	abci "github.com/tendermint/tendermint/abci/types"
)

// CallKind names an ABCI call.
type CallKind int

const (
	CInitChain CallKind = iota
	CBeginBlock
	CDeliverTx
	CEndBlock
	CCommit
	CInfo
	CCheckTx
)

func (k CallKind) String() string {
	return [...]string{"InitChain", "BeginBlock", "DeliverTx", "EndBlock", "Commit", "Info", "CheckTx"}[k]
}

// Site is a scheduling point: before or after one consensus-connection call of one replica.
type Site struct {
	Replica   int
	Height    int64 // height of the block being executed (0 for InitChain/Info)
	Call      CallKind
	TxIdx     int  // index of the DeliverTx within the block
	After     bool // false: before the call, true: after it returned
	Handshake bool // the call was issued by the Handshaker (replay after restart)
	Attempt   int  // how many times this replica has started executing this height before (0 = first)
}

func (s Site) String() string {
	ph := "before"
	if s.After {
		ph = "after"
	}
	return fmt.Sprintf("r%d h%d %s %s#%d a%d hs=%v", s.Replica, s.Height, ph, s.Call, s.TxIdx, s.Attempt, s.Handshake)
}

// Scheduler is consulted at every site. It may run CheckTx calls on the replica or crash it by
// panicking with SimCrash{Replica: r.Spec.Index}.
type Scheduler interface {
	At(r *Replica, s Site)
}

// TxRes is the compared part of a DeliverTx response.
type TxRes struct {
	Code      uint32
	Data      []byte
	GasUsed   int64
	GasWanted int64
	Log       string // recorded, never compared
	Events    string // canonical rendering of the result's events; compared only where a property says "results" without restriction (C08)
}

func eventsKey(evs []abci.Event) string {
	var sb strings.Builder
	for _, ev := range evs {
		sb.WriteString(ev.Type)
		sb.WriteByte('{')
		for _, a := range ev.Attributes {
			fmt.Fprintf(&sb, "%q=%q,", a.Key, a.Value)
		}
		sb.WriteByte('}')
	}
	return sb.String()
}

func (t TxRes) Key() string {
	return fmt.Sprintf("%d|%x|%d|%d", t.Code, t.Data, t.GasUsed, t.GasWanted)
}

// BlockAttempt is one (possibly partial) execution of a block by a replica.
type BlockAttempt struct {
	Height      int64
	Begin       *abci.RequestBeginBlock
	Txs         []TxRes
	TxBytes     [][]byte
	EndDone     bool
	BlockEvents string // canonical rendering of the BeginBlock and EndBlock events (compared where events are)
	ValUpdates  string
	Committed   bool
	AppHash     []byte
	Handshake   bool
}

// CheckRec is one recorded CheckTx call.
type CheckRec struct {
	AtHeight int64
	Code     uint32
	GasUsed  int64
	Tx       []byte
}

// InfoRec is one recorded Info response.
type InfoRec struct {
	Height  int64
	AppHash []byte
	// what this replica's own transcript says its last completed commit was when Info was asked
	WantHeight int64
	WantHash   []byte
	Restarts   int
}

// Transcript is everything observed at one replica's ABCI surface.
type Transcript struct {
	InitVals   string
	InitDone   bool
	Attempts   []*BlockAttempt
	Infos      []InfoRec
	Checks     []CheckRec
	Crashes    []int64
	lastHeight int64
	cur        *BlockAttempt
	attemptsAt map[int64]int
}

// Committed returns the last committed attempt for height h (nil if none).
func (t *Transcript) Committed(h int64) *BlockAttempt {
	for i := len(t.Attempts) - 1; i >= 0; i-- {
		if t.Attempts[i].Height == h && t.Attempts[i].Committed {
			return t.Attempts[i]
		}
	}
	return nil
}

// LastCommitted returns the highest committed height in the transcript and its hash.
func (t *Transcript) LastCommitted() (int64, []byte) {
	var h int64
	var hash []byte
	for _, a := range t.Attempts {
		if a.Committed && a.Height >= h {
			h, hash = a.Height, a.AppHash
		}
	}
	return h, hash
}

// ValUpdatesString is the canonical, order-insensitive form of a validator update list.
func ValUpdatesString(vu []abci.ValidatorUpdate) string {
	parts := make([]string, 0, len(vu))
	for _, u := range vu {
		parts = append(parts, fmt.Sprintf("%s:%x=%d", u.PubKey.Type, u.PubKey.Data, u.Power))
	}
	sort.Strings(parts)
	return strings.Join(parts, ",")
}

// ValUpdatesOrdered keeps the order (Tendermint sees the order).
func ValUpdatesOrdered(vu []abci.ValidatorUpdate) string {
	parts := make([]string, 0, len(vu))
	for _, u := range vu {
		parts = append(parts, fmt.Sprintf("%s:%x=%d", u.PubKey.Type, u.PubKey.Data, u.Power))
	}
	return strings.Join(parts, ",")
}

type interposer struct {
	r       *Replica
	inner   abci.Application
	inSched bool
	txIdx   int
}

var _ abci.Application = (*interposer)(nil)

func (ip *interposer) at(call CallKind, height int64, txIdx int, after bool) {
	r := ip.r
	if ip.inSched || r.C == nil || r.C.Sched == nil {
		return
	}
	att := 0
	if r.Tr.attemptsAt != nil {
		att = r.Tr.attemptsAt[height]
		if att > 0 {
			att--
		}
	}
	ip.inSched = true
	defer func() { ip.inSched = false }()
	r.C.Sched.At(r, Site{Replica: r.Spec.Index, Height: height, Call: call, TxIdx: txIdx, After: after, Handshake: r.InHandshake, Attempt: att})
	r.Activate()
}

// guard runs one call into the real application, detecting panics that escape handlePanic and the
// handlePanic -> Close() path.
// StallLimit > 0 (C18 only): every ABCI call runs under a real-time limit several thousand times its normal
// duration; a call that does not return is a halted node. The only place where the simulator reads a real
// clock; a stall verdict is confirmed by a replay in a fresh process before it is reported.
var StallLimit time.Duration

func (ip *interposer) guard(what string, f func()) {
	r := ip.r
	r.Activate()
	defer func() {
		if rec := recover(); rec != nil {
			if _, ok := rec.(SimCrash); ok {
				panic(rec)
			}
			r.EscapedPanic = rec
			if r.Dead == "" {
				r.Dead = fmt.Sprintf("panic escaped from %s: %v", what, rec)
			}
			if r.C != nil && r.C.OnAppDeath != nil {
				r.C.OnAppDeath(r, r.Dead)
			}
		}
	}()
	if StallLimit > 0 {
		if r.Stalled {
			return // an earlier call never returned: the application is not asked again
		}
		done := make(chan interface{}, 1)
		go func() {
			defer func() { done <- recover() }()
			f()
		}()
		tm := time.NewTimer(StallLimit)
		select {
		case rec := <-done:
			tm.Stop()
			if rec != nil {
				panic(rec)
			}
		case <-tm.C:
			// the call is still running (blocked on a lock, looping): the node has halted. Its goroutine is
			// left behind; the run ends here.
			r.Stalled = true
			if r.Dead == "" {
				r.Dead = fmt.Sprintf("call stalled: %s did not return within %v", what, StallLimit)
			}
			if r.C != nil && r.C.OnAppDeath != nil {
				r.C.OnAppDeath(r, r.Dead)
			}
			return
		}
	} else {
		f()
	}
	if r.Dead == "" && !r.App.VerifAlive() {
		r.Dead = "application closed itself during " + what
		if r.C != nil && r.C.OnAppDeath != nil {
			r.C.OnAppDeath(r, r.Dead)
		}
	}
}

func (ip *interposer) Info(req abci.RequestInfo) (res abci.ResponseInfo) {
	ip.guard("Info", func() { res = ip.inner.Info(req) })
	wh, whash := ip.r.Tr.LastCommitted()
	ip.r.Tr.Infos = append(ip.r.Tr.Infos, InfoRec{Height: res.LastBlockHeight, AppHash: append([]byte{}, res.LastBlockAppHash...),
		WantHeight: wh, WantHash: whash, Restarts: ip.r.Restarts})
	return
}

func (ip *interposer) SetOption(req abci.RequestSetOption) abci.ResponseSetOption {
	return ip.inner.SetOption(req)
}

func (ip *interposer) Query(req abci.RequestQuery) (res abci.ResponseQuery) {
	ip.guard("Query", func() { res = ip.inner.Query(req) })
	return
}

func (ip *interposer) CheckTx(req abci.RequestCheckTx) (res abci.ResponseCheckTx) {
	ip.guard("CheckTx", func() { res = ip.inner.CheckTx(req) })
	ip.r.Tr.Checks = append(ip.r.Tr.Checks, CheckRec{AtHeight: ip.r.Tr.lastHeight, Code: res.Code, GasUsed: res.GasUsed, Tx: req.Tx})
	return
}

func (ip *interposer) InitChain(req abci.RequestInitChain) (res abci.ResponseInitChain) {
	// InitChain attempts are numbered like block attempts: a node crashed at InitChain runs it again after its
	// restart, and a replay must be able to tell the attempt that crashed from the one that went through
	if ip.r.Tr.attemptsAt == nil {
		ip.r.Tr.attemptsAt = map[int64]int{}
	}
	ip.r.Tr.attemptsAt[0]++
	ip.at(CInitChain, 0, 0, false)
	ip.guard("InitChain", func() { res = ip.inner.InitChain(req) })
	ip.r.Tr.InitVals = ValUpdatesString(res.Validators)
	ip.r.Tr.InitDone = true
	ip.at(CInitChain, 0, 0, true)
	return
}

func (ip *interposer) BeginBlock(req abci.RequestBeginBlock) (res abci.ResponseBeginBlock) {
	h := req.Header.Height
	t := ip.r.Tr
	if t.attemptsAt == nil {
		t.attemptsAt = map[int64]int{}
	}
	t.attemptsAt[h]++
	ip.txIdx = 0
	ip.at(CBeginBlock, h, 0, false)
	rq := req
	t.cur = &BlockAttempt{Height: h, Begin: &rq, Handshake: ip.r.InHandshake}
	t.Attempts = append(t.Attempts, t.cur)
	t.lastHeight = h
	ip.guard("BeginBlock", func() { res = ip.inner.BeginBlock(req) })
	t.cur.BlockEvents = "begin[" + eventsKey(res.Events) + "]"
	ip.at(CBeginBlock, h, 0, true)
	return
}

func (ip *interposer) DeliverTx(req abci.RequestDeliverTx) (res abci.ResponseDeliverTx) {
	t := ip.r.Tr
	h := t.lastHeight
	idx := ip.txIdx
	ip.at(CDeliverTx, h, idx, false)
	ip.guard("DeliverTx", func() { res = ip.inner.DeliverTx(req) })
	if t.cur != nil {
		t.cur.Txs = append(t.cur.Txs, TxRes{Code: res.Code, Data: append([]byte{}, res.Data...), GasUsed: res.GasUsed, GasWanted: res.GasWanted, Log: res.Log, Events: eventsKey(res.Events)})
		t.cur.TxBytes = append(t.cur.TxBytes, req.Tx)
	}
	ip.txIdx++
	ip.at(CDeliverTx, h, idx, true)
	return
}

func (ip *interposer) EndBlock(req abci.RequestEndBlock) (res abci.ResponseEndBlock) {
	t := ip.r.Tr
	ip.at(CEndBlock, req.Height, 0, false)
	ip.guard("EndBlock", func() { res = ip.inner.EndBlock(req) })
	if t.cur != nil {
		t.cur.EndDone = true
		t.cur.ValUpdates = ValUpdatesOrdered(res.ValidatorUpdates)
		t.cur.BlockEvents += " end[" + eventsKey(res.Events) + "]"
	}
	ip.at(CEndBlock, req.Height, 0, true)
	return
}

func (ip *interposer) Commit() (res abci.ResponseCommit) {
	t := ip.r.Tr
	h := t.lastHeight
	ip.at(CCommit, h, 0, false)
	ip.guard("Commit", func() { res = ip.inner.Commit() })
	if t.cur != nil {
		t.cur.Committed = true
		t.cur.AppHash = append([]byte{}, res.Data...)
	}
	if ip.r.C != nil && ip.r.C.OnCommit != nil {
		ip.r.C.OnCommit(ip.r, h)
	}
	ip.at(CCommit, h, 0, true)
	return
}

// CompareAttempts reports the first difference between an attempt of a replica and the
// reference's committed attempt for the same height (prefix comparison for partial attempts).
func CompareAttempts(ref, got *BlockAttempt) string {
	for i, tr := range got.Txs {
		if i >= len(ref.Txs) {
			return fmt.Sprintf("h%d: extra tx result #%d", got.Height, i)
		}
		if ref.Txs[i].Key() != tr.Key() {
			return fmt.Sprintf("h%d tx#%d: DeliverTx result differs: ref{code=%d data=%s gasUsed=%d gasWanted=%d log=%q} got{code=%d data=%s gasUsed=%d gasWanted=%d log=%q}",
				got.Height, i, ref.Txs[i].Code, hex.EncodeToString(ref.Txs[i].Data), ref.Txs[i].GasUsed, ref.Txs[i].GasWanted, clip(ref.Txs[i].Log),
				tr.Code, hex.EncodeToString(tr.Data), tr.GasUsed, tr.GasWanted, clip(tr.Log))
		}
	}
	if got.EndDone {
		if len(got.Txs) != len(ref.Txs) {
			return fmt.Sprintf("h%d: %d tx results, reference has %d", got.Height, len(got.Txs), len(ref.Txs))
		}
		if ref.ValUpdates != got.ValUpdates {
			return fmt.Sprintf("h%d: validator updates differ: ref[%s] got[%s]", got.Height, ref.ValUpdates, got.ValUpdates)
		}
	}
	if got.Committed {
		if !bytes.Equal(ref.AppHash, got.AppHash) {
			return fmt.Sprintf("h%d: app hash differs: ref=%x got=%x", got.Height, ref.AppHash, got.AppHash)
		}
	}
	return ""
}

// CompareEvents reports the first delivered transaction whose events differ from the reference's.
func CompareEvents(ref, got *BlockAttempt) string {
	for i, tr := range got.Txs {
		if i < len(ref.Txs) && ref.Txs[i].Events != tr.Events {
			return fmt.Sprintf("h%d tx#%d: DeliverTx events differ: ref[%s] got[%s]", got.Height, i, clip(ref.Txs[i].Events), clip(tr.Events))
		}
	}
	if got.EndDone && ref.EndDone && ref.BlockEvents != got.BlockEvents {
		return fmt.Sprintf("h%d: BeginBlock/EndBlock events differ: ref[%s] got[%s]", got.Height, clip(ref.BlockEvents), clip(got.BlockEvents))
	}
	return ""
}

func clip(s string) string {
	if len(s) > 160 {
		return s[:160] + "…"
	}
	return s
}

package core

import (
	"encoding/json"
	"fmt"
	"math/big"
	"time"

	ethcmn "github.com/ethereum/go-ethereum/common"
	tmtypes "github.com/tendermint/tendermint/types"

	btcchain "github.com/Oneledger/protocol/chains/bitcoin"
	ethchain "github.com/Oneledger/protocol/chains/ethereum"
	ethcontract "github.com/Oneledger/protocol/chains/ethereum/contract"
	"github.com/Oneledger/protocol/config"
	"github.com/Oneledger/protocol/consensus"
	"github.com/Oneledger/protocol/data/balance"
	"github.com/Oneledger/protocol/data/chain"
	"github.com/Oneledger/protocol/data/delegation"
	"github.com/Oneledger/protocol/data/evidence"
	"github.com/Oneledger/protocol/data/fees"
	"github.com/Oneledger/protocol/data/governance"
	"github.com/Oneledger/protocol/data/keys"
	"github.com/Oneledger/protocol/data/network_delegation"
	"github.com/Oneledger/protocol/data/ons"
	"github.com/Oneledger/protocol/data/rewards"
)

// Knobs are the per-run tuning values drawn from the run PRNG (swarm configuration).
type Knobs struct {
	NumValidators   int   // genesis validators
	NumWitnesses    int   // how many of the genesis validators are ETH witnesses
	NumUsers        int   // funded user accounts (ed25519; every third one secp256k1)
	NumEthUsers     int   // funded ETHSECP accounts (OLVM)
	NumCandidates   int   // extra validator candidates (keys known to the simulator, funded, not staked)
	TopValidators   int64 // staking option
	MinSelfStake    int64 // staking option (whole OLT)
	MaturityTime    int64 // staking maturity (blocks)
	RewardInterval  int64
	SpeedCycle      int64 // BlockSpeedCalculateCycle
	SecondsPerCycle int64
	YearCloseWindow int64
	YearShares      []string // nue per year
	BurnoutRate     string
	RewardsPoolFund string // nue
	Frankenstein    int64
	MaxGas          int64
	DelegMaturity   int64 // network delegation: blocks until an undelegation / reward withdrawal is paid (0 = 4)
	FundingDeadline int64
	VotingDeadline  int64
	FundingGoal     string
	InitialFunding  string
	PassPercent     int
	MinVotesReq     int64
	BlockVotesDiff  int64
	ReleaseTime     int64
	VotePercent     int64
	AllegPercent    int64
	PenaltyPct      int64
	OnsBase         string
	OnsPerBlock     string
	ValidatorStakes []int64 // optional explicit stakes, len NumValidators
	GenesisMature   int     // number of genesis delegation mature heights (setupState map loops)
	UserFund        string  // nue per user
	BlockSeconds    int64   // nominal block interval
}

// DefaultKnobs is a small, fast, mid-range configuration.
func DefaultKnobs() Knobs {
	return Knobs{
		NumValidators: 4, NumWitnesses: 4, NumUsers: 6, NumEthUsers: 2, NumCandidates: 2,
		TopValidators: 4, MinSelfStake: 500000, MaturityTime: 3,
		RewardInterval: 5, SpeedCycle: 6, SecondsPerCycle: 60, YearCloseWindow: 20,
		YearShares:  []string{"7000000000000000000000", "4000000000000000000000"},
		BurnoutRate: "5000000000000000000", RewardsPoolFund: "100000000000000000000000",
		Frankenstein: 1, MaxGas: -1,
		FundingDeadline: 8, VotingDeadline: 16, FundingGoal: "10000000000", InitialFunding: "1000000000", PassPercent: 51,
		MinVotesReq: 2, BlockVotesDiff: 4, ReleaseTime: 1, VotePercent: 50, AllegPercent: 50, PenaltyPct: 30,
		OnsBase: "1000000000000000000000", OnsPerBlock: "100000000000000",
		UserFund: "100000000000000000000000000", BlockSeconds: 10,
	}
}

// World is everything the run derives from (seed, knobs): keys, accounts, genesis.
type World struct {
	Seed       uint64
	Knobs      Knobs
	ChainID    string
	Validators []*ValidatorKeys // genesis validators
	Candidates []*ValidatorKeys // funded, unstaked candidates
	Users      []*Account
	EthUsers   []*Account
	Probe      *Account // funded account reserved for liveness probes (never used by generators)
	ProbeSink  *Account
	Gen        *config.GenesisDoc
	TmGen      *tmtypes.GenesisDoc
	AppState   *consensus.AppState
	EthOpt     ethchain.ChainDriverOption
	GenTime    time.Time
	byAddr     map[string]*Account
}

// ValidatorKeys is the key material of one (potential) validator node.
type ValidatorKeys struct {
	Name    string
	NodeKey *Account // p2p node key (ed25519); its address is the stake address
	ValKey  *Account // validator consensus key (ed25519)
	ECDSA   []byte   // btcec serialized private key (32 bytes)
	EcPub   keys.PublicKey
	Witness bool
}

func newValidatorKeys(seed uint64, name string) *ValidatorKeys {
	vk := &ValidatorKeys{Name: name}
	vk.NodeKey = NewEdAccount(seed, "node:"+name)
	vk.ValKey = NewEdAccount(seed, "val:"+name)
	vk.ECDSA = secretBytes(seed, "ecdsa:"+name, 32)
	pk, err := keys.GetPrivateKeyFromBytes(vk.ECDSA, keys.BTCECSECP)
	if err != nil {
		panic(err)
	}
	h, _ := pk.GetHandler()
	vk.EcPub = h.PubKey()
	return vk
}

func amt(s string) balance.Amount {
	a, err := balance.NewAmountFromString(s, 10)
	if err != nil {
		panic(fmt.Sprintf("bad amount %q: %v", s, err))
	}
	return *a
}

// Well-known module addresses used in genesis (raw bytes of these strings, as in devnet).
const (
	RewardPoolName = "rewardpool"
	BountyName     = "oneledgerBountyProgram"
	SupplyAddrName = "oneledgerSupplyAddress"
)

// BuildWorld derives the whole world of a run from its seed and knobs.
func BuildWorld(seed uint64, k Knobs) *World {
	w := &World{Seed: seed, Knobs: k}
	w.ChainID = fmt.Sprintf("olsim-%x", seed&0xffffff)
	w.GenTime = time.Unix(1600000000, 0).UTC()

	for i := 0; i < k.NumValidators; i++ {
		vk := newValidatorKeys(seed, fmt.Sprintf("v%d", i))
		vk.Witness = i < k.NumWitnesses
		w.Validators = append(w.Validators, vk)
	}
	for i := 0; i < k.NumCandidates; i++ {
		w.Candidates = append(w.Candidates, newValidatorKeys(seed, fmt.Sprintf("c%d", i)))
	}
	for i := 0; i < k.NumUsers; i++ {
		if i%3 == 2 {
			// every third user holds a secp256k1 key (the other key type the chain accepts for native transactions)
			w.Users = append(w.Users, NewSecpAccount(seed, fmt.Sprintf("u%d", i)))
			continue
		}
		u := NewEdAccount(seed, fmt.Sprintf("u%d", i))
		if i%3 == 1 {
			// every third user signs in the hardware-wallet format (hash tag + signature over the hashed message)
			u.PreHash = []string{"SHA256", "SHA512", "SHA224", "SHA384"}[(i/3)%4]
		}
		w.Users = append(w.Users, u)
	}
	for i := 0; i < k.NumEthUsers; i++ {
		w.EthUsers = append(w.EthUsers, NewEthAccount(seed, fmt.Sprintf("e%d", i)))
	}
	w.Probe = NewEdAccount(seed, "probe")
	w.ProbeSink = NewEdAccount(seed, "probesink")

	olt := balance.Currency{Id: 0, Name: "OLT", Chain: chain.ONELEDGER, Decimal: 18, Unit: "nue"}
	vt := balance.Currency{Id: 1, Name: "VT", Chain: chain.ONELEDGER, Unit: "vt"}
	obtc := balance.Currency{Id: 2, Name: "BTC", Chain: chain.BITCOIN, Decimal: 8, Unit: "satoshi"}
	oeth := balance.Currency{Id: 3, Name: "ETH", Chain: chain.ETHEREUM, Decimal: 18, Unit: "wei"}
	ottc := balance.Currency{Id: 4, Name: "TTC", Chain: chain.TESTTOKEN, Decimal: 18, Unit: "testUnits"}
	currencies := []balance.Currency{olt, vt, obtc, oeth, ottc}

	feeOpt := fees.FeeOption{FeeCurrency: olt, MinFeeDecimal: 9}

	stakingOption := delegation.Options{
		MinSelfDelegationAmount: *balance.NewAmount(k.MinSelfStake),
		MinDelegationAmount:     *balance.NewAmount(1),
		TopValidatorCount:       k.TopValidators,
		MaturityTime:            k.MaturityTime,
	}
	evidenceOption := evidence.Options{
		MinVotesRequired: k.MinVotesReq, BlockVotesDiff: k.BlockVotesDiff,
		PenaltyBasePercentage: k.PenaltyPct, PenaltyBaseDecimals: 100,
		PenaltyBountyPercentage: 50, PenaltyBountyDecimals: 100,
		PenaltyBurnPercentage: 50, PenaltyBurnDecimals: 100,
		ValidatorReleaseTime: k.ReleaseTime, ValidatorVotePercentage: k.VotePercent, ValidatorVoteDecimals: 100,
		AllegationPercentage: k.AllegPercent, AllegationDecimals: 100,
	}
	onsOp := ons.Options{
		Currency: "OLT", PerBlockFees: amt(k.OnsPerBlock), FirstLevelDomains: []string{"ol"}, BaseDomainPrice: amt(k.OnsBase),
	}
	btccdo := btcchain.ChainDriverOption{ChainType: "testnet3", TotalSupply: "1000000000", TotalSupplyAddr: SupplyAddrName, BlockConfirmation: 6}
	passed := governance.ProposalFundDistribution{Validators: 18, FeePool: 18, Burn: 18, ExecutionCost: 18, BountyPool: 10, ProposerReward: 18}
	failed := governance.ProposalFundDistribution{Validators: 10, FeePool: 10, Burn: 10, ExecutionCost: 20, BountyPool: 50, ProposerReward: 0}
	ig, fg := amt(k.InitialFunding), amt(k.FundingGoal)
	mkOpt := func(cost string) governance.ProposalOption {
		return governance.ProposalOption{
			InitialFunding: &ig, FundingGoal: &fg, FundingDeadline: k.FundingDeadline, VotingDeadline: k.VotingDeadline,
			PassPercentage: k.PassPercent, PassedFundDistribution: passed, FailedFundDistribution: failed, ProposalExecutionCost: cost,
		}
	}
	propOpt := governance.ProposalOptionSet{
		ConfigUpdate: mkOpt("executionCostConfig"), CodeChange: mkOpt("executionCostCodeChange"), General: mkOpt("executionCostGeneral"),
		BountyProgramAddr: BountyName,
	}
	shares := make([]balance.Amount, 0, len(k.YearShares))
	for _, s := range k.YearShares {
		shares = append(shares, amt(s))
	}
	rewzOpt := rewards.Options{
		RewardInterval: k.RewardInterval, RewardPoolAddress: RewardPoolName, RewardCurrency: "OLT",
		EstimatedSecondsPerCycle: k.SecondsPerCycle, BlockSpeedCalculateCycle: k.SpeedCycle, YearCloseWindow: k.YearCloseWindow,
		YearBlockRewardShares: shares, BurnoutRate: amt(k.BurnoutRate),
	}

	// Ethereum chain driver option with the repository's own lock contract ABIs.
	contractAddr := ethcmn.BytesToAddress(secretBytes(seed, "lockcontract", 20))
	ercContractAddr := ethcmn.BytesToAddress(secretBytes(seed, "erclockcontract", 20))
	tokAddr := ethcmn.BytesToAddress(secretBytes(seed, "ttctoken", 20))
	w.EthOpt = ethchain.ChainDriverOption{
		ContractABI:        ethcontract.LockRedeemABI,
		ContractAddress:    contractAddr,
		TokenList:          []ethchain.ERC20Token{{TokName: "TTC", TokAddr: tokAddr, TokAbi: ethcontract.ERC20BasicABI, TokTotalSupply: "2000000000000000000"}},
		ERCContractABI:     ethcontract.LockRedeemERCABI,
		ERCContractAddress: ercContractAddr,
		TotalSupply:        "2000000000000000000000",
		TotalSupplyAddr:    SupplyAddrName,
		BlockConfirmation:  12,
	}

	var balances []consensus.BalanceState
	var staking, witness []consensus.Stake
	fund := amt(k.UserFund)
	addBal := func(a keys.Address, cur string, v balance.Amount) {
		balances = append(balances, consensus.BalanceState{Address: a, Currency: cur, Amount: v})
	}
	var tmVals []tmtypes.GenesisValidator
	for i, vk := range w.Validators {
		stake := k.MinSelfStake * int64(i+1)
		if len(k.ValidatorStakes) == len(w.Validators) {
			stake = k.ValidatorStakes[i]
		}
		st := consensus.Stake{
			ValidatorAddress: vk.ValKey.Addr, StakeAddress: vk.NodeKey.Addr, Pubkey: vk.ValKey.Pub, ECDSAPubKey: vk.EcPub,
			Name: vk.Name, Amount: *balance.NewAmountFromInt(stake),
		}
		staking = append(staking, st)
		if vk.Witness {
			witness = append(witness, st)
		}
		addBal(vk.NodeKey.Addr, "OLT", fund)
		tmVals = append(tmVals, tmtypes.GenesisValidator{Address: vk.ValKey.TmKey.PubKey().Address(), PubKey: vk.ValKey.TmKey.PubKey(), Power: stake, Name: vk.Name})
	}
	for _, vk := range w.Candidates {
		addBal(vk.NodeKey.Addr, "OLT", fund)
	}
	for _, u := range w.Users {
		addBal(u.Addr, "OLT", fund)
	}
	for _, u := range w.EthUsers {
		addBal(u.Addr, "OLT", fund)
	}
	addBal(w.Probe.Addr, "OLT", fund)
	// a second native currency in circulation (VT: zero decimals, registered by every genesis): without holders
	// every "amount in another registered currency" input dies for lack of funds before it reaches the code that
	// should have refused it
	vtFund := amt("100000000000000000000000000") // plenty: amounts meant as OLT base units must be affordable in it
	for _, vk := range w.Validators {
		addBal(vk.NodeKey.Addr, "VT", vtFund)
	}
	for _, vk := range w.Candidates {
		addBal(vk.NodeKey.Addr, "VT", vtFund)
	}
	for _, u := range w.Users {
		addBal(u.Addr, "VT", vtFund)
	}
	addBal(keys.Address(RewardPoolName), "OLT", amt(k.RewardsPoolFund))

	deleg := *delegation.NewDelegationState()
	// optional genesis maturing amounts: several heights so that LoadState's map loop has >1 entry
	for i := 0; i < k.GenesisMature && len(w.Users) > 0; i++ {
		u := w.Users[i%len(w.Users)]
		h := int64(2 + i)
		deleg.MatureAmounts = append(deleg.MatureAmounts, &delegation.MatureData{Address: u.Addr, Amount: *balance.NewAmount(int64(3 + i)), Height: h})
	}

	as := consensus.AppState{
		Currencies: currencies,
		Balances:   balances,
		Staking:    staking,
		Witness:    witness,
		Delegation: deleg,
		Rewards: rewards.RewardMasterState{
			RewardState: rewards.NewRewardState(),
			CumuState:   rewards.NewRewardCumuState(),
		},
		Domains: []consensus.DomainState{},
		Fees:    []consensus.BalanceState{},
		Governance: governance.GovernanceState{
			FeeOption: feeOpt, ETHCDOption: w.EthOpt, BTCCDOption: btccdo, ONSOptions: onsOp, PropOptions: propOpt,
			StakingOptions: stakingOption, DelegOptions: network_delegation.Options{RewardsMaturityTime: delegMaturity(k)},
			EvidenceOptions: evidenceOption, RewardOptions: rewzOpt,
		},
	}
	w.AppState = &as
	raw, err := as.RawJSON()
	if err != nil {
		panic(err)
	}
	cp := tmtypes.DefaultConsensusParams()
	cp.Block.MaxGas = k.MaxGas
	w.Gen = &config.GenesisDoc{
		GenesisTime: w.GenTime, ChainID: w.ChainID, ConsensusParams: cp, Validators: tmVals,
		AppState: json.RawMessage(raw), ForkParams: &config.ForkParams{FrankensteinBlock: k.Frankenstein},
	}
	if err := w.Gen.ValidateAndComplete(); err != nil {
		panic(err)
	}
	w.TmGen = &tmtypes.GenesisDoc{
		GenesisTime: w.GenTime, ChainID: w.ChainID, ConsensusParams: cp, Validators: tmVals, AppState: json.RawMessage(raw),
	}
	if err := w.TmGen.ValidateAndComplete(); err != nil {
		panic(err)
	}
	return w
}

// AllValidatorKeys returns genesis validators followed by candidates.
func (w *World) AllValidatorKeys() []*ValidatorKeys {
	return append(append([]*ValidatorKeys{}, w.Validators...), w.Candidates...)
}

// BigNue converts a whole-OLT count to nue.
func BigNue(olt int64) *big.Int {
	x := big.NewInt(olt)
	return x.Mul(x, new(big.Int).Exp(big.NewInt(10), big.NewInt(18), nil))
}

// Lookup finds the simulated account (any key the run knows) with the given address.
func (w *World) Lookup(addr keys.Address) *Account {
	if w.byAddr == nil {
		w.byAddr = map[string]*Account{}
		for _, u := range w.Users {
			w.byAddr[string(u.Addr)] = u
		}
		for _, u := range w.EthUsers {
			w.byAddr[string(u.Addr)] = u
		}
		for _, vk := range w.AllValidatorKeys() {
			w.byAddr[string(vk.NodeKey.Addr)] = vk.NodeKey
			w.byAddr[string(vk.ValKey.Addr)] = vk.ValKey
		}
	}
	return w.byAddr[string(addr)]
}

// Register makes an extra account known to Lookup.
func (w *World) Register(a *Account) {
	w.Lookup(nil)
	w.byAddr[string(a.Addr)] = a
}

func delegMaturity(k Knobs) int64 {
	if k.DelegMaturity > 0 {
		return k.DelegMaturity
	}
	return 4
}

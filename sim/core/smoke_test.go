package core

import (
	"testing"
	"time"
)

func TestSmoke(t *testing.T) {
	w := BuildWorld(42, DefaultKnobs())
	c := NewCluster(w, nil)
	defer c.Close()
	for i := 0; i < 3; i++ {
		if _, err := c.AddReplica(ReplicaSpec{Keys: w.Validators[i], WitnessInitEarly: i == 1}); err != nil {
			t.Fatal(err)
		}
	}
	t0 := time.Now()
	for h := 0; h < 20; h++ {
		if _, err := c.NextBlock(BlockPlan{Dt: 5 * time.Second}); err != nil {
			t.Fatal(err)
		}
	}
	t.Logf("20 blocks x3 in %v", time.Since(t0))
	for _, r := range c.Replicas {
		h, hash := r.Tr.LastCommitted()
		t.Logf("r%d h=%d hash=%x witness=%v dead=%q", r.Spec.Index, h, hash, r.Witness, r.Dead)
	}
}

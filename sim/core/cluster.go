package core

import (
	"fmt"
	"os"
	"path/filepath"
	"sort"
	"time"

	"github.com/tendermint/tendermint/crypto"
	tmed "github.com/tendermint/tendermint/crypto/ed25519"
	sm "github.com/tendermint/tendermint/state"
	tmtypes "github.com/tendermint/tendermint/types"
)

// Cluster is the set of replicas plus the consensus driver (simulated Tendermint).
type Cluster struct {
	World    *World
	Replicas []*Replica
	Shadows  []*Replica // raw-mode twins, not fed by the driver
	Sched    Scheduler
	BaseDir  string

	// OnAppDeath is called when a replica's application panicked out or closed itself.
	OnAppDeath func(r *Replica, why string)
	// OnCommit is called right after a replica's Commit returned.
	OnCommit func(r *Replica, height int64)

	// canonical chain
	Blocks   []*ChainBlock                  // index = height-1
	SimTime  time.Time                      // global simulated clock
	ValPrivs map[string]tmed.PrivKeyEd25519 // tendermint address (hex) -> key, for every validator key the run knows
	Skew     map[string]time.Duration       // per-validator clock skew
}

// ChainBlock is one canonical block with what is needed to feed it to any replica.
type ChainBlock struct {
	Block *tmtypes.Block
	ID    tmtypes.BlockID
	Parts *tmtypes.PartSet
	Seen  *tmtypes.Commit // commit FOR this block (signed after it was applied on the reference)
}

var runCounter int

// NewCluster creates the cluster directory and registers the validator keys.
func NewCluster(w *World, sched Scheduler) *Cluster {
	runCounter++
	base := filepath.Join(shmRoot(), fmt.Sprintf("%d", os.Getpid()), fmt.Sprintf("run%d", runCounter))
	// a killed process with the same pid may have left its directory behind
	os.RemoveAll(base)
	c := &Cluster{World: w, Sched: sched, BaseDir: base, SimTime: w.GenTime, ValPrivs: map[string]tmed.PrivKeyEd25519{}, Skew: map[string]time.Duration{}}
	for _, vk := range w.AllValidatorKeys() {
		c.RegisterValidatorKey(vk.ValKey.TmKey)
	}
	return c
}

func shmRoot() string {
	if d := os.Getenv("OLSIM_TMP"); d != "" {
		return d
	}
	return "/dev/shm/olsim"
}

// RegisterValidatorKey lets the driver sign commits for a validator created during the run.
func (c *Cluster) RegisterValidatorKey(k tmed.PrivKeyEd25519) {
	c.ValPrivs[fmt.Sprintf("%X", k.PubKey().Address())] = k
}

// AddReplica creates and starts a replica; a late joiner is synced from the canonical chain.
func (c *Cluster) AddReplica(spec ReplicaSpec) (*Replica, error) {
	spec.Index = len(c.Replicas)
	r, err := NewReplica(c, spec, filepath.Join(c.BaseDir, fmt.Sprintf("r%d", spec.Index)))
	if err != nil {
		return nil, err
	}
	c.Replicas = append(c.Replicas, r)
	if err := c.StartReplica(r); err != nil {
		return r, err
	}
	return r, nil
}

// StartReplica (re)starts a replica, retrying when the scheduler crashes it during the handshake,
// then feeds it the blocks it missed.
func (c *Cluster) StartReplica(r *Replica) error {
	for tries := 0; ; tries++ {
		err := r.Start()
		if err == nil {
			break
		}
		if _, ok := err.(SimCrash); ok {
			if tries > 50 {
				return HarnessError{"replica keeps crashing in handshake (scheduler bug)"}
			}
			continue
		}
		return err
	}
	return c.CatchUp(r)
}

// CatchUp feeds a live replica the canonical blocks above its Tendermint state height.
func (c *Cluster) CatchUp(r *Replica) error {
	for r.Up && r.State.LastBlockHeight < int64(len(c.Blocks)) {
		cb := c.Blocks[r.State.LastBlockHeight]
		if cb.Seen == nil {
			// the tip has not been signed yet (reference is executing it): feed it only up to here
			return nil
		}
		err := r.ApplyBlock(cb.Block, cb.ID, cb.Seen, cb.Parts)
		if err != nil {
			if _, ok := err.(SimCrash); ok {
				return err
			}
			return err
		}
	}
	return nil
}

// Ref is the reference replica (index 0).
func (c *Cluster) Ref() *Replica { return c.Replicas[0] }

// Height is the canonical chain height.
func (c *Cluster) Height() int64 { return int64(len(c.Blocks)) }

// BlockPlan is the intent for the next block (all choices made by the caller's PRNG).
type BlockPlan struct {
	Txs      [][]byte
	Dt       time.Duration            // advance of the global simulated clock before the commit for the previous block is "signed"
	Absent   map[string]bool          // tendermint addresses (hex) whose precommit for the previous block is missing
	Skew     map[string]time.Duration // optional per-validator clock skew overrides
	Evidence []tmtypes.Evidence
}

// signCommit builds the commit for block cb with the validator set that was in charge of it.
func (c *Cluster) signCommit(cb *ChainBlock, vals *tmtypes.ValidatorSet, absent map[string]bool, minTime time.Time) (*tmtypes.Commit, error) {
	sigs := make([]tmtypes.CommitSig, len(vals.Validators))
	var present, total int64
	for _, v := range vals.Validators {
		total += v.VotingPower
	}
	// never let absences break +2/3: drop absences (lowest address first) until the commit verifies
	abs := map[string]bool{}
	for k, v := range absent {
		if v {
			abs[k] = true
		}
	}
	for {
		present = 0
		for _, v := range vals.Validators {
			if !abs[fmt.Sprintf("%X", v.Address)] {
				present += v.VotingPower
			}
		}
		if present*3 > total*2 || len(abs) == 0 {
			break
		}
		ks := make([]string, 0, len(abs))
		for k := range abs {
			ks = append(ks, k)
		}
		sort.Strings(ks)
		delete(abs, ks[0])
	}
	for i, v := range vals.Validators {
		addr := fmt.Sprintf("%X", v.Address)
		if abs[addr] {
			sigs[i] = tmtypes.NewCommitSigAbsent()
			continue
		}
		priv, ok := c.ValPrivs[addr]
		if !ok {
			return nil, HarnessError{"no private key for active validator " + addr}
		}
		ts := c.SimTime.Add(c.Skew[addr])
		if !ts.After(minTime) {
			ts = minTime.Add(time.Millisecond)
		}
		vote := &tmtypes.Vote{
			Type: tmtypes.PrecommitType, Height: cb.Block.Height, Round: 0, BlockID: cb.ID, Timestamp: ts,
			ValidatorAddress: v.Address, ValidatorIndex: i,
		}
		sig, err := priv.Sign(vote.SignBytes(c.World.ChainID))
		if err != nil {
			return nil, err
		}
		vote.Signature = sig
		sigs[i] = vote.CommitSig()
	}
	return tmtypes.NewCommit(cb.Block.Height, 0, cb.ID, sigs), nil
}

// NextBlock builds block H = Height()+1 from the plan, applies it to the reference replica first
// and then to every other live replica. It returns the first hard error (not SimCrash).
func (c *Cluster) NextBlock(p BlockPlan) (*ChainBlock, error) {
	ref := c.Ref()
	if !ref.Up {
		return nil, HarnessError{"reference replica is down"}
	}
	st := ref.State
	h := st.LastBlockHeight + 1
	if h != c.Height()+1 {
		return nil, HarnessError{fmt.Sprintf("reference state height %d does not match chain height %d", st.LastBlockHeight, c.Height())}
	}
	if p.Dt <= 0 {
		p.Dt = time.Second
	}
	c.SimTime = c.SimTime.Add(p.Dt)
	for k, v := range p.Skew {
		c.Skew[k] = v
	}
	var lastCommit *tmtypes.Commit
	if h == 1 {
		lastCommit = tmtypes.NewCommit(0, 0, tmtypes.BlockID{}, nil)
	} else {
		prev := c.Blocks[h-2]
		cm, err := c.signCommit(prev, st.LastValidators, p.Absent, prev.Block.Time)
		if err != nil {
			return nil, err
		}
		prev.Seen = cm
		lastCommit = cm
	}
	txs := make([]tmtypes.Tx, len(p.Txs))
	for i, t := range p.Txs {
		txs[i] = tmtypes.Tx(t)
	}
	proposer := st.Validators.GetProposer()
	blk, parts := st.MakeBlock(h, txs, lastCommit, p.Evidence, proposer.Address)
	cb := &ChainBlock{Block: blk, ID: tmtypes.BlockID{Hash: blk.Hash(), PartsHeader: parts.Header()}, Parts: parts}
	c.Blocks = append(c.Blocks, cb)

	// reference first: a provisional seen-commit (all present) is stored with the block, as a real
	// node stores the commit it saw; the canonical commit for H is fixed when H+1 is built.
	seen, err := c.signCommit(cb, st.Validators, nil, blk.Time)
	if err != nil {
		return nil, err
	}
	// previous block is now fully signed: lagging replicas may catch up to it before H
	for _, r := range c.Replicas[1:] {
		if r.Up && r.State.LastBlockHeight < h-1 {
			if err := c.CatchUp(r); err != nil {
				if _, ok := err.(SimCrash); !ok {
					return cb, fmt.Errorf("replica %d catch-up: %w", r.Spec.Index, err)
				}
			}
		}
	}
	if err := ref.ApplyBlock(blk, cb.ID, seen, parts); err != nil {
		return cb, fmt.Errorf("reference replica: %w", err)
	}
	cb.Seen = seen
	for _, r := range c.Replicas[1:] {
		if !r.Up || r.State.LastBlockHeight != h-1 {
			continue
		}
		if err := r.ApplyBlock(blk, cb.ID, seen, parts); err != nil {
			if _, ok := err.(SimCrash); ok {
				continue
			}
			return cb, fmt.Errorf("replica %d: %w", r.Spec.Index, err)
		}
	}
	return cb, nil
}

// Close shuts every replica down and removes the run directory.
func (c *Cluster) Close() {
	for _, r := range c.Replicas {
		r.Shutdown()
	}
	for _, r := range c.Shadows {
		r.Shutdown()
	}
	os.RemoveAll(c.BaseDir)
	os.Remove(filepath.Dir(c.BaseDir)) // the per-process directory, if this was its last run
}

// ProposerAddress returns the tendermint address (hex) of the proposer of the next block.
func (c *Cluster) ProposerAddress() string {
	return fmt.Sprintf("%X", c.Ref().State.Validators.GetProposer().Address)
}

var _ = crypto.AddressSize

// MakeDuplicateVoteEvidence builds real evidence: two conflicting precommits for `height` signed with the
// validator's key. Returns nil if the simulator does not hold the key or the validator was not in the
// set at that height (the real VerifyEvidence would reject the block).
func (c *Cluster) MakeDuplicateVoteEvidence(valAddrHex string, height int64) tmtypes.Evidence {
	priv, ok := c.ValPrivs[valAddrHex]
	if !ok || height < 1 || height > c.Height() {
		return nil
	}
	ref := c.Ref()
	vals, err := sm.LoadValidators(ref.Disk.StateDB, height)
	if err != nil {
		return nil
	}
	idx, val := vals.GetByAddress(priv.PubKey().Address())
	if val == nil {
		return nil
	}
	mk := func(tag byte) *tmtypes.Vote {
		hash := make([]byte, 32)
		for i := range hash {
			hash[i] = tag ^ byte(i) ^ byte(height)
		}
		v := &tmtypes.Vote{
			Type: tmtypes.PrecommitType, Height: height, Round: 0,
			BlockID:          tmtypes.BlockID{Hash: hash, PartsHeader: tmtypes.PartSetHeader{Total: 1, Hash: hash}},
			Timestamp:        c.Blocks[height-1].Block.Time.Add(time.Second),
			ValidatorAddress: val.Address, ValidatorIndex: idx,
		}
		sig, err := priv.Sign(v.SignBytes(c.World.ChainID))
		if err != nil {
			return nil
		}
		v.Signature = sig
		return v
	}
	a, b := mk(0x11), mk(0xee)
	if a == nil || b == nil {
		return nil
	}
	return tmtypes.NewDuplicateVoteEvidence(priv.PubKey(), a, b)
}

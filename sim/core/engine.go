package core

import (
	"encoding/hex"
	"encoding/json"
	"fmt"
	"math/rand"
	"os"
	"sort"
	"time"

	"github.com/Oneledger/protocol/config"
)

// ---- concrete, replayable trace --------------------------------------------------------------

// SiteKey identifies a scheduling point relative to the step in which it fires.
type SiteKey struct {
	R  int    `json:"r"`
	DH int64  `json:"dh"` // site height minus the step's block height (0 = the block being produced)
	C  string `json:"c"`  // call name
	T  int    `json:"t"`  // tx index
	A  bool   `json:"a"`  // after the call
	HS bool   `json:"hs"` // issued by the handshaker
	N  int    `json:"n"`  // attempt number of that height on that replica
}

// SiteAct is what the scheduler does at a site: run CheckTx calls, then maybe crash the replica.
type SiteAct struct {
	Key    SiteKey  `json:"at"`
	Checks []string `json:"checks,omitempty"` // hex tx bytes
	Crash  bool     `json:"crash,omitempty"`
}

// Step is one driver step.
type Step struct {
	Kind     string         `json:"kind"` // "block" | "restart" | "checks" | "join" | "bounce" | "op"
	Txs      []string       `json:"txs,omitempty"`
	Labels   []string       `json:"labels,omitempty"` // generator intent label per tx (parallel to Txs)
	DtMs     int64          `json:"dt_ms,omitempty"`
	Absent   []string       `json:"absent,omitempty"`
	Evidence []EvidenceSpec `json:"evidence,omitempty"` // duplicate-vote evidence to include in the block
	Replica  int            `json:"replica,omitempty"`
	Acts     []SiteAct      `json:"acts,omitempty"`
	Note     string         `json:"note,omitempty"`
	Join     *ReplicaConf   `json:"join,omitempty"` // kind "join": a new replica that syncs from genesis (late joiner)
}

// EvidenceSpec asks the driver for a real DuplicateVoteEvidence signed with a validator's key.
type EvidenceSpec struct {
	Validator string `json:"validator"` // tendermint address, upper-case hex
	Height    int64  `json:"height"`    // height at which the validator double-signed (must be in the set then)
}

// ReplicaConf is the JSON form of a ReplicaSpec.
type ReplicaConf struct {
	Identity         string `json:"identity"` // "v<i>" genesis validator, "c<i>" candidate, "x<i>" unrelated node
	Recent           int64  `json:"recent"`
	Every            int64  `json:"every"`
	Cycles           int64  `json:"cycles"`
	WitnessInitEarly bool   `json:"witness_init_early"`
	Quiet            bool   `json:"quiet"`
}

// Trace is the replay file.
type Trace struct {
	Property string          `json:"property"`
	Profile  string          `json:"profile"`
	Seed     uint64          `json:"seed"`
	Knobs    Knobs           `json:"knobs"`
	Replicas []ReplicaConf   `json:"replicas"`
	Steps    []*Step         `json:"steps"`
	Extra    json.RawMessage `json:"extra,omitempty"` // property-specific parameters
	// filled in when a violation is reported
	Violation *Violation `json:"violation,omitempty"`
}

// Violation is one oracle failure.
type Violation struct {
	Property string `json:"property"`
	Oracle   string `json:"oracle"`
	Sig      string `json:"signature"` // narrow class used for known-findings matching and minimisation
	Msg      string `json:"message"`
	Step     int    `json:"step"`
}

func (v Violation) String() string {
	return fmt.Sprintf("%s/%s [%s] step %d: %s", v.Property, v.Oracle, v.Sig, v.Step, v.Msg)
}

// ---- engine ---------------------------------------------------------------------------------------

// SitePolicy decides, in generation mode, what happens at a site.
type SitePolicy interface {
	Decide(e *Engine, r *Replica, s Site) (checks [][]byte, crash bool)
}

// Stats are the reach counters of one run.
type Stats struct {
	Faults    map[string]int `json:"faults"`
	Probes    map[string]int `json:"probes"`
	Txs       map[string]int `json:"txs"` // "<KIND>:ok" / "<KIND>:fail"
	Blocks    int            `json:"blocks"`
	SimMillis int64          `json:"sim_ms"`
	Events    []string       `json:"-"` // fingerprint material
}

func NewStats() *Stats {
	return &Stats{Faults: map[string]int{}, Probes: map[string]int{}, Txs: map[string]int{}}
}

// Engine runs a trace (recording it in generation mode) against a cluster.
type Engine struct {
	W      *World
	C      *Cluster
	Trace  *Trace
	Replay bool
	Policy SitePolicy
	Rng    *rand.Rand // generation mode only
	Stats  *Stats

	cur       *Step
	curHeight int64
	StepIdx   int
	actIndex  map[SiteKey]*SiteAct
	Deaths    []string // app deaths observed (replica, why)
}

// IdentityKeys resolves a ReplicaConf identity.
func (w *World) IdentityKeys(id string) *ValidatorKeys {
	var n int
	if _, err := fmt.Sscanf(id[1:], "%d", &n); err != nil {
		panic(HarnessError{"bad identity " + id})
	}
	switch id[0] {
	case 'v':
		return w.Validators[n%len(w.Validators)]
	case 'c':
		if len(w.Candidates) > 0 {
			return w.Candidates[n%len(w.Candidates)]
		}
	}
	return newValidatorKeys(w.Seed, "x"+id[1:])
}

// NewEngine builds world, cluster and replicas from the trace header.
func NewEngine(tr *Trace, replay bool, policy SitePolicy, rng *rand.Rand) (*Engine, error) {
	MapSites = map[string]int{}
	w := BuildWorld(tr.Seed, tr.Knobs)
	e := &Engine{W: w, Trace: tr, Replay: replay, Policy: policy, Rng: rng, Stats: NewStats()}
	e.C = NewCluster(w, e)
	e.C.OnAppDeath = func(r *Replica, why string) {
		e.Deaths = append(e.Deaths, fmt.Sprintf("r%d: %s", r.Spec.Index, why))
	}
	// InitChain sites fire during AddReplica: give them a step to live in
	boot := &Step{Kind: "boot"}
	if replay {
		if len(tr.Steps) == 0 || tr.Steps[0].Kind != "boot" {
			return nil, HarnessError{"trace has no boot step"}
		}
		boot = tr.Steps[0]
	} else {
		tr.Steps = append(tr.Steps, boot)
	}
	e.begin(boot, 0)
	for _, rc := range tr.Replicas {
		spec := ReplicaSpec{
			Keys: w.IdentityKeys(rc.Identity), WitnessInitEarly: rc.WitnessInitEarly, Quiet: rc.Quiet,
			Rotation: config.ChainStateRotationCfg{Recent: rc.Recent, Every: rc.Every, Cycles: rc.Cycles},
		}
		if _, err := e.C.AddReplica(spec); err != nil {
			e.C.Close()
			return nil, fmt.Errorf("add replica %s: %w", rc.Identity, err)
		}
	}
	e.StepIdx = 1
	return e, nil
}

func (e *Engine) begin(st *Step, height int64) {
	e.cur = st
	e.curHeight = height
	e.actIndex = nil
	if e.Replay {
		e.actIndex = map[SiteKey]*SiteAct{}
		for i := range st.Acts {
			e.actIndex[st.Acts[i].Key] = &st.Acts[i]
		}
	}
}

func (e *Engine) key(s Site) SiteKey {
	return SiteKey{R: s.Replica, DH: s.Height - e.curHeight, C: s.Call.String(), T: s.TxIdx, A: s.After, HS: s.Handshake, N: s.Attempt}
}

// At implements Scheduler.
func (e *Engine) At(r *Replica, s Site) {
	if e.cur == nil {
		return
	}
	var checks [][]byte
	crash := false
	k := e.key(s)
	if e.Replay {
		a := e.actIndex[k]
		if a == nil {
			return
		}
		for _, h := range a.Checks {
			b, err := hex.DecodeString(h)
			if err != nil {
				panic(HarnessError{"bad hex in trace"})
			}
			checks = append(checks, b)
		}
		crash = a.Crash
	} else {
		if e.Policy == nil {
			return
		}
		checks, crash = e.Policy.Decide(e, r, s)
		if len(checks) == 0 && !crash {
			return
		}
		act := SiteAct{Key: k, Crash: crash}
		for _, c := range checks {
			act.Checks = append(act.Checks, hex.EncodeToString(c))
		}
		e.cur.Acts = append(e.cur.Acts, act)
	}
	for _, c := range checks {
		r.CheckTx(c)
		e.Stats.Faults["checktx_interleave"]++
		e.Stats.Faults["checktx@"+siteClass(s)]++
	}
	if crash {
		e.Stats.Faults["crash"]++
		e.Stats.Faults["crash@"+siteClass(s)]++
		e.Stats.Events = append(e.Stats.Events, "crash@"+siteClass(s))
		panic(SimCrash{Replica: r.Spec.Index})
	}
}

func siteClass(s Site) string {
	ph := "before"
	if s.After {
		ph = "after"
	}
	c := ph + s.Call.String()
	if s.Handshake {
		c += "/replay"
	}
	return c
}

// DoBlock executes (and, in generation mode, records) one block step.
func (e *Engine) DoBlock(st *Step) (*ChainBlock, error) {
	if !e.Replay {
		e.Trace.Steps = append(e.Trace.Steps, st)
		e.streamTrace()
	}
	e.begin(st, e.C.Height()+1)
	defer func() { e.cur = nil }()
	plan := BlockPlan{Dt: time.Duration(st.DtMs) * time.Millisecond, Absent: map[string]bool{}}
	for _, a := range st.Absent {
		plan.Absent[a] = true
	}
	for _, h := range st.Txs {
		b, err := hex.DecodeString(h)
		if err != nil {
			return nil, HarnessError{"bad tx hex in trace"}
		}
		plan.Txs = append(plan.Txs, b)
	}
	if len(st.Absent) > 0 {
		e.Stats.Faults["absent_signers"]++
	}
	for _, es := range st.Evidence {
		if ev := e.C.MakeDuplicateVoteEvidence(es.Validator, es.Height); ev != nil {
			plan.Evidence = append(plan.Evidence, ev)
			e.Stats.Faults["duplicate_vote_evidence"]++
		}
	}
	cb, err := e.C.NextBlock(plan)
	e.Stats.Blocks++
	e.Stats.SimMillis += st.DtMs
	return cb, err
}

// DoRestart restarts a crashed replica (handshake + catch-up) as one step.
func (e *Engine) DoRestart(st *Step) error {
	if !e.Replay {
		e.Trace.Steps = append(e.Trace.Steps, st)
	}
	if st.Replica <= 0 || st.Replica >= len(e.C.Replicas) {
		return nil // the replica was removed by minimisation
	}
	r := e.C.Replicas[st.Replica]
	if r.Up {
		return nil
	}
	e.begin(st, e.C.Height())
	defer func() { e.cur = nil }()
	e.Stats.Faults["restart"]++
	err := e.C.StartReplica(r)
	if _, ok := err.(SimCrash); ok {
		return nil // crashed again during catch-up; a later restart step may revive it
	}
	return err
}

// DoBounce kills a live replica between two blocks - everything of the last block is committed, Tendermint's state
// is saved and the index fed, no call is in flight - and restarts it at once from the byte copy of its open data
// directory through the real NewApp / Prepare half / Handshaker. It is the crash point "after SaveState" followed
// by an immediate restart, and the only fault that may hit the replica the oracles observe (index 0): the restarted
// node has lost every in-memory object (caches, queues, option copies, per-process counters) and nothing else, and
// no block is missed, so observation stays gap-free.
func (e *Engine) DoBounce(st *Step) error {
	if !e.Replay {
		e.Trace.Steps = append(e.Trace.Steps, st)
	}
	if st.Replica < 0 || st.Replica >= len(e.C.Replicas) {
		return nil
	}
	r := e.C.Replicas[st.Replica]
	if !r.Up || e.C.Height() == 0 {
		return nil
	}
	e.begin(st, e.C.Height())
	defer func() { e.cur = nil }()
	e.Stats.Faults["bounce_restart"]++
	r.crashNow()
	err := e.C.StartReplica(r)
	if _, ok := err.(SimCrash); ok {
		return nil // the scheduler crashed it again during the handshake; a later restart step revives it
	}
	return err
}

// DoJoin adds a replica mid-run: it boots from genesis and is fed the whole canonical chain.
func (e *Engine) DoJoin(st *Step) error {
	if !e.Replay {
		e.Trace.Steps = append(e.Trace.Steps, st)
	}
	if st.Join == nil {
		return nil
	}
	e.begin(st, e.C.Height())
	defer func() { e.cur = nil }()
	e.Stats.Faults["late_join"]++
	rc := st.Join
	spec := ReplicaSpec{
		Keys: e.W.IdentityKeys(rc.Identity), WitnessInitEarly: rc.WitnessInitEarly, Quiet: rc.Quiet,
		Rotation: config.ChainStateRotationCfg{Recent: rc.Recent, Every: rc.Every, Cycles: rc.Cycles},
	}
	_, err := e.C.AddReplica(spec)
	if _, ok := err.(SimCrash); ok {
		return nil
	}
	return err
}

// DoChecks runs CheckTx calls between blocks on one replica as a step.
func (e *Engine) DoChecks(st *Step) {
	if !e.Replay {
		e.Trace.Steps = append(e.Trace.Steps, st)
		e.streamTrace()
	}
	if st.Replica < 0 || st.Replica >= len(e.C.Replicas) {
		return
	}
	r := e.C.Replicas[st.Replica]
	if !r.Up {
		return
	}
	for _, h := range st.Txs {
		b, _ := hex.DecodeString(h)
		r.CheckTx(b)
		e.Stats.Faults["checktx_between_blocks"]++
	}
}

// Close releases the cluster.
func (e *Engine) Close() {
	for site, n := range MapSites {
		e.Stats.Probes["map-loop>=2keys "+site] += n
	}
	MapSites = map[string]int{}
	e.C.Close()
}

// Fingerprint hashes the run's event classes (for distinct counting).
func (s *Stats) Fingerprint() string {
	parts := append([]string{}, s.Events...)
	ks := make([]string, 0, len(s.Faults))
	for k, v := range s.Faults {
		ks = append(ks, fmt.Sprintf("%s=%d", k, v))
	}
	sort.Strings(ks)
	parts = append(parts, ks...)
	ts := make([]string, 0, len(s.Txs))
	for k, v := range s.Txs {
		ts = append(ts, fmt.Sprintf("%s=%d", k, v))
	}
	sort.Strings(ts)
	parts = append(parts, ts...)
	h := uint64(1469598103934665603)
	for _, p := range parts {
		for i := 0; i < len(p); i++ {
			h ^= uint64(p[i])
			h *= 1099511628211
		}
		h ^= 0xff
		h *= 1099511628211
	}
	return fmt.Sprintf("%016x", h)
}

// streamTrace writes the trace recorded so far (including the step about to run) to the file named by
// OLSIM_TRACE_STREAM, so that the parent still has the exact prefix when the process is killed by
// os.Exit or an escaped panic (C18).
func (e *Engine) streamTrace() {
	p := os.Getenv("OLSIM_TRACE_STREAM")
	if p == "" {
		return
	}
	b, err := json.Marshal(e.Trace)
	if err != nil {
		return
	}
	tmp := p + ".tmp"
	if os.WriteFile(tmp, b, 0644) == nil {
		os.Rename(tmp, p)
	}
}

package core

import (
	"math/big"
	"sort"

	"github.com/Oneledger/protocol/data/balance"
	"github.com/Oneledger/protocol/data/keys"
	"github.com/Oneledger/protocol/serialize"
	"github.com/Oneledger/protocol/storage"
)

// KV is one committed key/value pair.
type KV struct {
	K string
	V []byte
}

// Dump returns every key/value of the replica's committed tree, ascending by key.
func (r *Replica) Dump() []KV {
	var out []KV
	if r.App == nil {
		return out
	}
	cs := r.App.VerifChainState()
	cs.Iterate(func(k, v []byte) bool {
		out = append(out, KV{K: string(k), V: append([]byte{}, v...)})
		return false
	})
	sort.Slice(out, func(i, j int) bool { return out[i].K < out[j].K })
	return out
}

// DumpMap returns the committed tree as a map.
func (r *Replica) DumpMap() map[string][]byte {
	m := map[string][]byte{}
	if r.App == nil {
		return m
	}
	r.App.VerifChainState().Iterate(func(k, v []byte) bool {
		m[string(k)] = append([]byte{}, v...)
		return false
	})
	return m
}

// ReadState is a fresh read-only State over the replica's committed tree (between blocks the
// working tree equals the last commit).
func (r *Replica) ReadState() *storage.State {
	return storage.NewState(r.App.VerifChainState())
}

// BalanceOf reads a committed balance (nue / smallest unit) straight from the tree.
func (r *Replica) BalanceOf(addr keys.Address, currency string) *big.Int {
	key := storage.StoreKey("b" + storage.DB_PREFIX + addr.String() + storage.DB_PREFIX + currency)
	v, _ := r.App.VerifChainState().Get(key)
	if len(v) == 0 {
		return new(big.Int)
	}
	a := balance.NewAmount(0)
	if err := serialize.GetSerializer(serialize.PERSISTENT).Deserialize(v, a); err != nil {
		return new(big.Int)
	}
	return new(big.Int).Set(a.BigInt())
}

// DiffDumps lists keys whose values differ between two dumps (for diagnosis in reports).
func DiffDumps(a, b map[string][]byte, max int) []string {
	var ks []string
	for k, v := range a {
		if w, ok := b[k]; !ok || string(w) != string(v) {
			ks = append(ks, k)
		}
	}
	for k := range b {
		if _, ok := a[k]; !ok {
			ks = append(ks, k)
		}
	}
	sort.Strings(ks)
	if len(ks) > max {
		ks = ks[:max]
	}
	return ks
}

// Package core is the deterministic simulator for the OneLedger application: simulated
// nodes (real app.App + real Tendermint BlockExecutor/Handshaker), a consensus driver,
// an ABCI interposer with scheduler hooks, crash/restart on a copied data directory.
package core

import (
	"crypto/ecdsa"
	"crypto/sha256"
	"crypto/sha512"
	"encoding/binary"
	"fmt"
	tmsecp "github.com/tendermint/tendermint/crypto/secp256k1"

	ethcrypto "github.com/ethereum/go-ethereum/crypto"
	tmed "github.com/tendermint/tendermint/crypto/ed25519"

	"github.com/Oneledger/protocol/data/keys"
)

// SplitMix64 derives independent 64-bit values from a seed and a list of tags.
func SplitMix64(seed uint64, tags ...uint64) uint64 {
	x := seed
	mix := func(z uint64) uint64 {
		z += 0x9e3779b97f4a7c15
		z = (z ^ (z >> 30)) * 0xbf58476d1ce4e5b9
		z = (z ^ (z >> 27)) * 0x94d049bb133111eb
		return z ^ (z >> 31)
	}
	x = mix(x)
	for _, t := range tags {
		x = mix(x ^ mix(t))
	}
	return x
}

// Account is a simulated key holder. Keys are derived from (run seed, label) only.
type Account struct {
	Label string
	Algo  keys.Algorithm
	Priv  keys.PrivateKey
	Pub   keys.PublicKey
	Addr  keys.Address
	TmKey tmed.PrivKeyEd25519 // only for ED25519 accounts
	// PreHash: "" or one of SHA224/SHA256/SHA384/SHA512: the account signs the way a hardware wallet does - the
	// 6-byte tag followed by the ed25519 signature over the hash of the message (ED25519 accounts only)
	PreHash string
}

func secretBytes(seed uint64, label string, n int) []byte {
	out := make([]byte, 0, n)
	var ctr uint32
	for len(out) < n {
		h := sha256.New()
		var b [12]byte
		binary.BigEndian.PutUint64(b[:8], seed)
		binary.BigEndian.PutUint32(b[8:], ctr)
		h.Write(b[:])
		h.Write([]byte(label))
		out = append(out, h.Sum(nil)...)
		ctr++
	}
	return out[:n]
}

// NewEdAccount derives an ed25519 account.
func NewEdAccount(seed uint64, label string) *Account {
	tmk := tmed.GenPrivKeyFromSecret(secretBytes(seed, "ed:"+label, 32))
	priv, err := keys.GetPrivateKeyFromBytes(tmk.Bytes()[5:], keys.ED25519)
	if err != nil {
		panic(err)
	}
	ph, _ := priv.GetHandler()
	pub := ph.PubKey()
	h, err := pub.GetHandler()
	if err != nil {
		panic(err)
	}
	return &Account{Label: label, Algo: keys.ED25519, Priv: priv, Pub: pub, Addr: h.Address(), TmKey: tmk}
}

// NewEthAccount derives an ETHSECP account (for OLVM transactions and Ethereum-side signing).
func NewEthAccount(seed uint64, label string) *Account {
	for i := 0; ; i++ {
		sec := secretBytes(seed, fmt.Sprintf("eth:%s:%d", label, i), 32)
		k, err := ethcrypto.ToECDSA(sec)
		if err != nil {
			continue
		}
		priv, err := keys.GetPrivateKeyFromBytes(k.D.Bytes(), keys.ETHSECP)
		if err != nil {
			continue
		}
		ph, _ := priv.GetHandler()
		pub := ph.PubKey()
		h, err := pub.GetHandler()
		if err != nil {
			continue
		}
		return &Account{Label: label, Algo: keys.ETHSECP, Priv: priv, Pub: pub, Addr: h.Address()}
	}
}

// NewSecpAccount derives a SECP256K1 (tendermint flavour) account.
func NewSecpAccount(seed uint64, label string) *Account {
	sec := secretBytes(seed, "secp:"+label, 32)
	priv, err := keys.GetPrivateKeyFromBytes(sec, keys.SECP256K1)
	if err != nil {
		panic(err)
	}
	// the repository's own PrivateKeySECP256K1.PubKey() returns the amino encoding (38 bytes), which its
	// PublicKey.GetHandler refuses; a client builds the public key from the raw 33 bytes
	var k tmsecp.PrivKeySecp256k1
	copy(k[:], sec)
	raw := k.PubKey().(tmsecp.PubKeySecp256k1)
	pub := keys.PublicKey{KeyType: keys.SECP256K1, Data: append([]byte{}, raw[:]...)}
	h, err := pub.GetHandler()
	if err != nil {
		panic(err)
	}
	return &Account{Label: label, Algo: keys.SECP256K1, Priv: priv, Pub: pub, Addr: h.Address()}
}

// ECDSA returns the go-ethereum form of an ETHSECP account's key.
func (a *Account) ECDSA() *ecdsa.PrivateKey {
	return keys.ETHSECP256K1TOECDSA(a.Priv.Data)
}

// Sign signs msg with the account's key (ETHSECP keys need a 32-byte digest).
func (a *Account) Sign(msg []byte) []byte {
	h, err := a.Priv.GetHandler()
	if err != nil {
		panic(err)
	}
	if a.Algo == keys.ETHSECP && len(msg) != 32 {
		// go-ethereum signs 32-byte digests only
		msg = ethcrypto.Keccak256(msg)
	}
	if a.Algo == keys.ED25519 && a.PreHash != "" {
		var d []byte
		switch a.PreHash {
		case "SHA224":
			x := sha256.Sum224(msg)
			d = x[:]
		case "SHA256":
			x := sha256.Sum256(msg)
			d = x[:]
		case "SHA384":
			x := sha512.Sum384(msg)
			d = x[:]
		default:
			x := sha512.Sum512(msg)
			d = x[:]
		}
		sig, err := h.Sign(d)
		if err != nil {
			panic(fmt.Sprintf("sign %s: %v", a.Label, err))
		}
		return append([]byte(a.PreHash), sig...)
	}
	sig, err := h.Sign(msg)
	if err != nil {
		panic(fmt.Sprintf("sign %s: %v", a.Label, err))
	}
	return sig
}

package core

import (
	"math/big"
	"strconv"

	ethcmn "github.com/ethereum/go-ethereum/common"
	ethtypes "github.com/ethereum/go-ethereum/core/types"

	"github.com/Oneledger/protocol/action"
	"github.com/Oneledger/protocol/action/olvm"
	"github.com/Oneledger/protocol/data/balance"
	"github.com/Oneledger/protocol/data/keys"
	"github.com/Oneledger/protocol/serialize"
	"github.com/Oneledger/protocol/utils"
)

// DefaultFee: price 1e9 nue (the minimum with MinFeeDecimal 9), generous gas.
func DefaultFee() action.Fee {
	return action.Fee{Price: action.Amount{Currency: "OLT", Value: *balance.NewAmount(1000000000)}, Gas: 400000}
}

// OLT returns an action.Amount in nue.
func OLT(nue *big.Int) action.Amount {
	return action.Amount{Currency: "OLT", Value: *balance.NewAmountFromBigInt(new(big.Int).Set(nue))}
}

// OLTi returns an action.Amount of n units (nue, or whole OLT for the staking kinds which use ToCoinWithBase).
func OLTi(n int64) action.Amount {
	return action.Amount{Currency: "OLT", Value: *balance.NewAmount(n)}
}

// SignRaw signs a RawTx with the given accounts (in order) and returns the network bytes.
func SignRaw(raw action.RawTx, signers ...*Account) []byte {
	msg := raw.RawBytes()
	sigs := make([]action.Signature, 0, len(signers))
	for _, s := range signers {
		sigs = append(sigs, action.Signature{Signer: s.Pub, Signed: s.Sign(msg)})
	}
	stx := &action.SignedTx{RawTx: raw, Signatures: sigs}
	b, err := serialize.GetSerializer(serialize.NETWORK).Serialize(stx)
	if err != nil {
		panic(HarnessError{"serialize signed tx: " + err.Error()})
	}
	return b
}

// BuildTx marshals msg with the repository's own encoder and signs it.
func BuildTx(msg action.Msg, fee action.Fee, memo string, signers ...*Account) []byte {
	data, err := msg.Marshal()
	if err != nil {
		panic(HarnessError{"marshal msg: " + err.Error()})
	}
	raw := action.RawTx{Type: msg.Type(), Data: data, Fee: fee, Memo: memo}
	return SignRaw(raw, signers...)
}

// DecodeTx parses network bytes back into a SignedTx (nil if not parseable).
func DecodeTx(b []byte) *action.SignedTx {
	tx := &action.SignedTx{}
	if err := serialize.GetSerializer(serialize.NETWORK).Deserialize(b, tx); err != nil {
		return nil
	}
	return tx
}

// SignerAddrs returns the addresses of the keys that signed tx (harness-side notion of "signed").
func SignerAddrs(tx *action.SignedTx) []keys.Address {
	var out []keys.Address
	for _, s := range tx.Signatures {
		h, err := s.Signer.GetHandler()
		if err != nil {
			continue
		}
		out = append(out, h.Address())
	}
	return out
}

// BuildOLVM builds an OLVM transaction signed the Ethereum way (EIP-155 over the chain id hash).
func BuildOLVM(chainID string, from *Account, to *keys.Address, nonce uint64, value *big.Int, data []byte, gas int64, gasPrice *big.Int, memoOverride *string, chainOverride *big.Int) []byte {
	cid := utils.HashToBigInt(chainID)
	txCid := cid
	if chainOverride != nil {
		txCid = chainOverride
	}
	var toEth *ethcmn.Address
	if to != nil {
		a := ethcmn.BytesToAddress(to.Bytes())
		toEth = &a
	}
	ethTx := ethtypes.NewTx(&ethtypes.LegacyTx{Nonce: nonce, To: toEth, Value: value, Gas: uint64(gas), GasPrice: gasPrice, Data: data})
	signer := ethtypes.NewEIP155Signer(txCid)
	signed, err := ethtypes.SignTx(ethTx, signer, from.ECDSA())
	if err != nil {
		panic(HarnessError{"sign eth tx: " + err.Error()})
	}
	v, r, s := signed.RawSignatureValues()
	// WithSignature expects R||S||V with V in {0,1}
	sig := make([]byte, 65)
	rb, sb := r.Bytes(), s.Bytes()
	copy(sig[32-len(rb):32], rb)
	copy(sig[64-len(sb):64], sb)
	vv := new(big.Int).Sub(v, new(big.Int).Add(new(big.Int).Mul(txCid, big.NewInt(2)), big.NewInt(35)))
	sig[64] = byte(vv.Uint64())
	if data == nil {
		data = []byte{} // an honest client's payload carries empty call data as "" (what the web3 conversion produces)
	}
	msg := olvm.Transaction{
		Nonce: nonce, From: from.Addr, To: to, Amount: OLT(value), Data: data, ChainID: txCid,
	}
	payload, err := msg.Marshal()
	if err != nil {
		panic(HarnessError{"marshal olvm: " + err.Error()})
	}
	memo := strconv.FormatUint(nonce, 10)
	if memoOverride != nil {
		memo = *memoOverride
	}
	raw := action.RawTx{Type: action.OLVM, Data: payload, Fee: action.Fee{Price: OLT(gasPrice), Gas: gas}, Memo: memo}
	stx := &action.SignedTx{RawTx: raw, Signatures: []action.Signature{{Signer: from.Pub, Signed: sig}}}
	b, err := serialize.GetSerializer(serialize.NETWORK).Serialize(stx)
	if err != nil {
		panic(HarnessError{"serialize olvm: " + err.Error()})
	}
	return b
}

// Package props holds one profile + oracle per property.
package props

import (
	"crypto/sha256"
	"encoding/hex"
	"encoding/json"
	"fmt"
	"math/rand"
	"os"
	"runtime/debug"
	"sort"
	"strings"

	"olsim/core"
	"olsim/gen"
)

// RunOut is the outcome of one simulated run.
type RunOut struct {
	Trace      *core.Trace
	Violations []core.Violation
	Stats      *core.Stats
	NonTrivial bool
	Foreign    []string // signals that belong to other properties (never change this check's verdict)
	HarnessErr string
	Inputs     int      // property-specific count of evaluated inputs (mutants, resubmissions, ...)
	SubEvals   int      // for batch properties: independent cases evaluated inside this run
	SubFP      []string // fingerprints of the non-trivial cases inside this run
	Digest     string   // hash of everything observable in the run (determinism self-test)
}

// Property is one registered check.
type Property interface {
	ID() string
	// Run executes a run. tr == nil: generate from seed (and record the trace). tr != nil: replay it.
	Run(seed uint64, tier string, tr *core.Trace) *RunOut
	// Rule describes generation and the non-trivial criterion (for evidence).
	Rule() string
}

var Registry = map[string]Property{}

func Register(p Property) { Registry[p.ID()] = p }

// Oracle evaluates a property over the observations of a run; identical in generation and replay.
type Oracle interface {
	AfterStep(e *core.Engine, idx int, st *core.Step, stepErr error) []core.Violation
	Finish(e *core.Engine) []core.Violation
	NonTrivial(e *core.Engine) bool
}

// DeathWatcher is implemented by oracles that judge application deaths themselves (C18).
type DeathWatcher interface {
	OnDeath(e *core.Engine, idx int, st *core.Step, deaths []string) []core.Violation
}

// Setup is what a cluster profile draws for one run.
type Setup struct {
	Knobs    core.Knobs
	Replicas []core.ReplicaConf
	Gens     []gen.Generator
	Policy   core.SitePolicy
	Blocks   int
	MaxTx    int
	Between  func(e *core.Engine, rng *rand.Rand, blockNo int) []*core.Step
	PlanHook func(e *core.Engine, rng *rand.Rand, st *core.Step, gc *gen.Ctx) // last word on the block step (absences, dt, byzantine txs)
	PreBlock func(e *core.Engine, rng *rand.Rand, st *core.Step) []*core.Step // steps to run right before the planned block (e.g. CheckTx of its inputs)
	Extra    []byte
	Sess     *gen.Session // optional: created by MakeSetup so that the policy can see emitted txs
}

// bounceProps: checks whose oracle observes one replica over a fault-free history. In half of their runs that
// replica is killed and restarted between blocks now and then (core.Engine.DoBounce): the property has to hold on a
// node that lost all in-memory state, not only on one that runs for ever. The other half stays fault-free.
var bounceProps = map[string]bool{"C10": true, "C11": true, "C12": true, "C14": true, "C15": true, "C17": true, "C19": true, "C20": true}

// checkNoiseProps: in a third of the runs of these checks the observed replica also serves mempool CheckTx calls
// between its consensus calls (RefNoisePolicy). C17 is left out: its oracle photographs the deliver state at the
// same scheduling points.
var checkNoiseProps = map[string]bool{"C10": true, "C11": true, "C12": true, "C14": true, "C15": true, "C19": true, "C20": true}

// BounceBetween kills and restarts the observed replica between two blocks with the given probability.
func BounceBetween(prob float64) func(e *core.Engine, rng *rand.Rand, blockNo int) []*core.Step {
	return func(e *core.Engine, rng *rand.Rand, blockNo int) []*core.Step {
		if blockNo > 0 && rng.Float64() < prob {
			return []*core.Step{{Kind: "bounce", Replica: 0}}
		}
		return nil
	}
}

// BounceVictimBetween kills and at once restarts one live non-reference replica between two blocks with the given
// probability: the restart a real node most often goes through (nothing in flight), which the per-site crash rate
// reaches only once in as many crashes as a block has scheduling sites.
func BounceVictimBetween(prob float64) func(e *core.Engine, rng *rand.Rand, blockNo int) []*core.Step {
	return func(e *core.Engine, rng *rand.Rand, blockNo int) []*core.Step {
		// right after a block whose block-level hooks did something visible (validator updates, Begin/EndBlock
		// events) the restart is four times as likely: that is where work may be queued in memory for the next block
		p := prob
		if att := e.C.Ref().Tr.Committed(e.C.Height()); att != nil && (att.ValUpdates != "" || (att.BlockEvents != "begin[] end[]" && att.BlockEvents != "begin[]")) {
			p = prob * 4
		}
		if blockNo == 0 || rng.Float64() >= p {
			return nil
		}
		var live []int
		for i, r := range e.C.Replicas {
			if i > 0 && r.Up {
				live = append(live, i)
			}
		}
		if len(live) == 0 {
			return nil
		}
		return []*core.Step{{Kind: "bounce", Replica: live[rng.Intn(len(live))]}}
	}
}

func chainBetween(a, b func(e *core.Engine, rng *rand.Rand, blockNo int) []*core.Step) func(e *core.Engine, rng *rand.Rand, blockNo int) []*core.Step {
	if a == nil {
		return b
	}
	if b == nil {
		return a
	}
	return func(e *core.Engine, rng *rand.Rand, blockNo int) []*core.Step {
		return append(a(e, rng, blockNo), b(e, rng, blockNo)...)
	}
}

// ClusterProp is the shared implementation for properties decided on a simulated cluster.
type ClusterProp struct {
	Id         string
	RuleText   string
	MakeSetup  func(rng *rand.Rand, tier string, seed uint64) *Setup
	MakeOracle func(e *core.Engine, tr *core.Trace) Oracle
	atEnd      func(e *core.Engine)
}

func (p *ClusterProp) ID() string   { return p.Id }
func (p *ClusterProp) Rule() string { return p.RuleText }

// RunForDump executes a generated run and calls atEnd with the live engine (tooling only).
func RunForDump(p *ClusterProp, seed uint64, atEnd func(e *core.Engine)) *RunOut {
	p2 := *p
	p2.atEnd = atEnd
	return p2.Run(seed, "quick", nil)
}

func (p *ClusterProp) Run(seed uint64, tier string, tr *core.Trace) (out *RunOut) {
	out = &RunOut{}
	replay := tr != nil
	var rng *rand.Rand
	var su *Setup
	if !replay {
		rng = rand.New(rand.NewSource(int64(seed)))
		su = p.MakeSetup(rng, tier, seed)
		if bounceProps[p.Id] && rng.Intn(2) == 0 {
			su.Between = chainBetween(su.Between, BounceBetween(0.07))
		}
		if checkNoiseProps[p.Id] && su.Policy == nil && rng.Intn(3) == 0 {
			if su.Sess == nil {
				su.Sess = gen.NewSession()
			}
			su.Policy = &RefNoisePolicy{Rng: rng, Sess: su.Sess, CheckRate: 0.04}
		}
		tr = &core.Trace{Property: p.Id, Seed: seed, Knobs: su.Knobs, Replicas: su.Replicas, Extra: su.Extra}
	}
	out.Trace = tr
	defer func() {
		if rec := recover(); rec != nil {
			if he, ok := rec.(core.HarnessError); ok {
				out.HarnessErr = he.Error()
				return
			}
			out.HarnessErr = fmt.Sprintf("unexpected panic in harness: %v", rec)
			if os.Getenv("OLSIM_DEBUG") != "" {
				debug.PrintStack()
			}
		}
	}()
	var policy core.SitePolicy
	if su != nil {
		policy = su.Policy
	}
	core.MapOrderDictated = p.Id == "C01" && os.Getenv("OLSIM_MAPORDER") != "native"
	e, err := core.NewEngine(tr, replay, policy, rng)
	if err != nil {
		out.HarnessErr = "engine: " + err.Error()
		return
	}
	defer e.Close()
	out.Stats = e.Stats
	or := p.MakeOracle(e, tr)

	knownSeen := map[string]bool{}
	record := func(idx int, st *core.Step, stepErr error) bool {
		vs := or.AfterStep(e, idx, st, stepErr)
		for i := range vs {
			vs[i].Step = idx
		}
		stop := false
		for _, v := range vs {
			if IsKnownOpen(v) {
				// a listed finding: recorded once per run, the run goes on
				k := v.Oracle + "/" + v.Sig
				if !knownSeen[k] {
					knownSeen[k] = true
					out.Violations = append(out.Violations, v)
				}
				continue
			}
			out.Violations = append(out.Violations, v)
			stop = true
		}
		if stepErr != nil && len(vs) == 0 {
			out.Foreign = append(out.Foreign, "step error: "+stepErr.Error())
		}
		return stop || stepErr != nil
	}
	exec := func(idx int, st *core.Step) (stop bool) {
		var stepErr error
		switch st.Kind {
		case "block":
			_, stepErr = e.DoBlock(st)
			countTxs(e, st)
		case "restart":
			stepErr = e.DoRestart(st)
		case "join":
			stepErr = e.DoJoin(st)
		case "bounce":
			stepErr = e.DoBounce(st)
		case "checks":
			e.DoChecks(st)
		case "boot":
		default:
			panic(core.HarnessError{Msg: "unknown step kind " + st.Kind})
		}
		if len(e.Deaths) > 0 {
			// the application panicked out or closed itself: that is C18's subject. Other oracles must
			// not touch the dead replica; the run ends here.
			if dw, ok := or.(DeathWatcher); ok {
				vs := dw.OnDeath(e, idx, st, e.Deaths)
				for i := range vs {
					vs[i].Step = idx
				}
				out.Violations = append(out.Violations, vs...)
				if len(vs) == 0 {
					out.Foreign = append(out.Foreign, "application died (C18): "+clipS(strings.Join(e.Deaths, "; "), 160))
				}
			} else {
				out.Foreign = append(out.Foreign, "application died (C18): "+clipS(strings.Join(e.Deaths, "; "), 160))
			}
			return true
		}
		return record(idx, st, stepErr)
	}

	stopped := record(0, tr.Steps[0], nil)
	if replay {
		for i := 1; i < len(tr.Steps) && !stopped; i++ {
			e.StepIdx = i
			stopped = exec(i, tr.Steps[i])
		}
	} else {
		sess := su.Sess
		if sess == nil {
			sess = gen.NewSession()
		}
		for b := 0; b < su.Blocks && !stopped; b++ {
			if su.Between != nil {
				for _, st := range su.Between(e, rng, b) {
					e.StepIdx = len(tr.Steps)
					if stopped = exec(len(tr.Steps), st); stopped {
						break
					}
				}
				if stopped {
					break
				}
			}
			gc := &gen.Ctx{E: e, W: e.W, Rng: rng, Ref: e.C.Ref(), H: e.C.Height() + 1, S: sess}
			var txs []gen.Tx
			for _, g := range su.Gens {
				txs = append(txs, g.Gen(gc)...)
			}
			orig := append([]gen.Tx{}, txs...)
			rng.Shuffle(len(txs), func(i, j int) { txs[i], txs[j] = txs[j], txs[i] })
			gen.KeepGroupOrder(orig, txs)
			if su.MaxTx > 0 && len(txs) > su.MaxTx {
				txs = txs[:su.MaxTx]
			}
			if rp, ok := su.Policy.(*RefNoisePolicy); ok {
				// one transaction in ten stays in the mempool: validated on the observed replica, never delivered
				kept := txs[:0]
				for _, t := range txs {
					if t.Group == "" && rng.Intn(10) == 0 {
						rp.Held = append(rp.Held, t.Bytes)
						continue
					}
					kept = append(kept, t)
				}
				txs = kept
			}
			st := &core.Step{Kind: "block", DtMs: drawDt(rng, e.W.Knobs)}
			for _, t := range txs {
				st.Txs = append(st.Txs, hex.EncodeToString(t.Bytes))
				st.Labels = append(st.Labels, t.Kind)
				sess.Sent = append(sess.Sent, t)
			}
			if su.PlanHook != nil {
				su.PlanHook(e, rng, st, gc)
			}
			if su.PreBlock != nil {
				for _, ps := range su.PreBlock(e, rng, st) {
					e.StepIdx = len(tr.Steps)
					if stopped = exec(len(tr.Steps), ps); stopped {
						break
					}
				}
				if stopped {
					break
				}
			}
			e.StepIdx = len(tr.Steps)
			stopped = exec(len(tr.Steps), st)
		}
		// quiesce: bring every crashed replica back so that convergence can be judged
		for round := 0; round < 3 && !stopped; round++ {
			for i, r := range e.C.Replicas {
				if i > 0 && !r.Up {
					st := &core.Step{Kind: "restart", Replica: i, Note: "final"}
					e.Policy = nil // faults have stopped
					stopped = exec(len(tr.Steps), st)
				}
			}
		}
	}
	if !stopped {
		vs := or.Finish(e)
		for i := range vs {
			vs[i].Step = len(tr.Steps)
		}
		out.Violations = append(out.Violations, vs...)
	}
	out.NonTrivial = or.NonTrivial(e)
	out.Digest = runDigest(e, tr)
	reachProbes(e)
	if ic, ok := or.(interface{ Inputs() int }); ok {
		out.Inputs = ic.Inputs()
	}
	if p.atEnd != nil {
		p.atEnd(e)
	}
	return out
}

// drawDt draws the simulated time step: normally around the nominal block time, sometimes a jump.
func drawDt(rng *rand.Rand, k core.Knobs) int64 {
	base := k.BlockSeconds * 1000
	if base <= 0 {
		base = 5000
	}
	switch rng.Intn(40) {
	case 0:
		return base * 50 // a long pause
	case 1:
		return 3600 * 1000 * int64(1+rng.Intn(48)) // hours
	case 2:
		return 1 // 1 ms: nearly simultaneous blocks
	}
	return base/2 + rng.Int63n(base)
}

func countTxs(e *core.Engine, st *core.Step) {
	ref := e.C.Ref()
	att := ref.Tr.Committed(e.C.Height())
	if att == nil {
		return
	}
	for i, tb := range att.TxBytes {
		kind := "UNPARSEABLE"
		if tx := core.DecodeTx(tb); tx != nil {
			kind = tx.Type.String()
		}
		res := "ok"
		if i < len(att.Txs) && att.Txs[i].Code != 0 {
			res = "fail"
		}
		e.Stats.Txs[kind+":"+res]++
		// reach of the generators' special variants (labels with a '/'): how often each was delivered and how
		// it was answered; evidence only, never part of a verdict
		if st != nil && i < len(st.Labels) && strings.Contains(st.Labels[i], "/") && len(att.TxBytes) == len(st.Labels) {
			e.Stats.Probes["variant "+st.Labels[i]+":"+res]++
		}
	}
}

// ---- transcript equality oracle (C01, C07, C08 share it) ------------------------------------------

// TranscriptOracle compares every attempt of every non-reference replica with the reference.
type TranscriptOracle struct {
	Prop        string
	Name        string
	checked     map[int]int // replica -> number of attempts already compared (complete ones)
	Compared    int
	InitChecked map[int]bool
	Events      bool // also compare the events of every delivered transaction
}

func NewTranscriptOracle(prop, name string) *TranscriptOracle {
	return &TranscriptOracle{Prop: prop, Name: name, checked: map[int]int{}, InitChecked: map[int]bool{}}
}

func (o *TranscriptOracle) Check(e *core.Engine) []core.Violation {
	var vs []core.Violation
	ref := e.C.Ref()
	for i, r := range e.C.Replicas {
		if i == 0 {
			continue
		}
		if r.Tr.InitDone && ref.Tr.InitDone && !o.InitChecked[i] {
			o.InitChecked[i] = true
			if r.Tr.InitVals != ref.Tr.InitVals {
				vs = append(vs, core.Violation{Property: o.Prop, Oracle: o.Name, Sig: "initchain-validators",
					Msg: fmt.Sprintf("replica %d InitChain validators differ from reference: %s vs %s", i, r.Tr.InitVals, ref.Tr.InitVals)})
			}
		}
		start := o.checked[i]
		for j := start; j < len(r.Tr.Attempts); j++ {
			a := r.Tr.Attempts[j]
			ra := ref.Tr.Committed(a.Height)
			if ra == nil {
				break // reference has not committed this height yet
			}
			if d := core.CompareAttempts(ra, a); d != "" {
				sig := "divergence"
				vs = append(vs, core.Violation{Property: o.Prop, Oracle: o.Name, Sig: sig,
					Msg: fmt.Sprintf("replica %d (%s, restarts=%d, handshake=%v) vs reference: %s%s", i, r.Spec.Keys.Name, r.Restarts, a.Handshake, d, diffNote(e, i, a))})
				o.checked[i] = len(r.Tr.Attempts)
				return vs
			}
			if o.Events {
				if d := core.CompareEvents(ra, a); d != "" {
					vs = append(vs, core.Violation{Property: o.Prop, Oracle: o.Name, Sig: "events-differ",
						Msg: fmt.Sprintf("replica %d (%s, restarts=%d, handshake=%v) vs reference: %s", i, r.Spec.Keys.Name, r.Restarts, a.Handshake, d)})
					o.checked[i] = len(r.Tr.Attempts)
					return vs
				}
			}
			o.Compared++
			// an attempt still in flight (not committed, replica up) is compared again later
			if a.Committed || j < len(r.Tr.Attempts)-1 {
				o.checked[i] = j + 1
			}
		}
	}
	return vs
}

// ReplicaDeath judges application deaths for the oracles that compare replicas: a replica whose application
// panicked out or shut itself down while the reference replica, fed the same calls, is alive has not produced the
// reference's results (a death of the reference itself, or of everybody, is C18's subject and left to it).
func ReplicaDeath(prop, oracle string, e *core.Engine, st *core.Step, deaths []string) []core.Violation {
	refDead := false
	var others []string
	for _, d := range deaths {
		if strings.HasPrefix(d, "r0:") {
			refDead = true
		} else {
			others = append(others, d)
		}
	}
	if refDead || len(others) == 0 {
		return nil
	}
	return []core.Violation{{Property: prop, Oracle: oracle, Sig: "replica-died",
		Msg: fmt.Sprintf("the application of a replica died while the reference replica, fed the same blocks, lives: %s", clipS(strings.Join(others, "; "), 400))}}
}

// DumpDiffNote adds the differing keys of two replicas to a message (diagnosis only).
func DumpDiffNote(e *core.Engine, i int) string {
	ref, r := e.C.Ref(), e.C.Replicas[i]
	if !r.Up || r.App == nil {
		return ""
	}
	ks := core.DiffDumps(ref.DumpMap(), r.DumpMap(), 12)
	sort.Strings(ks)
	return fmt.Sprintf(" differing keys: %q", ks)
}

// NopOracle checks nothing (tooling).
type NopOracle struct{}

func (NopOracle) AfterStep(e *core.Engine, idx int, st *core.Step, stepErr error) []core.Violation {
	return nil
}
func (NopOracle) Finish(e *core.Engine) []core.Violation { return nil }
func (NopOracle) NonTrivial(e *core.Engine) bool         { return true }

// diffNote lists the differing committed keys when the divergence is in the app hash and both
// replicas are at the same height (diagnosis only).
func diffNote(e *core.Engine, i int, a *core.BlockAttempt) string {
	ref, r := e.C.Ref(), e.C.Replicas[i]
	if !a.Committed || !r.Up || r.App == nil || ref.App == nil {
		return ""
	}
	if ref.App.VerifChainState().Version != r.App.VerifChainState().Version {
		return ""
	}
	return DumpDiffNote(e, i)
}

// runDigest hashes the recorded trace and every replica's transcript (hashes, validator updates, tx
// results, CheckTx codes, Info answers): two executions of the same seed must give the same digest.
func runDigest(e *core.Engine, tr *core.Trace) string {
	h := sha256.New()
	b, _ := json.Marshal(tr.Steps)
	h.Write(b)
	for i, r := range e.C.Replicas {
		fmt.Fprintf(h, "|r%d init=%s", i, r.Tr.InitVals)
		for _, a := range r.Tr.Attempts {
			fmt.Fprintf(h, "|h%d c=%v hs=%v %x %s", a.Height, a.Committed, a.Handshake, a.AppHash, a.ValUpdates)
			for _, t := range a.Txs {
				h.Write([]byte(t.Key()))
			}
		}
		for _, c := range r.Tr.Checks {
			fmt.Fprintf(h, "|ck%d:%d:%d", c.AtHeight, c.Code, c.GasUsed)
		}
		for _, in := range r.Tr.Infos {
			fmt.Fprintf(h, "|in%d:%x", in.Height, in.AppHash)
		}
	}
	return fmt.Sprintf("%x", h.Sum(nil)[:12])
}

// reachProbes counts, from the reference replica's final committed state, which deep states the run
// reached (evidence only: a probe stuck at zero over a batch means the workload must change).
func reachProbes(e *core.Engine) {
	ref := e.C.Ref()
	if ref == nil || ref.App == nil || ref.Dead != "" {
		return
	}
	defer func() { recover() }()
	fam := map[string]string{
		"propFinalized": "proposal_finalised", "propFinalizeFailed": "proposal_finalise_failed", "propFailed": "proposal_failed_or_expired",
		"propPassed": "proposal_passed_pending", "ethsuccess_": "tracker_succeeded", "ethfailed_": "tracker_failed", "etht_": "tracker_ongoing",
		"es__ssvk_": "validator_frozen_record", "es__ark_": "allegation_open", "deleg_p_": "undelegation_pending_entry", "delegRwz_pending_": "reward_withdrawal_pending_entry",
		"st__m_": "stake_mature_block", "d_": "domain_record", "extBidConvSucceed": "bid_succeeded", "extBidConvExpired": "bid_expired",
		"contracts_\x01": "contract_code", "contracts_\x02": "contract_storage_slot", "purged_": "validator_purge_record", "rwcum_withdrawn_": "validator_reward_withdrawn",
	}
	seen := map[string]bool{}
	ref.App.VerifChainState().Iterate(func(k, v []byte) bool {
		ks := string(k)
		for pfx, name := range fam {
			if !seen[name] && strings.HasPrefix(ks, pfx) {
				seen[name] = true
			}
		}
		return false
	})
	for name := range seen {
		e.Stats.Probes["reached_"+name]++
	}
	for i, r := range e.C.Replicas {
		if i == 0 {
			continue
		}
		replayed := 0
		for _, a := range r.Tr.Attempts {
			if a.Handshake && a.Committed {
				replayed++
			}
		}
		if replayed >= 2 {
			e.Stats.Probes["handshake_replayed_ge2_blocks"]++
		}
		if r.Restarts >= 2 {
			e.Stats.Probes["replica_restarted_ge2"]++
		}
	}
	if e.Stats.Faults["crash@beforeBeginBlock/replay"]+e.Stats.Faults["crash@afterBeginBlock/replay"]+e.Stats.Faults["crash@afterDeliverTx/replay"]+e.Stats.Faults["crash@beforeCommit/replay"]+e.Stats.Faults["crash@afterCommit/replay"] > 0 {
		e.Stats.Probes["crash_during_replay"]++
	}
}

package props

import (
	"crypto/sha256"
	"fmt"
	"math/big"
	"math/rand"
	"os"
	"sort"
	"strings"

	dbm "github.com/tendermint/tm-db"

	"github.com/Oneledger/protocol/action"
	"github.com/Oneledger/protocol/action/staking"
	"github.com/Oneledger/protocol/action/transfer"
	"github.com/Oneledger/protocol/data/evidence"
	"github.com/Oneledger/protocol/data/governance"
	"github.com/Oneledger/protocol/identity"
	"github.com/Oneledger/protocol/serialize"
	"github.com/Oneledger/protocol/storage"

	"olsim/core"
	"olsim/gen"
	"olsim/ledger"
)

// C11 Staking: maturity, frozen validators, stake bookkeeping.
//
// "An amount staked with a validator can be withdrawn by its delegator only after it has been unstaked
// and the configured maturity period has elapsed; for every delegator the sum of what was ever withdrawn
// never exceeds what was staked minus penalties, nothing can be withdrawn or unstaked while the validator
// is frozen, and the validator's recorded stake always equals the sum of its delegators' locked amounts."
//
// MODEL (own state machine, whole OLT units, driven by observations only)
//
//	locked[v][d]   what delegator d has locked with validator v
//	per delegator  staked (ever, genesis included), penalties, unstaked (ever), withdrawn (ever) and a list
//	               of chunks {amount, remainder not yet withdrawn, origin validator, due height}
//
// transitions, in block order, for every transaction that returned code 0:
//
//	STAKE x (v,d)     locked[v][d] += x, staked[d] += x
//	UNSTAKE x (v,d)   needs locked[v][d] >= x; locked -= x, unstaked[d] += x, new chunk with
//	                  due = H + maturity in force (smaller of the option values of dump H-1 and dump H)
//	WITHDRAW x (v,d)  needs x <= sum of remainders of d's chunks with due <= H-1 (unstaked AND matured: the
//	                  chunk of height h is released at the end of block h, so it can be spent from h+1 on);
//	                  remainders are consumed oldest matured chunk first (which chunk pays is irrelevant for
//	                  the maturity sums; origins matter only for the frozen-validator oracle below)
//	end of block      a validator whose byzantine-fault freeze record was written in this block may have lost
//	                  any part of its locked amounts (penalty, any size); the model follows the dump downwards
//
// ORACLES (after every block, from the decoded dump and the results)
//
//	validator-total          _t_<v> == sum_d _e_<v>_<d>
//	delegator-total          _d_e_<d> == sum_v _e_<v>_<d>
//	validator-record         Staking of the validator record v_<v> == _t_<v> + penalty taken from v in THIS block
//	                         (the record is updated one block after a verdict: documented delay)
//	locked-backed-by-stake   _e_<v>_<d> never exceeds the model (locked amounts come from STAKE only)
//	unstake-needs-locked     a successful UNSTAKE never exceeds the model's locked amount
//	withdraw-needs-maturity  a successful WITHDRAW never exceeds what is unstaked and matured in the model
//	withdrawn-bounded        withdrawn[d] <= staked[d] - penalties[d]
//	frozen-validator         no UNSTAKE / WITHDRAW naming validator v succeeds while v is frozen for the whole
//	                         block (same unreleased freeze record in dump H-1 and dump H); and, whatever
//	                         validator a WITHDRAW names, the withdrawals a delegator makes while v is frozen
//	                         must be coverable by matured amounts that were NOT unstaked from v. This is
//	                         judged per (delegator, v) with the assignment most favourable to the system:
//	                         withdrawals made while v is not frozen are booked against amounts unstaked
//	                         from v first, withdrawals made while v is frozen against all other matured
//	                         amounts; only if those do not suffice the alarm is raised
//	not-before-maturity      _d_b_<d> <= sum of remainders of chunks with due <= H
//	unlock-exactly-once      sum_h _m_<h>[d] + _d_b_<d> <= sum of all remainders (never duplicated)
//	withdraw-payout          in blocks whose successful transactions are all of kinds the oracle can account
//	                         for exactly (STAKE, UNSTAKE, WITHDRAW, SEND, ALLEGATION, ALLEGATION_VOTE, RELEASE)
//	                         and in which no record outside the balance / fee / staking / validator /
//	                         evidence / block-reward families changed (= no block hook moved money), the OLT
//	                         balance of an account that withdrew changes by exactly
//	                         sum(withdrawn)*1e18 - sum(staked)*1e18 - fees +- plain transfers;
//	                         fee = gas used x fee price, paid by the first signer (evidence kinds: by the
//	                         stake account of the signing validator)
//
// DON'T CARE
//   - how large a penalty is and who receives it (any reduction at a verdict is a penalty)
//   - amounts that become withdrawable LATER than due, or never (the property is an upper bound)
//   - locked / unlocking amounts that shrink without a transaction (loss: another property); the model
//     follows the dump downwards and counts the loss like a penalty
//   - STAKE while frozen (the property names only unstake and withdraw)
//   - a validator first frozen or released during the very block (only "frozen before and after with
//     the identical record" counts as frozen)
//   - fee-share payouts (they go to the fee store, not to balances), rewards, validator set membership
//   - who signed (C03), whether value is created elsewhere (C02)
//   - transactions whose bytes were already delivered in an earlier block (answered from the node's
//     result cache, not executed: C05): a staking-kind duplicate that returns code 0 ends the checking
//     of this run (counted), any other duplicate only disables the payout check of its block
//   - blocks in which the staking options were rewritten more than once: due = H (no maturity assumed)
//   - the payout of every block that is not exactly accountable (see withdraw-payout)

type c11Chunk struct {
	amt *big.Int
	rem *big.Int
	val string // validator the amount was unstaked from; "" = unknown (present at genesis)
	at  int64  // height of the unstake (0 = genesis)
	due int64  // earliest height at whose end the amount may become withdrawable
}

type c11Deleg struct {
	staked    *big.Int
	penalties *big.Int
	unstaked  *big.Int
	withdrawn *big.Int
	chunks    []*c11Chunk
	// per origin validator v: what the most favourable assignment has booked against amounts unstaked
	// from v (usedV) and against all other amounts (usedN)
	usedV map[string]*big.Int
	usedN map[string]*big.Int
}

func newC11Deleg() *c11Deleg {
	return &c11Deleg{staked: new(big.Int), penalties: new(big.Int), unstaked: new(big.Int), withdrawn: new(big.Int),
		usedV: map[string]*big.Int{}, usedN: map[string]*big.Int{}}
}

// remaining sums the remainders of the chunks with due <= h (h < 0: all chunks).
func (d *c11Deleg) remaining(h int64) *big.Int {
	s := new(big.Int)
	for _, c := range d.chunks {
		if h < 0 || c.due <= h {
			s.Add(s, c.rem)
		}
	}
	return s
}

type c11Oracle struct {
	obs    Obs
	locked map[string]map[string]*big.Int // validator -> delegator -> amount
	dg     map[string]*c11Deleg
	seen   map[[32]byte]int64 // transaction bytes -> height of first delivery
	blind  bool               // a cached duplicate of a staking transaction was answered with code 0
	optSig string
	optMat int64
	optRaw string
	mute   map[string]bool
	muted  map[string]int
	found  []core.Violation
	kinds  string // own label of the block: successful staking kinds (+verdict)

	blocks     int
	stakeOK    int
	unstakeOK  int
	withdrawOK int
	crossings  int // chunks (not genesis) whose due height was reached
	pairs      map[string]bool
	frozenSeen map[string]bool
	refused    int // staking-kind transactions naming a frozen validator that were refused
	verdicts   int
	penalised  int
	matChanges int
	payoutChk  int
	payoutSkip int
	losses     int
	sameBlock  int // blocks with >= 2 successful unstake/withdraw transactions of one delegator
	unstakeDue int // blocks in which an unstake succeeded while another chunk of the same delegator fell due
}

var c11E18 = new(big.Int).Exp(big.NewInt(10), big.NewInt(18), nil)

func c11Get(m map[string]*big.Int, k string) *big.Int {
	if x, ok := m[k]; ok && x != nil {
		return x
	}
	return new(big.Int)
}

func (o *c11Oracle) deleg(d string) *c11Deleg {
	x := o.dg[d]
	if x == nil {
		x = newC11Deleg()
		o.dg[d] = x
	}
	return x
}

func (o *c11Oracle) lockedOf(v, d string) *big.Int {
	if o.locked[v] == nil {
		o.locked[v] = map[string]*big.Int{}
	}
	if o.locked[v][d] == nil {
		o.locked[v][d] = new(big.Int)
	}
	return o.locked[v][d]
}

// ---- decoding helpers (repository types are used for DECODING only) ------------------------------

// c11Options returns the maturity option stored in a dump (governance store, last update height
// indirection resolved by the repository's own reader over a throw-away store) and the raw option bytes.
func (o *c11Oracle) options(dump map[string][]byte) (mat int64, raw string) {
	ks := make([]string, 0, 64)
	for k := range dump {
		if strings.HasPrefix(k, "g_") {
			ks = append(ks, k)
		}
	}
	sort.Strings(ks)
	h := sha256.New()
	for _, k := range ks {
		fmt.Fprintf(h, "%d:%s=%d:", len(k), k, len(dump[k]))
		h.Write(dump[k])
	}
	sig := string(h.Sum(nil))
	if sig == o.optSig {
		return o.optMat, o.optRaw
	}
	defer func() {
		if rec := recover(); rec != nil {
			panic(core.HarnessError{Msg: fmt.Sprintf("C11: cannot read the staking options from the dump: %v", rec)})
		}
	}()
	cs := storage.NewChainState("c11opt", dbm.NewMemDB())
	st := storage.NewState(cs)
	for _, k := range ks {
		st.Set(storage.StoreKey(k), dump[k])
	}
	st.Commit()
	gov := governance.NewStore("g", storage.NewState(cs))
	opt, err := gov.GetStakingOptions()
	if err != nil || opt == nil {
		panic(core.HarnessError{Msg: fmt.Sprintf("C11: cannot read the staking options from the dump: %v", err)})
	}
	b, _ := serialize.GetSerializer(serialize.PERSISTENT).Serialize(opt)
	o.optSig, o.optMat, o.optRaw = sig, opt.MaturityTime, string(b)
	return o.optMat, o.optRaw
}

type c11Freeze struct {
	raw      string
	status   int8
	height   int64
	released bool
}

// c11Freezes decodes the suspicious-validator records of a dump, keyed by validator address text.
func c11Freezes(l *ledger.Ledger) map[string]*c11Freeze {
	out := map[string]*c11Freeze{}
	for k, v := range l.Raw["es_"] {
		if !strings.HasPrefix(k, "es__ssvk_") {
			continue
		}
		r := &evidence.LastValidatorHistory{}
		if err := serialize.GetSerializer(serialize.PERSISTENT).Deserialize(v, r); err != nil {
			panic(core.HarnessError{Msg: "C11: undecodable freeze record " + k + ": " + err.Error()})
		}
		out[k[len("es__ssvk_"):]] = &c11Freeze{raw: string(v), status: r.Status, height: r.FrozenHeight,
			released: r.ReleaseAt != nil || r.ReleaseHeight != 0}
	}
	return out
}

type c11Val struct {
	stakeAddr string
	staking   *big.Int
}

func c11Validators(l *ledger.Ledger) map[string]*c11Val {
	out := map[string]*c11Val{}
	for k, v := range l.Raw["v_"] {
		r := &identity.Validator{}
		if err := serialize.GetSerializer(serialize.PERSISTENT).Deserialize(v, r); err != nil {
			panic(core.HarnessError{Msg: fmt.Sprintf("C11: undecodable validator record %q: %v", k, err)})
		}
		out[r.Address.String()] = &c11Val{stakeAddr: r.StakeAddress.String(), staking: new(big.Int).Set(r.Staking.BigInt())}
	}
	return out
}

type c11Op struct {
	val, del string
	x        *big.Int
	cur      string
}

func c11DecodeOp(tx *action.SignedTx) *c11Op {
	switch tx.Type {
	case action.STAKE:
		m := &staking.Stake{}
		if m.Unmarshal(tx.Data) != nil {
			return nil
		}
		return &c11Op{val: m.ValidatorAddress.String(), del: m.StakeAddress.String(), x: new(big.Int).Set(m.Stake.Value.BigInt()), cur: m.Stake.Currency}
	case action.UNSTAKE:
		m := &staking.Unstake{}
		if m.Unmarshal(tx.Data) != nil {
			return nil
		}
		return &c11Op{val: m.ValidatorAddress.String(), del: m.StakeAddress.String(), x: new(big.Int).Set(m.Stake.Value.BigInt()), cur: m.Stake.Currency}
	case action.WITHDRAW:
		m := &staking.Withdraw{}
		if m.Unmarshal(tx.Data) != nil {
			return nil
		}
		return &c11Op{val: m.ValidatorAddress.String(), del: m.StakeAddress.String(), x: new(big.Int).Set(m.Stake.Value.BigInt()), cur: m.Stake.Currency}
	}
	return nil
}

func c11FirstSigner(tx *action.SignedTx) (string, bool) {
	if len(tx.Signatures) == 0 {
		return "", false
	}
	h, err := tx.Signatures[0].Signer.GetHandler()
	if err != nil {
		return "", false
	}
	return h.Address().String(), true
}

func c11Short(a string) string {
	if len(a) > 11 {
		return a[:11]
	}
	return a
}

// ---- the oracle ----------------------------------------------------------------------------------------

// viol records a violation. The label part of the signature is the oracle's own, small vocabulary
// (never generator labels): stable under minimisation and for known-findings matching. Classes listed in OLSIM_C11_MUTE (comma
// separated; DIAGNOSIS ONLY, empty by default) are counted instead of reported so that a sweep can look
// past a finding that is already understood; the model is not affected by muting.
func (o *c11Oracle) viol(oracle, class, labels, format string, a ...interface{}) {
	if o.mute == nil {
		o.mute = map[string]bool{}
		for _, c := range strings.Split(os.Getenv("OLSIM_C11_MUTE"), ",") {
			if c = strings.TrimSpace(c); c != "" {
				o.mute[c] = true
			}
		}
		o.muted = map[string]int{}
	}
	if o.mute[class] {
		o.muted[class]++
		return
	}
	if len(o.found) > 0 {
		return
	}
	o.found = []core.Violation{{Property: "C11", Oracle: oracle, Sig: class + ":" + labels,
		Msg: fmt.Sprintf("block %d: ", o.obs.H) + fmt.Sprintf(format, a...) + "; txs: " + txSummary(&o.obs)}}
}

func (o *c11Oracle) AfterStep(e *core.Engine, idx int, st *core.Step, stepErr error) []core.Violation {
	if st.Kind == "boot" {
		o.obs.InitGenesis(e)
		o.initModel()
		o.ledgerComplete()
		o.kinds = "genesis"
		o.consistency(map[string]*big.Int{})
		return o.take()
	}
	if st.Kind != "block" || !o.obs.Update(e, st) {
		return nil
	}
	if o.blind {
		return nil
	}
	o.ledgerComplete()
	o.blocks++
	o.block()
	return o.take()
}

// take hands out the first violation found in the step (the checks of a block all run, so that the
// model stays in step with the chain; only the first finding is reported).
func (o *c11Oracle) take() []core.Violation {
	vs := o.found
	o.found = nil
	return vs
}

func (o *c11Oracle) ledgerComplete() {
	for _, p := range o.obs.Cur.Problems {
		if strings.Contains(p, "staking record") || strings.Contains(p, "mature") || strings.Contains(p, "validator-delegator") || strings.HasPrefix(p, "undecodable amount \"st_") {
			panic(core.HarnessError{Msg: "C11: ledger incomplete: " + p})
		}
	}
}

// initModel takes the state right after InitChain as the baseline: whatever is locked, unlocking or
// withdrawable at genesis counts as staked before the run.
func (o *c11Oracle) initModel() {
	l := o.obs.Cur
	o.locked = map[string]map[string]*big.Int{}
	o.dg = map[string]*c11Deleg{}
	o.seen = map[[32]byte]int64{}
	o.pairs = map[string]bool{}
	o.frozenSeen = map[string]bool{}
	for v, m := range l.StakeVD {
		for d, x := range m {
			o.lockedOf(v, d).Set(x)
			o.deleg(d).staked.Add(o.deleg(d).staked, x)
		}
	}
	ds := make([]string, 0, len(l.StakeFree))
	for d := range l.StakeFree {
		ds = append(ds, d)
	}
	sort.Strings(ds)
	for _, d := range ds {
		x := l.StakeFree[d]
		if x.Sign() <= 0 {
			continue
		}
		dg := o.deleg(d)
		dg.staked.Add(dg.staked, x)
		dg.chunks = append(dg.chunks, &c11Chunk{amt: new(big.Int).Set(x), rem: new(big.Int).Set(x), due: 0})
	}
	hs := make([]int64, 0, len(l.StakeMature))
	for h := range l.StakeMature {
		hs = append(hs, h)
	}
	sort.Slice(hs, func(i, j int) bool { return hs[i] < hs[j] })
	for _, h := range hs {
		as := make([]string, 0, len(l.StakeMature[h]))
		for d := range l.StakeMature[h] {
			as = append(as, d)
		}
		sort.Strings(as)
		for _, d := range as {
			x := l.StakeMature[h][d]
			if x.Sign() <= 0 {
				continue
			}
			dg := o.deleg(d)
			dg.staked.Add(dg.staked, x)
			dg.chunks = append(dg.chunks, &c11Chunk{amt: new(big.Int).Set(x), rem: new(big.Int).Set(x), due: h})
		}
	}
}

// take consumes up to need from the chunks selected by pick (in list order) and returns what it took.
func c11Take(d *c11Deleg, need *big.Int, pick func(c *c11Chunk) bool) *big.Int {
	took := new(big.Int)
	for _, c := range d.chunks {
		if need.Sign() <= 0 {
			break
		}
		if c.rem.Sign() <= 0 || !pick(c) {
			continue
		}
		t := new(big.Int).Set(c.rem)
		if t.Cmp(need) > 0 {
			t.Set(need)
		}
		c.rem.Sub(c.rem, t)
		need.Sub(need, t)
		took.Add(took, t)
	}
	return took
}

func (o *c11Oracle) block() {
	ob := &o.obs
	H := ob.H
	matPrev, rawPrev := o.options(ob.PrevDump)
	matCur, rawCur := o.options(ob.CurDump)
	mat := matPrev
	if matCur < mat {
		mat = matCur
	}
	if matPrev != matCur {
		o.matChanges++
	}

	frPrev, frCur := c11Freezes(ob.Prev), c11Freezes(ob.Cur)
	frozen := map[string]bool{}    // frozen for the whole block
	penaltyOK := map[string]bool{} // byzantine-fault freeze record written in this block
	for v, c := range frCur {
		p := frPrev[v]
		if p != nil && !p.released && p.raw == c.raw {
			frozen[v] = true
			o.frozenSeen[v] = true
		}
		if (p == nil || p.raw != c.raw) && !c.released && c.status == evidence.BYZANTINE_FAULT {
			penaltyOK[v] = true
		}
	}
	valPrev, valCur := c11Validators(ob.Prev), c11Validators(ob.Cur)
	{
		ks := map[string]bool{}
		for _, t := range ob.Txs {
			if t.Tx != nil && t.Res.Code == 0 && (t.Tx.Type == action.STAKE || t.Tx.Type == action.UNSTAKE || t.Tx.Type == action.WITHDRAW) {
				ks[t.Tx.Type.String()] = true
			}
		}
		if len(penaltyOK) > 0 {
			ks["verdict"] = true
		}
		var l []string
		for k := range ks {
			l = append(l, k)
		}
		sort.Strings(l)
		o.kinds = strings.Join(l, "+")
		if o.kinds == "" {
			o.kinds = "none"
		}
	}
	freezeName := func(v string) string {
		switch frPrev[v].status {
		case evidence.MISSED_REQUIRED_VOTES:
			return "missed-votes-freeze"
		case evidence.BYZANTINE_FAULT:
			return "byzantine-freeze"
		}
		return "other-freeze"
	}

	// transactions that may rewrite options (anything the oracle does not model) when the options changed
	if rawPrev != rawCur {
		others := 0
		for _, t := range ob.Txs {
			if t.Res.Code != 0 || t.Tx == nil {
				continue
			}
			switch t.Tx.Type {
			case action.STAKE, action.UNSTAKE, action.WITHDRAW, action.SEND, action.ALLEGATION, action.ALLEGATION_VOTE, action.RELEASE:
			default:
				others++
			}
		}
		if others >= 2 && mat > 0 {
			mat = 0
		}
	}

	exp := map[string]*big.Int{} // expected OLT balance change per account (nue)
	addExp := func(a string, x *big.Int) {
		if exp[a] == nil {
			exp[a] = new(big.Int)
		}
		exp[a].Add(exp[a], x)
	}
	// block hooks (internal governance transactions, maturing network delegations, expiring bids, ...)
	// move balances without a transaction; every one of them also rewrites a record outside these
	// families, and then the payout of this block cannot be accounted for exactly
	payoutClean := !c11ForeignChange(ob.PrevDump, ob.CurDump)
	withdrew := map[string]bool{}
	perDeleg := map[string]int{}
	unstakedNow := map[string]bool{}

	for i, t := range ob.Txs {
		if t.Tx == nil {
			if t.Res.Code == 0 {
				payoutClean = false
			}
			continue
		}
		hash := sha256.Sum256(t.Bytes)
		first, dup := o.seen[hash]
		if !dup {
			o.seen[hash] = H
		}
		dupEarlier := dup && first < H
		typ := t.Tx.Type
		stakingKind := typ == action.STAKE || typ == action.UNSTAKE || typ == action.WITHDRAW
		if t.Res.Code != 0 {
			if stakingKind {
				if op := c11DecodeOp(t.Tx); op != nil && frozen[op.val] && typ != action.STAKE {
					o.refused++
				}
			}
			continue
		}
		if dupEarlier {
			if stakingKind {
				o.blind = true
				return
			}
			payoutClean = false
			continue
		}
		// fee of a successful transaction
		payer, ok := c11FirstSigner(t.Tx)
		if !ok || t.Tx.Fee.Price.Currency != "OLT" {
			payoutClean = false
		}
		fee := new(big.Int).Mul(big.NewInt(t.Res.GasUsed), t.Tx.Fee.Price.Value.BigInt())
		switch typ {
		case action.ALLEGATION, action.ALLEGATION_VOTE, action.RELEASE:
			// the stake account of the signing validator pays
			pv, cv := valPrev[payer], valCur[payer]
			if pv == nil || cv == nil || pv.stakeAddr != cv.stakeAddr {
				payoutClean = false
			} else {
				addExp(pv.stakeAddr, new(big.Int).Neg(fee))
			}
			continue
		case action.SEND:
			m := &transfer.Send{}
			if m.Unmarshal(t.Tx.Data) != nil {
				payoutClean = false
				continue
			}
			addExp(payer, new(big.Int).Neg(fee))
			if m.Amount.Currency == "OLT" {
				addExp(m.From.String(), new(big.Int).Neg(m.Amount.Value.BigInt()))
				addExp(m.To.String(), new(big.Int).Set(m.Amount.Value.BigInt()))
			}
			continue
		case action.STAKE, action.UNSTAKE, action.WITHDRAW:
			addExp(payer, new(big.Int).Neg(fee))
		default:
			payoutClean = false
			continue
		}

		op := c11DecodeOp(t.Tx)
		if op == nil {
			panic(core.HarnessError{Msg: fmt.Sprintf("C11: successful %s transaction #%d cannot be modelled (undecodable)", typ, i)})
		}
		if op.cur != "OLT" {
			// the stake records, the maturity queue and the withdrawable pool count whole OLT; an operation named
			// in another currency that succeeds is booked 1:1 into them, so "withdrawn <= staked" compares amounts of
			// different currencies from here on. Reported at once; the model cannot follow the run any further.
			o.viol("stake-in-olt", "staking-op-in-foreign-currency", typ.String(),
				"tx #%d %s of %s %s by delegator %s with validator %s succeeded: stake records count OLT, so an amount of another currency became (or released) the same number of OLT of stake", i, typ, op.x, op.cur, op.del, op.val)
			o.blind = true
			return
		}
		dg := o.deleg(op.del)
		nue := new(big.Int).Mul(op.x, c11E18)
		o.pairs[op.val+"/"+op.del] = true
		switch typ {
		case action.STAKE:
			o.stakeOK++
			l := o.lockedOf(op.val, op.del)
			l.Add(l, op.x)
			dg.staked.Add(dg.staked, op.x)
			addExp(op.del, new(big.Int).Neg(nue))

		case action.UNSTAKE:
			o.unstakeOK++
			perDeleg[op.del]++
			unstakedNow[op.del] = true
			if frozen[op.val] {
				o.viol("frozen-validator", "unstake-while-frozen", freezeName(op.val),
					"UNSTAKE #%d of %s OLT by %s from validator %s returned code 0, but the validator is frozen: the same unreleased freeze record (status %d, frozen at height %d) is in the dumps of blocks %d and %d",
					i, op.x, op.del, op.val, frPrev[op.val].status, frPrev[op.val].height, H-1, H)
			}
			l := o.lockedOf(op.val, op.del)
			if l.Cmp(op.x) < 0 {
				o.viol("unstake-needs-locked", "unstake-exceeds-locked", "UNSTAKE",
					"UNSTAKE #%d of %s OLT by %s from validator %s returned code 0, but the delegator has only %s OLT locked with this validator (staked minus unstaked minus penalties so far)",
					i, op.x, op.del, op.val, l)
			}
			l.Sub(l, op.x)
			dg.unstaked.Add(dg.unstaked, op.x)
			dg.chunks = append(dg.chunks, &c11Chunk{amt: new(big.Int).Set(op.x), rem: new(big.Int).Set(op.x), val: op.val, at: H, due: H + mat})

		case action.WITHDRAW:
			o.withdrawOK++
			perDeleg[op.del]++
			withdrew[op.del] = true
			addExp(op.del, nue)
			if frozen[op.val] {
				o.viol("frozen-validator", "withdraw-while-frozen", freezeName(op.val),
					"WITHDRAW #%d of %s OLT by %s naming validator %s returned code 0, but the validator is frozen: the same unreleased freeze record (status %d, frozen at height %d) is in the dumps of blocks %d and %d",
					i, op.x, op.del, op.val, frPrev[op.val].status, frPrev[op.val].height, H-1, H)
			}
			matured := dg.remaining(H - 1)
			all := dg.remaining(-1)
			need := new(big.Int).Set(op.x)
			c11Take(dg, need, func(c *c11Chunk) bool { return c.due <= H-1 })
			early := c11Take(dg, need, func(c *c11Chunk) bool { return true })
			dg.withdrawn.Add(dg.withdrawn, op.x)
			if early.Sign() > 0 || need.Sign() > 0 {
				class := "withdraw-before-maturity"
				if need.Sign() > 0 {
					class = "withdraw-never-unstaked"
				}
				o.viol("withdraw-needs-maturity", class, "WITHDRAW",
					"WITHDRAW #%d of %s OLT by %s (naming validator %s) returned code 0, but only %s OLT of this delegator are unstaked and matured at the start of block %d (unstaked and not yet withdrawn, matured or not: %s OLT; chunks: %s)",
					i, op.x, op.del, op.val, matured, H, all, o.chunkStr(dg))
			}
			// per origin validator: may this withdrawal have been paid without touching amounts unstaked
			// from a validator that is frozen now? (most favourable assignment, see the head comment)
			origins := map[string]bool{}
			for _, c := range dg.chunks {
				if c.val != "" {
					origins[c.val] = true
				}
			}
			ol := make([]string, 0, len(origins))
			for v := range origins {
				ol = append(ol, v)
			}
			sort.Strings(ol)
			for _, v := range ol {
				inV, inN := new(big.Int), new(big.Int)
				for _, c := range dg.chunks {
					if c.due > H-1 {
						continue
					}
					if c.val == v {
						inV.Add(inV, c.amt)
					} else {
						inN.Add(inN, c.amt)
					}
				}
				if dg.usedV[v] == nil {
					dg.usedV[v], dg.usedN[v] = new(big.Int), new(big.Int)
				}
				availV := new(big.Int).Sub(inV, dg.usedV[v])
				availN := new(big.Int).Sub(inN, dg.usedN[v])
				if availV.Sign() < 0 {
					availV.SetInt64(0)
				}
				if availN.Sign() < 0 {
					availN.SetInt64(0)
				}
				if !frozen[v] {
					t := new(big.Int).Set(op.x)
					if t.Cmp(availV) > 0 {
						t.Set(availV)
					}
					dg.usedV[v].Add(dg.usedV[v], t)
					dg.usedN[v].Add(dg.usedN[v], new(big.Int).Sub(op.x, t))
					continue
				}
				if op.x.Cmp(availN) <= 0 {
					dg.usedN[v].Add(dg.usedN[v], op.x)
					continue
				}
				excess := new(big.Int).Sub(op.x, availN)
				dg.usedN[v].Add(dg.usedN[v], availN)
				dg.usedV[v].Add(dg.usedV[v], excess)
				if v == op.val {
					continue // reported as withdraw-while-frozen
				}
				how := "named-other-validator"
				if valPrev[op.val] == nil && valCur[op.val] == nil {
					how = "named-unknown-validator"
				}
				o.viol("frozen-validator", "withdraw-drains-frozen-validator", how,
					"WITHDRAW #%d of %s OLT by %s (naming validator %s) returned code 0 while validator %s is frozen (same unreleased freeze record, status %d, frozen at height %d, in the dumps of blocks %d and %d): even if every earlier withdrawal of this delegator made while %s was not frozen is booked against the amounts it unstaked from %s, its matured amounts of any other origin cover only %s OLT of this withdrawal; the other %s OLT are amounts unstaked from the frozen validator (matured from it so far: %s OLT, from elsewhere: %s OLT)",
					i, op.x, op.del, op.val, v, frPrev[v].status, frPrev[v].height, H-1, H, c11Short(v), c11Short(v), availN, excess, inV, inN)
			}
			bound := new(big.Int).Sub(dg.staked, dg.penalties)
			if dg.withdrawn.Cmp(bound) > 0 {
				o.viol("withdrawn-bounded", "withdrawn-exceeds-staked", "WITHDRAW",
					"after WITHDRAW #%d delegator %s has withdrawn %s OLT in total, but staked %s OLT (genesis included) and lost %s OLT in penalties",
					i, op.del, dg.withdrawn, dg.staked, dg.penalties)
			}
		}
	}
	for _, n := range perDeleg {
		if n >= 2 {
			o.sameBlock++
			break
		}
	}

	// ---- end of block: locked amounts against the dump; penalties ------------------------------------
	cur := ob.Cur
	type pair struct{ v, d string }
	var ps []pair
	seenPair := map[pair]bool{}
	for v, m := range o.locked {
		for d := range m {
			if !seenPair[pair{v, d}] {
				seenPair[pair{v, d}] = true
				ps = append(ps, pair{v, d})
			}
		}
	}
	for v, m := range cur.StakeVD {
		for d := range m {
			if !seenPair[pair{v, d}] {
				seenPair[pair{v, d}] = true
				ps = append(ps, pair{v, d})
			}
		}
	}
	sort.Slice(ps, func(i, j int) bool {
		if ps[i].v != ps[j].v {
			return ps[i].v < ps[j].v
		}
		return ps[i].d < ps[j].d
	})
	penalty := map[string]*big.Int{}
	for _, p := range ps {
		m := o.lockedOf(p.v, p.d)
		s := new(big.Int)
		if x, ok := cur.StakeVD[p.v][p.d]; ok {
			s = x
		}
		switch c := s.Cmp(m); {
		case c > 0:
			o.viol("locked-backed-by-stake", "locked-without-stake", o.kinds,
				"record st__e_%s_%s holds %s OLT, but the successful STAKE/UNSTAKE transactions and penalties of this delegator and validator so far leave %s OLT locked", p.v, p.d, s, m)
		case c < 0:
			diff := new(big.Int).Sub(m, s)
			dg := o.deleg(p.d)
			dg.penalties.Add(dg.penalties, diff)
			if penaltyOK[p.v] {
				o.penalised++
				if penalty[p.v] == nil {
					penalty[p.v] = new(big.Int)
				}
				penalty[p.v].Add(penalty[p.v], diff)
			} else {
				o.losses++
			}
			m.Set(s)
		}
	}
	o.verdicts += len(penaltyOK)
	o.consistency(penalty)

	// ---- unlocking and withdrawable amounts ------------------------------------------------------------
	unlocking := map[string]*big.Int{}
	for _, m := range cur.StakeMature {
		for d, x := range m {
			if unlocking[d] == nil {
				unlocking[d] = new(big.Int)
			}
			unlocking[d].Add(unlocking[d], x)
		}
	}
	dset := map[string]bool{}
	for d := range o.dg {
		dset[d] = true
	}
	for d := range cur.StakeFree {
		dset[d] = true
	}
	for d := range unlocking {
		dset[d] = true
	}
	dl := make([]string, 0, len(dset))
	for d := range dset {
		dl = append(dl, d)
	}
	sort.Strings(dl)
	for _, d := range dl {
		dg := o.deleg(d)
		free := c11Get(cur.StakeFree, d)
		unl := c11Get(unlocking, d)
		maturedNow := dg.remaining(H)
		if free.Cmp(maturedNow) > 0 {
			o.viol("not-before-maturity", "withdrawable-before-maturity", o.kinds,
				"st__d_b_%s (withdrawable) holds %s OLT after block %d, but only %s OLT of this delegator are unstaked, due at or before height %d and not yet withdrawn (maturity option %d before / %d after this block; chunks: %s)",
				d, free, H, maturedNow, H, matPrev, matCur, o.chunkStr(dg))
		}
		total := new(big.Int).Add(free, unl)
		all := dg.remaining(-1)
		switch c := total.Cmp(all); {
		case c > 0:
			o.viol("unlock-exactly-once", "unlocking-duplicated", o.kinds,
				"delegator %s: unlocking (sum over st__m_*) %s OLT + withdrawable (st__d_b_) %s OLT = %s OLT, but unstaked and not yet withdrawn are only %s OLT (ever unstaked %s, ever withdrawn %s; chunks: %s)",
				d, unl, free, total, all, dg.unstaked, dg.withdrawn, o.chunkStr(dg))
		case c < 0:
			// loss of unlocking / withdrawable amounts: not this property's subject; the model follows
			loss := new(big.Int).Sub(all, total)
			dg.penalties.Add(dg.penalties, loss)
			o.losses++
			for i := len(dg.chunks) - 1; i >= 0 && loss.Sign() > 0; i-- {
				c := dg.chunks[i]
				t := new(big.Int).Set(c.rem)
				if t.Cmp(loss) > 0 {
					t.Set(loss)
				}
				c.rem.Sub(c.rem, t)
				loss.Sub(loss, t)
			}
		}
		for _, c := range dg.chunks {
			if c.at > 0 && c.due == H {
				o.crossings++
				if unstakedNow[d] && c.at < H {
					o.unstakeDue++
				}
			}
		}
	}

	// ---- payout ------------------------------------------------------------------------------------------
	if len(withdrew) > 0 {
		ws := make([]string, 0, len(withdrew))
		for d := range withdrew {
			ws = append(ws, d)
		}
		sort.Strings(ws)
		for _, d := range ws {
			pending := false
			for _, m := range ob.Prev.DelegPending {
				if x, ok := m[d]; ok && x.Sign() != 0 {
					pending = true
				}
			}
			for _, m := range ob.Prev.DelegRwPending {
				if x, ok := m[d]; ok && x.Sign() != 0 {
					pending = true
				}
			}
			if !payoutClean || pending {
				o.payoutSkip++
				continue
			}
			o.payoutChk++
			before := c11Get(ob.Prev.Bal[d], "OLT")
			after := c11Get(cur.Bal[d], "OLT")
			got := new(big.Int).Sub(after, before)
			want := c11Get(exp, d)
			if got.Cmp(want) != 0 {
				o.viol("withdraw-payout", "withdraw-payout-mismatch", "WITHDRAW",
					"OLT balance of %s changed by %s nue (%s -> %s); its successful withdrawals, stakes, transfers and the fees it paid in this block (gas used x fee price) add up to %s nue (difference %s nue)",
					d, got, before, after, want, new(big.Int).Sub(got, want))
			}
		}
	}
}

// c11ForeignChange reports whether any record outside the families that staking, evidence and transfer
// transactions, fees and block rewards write was created, changed or deleted between two dumps.
func c11ForeignChange(prev, cur map[string][]byte) bool {
	own := func(k string) bool {
		for _, f := range []string{"b_", "f_", "st_", "v_", "purged_", "es_", "rwz_", "ri_", "rwaddr_", "rwcum_"} {
			if strings.HasPrefix(k, f) {
				return true
			}
		}
		return false
	}
	for k, v := range cur {
		if own(k) {
			continue
		}
		if pv, ok := prev[k]; !ok || string(pv) != string(v) {
			return true
		}
	}
	for k := range prev {
		if own(k) {
			continue
		}
		if _, ok := cur[k]; !ok {
			return true
		}
	}
	return false
}

func (o *c11Oracle) chunkStr(d *c11Deleg) string {
	var parts []string
	for _, c := range d.chunks {
		v := c11Short(c.val)
		if v == "" {
			v = "genesis"
		}
		parts = append(parts, fmt.Sprintf("%s/%s from %s unstaked@%d due@%d", c.rem, c.amt, v, c.at, c.due))
	}
	if len(parts) > 8 {
		parts = append(parts[:8], "...")
	}
	return "[" + strings.Join(parts, "; ") + "]"
}

// consistency checks the three bookkeeping equalities on the current dump. penalty[v] is what a verdict
// took from validator v in this very block (the validator record follows one block later).
func (o *c11Oracle) consistency(penalty map[string]*big.Int) {
	cur := o.obs.Cur
	sumV := map[string]*big.Int{}
	sumD := map[string]*big.Int{}
	for v, m := range cur.StakeVD {
		for d, x := range m {
			if sumV[v] == nil {
				sumV[v] = new(big.Int)
			}
			if sumD[d] == nil {
				sumD[d] = new(big.Int)
			}
			sumV[v].Add(sumV[v], x)
			sumD[d].Add(sumD[d], x)
		}
	}
	union := func(a, b map[string]*big.Int) []string {
		set := map[string]bool{}
		for k := range a {
			set[k] = true
		}
		for k := range b {
			set[k] = true
		}
		ks := make([]string, 0, len(set))
		for k := range set {
			ks = append(ks, k)
		}
		sort.Strings(ks)
		return ks
	}
	for _, v := range union(sumV, cur.StakeValTotal) {
		t, s := c11Get(cur.StakeValTotal, v), c11Get(sumV, v)
		if t.Cmp(s) != 0 {
			o.viol("validator-total", "validator-total-mismatch", o.kinds,
				"st__t_%s (stake recorded for the validator) = %s OLT, the locked amounts of its delegators (st__e_%s_*) add up to %s OLT: %s", v, t, v, s, mapStr(cur.StakeVD[v]))
		}
	}
	for _, d := range union(sumD, cur.StakeLocked) {
		t, s := c11Get(cur.StakeLocked, d), c11Get(sumD, d)
		if t.Cmp(s) != 0 {
			o.viol("delegator-total", "delegator-total-mismatch", o.kinds,
				"st__d_e_%s (locked amount recorded for the delegator) = %s OLT, its locked amounts per validator (st__e_*_%s) add up to %s OLT", d, t, d, s)
		}
	}
	vals := c11Validators(cur)
	rec := map[string]*big.Int{}
	for v, r := range vals {
		rec[v] = r.staking
	}
	for _, v := range union(rec, cur.StakeValTotal) {
		want := new(big.Int).Add(c11Get(cur.StakeValTotal, v), c11Get(penalty, v))
		got := c11Get(rec, v)
		if got.Cmp(want) != 0 {
			state := "present"
			label := "record-differs"
			if vals[v] == nil {
				state = "ABSENT"
				label = "record-absent"
			}
			o.viol("validator-record", "validator-record-mismatch", label,
				"validator record v_<%s> (%s) has Staking = %s OLT, but st__t_%s = %s OLT (+ %s OLT penalty taken in this block, which the record may follow one block later)",
				v, state, got, v, c11Get(cur.StakeValTotal, v), c11Get(penalty, v))
		}
	}
}

func mapStr(m map[string]*big.Int) string {
	ks := make([]string, 0, len(m))
	for k := range m {
		ks = append(ks, k)
	}
	sort.Strings(ks)
	var b strings.Builder
	for _, k := range ks {
		fmt.Fprintf(&b, "%s=%s ", k, m[k])
	}
	return "{" + strings.TrimSpace(b.String()) + "}"
}

func (o *c11Oracle) Finish(e *core.Engine) []core.Violation { return nil }

// NonTrivial: the run exercised the whole life cycle at least once: an amount unstaked during the run
// reached its due height, a WITHDRAW succeeded, >= 2 UNSTAKE succeeded, >= 2 different
// (validator, delegator) pairs were used and >= 10 blocks were checked.
func (o *c11Oracle) NonTrivial(e *core.Engine) bool {
	p := e.Stats.Probes
	p["c11:stake_ok"] += o.stakeOK
	p["c11:unstake_ok"] += o.unstakeOK
	p["c11:withdraw_ok"] += o.withdrawOK
	p["c11:due_heights_reached"] += o.crossings
	p["c11:byzantine_freeze_records_written"] += o.verdicts
	p["c11:penalties_observed"] += o.penalised
	p["c11:refused_while_frozen"] += o.refused
	p["c11:maturity_option_changes"] += o.matChanges
	p["c11:payout_checked"] += o.payoutChk
	p["c11:payout_skipped"] += o.payoutSkip
	p["c11:unexplained_losses"] += o.losses
	p["c11:blocks_with_repeated_unstake_withdraw"] += o.sameBlock
	p["c11:unstake_in_block_of_a_maturity"] += o.unstakeDue
	if len(o.frozenSeen) > 0 {
		p["c11:runs_with_frozen_validator"]++
	}
	if o.penalised > 0 {
		p["c11:runs_with_penalty"]++
	}
	perD := map[string]int{}
	changed := false
	for _, m := range o.locked {
		if len(m) >= 2 {
			changed = true
		}
		for d := range m {
			perD[d]++
		}
	}
	if changed {
		p["c11:runs_with_two_delegators_of_one_validator"]++
	}
	for _, n := range perD {
		if n >= 2 {
			p["c11:runs_with_one_delegator_of_two_validators"]++
			break
		}
	}
	if o.refused > 0 {
		p["c11:runs_with_refusal_while_frozen"]++
	}
	if o.blind {
		p["c11:runs_blinded_by_cached_duplicate"]++
	}
	for c, n := range o.muted {
		p["c11:muted:"+c] += n
	}
	return o.blocks >= 10 && o.crossings >= 1 && o.withdrawOK >= 1 && o.unstakeOK >= 2 && len(o.pairs) >= 2
}

func init() {
	Register(&ClusterProp{
		Id: "C11",
		RuleText: "each run: one real replica executes a PRNG-built history of 28-50 blocks made by a state-aware staking client (c11-staking: stake, top-up, unstake small/half/all/too much, withdraw part/all/too much/premature, " +
			"two unstakes or withdrawals of one delegator in a block, one stake address for several validators, change of the stake address, UNSTAKE/WITHDRAW naming a frozen validator, WITHDRAW of a frozen validator's delegator naming another or a non-existent validator) " +
			"together with the generators evidence (allegations, votes, verdicts with penalty, releases), send, in a third of the runs staking and in half of the runs gov (option updates incl. staking maturity); maturity option 1-6 per run, validator release time 0 in half of the runs, absent signers (missed-votes freezes). " +
			"After every commit the state is dumped and decoded; an own model per (validator, delegator) of locked amounts and per delegator of unstaked chunks (amount, origin validator, due height = unstake height + maturity option in force) is advanced from the decoded successful STAKE/UNSTAKE/WITHDRAW transactions, " +
			"the maturity option of the dumps and freeze records. Oracles: st__t_ == sum st__e_; st__d_e_ == sum st__e_; validator record Staking == st__t_ (+ this block's verdict penalty); locked never above the model; UNSTAKE <= locked; WITHDRAW <= unstaked-and-matured; withdrawn <= staked - penalties; " +
			"no UNSTAKE/WITHDRAW naming a validator frozen throughout the block, and the withdrawals made while a validator is frozen must be coverable by matured amounts not unstaked from it (most favourable assignment); st__d_b_ <= matured remainder; st__m_ + st__d_b_ <= unstaked remainder; exact balance change of withdrawing accounts in fully accountable blocks. " +
			"Non-trivial: >=10 blocks, >=1 chunk unstaked in the run reached its due height, >=1 successful WITHDRAW, >=2 successful UNSTAKE, >=2 (validator, delegator) pairs; distinct = distinct fingerprints.",
		MakeSetup: func(rng *rand.Rand, tier string, seed uint64) *Setup {
			k := SwarmKnobs(rng)
			k.NumValidators = 5 + rng.Intn(3)
			k.NumWitnesses = rng.Intn(3)
			k.NumCandidates = 2 + rng.Intn(3)
			k.NumUsers = 3 + rng.Intn(3)
			k.NumEthUsers = 1
			k.MaturityTime = int64(1 + rng.Intn(6))
			k.GenesisMature = rng.Intn(4)
			if rng.Intn(2) == 0 {
				k.ReleaseTime = 0
			}
			su := &Setup{Knobs: k, Sess: gen.NewSession()}
			su.Replicas = append(su.Replicas, core.ReplicaConf{Identity: "x0", Quiet: true, Recent: 10, Every: 100, Cycles: 10, WitnessInitEarly: true})
			su.Gens = append(su.Gens, c11Gen{})
			su.Gens = append(su.Gens, gen.ByName("evidence", "send")...)
			if rng.Intn(3) == 0 {
				su.Gens = append(su.Gens, gen.ByName("staking")...)
			}
			if rng.Intn(2) == 0 {
				su.Gens = append(su.Gens, gen.ByName("gov")...)
			}
			su.Blocks = 28 + rng.Intn(23)
			if tier == "thorough" {
				su.Blocks = 40 + rng.Intn(50)
			}
			su.MaxTx = 14
			su.PlanHook = AbsentHook(0.04 + 0.08*rng.Float64())
			return su
		},
		MakeOracle: func(e *core.Engine, tr *core.Trace) Oracle { return &c11Oracle{} },
	})
}

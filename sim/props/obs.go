package props

import (
	"crypto/ed25519"
	"crypto/sha256"
	"crypto/sha512"
	"fmt"
	"math/big"
	"sort"
	"strings"

	ethcmn "github.com/ethereum/go-ethereum/common"
	ethtypes "github.com/ethereum/go-ethereum/core/types"
	ethcrypto "github.com/ethereum/go-ethereum/crypto"
	tmed "github.com/tendermint/tendermint/crypto/ed25519"
	tmsecp "github.com/tendermint/tendermint/crypto/secp256k1"
	dbm "github.com/tendermint/tm-db"

	"github.com/Oneledger/protocol/action"
	"github.com/Oneledger/protocol/action/olvm"
	"github.com/Oneledger/protocol/data/balance"
	"github.com/Oneledger/protocol/data/governance"
	"github.com/Oneledger/protocol/data/keys"
	"github.com/Oneledger/protocol/data/rewards"
	"github.com/Oneledger/protocol/storage"
	"github.com/Oneledger/protocol/utils"

	"olsim/core"
	"olsim/ledger"
)

// Obs caches what the reference replica committed: dump and decoded ledger of the last two heights.
type Obs struct {
	H        int64
	PrevDump map[string][]byte
	CurDump  map[string][]byte
	Prev     *ledger.Ledger
	Cur      *ledger.Ledger
	// block H as the reference executed it
	Att *core.BlockAttempt
	Txs []*ObsTx
}

// ObsTx is one delivered transaction with harness-side facts.
type ObsTx struct {
	Bytes   []byte
	Tx      *action.SignedTx // nil if unparseable
	Res     core.TxRes
	Label   string         // generator intent label recorded in the trace ("" if unknown)
	Signers []keys.Address // addresses whose signature over the raw bytes VERIFIES (harness-side check)
}

// Update refreshes the observation after a block step. Returns false if nothing new was committed.
func (o *Obs) Update(e *core.Engine, st *core.Step) bool {
	ref := e.C.Ref()
	h := e.C.Height()
	att := ref.Tr.Committed(h)
	if att == nil || (o.CurDump != nil && h == o.H) {
		return false
	}
	o.PrevDump, o.Prev = o.CurDump, o.Cur
	o.CurDump = ref.DumpMap()
	o.Cur = ledger.Decode(o.CurDump)
	o.H = h
	o.Att = att
	o.Txs = nil
	for i, tb := range att.TxBytes {
		ot := &ObsTx{Bytes: tb, Tx: core.DecodeTx(tb), Res: att.Txs[i]}
		if ot.Tx != nil {
			ot.Signers = VerifiedSigners(ot.Tx, e.W.ChainID)
		}
		if st != nil && i < len(st.Labels) && len(st.Labels) == len(st.Txs) {
			ot.Label = st.Labels[i]
		}
		o.Txs = append(o.Txs, ot)
	}
	return true
}

// InitGenesis records the state right after InitChain (before block 1) as the baseline.
func (o *Obs) InitGenesis(e *core.Engine) {
	// InitChain writes are flushed to the working tree but only committed with block 1; the baseline is
	// therefore taken from the working tree right after boot.
	o.CurDump = e.C.Ref().DumpMap()
	o.Cur = ledger.Decode(o.CurDump)
	o.H = 0
}

// VerifiedSigners returns the addresses whose signatures on tx verify (harness-side notion of "signed").
func VerifiedSigners(tx *action.SignedTx, chainID string) []keys.Address {
	var out []keys.Address
	if tx.Type == action.OLVM {
		if a := olvmSender(tx, chainID); a != nil {
			out = append(out, a)
		}
		return out
	}
	msg := tx.RawBytes()
	for _, s := range tx.Signatures {
		if a := verifySig(s.Signer, msg, s.Signed); a != nil {
			out = append(out, a)
		}
	}
	return out
}

// verifySig is the harness's own signature check (the cryptographic libraries directly, none of the
// repository's key code): the address the key controls if the signature verifies, else nil. A key whose
// encoding is not exactly that of its algorithm controls nothing, and so does the bitcoin key type (no
// account address is derived from it).
func verifySig(pk keys.PublicKey, msg, sig []byte) keys.Address {
	switch pk.KeyType {
	case keys.ED25519:
		if len(pk.Data) != ed25519.PublicKeySize {
			return nil
		}
		if len(sig) == 6+ed25519.SignatureSize {
			// hardware-wallet format: exact 6-byte tag naming the hash, then the signature over the hashed message
			switch string(sig[:6]) {
			case "SHA224":
				x := sha256.Sum224(msg)
				msg = x[:]
			case "SHA256":
				x := sha256.Sum256(msg)
				msg = x[:]
			case "SHA384":
				x := sha512.Sum384(msg)
				msg = x[:]
			case "SHA512":
				x := sha512.Sum512(msg)
				msg = x[:]
			default:
				return nil
			}
			sig = sig[6:]
		}
		if len(sig) != ed25519.SignatureSize || !ed25519.Verify(ed25519.PublicKey(pk.Data), msg, sig) {
			return nil
		}
		var k tmed.PubKeyEd25519
		copy(k[:], pk.Data)
		return keys.Address(k.Address().Bytes())
	case keys.SECP256K1:
		if len(pk.Data) != tmsecp.PubKeySecp256k1Size {
			return nil
		}
		var k tmsecp.PubKeySecp256k1
		copy(k[:], pk.Data)
		if !k.VerifyBytes(msg, sig) {
			return nil
		}
		return keys.Address(k.Address().Bytes())
	case keys.ETHSECP:
		if len(msg) != 32 || len(pk.Data) != 33 || (len(sig) != 64 && len(sig) != 65) {
			return nil // go-ethereum verifies 32-byte digests only: such a key cannot sign a native transaction
		}
		pub, err := ethcrypto.DecompressPubkey(pk.Data)
		if err != nil || !ethcrypto.VerifySignature(pk.Data, msg, sig[:64]) {
			return nil
		}
		return keys.Address(ethcrypto.PubkeyToAddress(*pub).Bytes())
	}
	return nil
}

func olvmSender(stx *action.SignedTx, chainID string) (addr keys.Address) {
	defer func() {
		if recover() != nil {
			addr = nil
		}
	}()
	if len(stx.Signatures) != 1 {
		return nil
	}
	tx := &olvm.Transaction{}
	if err := tx.Unmarshal(stx.Data); err != nil {
		return nil
	}
	var to *ethcmn.Address
	if tx.To != nil {
		a := ethcmn.BytesToAddress(tx.To.Bytes())
		to = &a
	}
	ethTx := ethtypes.NewTx(&ethtypes.LegacyTx{Nonce: tx.Nonce, To: to, Value: tx.Amount.Value.BigInt(), Gas: uint64(stx.Fee.Gas),
		GasPrice: stx.Fee.Price.Value.BigInt(), Data: tx.Data})
	signer := ethtypes.NewEIP155Signer(utils.HashToBigInt(chainID))
	signed, err := ethTx.WithSignature(signer, stx.Signatures[0].Signed)
	if err != nil {
		return nil
	}
	a, err := signer.Sender(signed)
	if err != nil {
		return nil
	}
	return keys.Address(a.Bytes())
}

// ObservePulled obtains the amount pulled for block h by calling the repository's real PullRewards on a
// throw-away store loaded with the committed reward and governance records of height h-1 (prevDump),
// the replica's block store (which already holds block h) and the rewards-pool balance of h-1.
// The property fixes relations of this amount to other things, not its formula, so it is observed.
func ObservePulled(prevDump map[string][]byte, ref *core.Replica, h int64) (pulled *big.Int, err error) {
	defer func() {
		if rec := recover(); rec != nil {
			err = fmt.Errorf("panic in PullRewards: %v", rec)
		}
	}()
	db := dbm.NewMemDB()
	cs := storage.NewChainState("pulled", db)
	st := storage.NewState(cs)
	ks := make([]string, 0, len(prevDump))
	for k := range prevDump {
		if strings.HasPrefix(k, "rwcum_") || strings.HasPrefix(k, "g_") {
			ks = append(ks, k)
		}
	}
	sort.Strings(ks)
	for _, k := range ks {
		st.Set(storage.StoreKey(k), prevDump[k])
	}
	st.Commit()
	st = storage.NewState(cs)
	gov := governance.NewStore("g", st)
	opts, err := gov.GetRewardOptions()
	if err != nil {
		return nil, err
	}
	rm := rewards.NewRewardMasterStore(rewards.NewRewardStore("rwz", "ri", "rwaddr", st), rewards.NewRewardCumulativeStore("rwcum", st))
	rm.SetOptions(opts)
	rm.RewardCm.Init(ref.BlockStore)
	pool := new(big.Int)
	poolKey := "b_" + keys.Address(opts.RewardPoolAddress).String() + "_OLT"
	if v, ok := prevDump[poolKey]; ok {
		l := ledger.Decode(map[string][]byte{poolKey: v})
		for _, m := range l.Bal {
			if x, ok := m["OLT"]; ok {
				pool = x
			}
		}
	}
	amt, err := rm.RewardCm.PullRewards(h, balance.NewAmountFromBigInt(pool))
	if err != nil {
		return nil, err
	}
	return new(big.Int).Set(amt.BigInt()), nil
}

// AddrKey is the textual form of an address in ledger maps.
func AddrKey(a keys.Address) string { return a.String() }

// SuspectSig builds the label part of a violation signature: the sorted, de-duplicated intent labels
// of the adversarial transactions (label contains '/') that succeeded in the block; if there is none,
// the kinds of all successful transactions ("honest:KIND+KIND"); "block-hooks" for an empty block.
func (o *Obs) SuspectSig() string {
	adv := map[string]bool{}
	honest := map[string]bool{}
	for _, t := range o.Txs {
		if t.Res.Code != 0 {
			continue
		}
		if strings.Contains(t.Label, "/") {
			adv[t.Label] = true
		} else if t.Tx != nil {
			honest[t.Tx.Type.String()] = true
		} else {
			honest["UNPARSEABLE"] = true
		}
	}
	join := func(m map[string]bool) string {
		ks := make([]string, 0, len(m))
		for k := range m {
			ks = append(ks, k)
		}
		sort.Strings(ks)
		if len(ks) > 4 {
			ks = append(ks[:4], "more")
		}
		return strings.Join(ks, "+")
	}
	if len(adv) > 0 {
		return join(adv)
	}
	if len(honest) > 0 {
		return "honest:" + join(honest)
	}
	return "block-hooks"
}

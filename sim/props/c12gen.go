package props

import (
	"math/big"

	"github.com/Oneledger/protocol/action"
	ndact "github.com/Oneledger/protocol/action/network_delegation"
	"github.com/Oneledger/protocol/action/transfer"
	"github.com/Oneledger/protocol/data/keys"
	nddata "github.com/Oneledger/protocol/data/network_delegation"

	"olsim/core"
	"olsim/gen"
)

// c12Gen is the workload of the C12 profile (not registered in the swarm): the first NDeleg users are
// delegators with large delegations (so that the delegators' share of the block reward is large), the
// other users are bystanders who send plain transfers and, in the donor sub-profile, donate to the pool.
type c12Gen struct {
	NDeleg     int
	Blocks     int
	Donors     bool
	DonateFrom int64
	QuietTail  bool // no new undelegations / reward withdrawals in the last 6 blocks
}

func (g *c12Gen) Name() string { return "c12-delegators" }

var c12E18 = new(big.Int).Exp(big.NewInt(10), big.NewInt(18), nil)

func c12Nue(olt int64) *big.Int { return new(big.Int).Mul(big.NewInt(olt), c12E18) }

func c12Pct(c *gen.Ctx, x *big.Int, lo, hi int) *big.Int {
	p := int64(lo + c.Rng.Intn(hi-lo+1))
	r := new(big.Int).Mul(x, big.NewInt(p))
	r.Div(r, big.NewInt(100))
	if r.Sign() == 0 && x.Sign() > 0 {
		r.SetInt64(1)
	}
	return r
}

func c12Memo(c *gen.Ctx) string {
	const letters = "abcdefghijklmnopqrstuvwxyz0123456789"
	b := make([]byte, 8)
	for i := range b {
		b[i] = letters[c.Rng.Intn(len(letters))]
	}
	return string(b)
}

type c12View struct {
	active, rewards, bal *big.Int
}

func c12Read(c *gen.Ctx, u *core.Account) (v c12View) {
	v = c12View{active: new(big.Int), rewards: new(big.Int), bal: new(big.Int)}
	defer func() { _ = recover() }()
	if c.Ref == nil || c.Ref.App == nil {
		return
	}
	st := c.Ref.ReadState()
	ms := nddata.NewMasterStore("deleg", "delegRwz", st)
	if coin, err := ms.Deleg.WithPrefix(nddata.ActiveType).Get(u.Addr); err == nil && coin != nil && coin.Amount != nil {
		v.active.Set(coin.Amount.BigInt())
	}
	if a, err := ms.Rewards.GetRewardsBalance(u.Addr); err == nil && a != nil {
		v.rewards.Set(a.BigInt())
	}
	v.bal = c.Ref.BalanceOf(u.Addr, "OLT")
	return
}

func (g *c12Gen) Gen(c *gen.Ctx) (out []gen.Tx) {
	defer func() {
		if rec := recover(); rec != nil {
			if _, ok := rec.(core.HarnessError); ok {
				panic(rec)
			}
			out = nil
		}
	}()
	users := c.W.Users
	nD := g.NDeleg
	if nD > len(users) {
		nD = len(users)
	}
	fee := core.DefaultFee()
	tx := func(msg action.Msg, f action.Fee, u *core.Account, kind string) {
		out = append(out, gen.Tx{Bytes: core.BuildTx(msg, f, c12Memo(c), u), Kind: kind})
	}
	addTx := func(u *core.Account, x *big.Int, kind string) {
		tx(&ndact.AddNetworkDelegation{DelegationAddress: u.Addr, Amount: core.OLT(x)}, fee, u, kind)
	}
	undTx := func(u *core.Account, x *big.Int, kind string) {
		tx(&ndact.Undelegate{Delegator: u.Addr, Amount: core.OLT(x)}, fee, u, kind)
	}
	wdTx := func(u *core.Account, x *big.Int, kind string) {
		tx(&ndact.Withdraw{Delegator: u.Addr, Amount: core.OLT(x)}, fee, u, kind)
	}
	riTx := func(u *core.Account, x *big.Int, kind string) {
		tx(&ndact.Reinvest{Delegator: u.Addr, Amount: core.OLT(x)}, fee, u, kind)
	}
	const (
		A = "ADD_NETWORK_DELEGATE"
		U = "NETWORK_UNDELEGATE"
		W = "REWARDS_WITHDRAW_NETWORK_DELEGATE"
		R = "REWARDS_REINVEST_NETWORK_DELEGATE"
	)
	tail := g.QuietTail && int(c.H) > g.Blocks-6
	for i := 0; i < nD; i++ {
		d := users[i]
		v := c12Read(c, d)
		bigAmt := func() *big.Int {
			x := new(big.Int).Add(c12Nue(1000000), new(big.Int).Rand(c.Rng, c12Nue(19000000)))
			if lim := new(big.Int).Div(v.bal, big.NewInt(3)); x.Cmp(lim) > 0 {
				x = lim
			}
			return x
		}
		if v.active.Sign() == 0 {
			if c.H <= 3 || c.Rng.Intn(2) == 0 {
				addTx(d, bigAmt(), A)
			}
			if v.rewards.Sign() > 0 && c.Rng.Intn(3) == 0 {
				if tail || c.Rng.Intn(2) == 0 {
					riTx(d, c12Pct(c, v.rewards, 10, 100), R)
				} else {
					wdTx(d, c12Pct(c, v.rewards, 10, 100), W)
				}
			}
			continue
		}
		if c.Rng.Intn(100) >= 55 {
			continue
		}
		x := c.Rng.Intn(100)
		if tail && x >= 10 && x < 83 {
			// quiet tail: only operations that create no new maturity
			if v.rewards.Sign() > 0 {
				x = 83 + c.Rng.Intn(12)
			} else {
				x = 0
			}
		}
		if v.rewards.Sign() == 0 && x >= 53 && x < 97 {
			if c.Rng.Intn(6) == 0 { // nothing accrued: must fail
				if c.Rng.Intn(2) == 0 {
					wdTx(d, big.NewInt(1+c.Rng.Int63n(1000)), W+"/no-rewards")
				} else {
					riTx(d, big.NewInt(1+c.Rng.Int63n(1000)), R+"/no-rewards")
				}
				continue
			}
			x = 10 + c.Rng.Intn(32)
		}
		switch {
		case x < 10:
			addTx(d, c12Pct(c, bigAmt(), 5, 40), A)
		case x < 28:
			undTx(d, c12Pct(c, v.active, 1, 60), U)
		case x < 34:
			undTx(d, v.active, U+"/all")
			if c.Rng.Intn(2) == 0 {
				addTx(d, bigAmt(), A+"/redelegate")
			}
		case x < 42:
			n := 2 + c.Rng.Intn(2)
			for j := 0; j < n; j++ {
				undTx(d, c12Pct(c, v.active, 5, 30), U+"/repeat")
			}
		case x < 45:
			undTx(d, new(big.Int).Add(v.active, big.NewInt(1)), U+"/too-much")
			if c.Rng.Intn(2) == 0 {
				undTx(d, c12Pct(c, v.active, 1, 50), U)
			}
		case x < 47:
			undTx(d, v.active, U+"/all-twice")
			undTx(d, v.active, U+"/all-twice")
		case x < 49:
			// the whole balance: the handler debits it, the fee cannot be paid, everything is dropped
			addTx(d, v.bal, A+"/all")
		case x < 51:
			// gas limit too low: the handler has already moved the amounts when the fee step fails
			f := fee
			f.Gas = int64(1 + c.Rng.Intn(40))
			tx(&ndact.Undelegate{Delegator: d.Addr, Amount: core.OLT(c12Pct(c, v.active, 1, 50))}, f, d, U+"/gas-too-low")
		case x < 53:
			if c.Rng.Intn(2) == 0 {
				undTx(d, new(big.Int), U+"/zero")
			} else {
				wdTx(d, new(big.Int), W+"/zero")
			}
		case x < 68:
			wdTx(d, c12Pct(c, v.rewards, 1, 90), W)
		case x < 73:
			wdTx(d, v.rewards, W+"/all")
		case x < 79:
			wdTx(d, c12Pct(c, v.rewards, 10, 45), W+"/repeat")
			wdTx(d, c12Pct(c, v.rewards, 10, 45), W+"/repeat")
		case x < 82:
			wdTx(d, v.rewards, W+"/all-twice")
			wdTx(d, v.rewards, W+"/all-twice")
		case x < 83:
			wdTx(d, new(big.Int).Add(new(big.Int).Mul(v.rewards, big.NewInt(3)), c12Nue(1)), W+"/too-much")
		case x < 91:
			riTx(d, c12Pct(c, v.rewards, 1, 90), R)
		case x < 94:
			riTx(d, v.rewards, R+"/all")
		case x < 95:
			riTx(d, new(big.Int).Add(new(big.Int).Mul(v.rewards, big.NewInt(3)), c12Nue(1)), R+"/too-much")
		case x < 97:
			wdTx(d, v.rewards, W+"/race-reinvest")
			riTx(d, v.rewards, R+"/race-withdraw")
		default:
			// everything at once by one delegator
			addTx(d, c12Pct(c, bigAmt(), 1, 20), A+"/mix")
			if !tail {
				undTx(d, c12Pct(c, v.active, 1, 40), U+"/mix")
			}
			if v.rewards.Sign() > 0 {
				if !tail {
					wdTx(d, c12Pct(c, v.rewards, 5, 40), W+"/mix")
				}
				riTx(d, c12Pct(c, v.rewards, 5, 40), R+"/mix")
			}
		}
	}
	// bystanders
	by := users[nD:]
	if len(by) > 0 {
		pickBy := func() *core.Account { return by[c.Rng.Intn(len(by))] }
		if c.Rng.Intn(3) == 0 {
			from := pickBy()
			to := pickBy().Addr
			kind := "SEND"
			if c.Rng.Intn(4) == 0 && nD > 0 {
				to = users[c.Rng.Intn(nD)].Addr // a delegator is the payee: an explained credit
				kind = "SEND/to-delegator"
			}
			amt := new(big.Int).Add(big.NewInt(1), new(big.Int).Rand(c.Rng, c12Nue(1000)))
			tx(&transfer.Send{From: from.Addr, To: to, Amount: core.OLT(amt)}, fee, from, kind)
		}
		if c.Rng.Intn(12) == 0 {
			// a pool that is not the delegation pool: no donation
			from := pickBy()
			p := []string{"RewardsPool", "BountyPool", "FeePool"}[c.Rng.Intn(3)]
			amt := new(big.Int).Add(big.NewInt(1), new(big.Int).Rand(c.Rng, c12Nue(50)))
			tx(&transfer.SendPool{From: from.Addr, PoolName: p, Amount: core.OLT(amt)}, fee, from, "SENDPOOL/"+p)
		}
		if g.Donors && c.H >= g.DonateFrom {
			if c.Rng.Intn(5) == 0 {
				from := pickBy()
				if c.Rng.Intn(5) == 0 && nD > 0 {
					from = users[c.Rng.Intn(nD)]
				}
				amt := new(big.Int).Add(big.NewInt(1), new(big.Int).Rand(c.Rng, c12Nue(5000)))
				tx(&transfer.SendPool{From: from.Addr, PoolName: "DelegationPool", Amount: core.OLT(amt)}, fee, from, "SENDPOOL/DelegationPool")
			}
			if c.Rng.Intn(12) == 0 {
				from := pickBy()
				amt := new(big.Int).Add(big.NewInt(1), new(big.Int).Rand(c.Rng, c12Nue(5000)))
				tx(&transfer.Send{From: from.Addr, To: keys.Address(nddata.DELEGATION_POOL_KEY), Amount: core.OLT(amt)}, fee, from, "SEND/to-delegation-pool")
			}
		}
	}
	return out
}

package props

import (
	"github.com/Oneledger/protocol/action/staking"
	"github.com/Oneledger/protocol/data/delegation"
	"github.com/Oneledger/protocol/data/evidence"
	"github.com/Oneledger/protocol/data/governance"
	"github.com/Oneledger/protocol/data/keys"
	"github.com/Oneledger/protocol/identity"

	"olsim/core"
	"olsim/gen"
)

// c11Gen is the state-aware staking client of the C11 profile. It reads the committed state of the
// reference replica through the repository's own stores (generators need no independence) and emits
// STAKE / UNSTAKE / WITHDRAW transactions that mostly succeed, plus the variants the property is about.
// Labels containing '/' are special variants (used for signatures and statistics only).
type c11Gen struct{}

func (c11Gen) Name() string { return "c11-staking" }

type c11GenVal struct {
	vk      *core.ValidatorKeys
	exists  bool
	addr    keys.Address // stake address of the record (or nil)
	acc     *core.Account
	staking int64
	locked  int64
	free    int64
	pending int
	frozen  bool
	accused bool
}

func c11StakeTx(c *gen.Ctx, val *core.Account, vk *core.ValidatorKeys, stake *core.Account, amt int64, kind string) gen.Tx {
	msg := &staking.Stake{ValidatorAddress: val.Addr, StakeAddress: stake.Addr, ValidatorPubKey: val.Pub, ValidatorECDSAPubKey: vk.EcPub, NodeName: vk.Name, Stake: core.OLTi(amt)}
	return gen.Tx{Bytes: core.BuildTx(msg, core.DefaultFee(), c11Memo(c), stake, val), Kind: kind}
}

func c11UnstakeTx(c *gen.Ctx, val, stake *core.Account, amt int64, kind string) gen.Tx {
	msg := &staking.Unstake{ValidatorAddress: val.Addr, StakeAddress: stake.Addr, Stake: core.OLTi(amt)}
	return gen.Tx{Bytes: core.BuildTx(msg, core.DefaultFee(), c11Memo(c), stake, val), Kind: kind}
}

func c11WithdrawTx(c *gen.Ctx, val, stake *core.Account, amt int64, kind string) gen.Tx {
	msg := &staking.Withdraw{ValidatorAddress: val.Addr, StakeAddress: stake.Addr, Stake: core.OLTi(amt)}
	return gen.Tx{Bytes: core.BuildTx(msg, core.DefaultFee(), c11Memo(c), stake, val), Kind: kind}
}

func c11Memo(c *gen.Ctx) string {
	const letters = "abcdefghijklmnopqrstuvwxyz0123456789"
	b := make([]byte, 10)
	for i := range b {
		b[i] = letters[c.Rng.Intn(len(letters))]
	}
	return "c11-" + string(b)
}

func (c11Gen) Gen(c *gen.Ctx) (out []gen.Tx) {
	defer func() {
		if rec := recover(); rec != nil {
			if _, ok := rec.(core.HarnessError); ok {
				panic(rec)
			}
			out = nil
		}
	}()
	if c.Ref == nil || c.Ref.App == nil || len(c.W.Users) == 0 {
		return nil
	}
	st := c.Ref.ReadState()
	ds := delegation.NewDelegationStore("st", st)
	vs := identity.NewValidatorStore("v", "purged", st)
	es := evidence.NewEvidenceStore("es", st)
	gs := governance.NewStore("g", st)
	minStake := c.W.Knobs.MinSelfStake
	mat := c.W.Knobs.MaturityTime
	if so, err := gs.GetStakingOptions(); err == nil && so != nil {
		minStake = so.MinSelfDelegationAmount.BigInt().Int64()
		mat = so.MaturityTime
	}
	if minStake < 8 {
		minStake = 8
	}
	if mat > 50 {
		mat = 50 // only used to look for pending amounts
	}
	i64 := func(f func() (int64, bool)) int64 {
		x, ok := f()
		if !ok {
			return 0
		}
		return x
	}
	var views []*c11GenVal
	healthy := 0
	for _, vk := range c.W.AllValidatorKeys() {
		v := &c11GenVal{vk: vk}
		if val, err := vs.Get(vk.ValKey.Addr); err == nil && val != nil {
			v.exists = true
			v.addr = val.StakeAddress
			v.acc = c.W.Lookup(val.StakeAddress)
			if val.Staking.BigInt().IsInt64() {
				v.staking = val.Staking.BigInt().Int64()
			}
			v.locked = i64(func() (int64, bool) {
				a, err := ds.GetValidatorDelegationAmount(vk.ValKey.Addr, val.StakeAddress)
				if err != nil || !a.BigInt().IsInt64() {
					return 0, false
				}
				return a.BigInt().Int64(), true
			})
			v.free = i64(func() (int64, bool) {
				a, err := ds.GetDelegatorBoundedAmount(val.StakeAddress)
				if err != nil || !a.BigInt().IsInt64() {
					return 0, false
				}
				return a.BigInt().Int64(), true
			})
			v.pending = len(ds.GetMaturedPendingAmount(val.StakeAddress, c.H, mat+1))
		}
		v.frozen = es.IsFrozenValidator(vk.ValKey.Addr)
		v.accused = es.CheckRequestExists(vk.ValKey.Addr)
		if v.exists && !v.frozen && v.staking >= minStake {
			healthy++
		}
		views = append(views, v)
	}
	pickView := func(ok func(v *c11GenVal) bool) *c11GenVal {
		var l []*c11GenVal
		for _, v := range views {
			if ok(v) {
				l = append(l, v)
			}
		}
		if len(l) == 0 {
			return nil
		}
		return l[c.Rng.Intn(len(l))]
	}
	small := func(max int64) int64 {
		if max < 1 {
			max = 1
		}
		if max > 2000 {
			max = 2000
		}
		return 1 + c.Rng.Int63n(max)
	}
	stakeAccounts := func(own *core.ValidatorKeys) *core.Account {
		switch c.Rng.Intn(5) {
		case 0:
			return c.W.Users[c.Rng.Intn(len(c.W.Users))]
		case 1:
			// the stake address of another validator: one delegator, several validators
			all := c.W.AllValidatorKeys()
			return all[c.Rng.Intn(len(all))].NodeKey
		}
		return own.NodeKey
	}

	nops := 1 + c.Rng.Intn(3)
	if c.H <= 4 {
		nops = 3 // early small unstakes so that withdrawable amounts exist soon
	}
	for n := 0; n < nops; n++ {
		r := c.Rng.Intn(100)
		if c.H <= 4 {
			r = 30 + c.Rng.Intn(30)
		}
		switch {
		case r < 12: // top-up by the current stake account
			// (a validator that unstaked everything is topped up only now and then: its record is about to be deleted)
			v := pickView(func(v *c11GenVal) bool { return v.exists && v.acc != nil && (v.staking > 0 || c.Rng.Intn(4) == 0) })
			if v == nil {
				continue
			}
			amt := small(2000)
			kind := "STAKE"
			if v.staking < minStake && c.Rng.Intn(2) == 0 {
				amt = minStake - v.staking + c.Rng.Int63n(minStake/8+1)
			}
			if v.frozen {
				kind = "STAKE/frozen"
			}
			if c.Rng.Intn(8) == 0 {
				// the stake named in another registered currency the delegator holds
				t := c11StakeTx(c, v.vk.ValKey, v.vk, v.acc, amt, "STAKE/other-currency")
				msg := &staking.Stake{ValidatorAddress: v.vk.ValKey.Addr, StakeAddress: v.acc.Addr, ValidatorPubKey: v.vk.ValKey.Pub, ValidatorECDSAPubKey: v.vk.EcPub, NodeName: v.vk.Name, Stake: core.OLTi(amt)}
				msg.Stake.Currency = "VT"
				t.Bytes = core.BuildTx(msg, core.DefaultFee(), c11Memo(c), v.acc, v.vk.ValKey)
				out = append(out, t)
				continue
			}
			out = append(out, c11StakeTx(c, v.vk.ValKey, v.vk, v.acc, amt, kind))
		case r < 22: // first stake of a key that is not a validator (candidate, or a validator that left)
			v := pickView(func(v *c11GenVal) bool { return !v.exists })
			if v == nil {
				continue
			}
			acc := stakeAccounts(v.vk)
			amt := small(5000)
			kind := "STAKE/new-small"
			if c.Rng.Intn(2) == 0 {
				amt = minStake + c.Rng.Int63n(minStake/2+1)
				kind = "STAKE/new"
			}
			if acc != v.vk.NodeKey {
				kind += "-shared-address"
			}
			out = append(out, c11StakeTx(c, v.vk.ValKey, v.vk, acc, amt, kind))
		case r < 60: // unstake
			v := pickView(func(v *c11GenVal) bool { return v.exists && v.acc != nil && v.locked > 0 && !v.frozen })
			if v == nil {
				continue
			}
			max := v.locked
			if v.staking < max {
				max = v.staking // never drive the validator record below zero (its record may lag behind st__t_)
			}
			if healthy <= 4 && v.staking >= minStake {
				max = v.staking - minStake // keep the validator set alive
			}
			kind := "UNSTAKE"
			if v.accused {
				kind = "UNSTAKE/accused"
			}
			switch x := c.Rng.Intn(20); {
			case max < 1:
				out = append(out, c11UnstakeTx(c, v.vk.ValKey, v.acc, v.locked+1+c.Rng.Int63n(5), "UNSTAKE/too-much"))
			case x < 10:
				out = append(out, c11UnstakeTx(c, v.vk.ValKey, v.acc, small(max), kind))
			case x < 12:
				out = append(out, c11UnstakeTx(c, v.vk.ValKey, v.acc, (max+1)/2, kind))
			case x < 14:
				if max == v.locked {
					healthy--
				}
				out = append(out, c11UnstakeTx(c, v.vk.ValKey, v.acc, max, kind))
			case x < 16:
				out = append(out, c11UnstakeTx(c, v.vk.ValKey, v.acc, v.locked+1+c.Rng.Int63n(5), "UNSTAKE/too-much"))
			case x < 19:
				a := small(max/2 + 1)
				b := small(max/2 + 1)
				if a+b > max {
					a, b = 1, 0
				}
				out = append(out, c11UnstakeTx(c, v.vk.ValKey, v.acc, a, kind))
				if b > 0 {
					out = append(out, c11UnstakeTx(c, v.vk.ValKey, v.acc, b, "UNSTAKE/twice-in-block"))
				}
			default:
				// together more than is locked: exactly one of the two may succeed
				a := v.locked/2 + 1
				out = append(out, c11UnstakeTx(c, v.vk.ValKey, v.acc, a, "UNSTAKE/twice-too-much"))
				out = append(out, c11UnstakeTx(c, v.vk.ValKey, v.acc, v.locked-a+1+c.Rng.Int63n(3), "UNSTAKE/twice-too-much"))
			}
		case r < 84: // withdraw
			v := pickView(func(v *c11GenVal) bool { return v.exists && v.acc != nil && v.free > 0 && !v.frozen })
			if v == nil {
				// nothing withdrawable anywhere: a premature withdrawal of a pending amount
				v = pickView(func(v *c11GenVal) bool { return v.exists && v.acc != nil && v.pending > 0 && v.free == 0 && !v.frozen })
				if v != nil {
					out = append(out, c11WithdrawTx(c, v.vk.ValKey, v.acc, 1+c.Rng.Int63n(3), "WITHDRAW/premature"))
				}
				continue
			}
			switch x := c.Rng.Intn(20); {
			case x < 8:
				out = append(out, c11WithdrawTx(c, v.vk.ValKey, v.acc, 1+c.Rng.Int63n(v.free), "WITHDRAW"))
			case x < 12:
				out = append(out, c11WithdrawTx(c, v.vk.ValKey, v.acc, v.free, "WITHDRAW"))
			case x < 14:
				out = append(out, c11WithdrawTx(c, v.vk.ValKey, v.acc, v.free+1+c.Rng.Int63n(3), "WITHDRAW/too-much"))
			case x < 17:
				a := 1 + c.Rng.Int63n(v.free)
				out = append(out, c11WithdrawTx(c, v.vk.ValKey, v.acc, a, "WITHDRAW"))
				if v.free-a > 0 {
					out = append(out, c11WithdrawTx(c, v.vk.ValKey, v.acc, v.free-a, "WITHDRAW/twice-in-block"))
				}
			case x < 19:
				// whole amount twice: exactly one may succeed
				out = append(out, c11WithdrawTx(c, v.vk.ValKey, v.acc, v.free, "WITHDRAW/twice-too-much"))
				out = append(out, c11WithdrawTx(c, v.vk.ValKey, v.acc, v.free, "WITHDRAW/twice-too-much"))
			default:
				// withdrawable amount plus what is still pending
				out = append(out, c11WithdrawTx(c, v.vk.ValKey, v.acc, v.free+1, "WITHDRAW/premature"))
			}
		case r < 94: // the delegator of a frozen validator
			v := pickView(func(v *c11GenVal) bool { return v.exists && v.acc != nil && v.frozen })
			if v == nil {
				continue
			}
			switch x := c.Rng.Intn(10); {
			case x < 3 && v.locked > 0:
				out = append(out, c11UnstakeTx(c, v.vk.ValKey, v.acc, small(v.locked), "UNSTAKE/frozen"))
			case x < 5 && v.free > 0:
				out = append(out, c11WithdrawTx(c, v.vk.ValKey, v.acc, 1+c.Rng.Int63n(v.free), "WITHDRAW/frozen"))
			case x < 8 && v.free > 0:
				// name a key that is no validator at all: nobody checks that the validator exists
				ghost := core.NewEdAccount(c.W.Seed, "c11-ghost")
				out = append(out, c11WithdrawTx(c, ghost, v.acc, 1+c.Rng.Int63n(v.free), "WITHDRAW/frozen-via-unknown-validator"))
			case v.free > 0:
				// name another validator with the same stake address, or a candidate that never staked
				o := pickView(func(o *c11GenVal) bool {
					return o != v && !o.frozen && (!o.exists || (o.addr != nil && o.addr.Equal(v.addr)))
				})
				if o != nil {
					out = append(out, c11WithdrawTx(c, o.vk.ValKey, v.acc, 1+c.Rng.Int63n(v.free), "WITHDRAW/frozen-via-other-validator"))
				}
			case v.locked > 0:
				out = append(out, c11UnstakeTx(c, v.vk.ValKey, v.acc, small(v.locked), "UNSTAKE/frozen"))
			}
		default: // change of the stake address
			v := pickView(func(v *c11GenVal) bool { return v.exists && v.locked == 0 && !v.frozen })
			kind := "STAKE/new-stake-address"
			if v == nil || c.Rng.Intn(4) == 0 {
				v = pickView(func(v *c11GenVal) bool { return v.exists && !v.frozen })
				kind = "STAKE/new-stake-address-in-use"
			}
			if v == nil {
				continue
			}
			acc := c.W.Users[c.Rng.Intn(len(c.W.Users))]
			if v.addr != nil && acc.Addr.Equal(v.addr) {
				continue
			}
			out = append(out, c11StakeTx(c, v.vk.ValKey, v.vk, acc, small(3000), kind))
		}
	}
	if len(out) > 6 {
		out = out[:6]
	}
	return out
}

package props

import (
	"bytes"
	"encoding/json"
	"fmt"
	"math/rand"
	"os"
	"path/filepath"
	"sort"
	"strconv"
	"strings"

	dbm "github.com/tendermint/tm-db"

	"github.com/Oneledger/protocol/config"
	"github.com/Oneledger/protocol/storage"

	"olsim/core"
)

// C09 The layered state store behaves like a transactional, versioned map.
// Simulation at the storage seam: State over ChainState over {MemDB, goleveldb-on-tmpfs}; operations
// include dirty reopen (byte copy of the open directory) and abandoning a block (fresh State).

type c09Conf struct {
	Backend string `json:"backend"` // "memdb" | "goleveldb"
	Gas     int64  `json:"gas"`     // 0 = no gas store, >0 = WithGas(limit)
	Recent  int64  `json:"recent"`
	Every   int64  `json:"every"`
	Cycles  int64  `json:"cycles"`
}

const c09Tomb = "\x00tomb"

type c09Model struct {
	committed map[string]string
	versions  []map[string]string // versions[i] = snapshot of version i+1
	block     map[string]string   // overlay: value or c09Tomb
	blockOrd  []string
	session   map[string]string
	sessOrd   []string
	inSession bool
}

func newC09Model() *c09Model {
	return &c09Model{committed: map[string]string{}, block: map[string]string{}}
}

func (m *c09Model) read(k string) (string, bool) {
	if m.inSession {
		if v, ok := m.session[k]; ok {
			if v == c09Tomb {
				return "", false
			}
			return v, true
		}
	}
	if v, ok := m.block[k]; ok {
		if v == c09Tomb {
			return "", false
		}
		return v, true
	}
	v, ok := m.committed[k]
	return v, ok
}

func (m *c09Model) write(k, v string) {
	if m.inSession {
		if _, ok := m.session[k]; !ok {
			m.sessOrd = append(m.sessOrd, k)
		}
		m.session[k] = v
		return
	}
	if _, ok := m.block[k]; !ok {
		m.blockOrd = append(m.blockOrd, k)
	}
	m.block[k] = v
}

func (m *c09Model) commitSession() {
	for _, k := range m.sessOrd {
		v := m.session[k]
		if _, ok := m.block[k]; !ok {
			m.blockOrd = append(m.blockOrd, k)
		}
		m.block[k] = v
	}
	m.inSession, m.session, m.sessOrd = false, nil, nil
}

func (m *c09Model) commitBlock() {
	for _, k := range m.blockOrd {
		v := m.block[k]
		if v == c09Tomb {
			delete(m.committed, k)
		} else {
			m.committed[k] = v
		}
	}
	snap := map[string]string{}
	for k, v := range m.committed {
		snap[k] = v
	}
	m.versions = append(m.versions, snap)
	m.block, m.blockOrd = map[string]string{}, nil
	m.inSession, m.session, m.sessOrd = false, nil, nil
}

func (m *c09Model) abandon() {
	m.block, m.blockOrd = map[string]string{}, nil
	m.inSession, m.session, m.sessOrd = false, nil, nil
}

// real system under test
type c09Sys struct {
	conf c09Conf
	dir  string
	gen  int
	db   dbm.DB
	cs   *storage.ChainState
	st   *storage.State
}

func (s *c09Sys) open() error {
	if s.conf.Backend == "goleveldb" {
		d, err := storage.GetDatabase("c09", filepath.Join(s.dir, fmt.Sprintf("g%d", s.gen)), "goleveldb")
		if err != nil {
			return err
		}
		s.db = d
	} else if s.db == nil {
		s.db = dbm.NewMemDB()
	}
	s.cs = storage.NewChainState("c09", s.db)
	if err := s.cs.SetupRotation(config.ChainStateRotationCfg{Recent: s.conf.Recent, Every: s.conf.Every, Cycles: s.conf.Cycles}); err != nil {
		return err
	}
	s.newState()
	return nil
}

func (s *c09Sys) newState() {
	s.st = storage.NewState(s.cs)
	if s.conf.Gas > 0 {
		s.st = s.st.WithGas(storage.NewGasCalculator(storage.Gas(s.conf.Gas)))
	}
}

// reopen: dirty restart. goleveldb: byte copy of the open directory; memdb: new ChainState on the same DB.
func (s *c09Sys) reopen() error {
	if s.conf.Backend == "goleveldb" {
		old := filepath.Join(s.dir, fmt.Sprintf("g%d", s.gen))
		s.gen++
		nw := filepath.Join(s.dir, fmt.Sprintf("g%d", s.gen))
		if err := core.CopyTreeConsistent(old, nw); err != nil {
			return err
		}
		s.db.Close()
		os.RemoveAll(old)
	}
	return s.open()
}

func (s *c09Sys) close() {
	if s.conf.Backend == "goleveldb" && s.db != nil {
		s.db.Close()
	}
	if s.dir != "" {
		os.RemoveAll(s.dir)
		os.Remove(filepath.Dir(s.dir))
	}
}

type c09Prop struct{}

func (c09Prop) ID() string { return "C09" }
func (c09Prop) Rule() string {
	return "each run = a batch of seeded operation sequences (80% short: <=8 ops over 3 keys; 20% long: <=300 ops over a 6-letter key alphabet with prefix relations) of set/delete/get/exists/" +
		"begin-session/commit-session/discard-session/block-commit/abandon-block(fresh State)/iterate/iterate-range/versioned-get/dirty-reopen against storage.State over ChainState over MemDB or goleveldb-on-tmpfs, " +
		"with and without a gas store, rotation settings drawn per sequence; values unique per write. Oracles: step-by-step comparison with a three-layer map model (reads, existence, versioned reads within the retained window, " +
		"post-reopen version/hash/contents, iteration consistency) and a hash twin that executes only the surviving writes (no reads, no existence checks, no discarded sessions, no sessions at all) and must return the same root hash at every block commit. " +
		"Non-trivial sequence: >=1 block commit and >=1 read of a key written earlier; distinct = distinct op-kind sequences (hash of the op kinds + key ids)."
}

type c09Op struct {
	Op string
	K  string
	V  string
	N  int64
}

func (o c09Op) enc() string { return fmt.Sprintf("%s|%s|%s|%d", o.Op, o.K, o.V, o.N) }
func c09Dec(s string) c09Op {
	p := strings.SplitN(s, "|", 4)
	if len(p) < 4 {
		return c09Op{Op: "nop"}
	}
	n, _ := strconv.ParseInt(p[3], 10, 64)
	return c09Op{Op: p[0], K: p[1], V: p[2], N: n}
}

func c09GenSeq(rng *rand.Rand) (c09Conf, []c09Op) {
	conf := c09Conf{Backend: "memdb"}
	if rng.Intn(6) == 0 {
		conf.Backend = "goleveldb"
	}
	switch rng.Intn(4) {
	case 0:
		conf.Gas = 1 << 40
	case 1:
		conf.Gas = 1 << 50
	}
	conf.Recent, conf.Every, conf.Cycles = drawRotation(rng)
	long := rng.Intn(5) == 0
	n := 2 + rng.Intn(7)
	keys := []string{"a", "ab", "b"}
	if long {
		n = 20 + rng.Intn(280)
		keys = []string{"a", "ab", "abc", "b", "ba", "c_", "c_x", "c_y", "c~", "d"}
	}
	var ops []c09Op
	vctr := 0
	inSess := false
	ver := int64(0)
	for i := 0; i < n; i++ {
		k := keys[rng.Intn(len(keys))]
		x := rng.Intn(100)
		switch {
		case x < 28:
			vctr++
			ops = append(ops, c09Op{Op: "set", K: k, V: fmt.Sprintf("v%d", vctr)})
		case x < 38:
			ops = append(ops, c09Op{Op: "del", K: k})
		case x < 54:
			ops = append(ops, c09Op{Op: "get", K: k})
		case x < 62:
			ops = append(ops, c09Op{Op: "exists", K: k})
		case x < 70:
			ops = append(ops, c09Op{Op: "begin"})
			inSess = true
		case x < 76:
			if inSess {
				ops = append(ops, c09Op{Op: "commitS"})
				inSess = false
			}
		case x < 81:
			if inSess {
				ops = append(ops, c09Op{Op: "discardS"})
				inSess = false
			}
		case x < 90:
			ops = append(ops, c09Op{Op: "commitB"})
			inSess = false
			ver++
		case x < 92:
			ops = append(ops, c09Op{Op: "abandon"})
			inSess = false
		case x < 94:
			ops = append(ops, c09Op{Op: "iter"})
		case x < 96:
			ops = append(ops, c09Op{Op: "iterR", K: k})
		case x < 98:
			if ver > 0 {
				ops = append(ops, c09Op{Op: "getV", K: k, N: 1 + rng.Int63n(ver)})
			}
		default:
			ops = append(ops, c09Op{Op: "reopen"})
			inSess = false
		}
	}
	// make short sequences interesting: end with a commit and a read
	if !long && rng.Intn(2) == 0 {
		ops = append(ops, c09Op{Op: "commitB"}, c09Op{Op: "get", K: keys[rng.Intn(len(keys))]})
	}
	return conf, ops
}

// c09Exec executes one sequence against the real store, the model and the hash twin.
func c09Exec(conf c09Conf, ops []c09Op, baseDir string) (viol *core.Violation, nontrivial bool, harness string) {
	mk := func(oracle, sig, msg string, i int) *core.Violation {
		return &core.Violation{Property: "C09", Oracle: oracle, Sig: sig, Msg: fmt.Sprintf("op #%d %v: %s", i, ops[i], msg), Step: i + 1}
	}
	sys := &c09Sys{conf: conf}
	twin := &c09Sys{conf: c09Conf{Backend: "memdb", Recent: conf.Recent, Every: conf.Every, Cycles: conf.Cycles}}
	if conf.Backend == "goleveldb" {
		sys.dir = baseDir
		os.MkdirAll(baseDir, 0700)
	}
	defer sys.close()
	if err := sys.open(); err != nil {
		return nil, false, "open: " + err.Error()
	}
	if err := twin.open(); err != nil {
		return nil, false, "twin open: " + err.Error()
	}
	defer func() {
		if rec := recover(); rec != nil {
			harness = fmt.Sprintf("panic: %v", rec)
		}
	}()
	m := newC09Model()
	written := map[string]bool{}
	commits, readsOfWritten := 0, 0
	for i, op := range ops {
		k := storage.StoreKey(op.K)
		switch op.Op {
		case "set":
			err := sys.st.Set(k, []byte(op.V))
			if err != nil {
				if conf.Gas > 0 && conf.Gas < 1<<30 {
					continue // gas limit hit: a failed write must simply not happen
				}
				return mk("model", "set-error", "Set returned "+err.Error(), i), false, ""
			}
			if !m.inSession {
				twin.st.Set(k, []byte(op.V))
			}
			m.write(op.K, op.V)
			written[op.K] = true
		case "del":
			ok, err := sys.st.Delete(k)
			if err != nil || !ok {
				if conf.Gas > 0 && conf.Gas < 1<<30 {
					continue
				}
				return mk("model", "delete-error", fmt.Sprintf("Delete returned %v %v", ok, err), i), false, ""
			}
			if !m.inSession {
				twin.st.Delete(k)
			}
			m.write(op.K, c09Tomb)
		case "get":
			got, err := sys.st.Get(k)
			want, ok := m.read(op.K)
			if written[op.K] {
				readsOfWritten++
			}
			if err != nil && conf.Gas > 0 && conf.Gas < 1<<30 {
				continue
			}
			if ok {
				if string(got) != want {
					return mk("model", "get-wrong-value", fmt.Sprintf("Get = %q (err %v), most recent write in scope is %q", got, err, want), i), false, ""
				}
			} else if len(got) != 0 {
				sig := "get-absent-returns-data"
				if string(got) == storage.TOMBSTONE {
					sig = "deleted-key-reads-tombstone"
				}
				return mk("model", sig, fmt.Sprintf("Get = %q (err %v) for a key that is absent (deleted or never written) in scope", got, err), i), false, ""
			}
		case "exists":
			got := sys.st.Exists(k)
			_, want := m.read(op.K)
			if conf.Gas > 0 && conf.Gas < 1<<30 && !got && want {
				continue // gas-limited Exists answers false
			}
			if got != want {
				sig := "exists-wrong"
				if got && !want {
					sig = "deleted-key-exists"
				}
				return mk("model", sig, fmt.Sprintf("Exists = %v, model says %v", got, want), i), false, ""
			}
		case "begin":
			sys.st.BeginTxSession()
			m.inSession, m.session, m.sessOrd = true, map[string]string{}, nil
		case "commitS":
			if !m.inSession {
				continue
			}
			sys.st.CommitTxSession()
			// the twin applies the session's surviving writes directly, in first-touch order
			for _, kk := range m.sessOrd {
				if v := m.session[kk]; v == c09Tomb {
					twin.st.Delete(storage.StoreKey(kk))
				} else {
					twin.st.Set(storage.StoreKey(kk), []byte(v))
				}
			}
			m.commitSession()
		case "discardS":
			if !m.inSession {
				continue
			}
			sys.st.DiscardTxSession()
			m.inSession, m.session, m.sessOrd = false, nil, nil
		case "commitB":
			hash, ver := sys.st.Commit()
			m.commitBlock()
			commits++
			th, tv := twin.st.Commit()
			if ver != int64(len(m.versions)) {
				return mk("model", "version-number", fmt.Sprintf("Commit returned version %d, expected %d", ver, len(m.versions)), i), false, ""
			}
			if tv != ver || !bytes.Equal(th, hash) {
				return mk("hash-twin", "hash-depends-on-non-writes", fmt.Sprintf("root hash %x at version %d differs from the twin that executed only the surviving writes (%x at version %d)", hash, ver, th, tv), i), false, ""
			}
			// committed contents
			if d := c09Contents(sys, m.committed); d != "" {
				return mk("model", "commit-contents", d, i), false, ""
			}
		case "abandon":
			sys.newState()
			twin.newState()
			m.abandon()
		case "iter", "iterR":
			var bad string
			seen := map[string]bool{}
			fn := func(key, value []byte) bool {
				seen[string(key)] = true
				want, ok := m.read(string(key))
				if ok && string(value) != want {
					bad = fmt.Sprintf("iteration yields %q=%q, most recent write in scope is %q", key, value, want)
				}
				if !ok && len(value) != 0 && string(value) != storage.TOMBSTONE {
					bad = fmt.Sprintf("iteration yields %q=%q for an absent key", key, value)
				}
				return false
			}
			if op.Op == "iter" {
				sys.st.Iterate(fn)
			} else {
				sys.st.IterateRange(storage.StoreKey(op.K), storage.Rangefix(op.K), true, fn)
			}
			if bad != "" {
				return mk("model", "iteration-wrong-value", bad, i), false, ""
			}
			// every committed key (in range) that is still present must be yielded
			for ck := range m.committed {
				if op.Op == "iterR" && !(ck >= op.K && ck < string(storage.Rangefix(op.K))) {
					continue
				}
				if _, live := m.read(ck); !live {
					continue // deleted in scope
				}
				if !seen[ck] {
					return mk("model", "iteration-misses-committed-key", fmt.Sprintf("committed key %q not yielded", ck), i), false, ""
				}
			}
		case "getV":
			if op.N < 1 || op.N > int64(len(m.versions)) {
				continue
			}
			got := sys.st.GetVersioned(op.N, k)
			want, ok := m.versions[op.N-1][op.K]
			cur := int64(len(m.versions))
			// the documented rotation schedule (config.ChainStateRotationCfg): the last recent+1 versions persist; with
			// every >= 1 and cycles == 0 every every-th version persists for good ("keep every every")
			retained := op.N >= cur-conf.Recent || (conf.Every >= 1 && conf.Cycles == 0 && op.N%conf.Every == 0)
			if ok && string(got) != want {
				if len(got) == 0 && !retained {
					continue // version may have been rotated out
				}
				return mk("model", "versioned-get-wrong", fmt.Sprintf("GetVersioned(%d) = %q, that version held %q (current version %d, recent=%d)", op.N, got, want, cur, conf.Recent), i), false, ""
			}
			if !ok && len(got) != 0 {
				return mk("model", "versioned-get-wrong", fmt.Sprintf("GetVersioned(%d) = %q, key was absent in that version", op.N, got), i), false, ""
			}
		case "reopen":
			wantHash, wantVer := sys.cs.Hash, sys.cs.Version
			if err := sys.reopen(); err != nil {
				return nil, false, "reopen: " + err.Error()
			}
			twin.newState()
			m.abandon()
			if sys.cs.Version != wantVer || !bytes.Equal(sys.cs.Hash, wantHash) {
				return mk("model", "reopen-version-hash", fmt.Sprintf("after reopen version=%d hash=%x, last commit was version=%d hash=%x", sys.cs.Version, sys.cs.Hash, wantVer, wantHash), i), false, ""
			}
			if d := c09Contents(sys, m.committed); d != "" {
				return mk("model", "reopen-contents", d, i), false, ""
			}
		}
	}
	return nil, commits >= 1 && readsOfWritten >= 1, ""
}

func c09Contents(sys *c09Sys, want map[string]string) string {
	got := map[string]string{}
	sys.cs.Iterate(func(k, v []byte) bool {
		got[string(k)] = string(v)
		return false
	})
	var ks []string
	for k := range want {
		ks = append(ks, k)
	}
	sort.Strings(ks)
	for _, k := range ks {
		if got[k] != want[k] {
			return fmt.Sprintf("committed tree holds %q=%q, model %q", k, got[k], want[k])
		}
	}
	for k, v := range got {
		if _, ok := want[k]; !ok {
			return fmt.Sprintf("committed tree holds %q=%q which the model does not have", k, v)
		}
	}
	return ""
}

var c09Counter int

func (p c09Prop) Run(seed uint64, tier string, tr *core.Trace) *RunOut {
	out := &RunOut{Stats: core.NewStats()}
	base := os.Getenv("OLSIM_TMP")
	if base == "" {
		base = "/dev/shm/olsim"
	}
	dirFor := func() string {
		c09Counter++
		return filepath.Join(base, fmt.Sprintf("%d", os.Getpid()), fmt.Sprintf("c09-%d", c09Counter))
	}
	if tr != nil {
		var conf c09Conf
		if err := json.Unmarshal(tr.Extra, &conf); err != nil {
			out.HarnessErr = "bad C09 trace header"
			return out
		}
		var ops []c09Op
		for _, st := range tr.Steps[1:] {
			ops = append(ops, c09Dec(st.Note))
		}
		v, nt, h := c09Exec(conf, ops, dirFor())
		out.Trace, out.NonTrivial, out.HarnessErr = tr, nt, h
		if v != nil {
			out.Violations = append(out.Violations, *v)
		}
		return out
	}
	rng := rand.New(rand.NewSource(int64(seed)))
	batch := 150
	for b := 0; b < batch; b++ {
		conf, ops := c09GenSeq(rng)
		v, nt, h := c09Exec(conf, ops, dirFor())
		out.SubEvals++
		if h != "" {
			out.HarnessErr = h
			return out
		}
		var fp strings.Builder
		fp.WriteString(conf.Backend)
		for _, o := range ops {
			fp.WriteString(o.Op)
			fp.WriteString(o.K)
			fp.WriteByte(',')
		}
		out.Stats.Probes["seq_"+conf.Backend]++
		if conf.Gas > 0 {
			out.Stats.Probes["seq_with_gas"]++
		}
		for _, o := range ops {
			out.Stats.Txs["op:"+o.Op]++
			if o.Op == "reopen" {
				out.Stats.Faults["dirty_reopen_"+conf.Backend]++
			}
			if o.Op == "abandon" {
				out.Stats.Faults["abandon_block"]++
			}
			if o.Op == "discardS" {
				out.Stats.Faults["discard_session"]++
			}
		}
		if nt {
			out.SubFP = append(out.SubFP, fnvStr(fp.String()))
		}
		if v != nil || b == 0 {
			extra, _ := json.Marshal(conf)
			t := &core.Trace{Property: "C09", Seed: seed, Extra: extra, Steps: []*core.Step{{Kind: "boot"}}}
			for _, o := range ops {
				t.Steps = append(t.Steps, &core.Step{Kind: "op", Note: o.enc()})
			}
			out.Trace = t
			if v != nil {
				out.Violations = append(out.Violations, *v)
				return out
			}
		}
	}
	out.NonTrivial = len(out.SubFP) > 0
	return out
}

func fnvStr(s string) string {
	h := uint64(1469598103934665603)
	for i := 0; i < len(s); i++ {
		h ^= uint64(s[i])
		h *= 1099511628211
	}
	return fmt.Sprintf("%016x", h)
}

func init() { Register(c09Prop{}) }

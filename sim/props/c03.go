package props

import (
	"encoding/json"
	"fmt"
	"math/big"
	"math/rand"
	"sort"
	"strings"

	"github.com/Oneledger/protocol/data/keys"

	"olsim/core"
	"olsim/gen"
)

// C03 No unauthorised debit.

type c03Oracle struct {
	// the third clause allows a debit of the stake account "of a validator found guilty by an allegation vote in
	// that block": whether a guilty verdict follows from the recorded votes is judged by the C19 reference model
	// (run here over the same observations); a verdict it rejects is no authorisation
	verdicts c19Oracle
	obs      Obs
	eoas     map[string]bool // textual address -> known externally owned account
	blocks   int
	advOK    int // adversarial (impersonating / forged) transactions that returned code 0 without hurting anyone
	debits   int // authorised debits observed
	matured  int
}

type vRecord struct {
	Address      string `json:"address"`
	StakeAddress string `json:"stakeAddress"`
}

type svRecord struct {
	Address      string
	Status       int8
	FrozenHeight int64
}

func (o *c03Oracle) AfterStep(e *core.Engine, idx int, st *core.Step, stepErr error) []core.Violation {
	for _, v := range o.verdicts.AfterStep(e, idx, st, stepErr) {
		if v.Oracle == "verdict-needs-share" && strings.HasPrefix(v.Sig, "guilty-below-share") {
			return []core.Violation{{Property: "C03", Oracle: "debit-needs-signature-or-verdict", Sig: "guilty-verdict-without-the-votes:" + o.obs.SuspectSig(),
				Msg: "a validator was declared guilty (its stake account is debited by the penalty) although the recorded votes of active validators do not reach the share: " + v.Msg}}
		}
	}
	if st.Kind == "boot" {
		o.obs.InitGenesis(e)
		o.eoas = map[string]bool{}
		for _, u := range e.W.Users {
			o.eoas[u.Addr.String()] = true
		}
		for _, u := range e.W.EthUsers {
			o.eoas[u.Addr.String()] = true
		}
		for _, vk := range e.W.AllValidatorKeys() {
			o.eoas[vk.NodeKey.Addr.String()] = true
			o.eoas[vk.ValKey.Addr.String()] = true
		}
		return nil
	}
	if st.Kind != "block" || !o.obs.Update(e, st) {
		return nil
	}
	ob := &o.obs
	h := ob.H
	o.blocks++
	for _, p := range ob.Cur.Problems {
		if strings.HasPrefix(p, "unknown ") {
			panic(core.HarnessError{Msg: "ledger incomplete: " + p})
		}
	}
	// who signed anything in this block (harness-side verification of the signatures)
	signed := map[string]bool{}
	for _, t := range ob.Txs {
		for _, a := range t.Signers {
			signed[a.String()] = true
			o.eoas[a.String()] = true
		}
	}
	// stake accounts of validators that signed, from the records of the previous block
	allowed := map[string]string{}
	for a := range signed {
		allowed[a] = "signed a transaction in this block"
	}
	valStake := map[string]string{}
	for k, v := range ob.PrevDump {
		if strings.HasPrefix(k, "v_") {
			var r vRecord
			if json.Unmarshal(v, &r) == nil && r.Address != "" {
				valStake[r.Address] = r.StakeAddress
			}
		}
	}
	for va, sa := range valStake {
		if signed[va] {
			if _, ok := allowed[sa]; !ok {
				allowed[sa] = "stake account of validator " + va + " which signed in this block"
			}
		}
	}
	// validators found guilty in this block: suspicious-validator record with byzantine status frozen at h
	for k, v := range ob.CurDump {
		if !strings.HasPrefix(k, "es__ssvk_") {
			continue
		}
		if pv, ok := ob.PrevDump[k]; ok && string(pv) == string(v) {
			continue
		}
		var r struct {
			Address      keys.Address
			Status       int8
			FrozenHeight int64
		}
		if json.Unmarshal(v, &r) != nil {
			continue
		}
		if r.FrozenHeight == h || r.FrozenHeight == h-1 {
			va := r.Address.String()
			if sa, ok := valStake[va]; ok {
				if _, ok2 := allowed[sa]; !ok2 {
					allowed[sa] = "stake account of validator " + va + " found guilty in this block"
				}
			}
		}
	}
	prevH := ob.Prev.Holdings()
	curH := ob.Cur.Holdings()
	accts := make([]string, 0, len(prevH))
	for a := range prevH {
		accts = append(accts, a)
	}
	sort.Strings(accts)
	var vs []core.Violation
	for _, a := range accts {
		if !o.eoas[a] {
			continue // pools, module addresses, contracts
		}
		for cur, pv := range prevH[a] {
			cv := new(big.Int)
			if m, ok := curH[a]; ok {
				if x, ok := m[cur]; ok {
					cv = x
				}
			}
			if cv.Cmp(pv) >= 0 {
				continue
			}
			if why, ok := allowed[a]; ok {
				_ = why
				o.debits++
				continue
			}
			vs = append(vs, core.Violation{Property: "C03", Oracle: "debit-needs-signature-or-verdict", Sig: "unauthorised-debit:" + ob.SuspectSig(),
				Msg: fmt.Sprintf("block %d: total %s holdings of account %s fell by %s (%s -> %s) but it signed nothing in this block, is not the stake account of a validator that signed, and no validator it stakes for was found guilty; txs: %s",
					h, cur, a, new(big.Int).Sub(pv, cv), pv, cv, txSummary(ob))})
			return vs
		}
	}
	for _, t := range ob.Txs {
		if t.Res.Code == 0 && strings.Contains(t.Label, "/") {
			o.advOK++
		}
	}
	return vs
}

func txSummary(ob *Obs) string {
	var parts []string
	for i, t := range ob.Txs {
		kind := "UNPARSEABLE"
		if t.Tx != nil {
			kind = t.Tx.Type.String()
		}
		l := t.Label
		if l == "" {
			l = kind
		}
		var ss []string
		for _, s := range t.Signers {
			ss = append(ss, s.String())
		}
		parts = append(parts, fmt.Sprintf("#%d %s code=%d signers=%v", i, l, t.Res.Code, ss))
	}
	if len(parts) > 12 {
		parts = append(parts[:12], "...")
	}
	return strings.Join(parts, ", ")
}

func (o *c03Oracle) Finish(e *core.Engine) []core.Violation { return nil }
func (o *c03Oracle) NonTrivial(e *core.Engine) bool         { return o.blocks >= 5 && o.debits >= 3 }

func init() {
	Register(&ClusterProp{
		Id: "C03",
		RuleText: "each run: one real replica executes a PRNG-built history with all generators (swarm subset), whose adversarial variants name other people's addresses as source, owner, beneficiary, locker, funder, validator or delegator while being signed by the attacker's own key, " +
			"plus the hostile-value client; blocks are built without CheckTx (byzantine proposer). After every commit the state is dumped and decoded; per externally owned account (every key the simulator created or that ever produced a verifying signature) " +
			"holdings = balances in every currency + locked/unlocking/withdrawable stake + delegated + undelegating + delegation reward claims. Oracle: holdings of an account fall across a block only if a signature of that account verifies (checked by the harness) on a transaction of the block, " +
			"or it is the stake account (per the previous block's validator records) of a validator whose key signed, or of a validator whose byzantine-fault freeze record was created in this block. Non-trivial: >=5 blocks and >=3 authorised debits observed; distinct = distinct fingerprints.",
		MakeSetup: func(rng *rand.Rand, tier string, seed uint64) *Setup {
			nb := 12 + rng.Intn(30)
			if tier == "thorough" {
				nb = 15 + rng.Intn(50)
			}
			su := drawWorkload(rng, tier, seed, 4, nb)
			su.Replicas = append(su.Replicas, core.ReplicaConf{Identity: "x0", Quiet: true, Recent: 10, Every: 100, Cycles: 10, WitnessInitEarly: true})
			su.Gens = append(su.Gens, gen.ByName("hostile-values", "impersonator")...)
			su.PlanHook = chainPlan(su.PlanHook, AbsentHook(0.05))
			return su
		},
		MakeOracle: func(e *core.Engine, tr *core.Trace) Oracle { return &c03Oracle{} },
	})
}

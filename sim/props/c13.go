package props

import (
	"fmt"
	"math/big"
	"math/rand"
	"sort"
	"strings"
	"time"

	dbm "github.com/tendermint/tm-db"

	"github.com/Oneledger/protocol/action"
	rwact "github.com/Oneledger/protocol/action/rewards"
	"github.com/Oneledger/protocol/data/balance"
	"github.com/Oneledger/protocol/data/governance"
	"github.com/Oneledger/protocol/data/keys"
	rwdata "github.com/Oneledger/protocol/data/rewards"
	"github.com/Oneledger/protocol/identity"
	"github.com/Oneledger/protocol/serialize"
	"github.com/Oneledger/protocol/storage"

	"olsim/core"
	"olsim/gen"
)

// C13 Block rewards stay inside the schedule.
//
// MODEL (harness-side bookkeeping, own arithmetic; nothing of the per-block formula is re-implemented)
//
//   inputs   reward options as stored under the governance records of the committed state (rewardInterval is not
//            used, blockSpeedCalculateCycle, yearCloseWindow, yearBlockRewardShares, burnoutRate,
//            estimatedSecondsPerCycle, rewardPoolAddress), header times of the reference replica's blocks,
//            state dumps of H-1 and H, delivered transactions and their result codes.
//   years    year i = [t1 + i calendar years, t1 + (i+1) calendar years), t1 = header time of block 1,
//            supply_i = yearBlockRewardShares[i]; after the last close the schedule is over.
//   cycles   block H belongs to the cycle that starts at S = ((H-1)/cycle)*cycle + 1.
//   credit   credited(H) = Σ increases of validator interval records rwz_<v>_<i> + Σ increases of delegator reward
//            balances. Transactions can only lower a delegator balance, so this is a LOWER bound of what the block
//            hooks credited; every use below is monotone in the right direction (lower credit = weaker check).
//   dist_y   Σ credited(B) over blocks B whose cycle is attributed to year y WITHOUT ambiguity (see below);
//            left_y(S) = supply_y - dist_y over blocks < S.
//   pulled   pulled(H) is OBSERVED: the repository's PullRewards on a throw-away store over the records of H-1
//            (ObservePulled). That store has an empty calculator cache, i.e. it answers what a node restarted right
//            before H would pull; the reference replica is never restarted, so oracle 1 also compares "never
//            restarted" (credits of the reference) with "just restarted" (observed pull) at every block.
//
// ORACLES per block H
//   1 credited-le-pulled    credited(H) <= max(pulled(H), 0)
//   2 pulled-le-left        pulled(H) <= max over the candidate years c of left_c(S); candidate "schedule over" has the
//                           bound min(burnoutRate, rewards pool balance at H-1). Candidates: the year that contains the
//                           time of block S, the year that contains the time of block H, and for each of them the
//                           following year (or "over") when the close is nearer than
//                           W' = max(yearCloseWindow, estimatedSecondsPerCycle/cycle, largest block interval seen) + 1 s.
//                           (The property leaves open how a cycle that begins right before a close is attributed; a
//                           block interval is the resolution with which any implementation can hit a close.)
//   3 withdraw-le-matured   per validator v: stored matured balance >= 0 and
//                           balance(v) + Σ successful WITHDRAW_REWARD amounts of v (whole OLT * 10^18, from the
//                           transaction bytes and result codes) <= Σ increases of v's interval records.
//                           A skipped debit or an inflated maturity step both break it once the excess is larger than
//                           what is still immature.
//   4 restart-independence  a second replica is killed (before/after BeginBlock, after Commit) at PRNG-chosen blocks,
//                           restarted through the real handshaker and must reproduce the reference's transcript
//                           (reward records are part of the app hash).
//
// DON'T CARE
//   - how the pulled amount is split among validators, delegators and the proposer; rounding remainders;
//   - the formula of the per-block amount, the number of blocks a year is expected to have;
//   - rwcum_tdist / rwcum_ydist and rwcum_withdrawn_<v> (bookkeeping the property does not speak of; a mismatch
//     of the withdrawn record is only counted in the probe c13_withdrawn_record_mismatch);
//   - WHEN an interval matures (n-1 or n-2) as long as no more matures than was credited;
//   - who may withdraw (C03/C04), whether the pool can pay (C02);
//   - a pull of zero or less (nothing is created); after a negative pull was observed the year bookkeeping is no
//     longer an upper bound of what was distributed and oracle 2 is suspended for the rest of the run;
//   - over-distribution of a year INSIDE one cycle (every block of the cycle may pull up to what was left when the
//     cycle began; the property bounds each block, not their sum).

var c13e18 = new(big.Int).Exp(big.NewInt(10), big.NewInt(18), nil)

type c13Year struct {
	start, close time.Time
	supply       *big.Int
}

type c13Oracle struct {
	obs Obs
	tr  *TranscriptOracle

	opts    *rwdata.Options
	optsRaw string
	pool    string // textual address of the rewards pool

	times    map[int64]time.Time
	maxDtSec int64
	years    []c13Year
	dist     []*big.Int // credits attributed to year i
	distAtS  []*big.Int // snapshot of dist when the current cycle began
	suspend  bool       // a negative pull was observed
	overlong bool       // a cycle began with window <= time to a year close < duration of the previous cycle
	zeroCyc  bool       // a whole cycle took less than a second

	refRw     map[int64]map[string]string // height -> reward-family records of the reference (for attributing divergences)
	pending   []core.Violation            // transcript divergences not yet attributed
	credited  map[string]*big.Int         // validator -> Σ increases of its interval records
	withdrawn map[string]*big.Int         // validator -> Σ successful WITHDRAW_REWARD amounts (nue)

	// restart tracking
	lastRestarts map[int]int
	seenAtt      map[int]int
	fresh        map[int]bool

	// reach counters
	nCredChecks, nBoundSingle, nBoundAmbig, nCycleStarts, nYearClose, nBurnout, nBurnoutCapped int
	nCacheMiss, nFreshFirst, nFreshLast, nFreshBurnout, nFreshOtherYear                        int
	nWithdrawOK, nDelegCredit, nValCredit, nNegPull, nPullErr, nAbsentBlocks, nMaturedSteps    int
	nWdRecMismatch, nOverDistributed, nUnattributed                                            int
}

func c13Amount(v []byte) (*big.Int, error) {
	a := balance.NewAmount(0)
	if err := serialize.GetSerializer(serialize.PERSISTENT).Deserialize(v, a); err != nil {
		return nil, err
	}
	return new(big.Int).Set(a.BigInt()), nil
}

// c13Options decodes the reward options from the governance records of a dump (repository types are used for
// DECODING only).
func c13Options(dump map[string][]byte) (opts *rwdata.Options, raw string, err error) {
	defer func() {
		if rec := recover(); rec != nil {
			err = fmt.Errorf("panic while decoding reward options: %v", rec)
		}
	}()
	ks := make([]string, 0, 32)
	for k := range dump {
		if strings.HasPrefix(k, "g_") {
			ks = append(ks, k)
		}
	}
	sort.Strings(ks)
	var fp strings.Builder
	for _, k := range ks {
		if strings.Contains(strings.ToLower(k), "reward") {
			fmt.Fprintf(&fp, "%s=%x;", k, dump[k])
		}
	}
	cs := storage.NewChainState("c13opts", dbm.NewMemDB())
	st := storage.NewState(cs)
	for _, k := range ks {
		st.Set(storage.StoreKey(k), dump[k])
	}
	st.Commit()
	st = storage.NewState(cs)
	opts, err = governance.NewStore("g", st).GetRewardOptions()
	return opts, fp.String(), err
}

func (o *c13Oracle) loadOptions(dump map[string][]byte, force bool) {
	// cheap change detection: the raw bytes of every governance record whose key mentions rewards
	if !force && o.opts != nil {
		var fp strings.Builder
		ks := make([]string, 0, 8)
		for k := range dump {
			if strings.HasPrefix(k, "g_") && strings.Contains(strings.ToLower(k), "reward") {
				ks = append(ks, k)
			}
		}
		sort.Strings(ks)
		for _, k := range ks {
			fmt.Fprintf(&fp, "%s=%x;", k, dump[k])
		}
		if fp.String() == o.optsRaw {
			return
		}
	}
	opts, raw, err := c13Options(dump)
	if err != nil || opts == nil {
		if o.opts == nil && !force {
			return
		}
		panic(core.HarnessError{Msg: fmt.Sprintf("cannot decode reward options from the committed state: %v", err)})
	}
	if o.opts != nil && len(o.years) > 0 && len(opts.YearBlockRewardShares) != len(o.years) {
		panic(core.HarnessError{Msg: "number of reward years changed during the run: the C13 model does not cover that"})
	}
	o.opts, o.optsRaw = opts, raw
	o.pool = keys.Address(opts.RewardPoolAddress).String()
	for i := range o.years {
		o.years[i].supply = new(big.Int).Set(opts.YearBlockRewardShares[i].BigInt())
	}
}

func (o *c13Oracle) rwzRecords(ob *Obs, cur bool) map[string][]byte {
	l := ob.Prev
	if cur {
		l = ob.Cur
	}
	if l == nil {
		return nil
	}
	return l.Raw["rwz_"]
}

// c13RwzKey splits "rwz_<validator>_<index>".
func c13RwzKey(k string) (val string, ok bool) {
	p := strings.Split(k, "_")
	if len(p) != 3 || p[0] != "rwz" || p[1] == "" {
		return "", false
	}
	return p[1], true
}

func c13Get(m map[string]*big.Int, k string) *big.Int {
	if x, ok := m[k]; ok && x != nil {
		return x
	}
	return new(big.Int)
}

func c13Add(m map[string]*big.Int, k string, x *big.Int) {
	if m[k] == nil {
		m[k] = new(big.Int)
	}
	m[k].Add(m[k], x)
}

// wsec is W' of the model comment, in seconds.
func (o *c13Oracle) wsec() int64 {
	w := o.opts.YearCloseWindow
	cyc := o.opts.BlockSpeedCalculateCycle
	if est := (o.opts.EstimatedSecondsPerCycle + cyc - 1) / cyc; est > w {
		w = est
	}
	if o.maxDtSec > w {
		w = o.maxDtSec
	}
	if w < 0 {
		w = 0
	}
	return w + 1
}

// candidates returns the year indexes (len(years) = "schedule over") a cycle/block at time t may belong to.
func (o *c13Oracle) candidates(t time.Time, wsec int64) []int {
	n := len(o.years)
	idx := n
	for i, y := range o.years {
		if t.Before(y.close) {
			idx = i
			break
		}
	}
	out := []int{idx}
	for i := idx; i < n; i++ {
		if o.years[i].close.Sub(t) < time.Duration(wsec)*time.Second {
			out = append(out, i+1)
		} else {
			break
		}
	}
	return out
}

func c13Union(a, b []int) []int {
	set := map[int]bool{}
	for _, x := range a {
		set[x] = true
	}
	for _, x := range b {
		set[x] = true
	}
	out := make([]int, 0, len(set))
	for x := range set {
		out = append(out, x)
	}
	sort.Ints(out)
	return out
}

func (o *c13Oracle) candName(c int) string {
	if c >= len(o.years) {
		return "over"
	}
	return fmt.Sprintf("year%d", c+1)
}

func (o *c13Oracle) AfterStep(e *core.Engine, idx int, st *core.Step, stepErr error) []core.Violation {
	if st.Kind == "boot" {
		o.obs.InitGenesis(e)
		o.loadOptions(o.obs.CurDump, false)
		// genesis reward state (empty in this simulator's genesis) is the baseline
		for k, v := range o.rwzRecords(&o.obs, true) {
			if val, ok := c13RwzKey(k); ok {
				if x, err := c13Amount(v); err == nil && x.Sign() > 0 {
					c13Add(o.credited, val, x)
				}
			}
		}
		for v, x := range o.obs.Cur.RwMatured {
			if x.Sign() > 0 {
				c13Add(o.credited, v, x)
			}
		}
		return nil
	}
	var vs []core.Violation
	if st.Kind == "block" && o.obs.Update(e, st) {
		vs = o.block(e, st)
	}
	tv := o.settle(e, o.tr.Check(e), stepErr != nil || len(vs) > 0)
	o.trackRestarts(e)
	return append(tv, vs...)
}

// c13RewardFamily: records written by the reward hooks and the reward withdrawals.
func c13RewardFamily(k string) bool {
	return strings.HasPrefix(k, "rwz_") || strings.HasPrefix(k, "rwcum_") || strings.HasPrefix(k, "delegRwz_")
}

// settle attributes transcript divergences. The transcript compares whole app hashes, so it also sees
// divergences after a restart that have nothing to do with rewards; those belong to C08 and are handed on as a
// foreign signal. A divergence is C13's iff a live victim's reward records differ from the reference's records of
// the same height. While no victim can be compared (it is down) the divergence is kept pending; when the run is
// about to end (final) what is still pending is handed on as foreign, too. Divergences after an over-long cycle
// (see degenerate()) get a class of their own.
func (o *c13Oracle) settle(e *core.Engine, fresh []core.Violation, final bool) []core.Violation {
	o.pending = append(o.pending, fresh...)
	if len(o.pending) == 0 {
		return nil
	}
	known := false
	var keysDiff []string
	for i, r := range e.C.Replicas {
		if i == 0 || !r.Up || r.App == nil {
			continue
		}
		ref := o.refRw[r.App.VerifChainState().Version]
		if ref == nil {
			continue
		}
		known = true
		got := map[string]string{}
		for k, v := range r.DumpMap() {
			if c13RewardFamily(k) {
				got[k] = string(v)
			}
		}
		for k, v := range ref {
			if w, ok := got[k]; !ok || w != v {
				keysDiff = append(keysDiff, k)
			}
		}
		for k := range got {
			if _, ok := ref[k]; !ok {
				keysDiff = append(keysDiff, k)
			}
		}
	}
	if !known && !final {
		return nil
	}
	sort.Strings(keysDiff)
	if len(keysDiff) > 10 {
		keysDiff = keysDiff[:10]
	}
	out := o.pending
	o.pending = nil
	for i := range out {
		switch {
		case known && len(keysDiff) > 0:
			out[i].Sig += o.degenerate()
			out[i].Msg += fmt.Sprintf(" [reward records that differ between the restarted replica and the reference at the same height: %q]", keysDiff)
		case known:
			out[i].Property, out[i].Oracle = "C08", "transcript-equality"
			out[i].Msg += " [seen by the C13 profile; no reward record differs, so this is not a C13 matter]"
		default:
			o.nUnattributed++
			out[i].Property, out[i].Oracle = "C08", "transcript-equality"
			out[i].Msg += " [seen by the C13 profile; the diverged replica was down until the run ended, the divergence could not be attributed to reward records]"
		}
	}
	return out
}

// degenerate is the suffix of violation classes once the run has left the regime in which the year-close window
// covers a whole calculation cycle. It is a function of block times and options only and never changes a verdict.
func (o *c13Oracle) degenerate() string {
	if o.overlong {
		return "-after-overlong-cycle"
	}
	return ""
}

// trackRestarts classifies, for statistics only, the first block a freshly started victim executes.
func (o *c13Oracle) trackRestarts(e *core.Engine) {
	if o.opts == nil {
		return
	}
	cyc := o.opts.BlockSpeedCalculateCycle
	for i, r := range e.C.Replicas {
		if i == 0 {
			continue
		}
		if r.Restarts != o.lastRestarts[i] {
			o.lastRestarts[i] = r.Restarts
			o.fresh[i] = true
		}
		for j := o.seenAtt[i]; j < len(r.Tr.Attempts); j++ {
			a := r.Tr.Attempts[j]
			if !a.Committed && j == len(r.Tr.Attempts)-1 && r.Up {
				break // still in flight
			}
			o.seenAtt[i] = j + 1
			if !o.fresh[i] || !a.Committed || cyc <= 0 {
				continue
			}
			o.fresh[i] = false
			switch pos := (a.Height - 1) % cyc; {
			case pos == 0:
				o.nFreshFirst++
			case pos == cyc-1:
				o.nFreshLast++
				o.nCacheMiss++
			default:
				o.nCacheMiss++
			}
			if t, ok := o.times[a.Height]; ok && len(o.years) > 0 {
				if !t.Before(o.years[len(o.years)-1].close) {
					o.nFreshBurnout++
				} else if !t.Before(o.years[0].close) {
					o.nFreshOtherYear++
				}
			}
		}
	}
}

func (o *c13Oracle) block(e *core.Engine, st *core.Step) []core.Violation {
	ob := &o.obs
	h := ob.H
	if ob.Att == nil || ob.Att.Begin == nil {
		panic(core.HarnessError{Msg: "no BeginBlock request recorded for a committed block"})
	}
	if o.opts == nil {
		o.loadOptions(ob.CurDump, true)
	} else {
		o.loadOptions(ob.CurDump, false)
	}
	cyc := o.opts.BlockSpeedCalculateCycle
	if cyc <= 0 {
		panic(core.HarnessError{Msg: "blockSpeedCalculateCycle <= 0: the C13 model does not cover that"})
	}
	t := ob.Att.Begin.Header.Time.UTC()
	o.times[h] = t
	rw := map[string]string{}
	for k, v := range ob.CurDump {
		if c13RewardFamily(k) {
			rw[k] = string(v)
		}
	}
	o.refRw[h] = rw
	if h == 1 || len(o.years) == 0 {
		t1 := t
		if tt, ok := o.times[1]; ok {
			t1 = tt
		}
		o.years = nil
		s := t1
		for _, sh := range o.opts.YearBlockRewardShares {
			c := s.AddDate(1, 0, 0).UTC()
			o.years = append(o.years, c13Year{start: s, close: c, supply: new(big.Int).Set(sh.BigInt())})
			s = c
		}
		o.dist = make([]*big.Int, len(o.years))
		o.distAtS = make([]*big.Int, len(o.years))
		for i := range o.dist {
			o.dist[i], o.distAtS[i] = new(big.Int), new(big.Int)
		}
	}
	if pt, ok := o.times[h-1]; ok {
		d := t.Sub(pt)
		sec := int64(d / time.Second)
		if d%time.Second != 0 {
			sec++
		}
		if sec > o.maxDtSec {
			o.maxDtSec = sec
		}
	}
	S := (h-1)/cyc*cyc + 1
	if S == h {
		for i := range o.dist {
			o.distAtS[i] = new(big.Int).Set(o.dist[i])
		}
		// classification only: did the previous cycle take longer than what is left of a year the window has not closed yet?
		dur := time.Duration(o.opts.EstimatedSecondsPerCycle) * time.Second
		if tp, ok := o.times[S-cyc]; ok && h > cyc {
			dur = t.Sub(tp)
			if dur < time.Second {
				o.zeroCyc = true
			}
		}
		for _, y := range o.years {
			if rest := y.close.Sub(t); rest > 0 && rest >= time.Duration(o.opts.YearCloseWindow)*time.Second && rest < dur {
				o.overlong = true
			}
		}
	}
	tS, ok := o.times[S]
	if !ok {
		tS = t // cannot happen: heights are consecutive from 1
	}

	// Oracles 1 and 2 judge what the block hook did before any transaction of the block ran, so their label is
	// always "block-hooks"; oracle 3 says WITHDRAW_REWARD when the validator concerned withdrew successfully in this
	// block (signature only, never the verdict).
	labels := "block-hooks"
	mk := func(oracle, class, msg string) core.Violation {
		return core.Violation{Property: "C13", Oracle: oracle, Sig: class + o.degenerate() + ":" + labels, Msg: fmt.Sprintf("block %d (cycle began at block %d): %s", h, S, msg)}
	}

	// ---- observed pull -------------------------------------------------------------------------
	pulled, perr := ObservePulled(ob.PrevDump, e.C.Ref(), h)
	if perr != nil {
		// the repository's PullRewards returns "insufficient balance" when it finds the year over-distributed; the
		// block hook then credits nothing. For the model that is a pull of zero. Anything else is harness trouble.
		if perr != balance.ErrInsufficientBalance {
			panic(core.HarnessError{Msg: fmt.Sprintf("cannot observe pulled(%d): %v", h, perr)})
		}
		o.nPullErr++
		pulled = new(big.Int)
	}
	if pulled.Sign() < 0 {
		o.nNegPull++
	}
	pulledPos := new(big.Int).Set(pulled)
	if pulledPos.Sign() < 0 {
		pulledPos.SetInt64(0)
	}

	// ---- credited(H): lower bound from the two dumps ------------------------------------------
	credV, credD := new(big.Int), new(big.Int)
	prevR, curR := o.rwzRecords(ob, false), o.rwzRecords(ob, true)
	rk := make([]string, 0, len(curR))
	for k := range curR {
		rk = append(rk, k)
	}
	sort.Strings(rk)
	var parts []string
	for _, k := range rk {
		val, ok := c13RwzKey(k)
		if !ok {
			panic(core.HarnessError{Msg: "unexpected reward record key " + k})
		}
		cx, err := c13Amount(curR[k])
		if err != nil {
			panic(core.HarnessError{Msg: "undecodable reward record " + k + ": " + err.Error()})
		}
		px := new(big.Int)
		if pv, ok := prevR[k]; ok {
			if px, err = c13Amount(pv); err != nil {
				panic(core.HarnessError{Msg: "undecodable reward record " + k + ": " + err.Error()})
			}
		}
		if d := new(big.Int).Sub(cx, px); d.Sign() > 0 {
			credV.Add(credV, d)
			c13Add(o.credited, val, d)
			if len(parts) < 8 {
				parts = append(parts, fmt.Sprintf("%s+%s", k, d))
			}
		}
	}
	dk := make([]string, 0, len(ob.Cur.DelegRwBalance))
	for k := range ob.Cur.DelegRwBalance {
		dk = append(dk, k)
	}
	sort.Strings(dk)
	for _, k := range dk {
		px := new(big.Int)
		if ob.Prev != nil {
			px = c13Get(ob.Prev.DelegRwBalance, k)
		}
		if d := new(big.Int).Sub(ob.Cur.DelegRwBalance[k], px); d.Sign() > 0 {
			credD.Add(credD, d)
			if len(parts) < 8 {
				parts = append(parts, fmt.Sprintf("delegRwz_balance_%s+%s", k, d))
			}
		}
	}
	cred := new(big.Int).Add(credV, credD)
	if credV.Sign() > 0 {
		o.nValCredit++
	}
	if credD.Sign() > 0 {
		o.nDelegCredit++
	}
	if len(st.Absent) > 0 {
		o.nAbsentBlocks++
	}

	// ---- oracle 1 ------------------------------------------------------------------------------
	if cred.Sign() > 0 || pulled.Sign() > 0 {
		o.nCredChecks++
	}
	if cred.Cmp(pulledPos) > 0 {
		class, why := "credited-exceeds-pulled", ""
		if perr != nil {
			class = "credited-though-fresh-pull-fails"
			why = fmt.Sprintf(" (PullRewards on a store without calculator cache fails with %q, i.e. a node restarted before this block credits nothing)", perr.Error())
		}
		return []core.Violation{mk("credited-le-pulled", class,
			fmt.Sprintf("validators' interval records rose by %s nue and delegators' reward balances by %s nue, together %s nue; the amount pulled for this block, observed on the records of block %d, is %s nue%s; increases: %s",
				credV, credD, cred, h-1, pulled, why, strings.Join(parts, ", ")))}
	}

	// ---- oracle 2 ------------------------------------------------------------------------------
	w := o.wsec()
	cands := c13Union(o.candidates(tS, w), o.candidates(t, w))
	n := len(o.years)
	poolBal := new(big.Int)
	if ob.Prev != nil {
		if m, ok := ob.Prev.Bal[o.pool]; ok {
			poolBal = c13Get(m, "OLT")
		}
	}
	burn := new(big.Int).Set(o.opts.BurnoutRate.BigInt())
	capOver := new(big.Int).Set(burn)
	if poolBal.Cmp(capOver) < 0 {
		capOver.Set(poolBal)
	}
	var bound *big.Int
	var desc []string
	for _, c := range cands {
		var b *big.Int
		if c < n {
			b = new(big.Int).Sub(o.years[c].supply, o.distAtS[c])
			desc = append(desc, fmt.Sprintf("%s: supply %s - distributed before the cycle %s = %s", o.candName(c), o.years[c].supply, o.distAtS[c], b))
		} else {
			b = capOver
			desc = append(desc, fmt.Sprintf("over: min(burnout rate %s, rewards pool %s) = %s", burn, poolBal, b))
		}
		if bound == nil || b.Cmp(bound) > 0 {
			bound = b
		}
	}
	single := len(cands) == 1
	if S == h && h > 1 && pulled.Sign() > 0 {
		o.nCycleStarts++
	}
	if !t.Before(o.years[0].close) {
		o.nYearClose++
	}
	if single && cands[0] == n {
		o.nBurnout++
		if poolBal.Cmp(burn) < 0 {
			o.nBurnoutCapped++
		}
	}
	if pulled.Sign() > 0 && !(o.suspend && !(single && cands[0] == n)) {
		if single {
			o.nBoundSingle++
		} else {
			o.nBoundAmbig++
		}
		if pulled.Cmp(bound) > 0 {
			class := "pulled-exceeds-year-left"
			if single && cands[0] == n {
				class = "pulled-exceeds-burnout-cap"
			}
			return []core.Violation{mk("pulled-le-left", class,
				fmt.Sprintf("pulled %s nue; block time %s, cycle began at %s, first block at %s; admissible bounds: %s (year closes: %s; ambiguity window %d s)",
					pulled, t.Format(time.RFC3339), tS.Format(time.RFC3339), o.years[0].start.Format(time.RFC3339), strings.Join(desc, " | "), o.closes(), w))}
		}
	}
	// attribution of this block's credits
	if single && cands[0] < n {
		y := cands[0]
		o.dist[y].Add(o.dist[y], cred)
		if o.dist[y].Cmp(o.years[y].supply) > 0 {
			o.nOverDistributed++
		}
	}
	if pulled.Sign() < 0 {
		o.suspend = true
	}

	// ---- oracle 3 ------------------------------------------------------------------------------
	wdBy := map[string]bool{} // validators with a successful withdrawal in this block (signature label only)
	for _, tx := range ob.Txs {
		if tx.Tx == nil || tx.Tx.Type != action.WITHDRAW_REWARD || tx.Res.Code != 0 {
			continue
		}
		wd := rwact.Withdraw{}
		if err := wd.Unmarshal(tx.Tx.Data); err != nil {
			panic(core.HarnessError{Msg: "successful WITHDRAW_REWARD whose data does not decode: " + err.Error()})
		}
		x := new(big.Int).Mul(wd.WithdrawAmount.Value.BigInt(), c13e18)
		c13Add(o.withdrawn, keys.Address(wd.ValidatorAddress).String(), x)
		o.nWithdrawOK++
		wdBy[keys.Address(wd.ValidatorAddress).String()] = true
	}
	vset := map[string]bool{}
	for v := range ob.Cur.RwMatured {
		vset[v] = true
	}
	for v := range o.withdrawn {
		vset[v] = true
	}
	vl := make([]string, 0, len(vset))
	for v := range vset {
		vl = append(vl, v)
	}
	sort.Strings(vl)
	for _, v := range vl {
		bal := c13Get(ob.Cur.RwMatured, v)
		wdn := c13Get(o.withdrawn, v)
		labels = "block-hooks"
		if wdBy[v] {
			labels = "WITHDRAW_REWARD"
		}
		crd := c13Get(o.credited, v)
		if ob.Prev != nil && bal.Cmp(c13Get(ob.Prev.RwMatured, v)) > 0 {
			o.nMaturedSteps++
		}
		if bal.Sign() < 0 && !o.suspend {
			return []core.Violation{mk("withdraw-le-matured", "matured-balance-negative",
				fmt.Sprintf("rwcum_balance_%s = %s after the block: more was withdrawn than had matured (withdrawn so far %s nue)", v, bal, wdn))}
		}
		if m := new(big.Int).Add(bal, wdn); m.Cmp(crd) > 0 {
			return []core.Violation{mk("withdraw-le-matured", "matured-exceeds-credited",
				fmt.Sprintf("validator %s: matured balance rwcum_balance = %s nue plus successfully withdrawn %s nue = %s nue, but its interval records rwz_%s_* were credited only %s nue in total",
					v, bal, wdn, m, v, crd))}
		}
		if rec := c13Get(ob.Cur.RwWithdrawn, v); rec.Cmp(wdn) != 0 {
			o.nWdRecMismatch++
		}
	}
	return nil
}

func (o *c13Oracle) closes() string {
	var p []string
	for _, y := range o.years {
		p = append(p, y.close.Format("2006-01-02T15:04:05Z"))
	}
	return strings.Join(p, ",")
}

func (o *c13Oracle) Finish(e *core.Engine) []core.Violation {
	vs := o.settle(e, o.tr.Check(e), true)
	o.trackRestarts(e)
	return vs
}

func (o *c13Oracle) NonTrivial(e *core.Engine) bool {
	p := e.Stats.Probes
	flag := func(name string, n int) {
		if n > 0 {
			p["c13_runs_"+name] = 1
		}
		p["c13_n_"+name] += n
	}
	flag("cycle_start", o.nCycleStarts)
	flag("year_close", o.nYearClose)
	flag("burnout", o.nBurnout)
	flag("burnout_pool_below_rate", o.nBurnoutCapped)
	flag("cache_miss_after_restart", o.nCacheMiss)
	flag("restart_at_cycle_start", o.nFreshFirst)
	flag("restart_at_cycle_last_block", o.nFreshLast)
	flag("restart_in_later_year", o.nFreshOtherYear)
	flag("restart_in_burnout", o.nFreshBurnout)
	flag("withdraw_ok", o.nWithdrawOK)
	flag("deleg_credit", o.nDelegCredit)
	flag("val_credit", o.nValCredit)
	flag("bound_single", o.nBoundSingle)
	flag("bound_ambiguous", o.nBoundAmbig)
	flag("neg_pull", o.nNegPull)
	flag("pull_error", o.nPullErr)
	flag("absent_blocks", o.nAbsentBlocks)
	flag("matured_steps", o.nMaturedSteps)
	flag("withdrawn_record_mismatch", o.nWdRecMismatch)
	flag("year_over_distributed", o.nOverDistributed)
	flag("divergence_unattributed", o.nUnattributed)
	if o.overlong {
		p["c13_runs_overlong_cycle"] = 1
	}
	if o.zeroCyc {
		p["c13_runs_zero_duration_cycle"] = 1
	}
	if o.nValCredit > 0 && o.nDelegCredit == 0 {
		p["c13_runs_zero_delegation"] = 1
	}
	nt := o.nCredChecks >= 5 && o.nBoundSingle >= 3 && o.nCycleStarts >= 1 && o.nCacheMiss >= 1
	if nt {
		p["c13_runs_nontrivial"] = 1
	}
	return nt
}

// ---- generator: validators withdraw matured block rewards (works without any network delegation) -------------

type c13ValWithdraw struct{}

func (c13ValWithdraw) Name() string { return "c13-valwithdraw" }

func c13Memo(rng *rand.Rand) string {
	const letters = "abcdefghijklmnopqrstuvwxyz0123456789"
	b := make([]byte, 8)
	for i := range b {
		b[i] = letters[rng.Intn(len(letters))]
	}
	return string(b)
}

func (c13ValWithdraw) Gen(c *gen.Ctx) (out []gen.Tx) {
	defer func() {
		if rec := recover(); rec != nil {
			if _, ok := rec.(core.HarnessError); ok {
				panic(rec)
			}
			out = nil
		}
	}()
	if c.Ref == nil || c.Ref.App == nil || c.Rng.Intn(100) >= 45 {
		return nil
	}
	st := c.Ref.ReadState()
	rcm := rwdata.NewRewardCumulativeStore("rwcum", st)
	vs := identity.NewValidatorStore("v", "purged", st)
	type cand struct {
		vk    *core.ValidatorKeys
		whole int64
	}
	var rich []cand
	for _, vk := range c.W.AllValidatorKeys() {
		val, err := vs.Get(vk.ValKey.Addr)
		if err != nil || val == nil || !val.StakeAddress.Equal(vk.NodeKey.Addr) {
			continue
		}
		a, err := rcm.GetMaturedBalance(vk.ValKey.Addr)
		if err != nil || a == nil {
			continue
		}
		w := new(big.Int).Div(a.BigInt(), c13e18)
		if w.Sign() > 0 && w.IsInt64() {
			rich = append(rich, cand{vk, w.Int64()})
		}
	}
	if len(rich) == 0 {
		return nil
	}
	r := rich[c.Rng.Intn(len(rich))]
	mkTx := func(olt int64, kind string) gen.Tx {
		msg := &rwact.Withdraw{ValidatorAddress: r.vk.ValKey.Addr, SignerAddress: r.vk.NodeKey.Addr,
			WithdrawAmount: action.Amount{Currency: "OLT", Value: *balance.NewAmount(olt)}}
		return gen.Tx{Bytes: core.BuildTx(msg, core.DefaultFee(), c13Memo(c.Rng), r.vk.NodeKey), Kind: kind}
	}
	K := "WITHDRAW_REWARD"
	switch x := c.Rng.Intn(100); {
	case x < 30:
		return []gen.Tx{mkTx(1+c.Rng.Int63n(r.whole), K)}
	case x < 60:
		return []gen.Tx{mkTx(r.whole, K+"/all")}
	case x < 80:
		return []gen.Tx{mkTx(r.whole, K+"/all-twice"), mkTx(r.whole, K+"/all-twice")}
	case x < 90:
		return []gen.Tx{mkTx(r.whole+1+c.Rng.Int63n(1000), K+"/too-much")}
	default:
		if r.whole < 2 {
			return []gen.Tx{mkTx(1, K)}
		}
		a := 1 + c.Rng.Int63n(r.whole/2)
		return []gen.Tx{mkTx(a, K+"/repeat"), mkTx(1+c.Rng.Int63n(r.whole-a), K+"/repeat")}
	}
}

// ---- profile ---------------------------------------------------------------------------------------------

const c13Day = int64(86400)

// c13TimeHook draws the block time steps. regular: every step <= maxDtMs (the profile sets the year-close
// window to at least cycle*maxDt, "set properly" in the words of calculator.go); wild: anything.
func c13TimeHook(wild bool, maxDtMs int64, cycle int64, absent float64) func(e *core.Engine, rng *rand.Rand, st *core.Step, gc *gen.Ctx) {
	burst := 0
	ah := AbsentHook(absent)
	return func(e *core.Engine, rng *rand.Rand, st *core.Step, gc *gen.Ctx) {
		x := rng.Intn(40)
		switch {
		case burst > 0:
			burst--
			st.DtMs = 1
		case x == 0:
			// nearly simultaneous blocks; sometimes a whole cycle of them
			burst = rng.Intn(int(cycle) + 2)
			st.DtMs = 1
		case x < 4:
			st.DtMs = 500 + rng.Int63n(20000) // ordinary block interval
		case wild && x < 22:
			st.DtMs = drawDt(rng, e.W.Knobs)
		case wild:
			st.DtMs = (5 + rng.Int63n(200)) * c13Day * 1000
		default:
			st.DtMs = maxDtMs/4 + rng.Int63n(maxDtMs*3/4)
		}
		if absent > 0 {
			ah(e, rng, st, gc)
		}
	}
}

func c13Nue(rng *rand.Rand, loOLT, hiOLT int64) string {
	x := new(big.Int).Mul(big.NewInt(loOLT+rng.Int63n(hiOLT-loOLT+1)), c13e18)
	x.Add(x, big.NewInt(rng.Int63n(1000000000000000000)))
	return x.String()
}

func init() {
	Register(&ClusterProp{
		Id: "C13",
		RuleText: "each run: reference replica (never restarted) + one victim replica executing the same PRNG-built history; small calculation cycles (3-8 blocks), 1-3 reward years with uneven supplies, " +
			"block time steps of days to weeks (regular profile: every step <= yearCloseWindow/cycle; wild profile, 30% of runs: seconds to 200 days with a window of seconds to days), bursts of 1 ms blocks, so that cycle starts, year closes and the burnout phase are crossed within 40-110 blocks; " +
			"absent signers (0-15% per validator and block), stake changes, network delegation traffic (30% of runs without any delegation), validator and delegator reward withdrawals, rewards pool above or around the burnout rate; " +
			"the victim is killed before/after BeginBlock or after Commit at PRNG-chosen blocks and restarted through the real handshaker. " +
			"Oracles per block: (1) increases of validator interval records + increases of delegator reward balances <= pulled(H), observed by calling the real PullRewards on a throw-away, cache-less store over the records of H-1; " +
			"(2) pulled(H) <= supply left in the harness's own year bookkeeping when the cycle began (larger of the candidate years near a close), or min(burnout rate, rewards pool at H-1) once the schedule is over; " +
			"(3) per validator: matured balance >= 0 and matured balance + successfully withdrawn <= credited; (4) the victim's transcript equals the reference's. " +
			"Non-trivial: >=5 blocks with credits compared, >=3 unambiguous year-bound checks, >=1 cycle start with a positive pull and >=1 victim restart whose first executed block lies inside a cycle (reward cache miss); distinct = distinct fingerprints.",
		MakeSetup: func(rng *rand.Rand, tier string, seed uint64) *Setup {
			k := SwarmKnobs(rng)
			su := &Setup{Knobs: k, Sess: gen.NewSession()}
			k.NumValidators = 1 + rng.Intn(5)
			if k.NumWitnesses > k.NumValidators {
				k.NumWitnesses = k.NumValidators
			}
			k.SpeedCycle = int64(3 + rng.Intn(6))
			k.RewardInterval = int64(2 + rng.Intn(4))
			nYears := 1 + rng.Intn(3)
			wild := rng.Intn(10) < 3
			blocks := 0
			var maxDtMs int64
			if !wild {
				windowDays := int64(90 + rng.Intn(61))
				maxDtDays := float64(windowDays) / float64(k.SpeedCycle)
				maxDtMs = int64(maxDtDays * float64(c13Day) * 1000)
				k.YearCloseWindow = windowDays * c13Day
				k.BlockSeconds = maxDtMs / 2000
				k.SecondsPerCycle = k.SpeedCycle * k.BlockSeconds
				perYear := int(365.0/(0.58*maxDtDays)) + 1
				maxBlocks := 95
				if tier == "thorough" {
					maxBlocks = 160
				}
				for nYears > 1 && nYears*perYear+14 > maxBlocks {
					nYears--
				}
				blocks = nYears*perYear + 10 + rng.Intn(10)
				if blocks > maxBlocks {
					blocks = maxBlocks
				}
			} else {
				switch rng.Intn(3) {
				case 0: // shipped-like: seconds
				case 1:
					k.YearCloseWindow = c13Day * int64(1+rng.Intn(30))
				default:
					k.YearCloseWindow = c13Day * int64(30+rng.Intn(120))
				}
				k.SecondsPerCycle = k.SpeedCycle * k.BlockSeconds
				blocks = 40 + rng.Intn(40)
				if tier == "thorough" {
					blocks = 50 + rng.Intn(80)
				}
			}
			k.YearShares = nil
			for i := 0; i < nYears; i++ {
				k.YearShares = append(k.YearShares, c13Nue(rng, 1000, 9000))
			}
			k.BurnoutRate = c13Nue(rng, 1, 40)
			if rng.Intn(2) == 0 {
				// rewards pool around the burnout rate: the cap matters in the burnout phase
				burn, _ := new(big.Int).SetString(k.BurnoutRate, 10)
				f := new(big.Int).Mul(burn, big.NewInt(int64(rng.Intn(300))))
				k.RewardsPoolFund = f.Div(f, big.NewInt(100)).String()
			}
			su.Knobs = k
			su.Replicas = append(su.Replicas, core.ReplicaConf{Identity: "x0", Quiet: true, Recent: 10, Every: 100, Cycles: 10, WitnessInitEarly: true})
			rc := core.ReplicaConf{WitnessInitEarly: rng.Intn(2) == 0, Quiet: true}
			switch rng.Intn(3) {
			case 0:
				rc.Identity = fmt.Sprintf("v%d", rng.Intn(k.NumValidators))
			case 1:
				rc.Identity = fmt.Sprintf("c%d", rng.Intn(4))
			default:
				rc.Identity = "x1"
			}
			rc.Recent, rc.Every, rc.Cycles = drawRotation(rng)
			su.Replicas = append(su.Replicas, rc)

			if rng.Intn(10) < 3 {
				// no network delegation at all: the whole pull goes to the validators
				su.Gens = append(gen.ByName("send", "staking"), c13ValWithdraw{})
			} else {
				su.Gens = gen.ByName("netdeleg", "rewards", "send")
				if rng.Intn(10) < 7 {
					su.Gens = append(su.Gens, gen.ByName("staking")...)
				}
				if rng.Intn(2) == 0 {
					su.Gens = append(su.Gens, gen.ByName("sendpool")...)
				}
				if rng.Intn(2) == 0 {
					su.Gens = append(su.Gens, c13ValWithdraw{})
				}
			}
			su.Blocks = blocks
			su.MaxTx = 10
			absent := []float64{0, 0, 0.05, 0.15}[rng.Intn(4)]
			su.PlanHook = c13TimeHook(wild, maxDtMs, k.SpeedCycle, absent)
			su.Policy = &NoisePolicy{Rng: rng, Sess: su.Sess, CrashRate: 0.05, ReplayCrashRate: 0.01, MaxCrashes: 14,
				CrashOK: func(r *core.Replica, s core.Site) bool {
					switch s.Call {
					case core.CBeginBlock:
						return true
					case core.CCommit:
						return s.After
					}
					return false
				}}
			su.Between = RestartBetween(0.7)
			return su
		},
		MakeOracle: func(e *core.Engine, tr *core.Trace) Oracle {
			return &c13Oracle{tr: NewTranscriptOracle("C13", "restart-independence"), times: map[int64]time.Time{},
				credited: map[string]*big.Int{}, withdrawn: map[string]*big.Int{}, refRw: map[int64]map[string]string{},
				lastRestarts: map[int]int{}, seenAtt: map[int]int{}, fresh: map[int]bool{}}
		},
	})
}

func (o *c13Oracle) OnDeath(e *core.Engine, idx int, st *core.Step, deaths []string) []core.Violation {
	return ReplicaDeath("C13", "restart-independence", e, st, deaths)
}

package props

import (
	"encoding/json"
	"fmt"
	"math/big"
	"math/rand"
	"sort"
	"strconv"
	"strings"

	tmed "github.com/tendermint/tendermint/crypto/ed25519"
	tmtypes "github.com/tendermint/tendermint/types"
	dbm "github.com/tendermint/tm-db"

	stact "github.com/Oneledger/protocol/action/staking"
	evdata "github.com/Oneledger/protocol/data/evidence"
	"github.com/Oneledger/protocol/data/governance"
	"github.com/Oneledger/protocol/identity"
	"github.com/Oneledger/protocol/storage"

	"olsim/core"
	"olsim/gen"
)

// C10 Validator updates are acceptable to Tendermint and follow the staking rule.
//
// MODEL (written from the property text; nothing of identity.ValidatorStore is called)
//
//	view(D)      = what a committed dump D says about the election inputs:
//	               candidates = every validator record "v_<addr>" (pubkey, own stake = its "staking" amount, "power"),
//	               freeze flag of each candidate = the suspicious-validator record "es__ssvk_<addr>" of the same dump
//	               (frozen while no release later than the freeze is recorded),
//	               staking options in force (minimum self delegation, top count) = latest governance record.
//	qualifying   = stake >= minimum and no freeze in force.
//	election(D)  = the top-count qualifying candidates by stake (ties: any choice).
//
// Oracle A "tendermint-accepts-updates": the real Tendermint BlockExecutor (validateValidatorUpdates +
//   ValidatorSet.UpdateWithChangeSet) judged the EndBlock response; the driver's step error is the verdict.
// Oracle B "election-rule", at EndBlock(H) against view(D[H-1]): every update with power > 0 names a record of D[H-1]
//   which is qualifying and whose stake equals the power; at most top-count positive updates; no qualifying candidate
//   with STRICTLY higher stake is left out (neither updated nor already in Tendermint's next set with that power)
//   while a lower one is issued.
// Oracle C "convergence": when view(D) has been identical for 5 consecutive blocks S+1..S+5, the set Tendermint will use
//   for block S+6 (State.Validators after S+5) is an election of that view: only qualifying members, power == stake,
//   size == min(top count, number of qualifying), nobody outside has strictly more stake than somebody inside.
//   (Updates of block h act at h+2 and the application sees them in the commit info of h+3; a removal that has to wait
//   for that round trip is issued by S+3 at the latest, is in NextValidators after S+3 and in Validators after S+4; one
//   block of slack is given.)
//
// DON'T CARE
//   * order of the updates; re-sending unchanged positive updates every block, or not re-sending them
//   * which of several equal-stake candidates is taken at the top-count boundary; tie-breaking in general
//   * whether the options of D[H-1] or those of D[H] (fork block, proposal finalised in H) are applied at H:
//     oracle B accepts the block if it is right under either of them
//   * candidates first flagged in block H itself (freeze record appears in D[H]): may be elected or left out at H
//   * a freeze record released at the very instant it was created (release time == freeze time): either reading
//   * records whose "power" field differs from "staking" (byzantine slashing writes power 0): never required to be
//     elected; if a positive update is issued for them it must still carry the stake
//   * removals (power 0) beyond Tendermint's own rule; how fast a removal is sent, as long as the 5 block bound holds
//   * everything else in EndBlock (fee distribution, allegation tracker, validator status records, purge records)
//   * step errors and application deaths of any other kind (other properties)

type c10Cand struct {
	Addr   string
	Pub    string // "<type>:<hex>", the form used in the transcript's validator updates
	Stake  *big.Int
	Power  int64
	Frozen int    // 0 no freeze in force, 1 frozen, 2 unclear (released at the instant of the freeze)
	Why    string // reason recorded with the freeze ("missed-votes", "byzantine-fault", ...)
}

type c10View struct {
	Cands  []*c10Cand // ascending by address
	ByPub  map[string][]*c10Cand
	ByAddr map[string]*c10Cand
	Min    *big.Int
	Top    int64
	FP     string
}

type c10Upd struct {
	Pub   string
	Power int64
}

type c10Opt struct {
	Min *big.Int
	Top int64
}

type c10Oracle struct {
	obs      Obs
	optCache map[string]c10Opt
	prev     *c10View // view(D[H-1]) after the last processed block, i.e. the view of obs.CurDump
	stable   int      // number of consecutive blocks whose view equals the previous one

	blocks      int
	elections   int // blocks with >=1 positive update judged
	positives   int
	removals    int // power-0 updates seen (accepted by Tendermint)
	cutBlocks   int // blocks in which more candidates qualified than the top count admits
	exclBlocks  int // blocks in which a staked candidate did not qualify (below minimum or frozen)
	frozenSeen  int // blocks in which a candidate with stake >= minimum was frozen
	tieBlocks   int // blocks with equal stakes across the top-count boundary or a stake exactly at the minimum
	setChanges  int // blocks after which Tendermint's next set has different members
	optChanges  int
	convChecks  int
	lastNextSet string
}

func c10Hex(b []byte) string { return fmt.Sprintf("%x", b) }

// c10StakingOptions decodes the staking options in force in a dump with the repository's governance store over a
// throw-away state (decoding only).
func (o *c10Oracle) stakingOptions(dump map[string][]byte) c10Opt {
	ks := make([]string, 0, 4)
	for k := range dump {
		if strings.HasPrefix(k, "g_") && (strings.HasSuffix(k, "_stakingopt") || strings.HasPrefix(k, "g_stakingOptions_")) {
			ks = append(ks, k)
		}
	}
	sort.Strings(ks)
	var sb strings.Builder
	for _, k := range ks {
		sb.WriteString(k)
		sb.WriteByte(0)
		sb.Write(dump[k])
		sb.WriteByte(1)
	}
	ck := sb.String()
	if v, ok := o.optCache[ck]; ok {
		return v
	}
	var out c10Opt
	func() {
		defer func() {
			if rec := recover(); rec != nil {
				panic(core.HarnessError{Msg: fmt.Sprintf("C10: cannot decode staking options: %v", rec)})
			}
		}()
		cs := storage.NewChainState("c10opt", dbm.NewMemDB())
		st := storage.NewState(cs)
		for _, k := range ks {
			if err := st.Set(storage.StoreKey(k), dump[k]); err != nil {
				panic(err)
			}
		}
		st.Commit()
		gov := governance.NewStore("g", storage.NewState(cs))
		opt, err := gov.GetStakingOptions()
		if err != nil || opt == nil {
			panic(fmt.Sprintf("GetStakingOptions: %v", err))
		}
		out = c10Opt{Min: new(big.Int).Set(opt.MinSelfDelegationAmount.BigInt()), Top: opt.TopValidatorCount}
	}()
	if o.optCache == nil {
		o.optCache = map[string]c10Opt{}
	}
	o.optCache[ck] = out
	return out
}

// view decodes the election inputs of a dump.
func (o *c10Oracle) view(dump map[string][]byte) *c10View {
	v := &c10View{ByPub: map[string][]*c10Cand{}, ByAddr: map[string]*c10Cand{}}
	frozen := map[string]int{}
	why := map[string]string{}
	var vkeys []string
	for k, val := range dump {
		switch {
		case strings.HasPrefix(k, "es__ssvk_"):
			lvh := &evdata.LastValidatorHistory{}
			if err := json.Unmarshal(val, lvh); err != nil {
				panic(core.HarnessError{Msg: "C10: cannot decode suspicious validator record " + k + ": " + err.Error()})
			}
			a := lvh.Address.String()
			switch lvh.Status {
			case evdata.MISSED_REQUIRED_VOTES:
				why[a] = "missed-votes"
			case evdata.BYZANTINE_FAULT:
				why[a] = "byzantine-fault"
			default:
				why[a] = fmt.Sprintf("status-%d", lvh.Status)
			}
			switch {
			case lvh.ReleaseAt == nil:
				frozen[a] = 1
			case lvh.FrozenAt == nil || lvh.ReleaseAt.After(*lvh.FrozenAt):
				frozen[a] = 0
			case lvh.ReleaseAt.Equal(*lvh.FrozenAt):
				frozen[a] = 2
			default:
				frozen[a] = 1 // the recorded release is older than the freeze
			}
		case strings.HasPrefix(k, "v_"):
			vkeys = append(vkeys, k)
		}
	}
	sort.Strings(vkeys)
	for _, k := range vkeys {
		rec := &identity.Validator{}
		if err := json.Unmarshal(dump[k], rec); err != nil {
			panic(core.HarnessError{Msg: fmt.Sprintf("C10: cannot decode validator record %q: %v", k, err)})
		}
		c := &c10Cand{Addr: rec.Address.String(), Pub: rec.PubKey.KeyType.String() + ":" + c10Hex(rec.PubKey.Data),
			Stake: new(big.Int).Set(rec.Staking.BigInt()), Power: rec.Power}
		v.Cands = append(v.Cands, c)
	}
	sort.Slice(v.Cands, func(i, j int) bool { return v.Cands[i].Addr < v.Cands[j].Addr })
	opt := o.stakingOptions(dump)
	v.Min, v.Top = opt.Min, opt.Top
	var sb strings.Builder
	fmt.Fprintf(&sb, "min=%s top=%d", v.Min, v.Top)
	for _, c := range v.Cands {
		c.Frozen = frozen[c.Addr]
		if c.Frozen != 0 {
			c.Why = why[c.Addr]
		}
		v.ByPub[c.Pub] = append(v.ByPub[c.Pub], c)
		v.ByAddr[c.Addr] = c
		fmt.Fprintf(&sb, "|%s %s %s %d %d", c.Addr, c.Pub, c.Stake, c.Power, c.Frozen)
	}
	v.FP = sb.String()
	return v
}

func (c *c10Cand) powerIsStake() bool { return c.Stake.IsInt64() && c.Stake.Int64() == c.Power }

// qualifies: 1 yes, 0 no, 2 unclear.
func (c *c10Cand) qualifies(min *big.Int) int {
	if c.Stake.Cmp(min) < 0 || c.Frozen == 1 {
		return 0
	}
	if c.Frozen == 2 {
		return 2
	}
	return 1
}

func (c *c10Cand) String() string {
	f := ""
	switch c.Frozen {
	case 1:
		f = " FROZEN"
	case 2:
		f = " released-at-freeze-instant"
	}
	return fmt.Sprintf("%s(pub %s.. stake=%s power=%d%s)", c.Addr, clipS(c.Pub, 16), c.Stake, c.Power, f)
}

func c10ParseUpdates(s string) []c10Upd {
	if s == "" {
		return nil
	}
	var out []c10Upd
	for _, p := range strings.Split(s, ",") {
		i := strings.LastIndex(p, "=")
		if i < 0 {
			panic(core.HarnessError{Msg: "C10: malformed validator update " + p})
		}
		pw, err := strconv.ParseInt(p[i+1:], 10, 64)
		if err != nil {
			panic(core.HarnessError{Msg: "C10: malformed validator update power " + p})
		}
		out = append(out, c10Upd{Pub: p[:i], Power: pw})
	}
	return out
}

func c10TmSet(vs *tmtypes.ValidatorSet) map[string]int64 {
	m := map[string]int64{}
	if vs == nil {
		return m
	}
	for _, v := range vs.Validators {
		pk, ok := v.PubKey.(tmed.PubKeyEd25519)
		if !ok {
			panic(core.HarnessError{Msg: fmt.Sprintf("C10: unexpected validator key type %T", v.PubKey)})
		}
		m["ed25519:"+c10Hex(pk[:])] = v.VotingPower
	}
	return m
}

func c10SetString(m map[string]int64) string {
	ks := make([]string, 0, len(m))
	for k := range m {
		ks = append(ks, k)
	}
	sort.Strings(ks)
	parts := make([]string, 0, len(ks))
	for _, k := range ks {
		parts = append(parts, fmt.Sprintf("%s..=%d", clipS(k, 16), m[k]))
	}
	return "[" + strings.Join(parts, " ") + "]"
}

func c10Members(m map[string]int64) string {
	ks := make([]string, 0, len(m))
	for k := range m {
		ks = append(ks, k)
	}
	sort.Strings(ks)
	return strings.Join(ks, ",")
}

func (v *c10View) String() string {
	parts := make([]string, 0, len(v.Cands))
	for _, c := range v.Cands {
		parts = append(parts, c.String())
	}
	return fmt.Sprintf("min=%s top=%d records: %s", v.Min, v.Top, strings.Join(parts, "; "))
}

type c10Problem struct{ Class, Label, Msg string }

// c10WhyNot names the reason a candidate does not qualify.
func c10WhyNot(c *c10Cand, min *big.Int) string {
	switch {
	case c.Stake.Cmp(min) < 0:
		return "below-min"
	case c.Frozen == 1:
		return "frozen"
	case c.Frozen == 2:
		return "released-at-freeze-instant"
	}
	return "qualifies"
}

// c10Election is one election of a view: the qualifying candidates by descending stake (ties by address), cut at the
// top count. Used for labels and statistics only; verdicts never depend on the tie order.
func c10Election(v *c10View) []*c10Cand {
	var q []*c10Cand
	for _, c := range v.Cands {
		if c.qualifies(v.Min) == 1 {
			q = append(q, c)
		}
	}
	sort.SliceStable(q, func(i, j int) bool { return q[i].Stake.Cmp(q[j].Stake) > 0 })
	if v.Top < 0 {
		return nil
	}
	if int64(len(q)) > v.Top {
		q = q[:v.Top]
	}
	return q
}

// judge applies the staking rule of oracle B under one option set. next = Tendermint's next set after the block.
func c10Judge(ups []c10Upd, prev, cur *c10View, min *big.Int, top int64, next map[string]int64) *c10Problem {
	elected := map[string]*c10Cand{}
	var lowest *c10Cand
	for _, u := range ups {
		if u.Power <= 0 {
			continue
		}
		recs := prev.ByPub[u.Pub]
		if len(recs) == 0 {
			return &c10Problem{"update-without-record", "unknown-pubkey", fmt.Sprintf("positive update %s..=%d names a public key that no validator record of the previous block carries", clipS(u.Pub, 24), u.Power)}
		}
		var good *c10Cand
		for _, r := range recs {
			if r.qualifies(min) != 0 && r.Stake.IsInt64() && r.Stake.Int64() == u.Power {
				good = r
				break
			}
		}
		if good == nil {
			r := recs[0]
			switch {
			case r.Stake.Cmp(min) < 0:
				return &c10Problem{"elected-below-min", "stake-below-min", fmt.Sprintf("positive update %s..=%d but the previous block's record %s has own stake below the minimum self delegation %s", clipS(u.Pub, 24), u.Power, r, min)}
			case r.Frozen == 1:
				return &c10Problem{"elected-frozen", r.Why, fmt.Sprintf("positive update %s..=%d but the previous block's evidence records hold a freeze in force for %s", clipS(u.Pub, 24), u.Power, r)}
			default:
				return &c10Problem{"power-not-stake", "positive-update", fmt.Sprintf("positive update %s..=%d does not carry the own stake of the previous block's record %s", clipS(u.Pub, 24), u.Power, r)}
			}
		}
		elected[u.Pub] = good
		if lowest == nil || good.Stake.Cmp(lowest.Stake) < 0 {
			lowest = good
		}
	}
	if int64(len(elected)) > top {
		return &c10Problem{"too-many-elected", "positive-updates", fmt.Sprintf("%d positive updates issued, the top validator count is %d", len(elected), top)}
	}
	if lowest == nil {
		return nil
	}
	for _, q := range prev.Cands {
		if q.qualifies(min) != 1 || !q.powerIsStake() || elected[q.Pub] != nil {
			continue
		}
		if c := cur.ByAddr[q.Addr]; cur != prev && c != nil && c.Frozen != 0 {
			continue // first flagged in this very block: the code's business
		}
		if p, ok := next[q.Pub]; ok && q.Stake.IsInt64() && p == q.Stake.Int64() {
			continue // already in the next set with its stake: not re-sending is fine
		}
		if q.Stake.Cmp(lowest.Stake) > 0 {
			return &c10Problem{"passed-over-higher-stake", "strictly-higher", fmt.Sprintf("qualifying candidate %s was passed over while %s with strictly lower stake was issued", q, lowest)}
		}
	}
	return nil
}

func (o *c10Oracle) rejection(e *core.Engine, st *core.Step, stepErr error) []core.Violation {
	s := stepErr.Error()
	if !strings.HasPrefix(s, "reference replica:") {
		return nil
	}
	if !strings.Contains(s, "error in validator updates") && !strings.Contains(s, "error changing validator set") && !strings.Contains(s, "empty set") {
		return nil
	}
	ref := e.C.Ref()
	var att *core.BlockAttempt
	if n := len(ref.Tr.Attempts); n > 0 {
		att = ref.Tr.Attempts[n-1]
	}
	if att == nil || !att.EndDone || att.Committed {
		return nil
	}
	class := "tendermint-rejected-updates"
	switch {
	case strings.Contains(s, "empty set"):
		class = "tendermint-rejected-empty-set"
	case strings.Contains(s, "duplicate entry"):
		class = "tendermint-rejected-duplicate"
	case strings.Contains(s, "failed to find validator"):
		class = "tendermint-rejected-remove-unknown"
	case strings.Contains(s, "unsupported for consensus"):
		class = "tendermint-rejected-key-type"
	case strings.Contains(s, "voting power"):
		class = "tendermint-rejected-power"
	}
	// cause labels, from the previous block's records: why does each removal (power 0) in the refused list name a
	// member of the set, and do two records share a public key
	prev := o.prev
	if prev == nil {
		prev = o.view(o.obs.CurDump)
	}
	next := c10TmSet(ref.State.NextValidators) // unchanged: the block was not applied
	inTop := map[string]bool{}
	for _, c := range c10Election(prev) {
		inTop[c.Addr] = true
	}
	reasons := map[string]bool{}
	for _, u := range c10ParseUpdates(att.ValUpdates) {
		if !strings.HasPrefix(u.Pub, "ed25519:") {
			reasons["unsupported-key-type"] = true
		}
		if u.Power > 0 {
			continue
		}
		recs := prev.ByPub[u.Pub]
		switch {
		case len(recs) == 0:
			reasons["no-record"] = true
		case len(recs) > 1:
			// judged below
		case recs[0].qualifies(prev.Min) != 1:
			reasons[c10WhyNot(recs[0], prev.Min)] = true
		case !inTop[recs[0].Addr]:
			reasons["outside-top"] = true
		default:
			reasons["in-block-cause"] = true // electable by the previous block's records
		}
		if _, ok := next[u.Pub]; !ok {
			reasons["not-in-set"] = true
		}
	}
	for _, c := range prev.Cands {
		if len(prev.ByPub[c.Pub]) > 1 {
			reasons["shared-pubkey"] = true
		}
	}
	rs := make([]string, 0, len(reasons))
	for r := range reasons {
		rs = append(rs, r)
	}
	sort.Strings(rs)
	label := strings.Join(rs, "+")
	if label == "" {
		label = "no-removal"
	}
	return []core.Violation{{Property: "C10", Oracle: "tendermint-accepts-updates", Sig: class + ":" + label,
		Msg: fmt.Sprintf("block %d: the real Tendermint BlockExecutor refused the validator updates returned by EndBlock: %q; updates=[%s]; set they apply to (NextValidators)=%s; previous block's records: %s",
			att.Height, s, att.ValUpdates, c10SetString(next), prev)}}
}

func (o *c10Oracle) AfterStep(e *core.Engine, idx int, st *core.Step, stepErr error) []core.Violation {
	if st.Kind == "boot" {
		o.obs.InitGenesis(e)
		o.prev = o.view(o.obs.CurDump)
		o.lastNextSet = c10Members(c10TmSet(e.C.Ref().State.NextValidators))
		return nil
	}
	if st.Kind != "block" {
		return nil
	}
	if stepErr != nil {
		return o.rejection(e, st, stepErr)
	}
	if !o.obs.Update(e, st) {
		return nil
	}
	ob := &o.obs
	h := ob.H
	o.blocks++
	prev := o.prev
	if prev == nil {
		prev = o.view(ob.PrevDump)
	}
	cur := o.view(ob.CurDump)
	o.prev = cur
	ref := e.C.Ref()
	next := c10TmSet(ref.State.NextValidators)
	ups := c10ParseUpdates(ob.Att.ValUpdates)

	// ---- statistics for the non-trivial rule (never part of a verdict) ----
	npos := 0
	for _, u := range ups {
		if u.Power > 0 {
			npos++
		} else {
			o.removals++
		}
	}
	if npos > 0 {
		o.elections++
		o.positives += npos
	}
	nq, excl, fr, atMin := 0, false, false, false
	var qs []*big.Int
	for _, c := range prev.Cands {
		if c.qualifies(prev.Min) == 1 {
			nq++
			qs = append(qs, c.Stake)
			if c.Stake.Cmp(prev.Min) == 0 {
				atMin = true
			}
		} else if c.Stake.Sign() > 0 {
			excl = true
			if c.Frozen == 1 && c.Stake.Cmp(prev.Min) >= 0 {
				fr = true
			}
		}
	}
	if prev.Top > 0 && int64(nq) > prev.Top {
		o.cutBlocks++
		sort.Slice(qs, func(i, j int) bool { return qs[i].Cmp(qs[j]) > 0 })
		if qs[prev.Top-1].Cmp(qs[prev.Top]) == 0 {
			atMin = true
		}
	}
	if atMin {
		o.tieBlocks++
	}
	if excl {
		o.exclBlocks++
	}
	if fr {
		o.frozenSeen++
	}
	if ns := c10Members(next); ns != o.lastNextSet {
		o.setChanges++
		o.lastNextSet = ns
	}
	if prev.Min.Cmp(cur.Min) != 0 || prev.Top != cur.Top {
		o.optChanges++
	}

	// ---- oracle B: the staking rule ----
	var vs []core.Violation
	prob := c10Judge(ups, prev, cur, prev.Min, prev.Top, next)
	if prob != nil && (prev.Min.Cmp(cur.Min) != 0 || prev.Top != cur.Top) {
		// the options changed inside this block: the block is wrong only if it is wrong under both option sets; the
		// problem reported is then one that does not depend on the options, if there is one
		indep := map[string]bool{"update-without-record": true, "elected-frozen": true, "power-not-stake": true}
		if p2 := c10Judge(ups, prev, cur, cur.Min, cur.Top, next); p2 == nil {
			prob = nil
		} else if !indep[prob.Class] && indep[p2.Class] {
			prob = p2
		}
	}
	if prob != nil {
		vs = append(vs, core.Violation{Property: "C10", Oracle: "election-rule", Sig: prob.Class + ":" + prob.Label,
			Msg: fmt.Sprintf("block %d: %s; updates=[%s]; options in force: previous block min=%s top=%d, this block min=%s top=%d; previous block's records: %s",
				h, prob.Msg, ob.Att.ValUpdates, prev.Min, prev.Top, cur.Min, cur.Top, prev)})
		return vs
	}

	// ---- oracle C: convergence ----
	if cur.FP == prev.FP {
		o.stable++
	} else {
		o.stable = 0
	}
	if o.stable >= 5 {
		if p := c10Converged(cur, c10TmSet(ref.State.Validators)); p != nil {
			if p.Class != "" {
				vs = append(vs, core.Violation{Property: "C10", Oracle: "convergence", Sig: p.Class + ":" + p.Label,
					Msg: fmt.Sprintf("block %d: stake records, freeze records and staking options have not changed for %d blocks, yet %s; active set for the next block=%s; records: %s",
						h, o.stable, p.Msg, c10SetString(c10TmSet(ref.State.Validators)), cur)})
			}
		} else {
			o.convChecks++
		}
	}
	return vs
}

// c10Converged compares Tendermint's active set with the model's election of a view. nil = equal; a problem with an
// empty class = the view is ambiguous (not judged).
func c10Converged(v *c10View, active map[string]int64) *c10Problem {
	var q []*c10Cand
	for _, c := range v.Cands {
		if len(v.ByPub[c.Pub]) > 1 {
			return &c10Problem{} // two records share a public key: no unique election
		}
		switch c.qualifies(v.Min) {
		case 2:
			return &c10Problem{}
		case 1:
			if !c.powerIsStake() {
				return &c10Problem{}
			}
			q = append(q, c)
		}
	}
	if len(q) == 0 {
		return &c10Problem{} // nothing electable: Tendermint cannot have an empty set (oracle A's subject)
	}
	want := int64(len(q))
	if want > v.Top {
		want = v.Top
	}
	pubs := make([]string, 0, len(active))
	for p := range active {
		pubs = append(pubs, p)
	}
	sort.Strings(pubs)
	var lowest *c10Cand
	for _, p := range pubs {
		recs := v.ByPub[p]
		if len(recs) == 0 {
			return &c10Problem{"active-set-not-converged-extra", "no-record", fmt.Sprintf("active validator %s.. has no validator record", clipS(p, 24))}
		}
		r := recs[0]
		if r.qualifies(v.Min) != 1 {
			return &c10Problem{"active-set-not-converged-extra", c10WhyNot(r, v.Min), fmt.Sprintf("active validator %s does not qualify (minimum %s)", r, v.Min)}
		}
		if active[p] != r.Stake.Int64() {
			return &c10Problem{"active-set-not-converged-power", "stale-power", fmt.Sprintf("active validator %s has voting power %d, not its stake", r, active[p])}
		}
		if lowest == nil || r.Stake.Cmp(lowest.Stake) < 0 {
			lowest = r
		}
	}
	if int64(len(active)) > want {
		return &c10Problem{"active-set-not-converged-extra", "outside-top", fmt.Sprintf("%d validators are active, the election has %d (top count %d, %d qualifying)", len(active), want, v.Top, len(q))}
	}
	if int64(len(active)) < want {
		return &c10Problem{"active-set-not-converged-missing", "fewer-than-election", fmt.Sprintf("%d validators are active, the election has %d (top count %d, %d qualifying)", len(active), want, v.Top, len(q))}
	}
	for _, c := range q {
		if _, in := active[c.Pub]; !in && lowest != nil && c.Stake.Cmp(lowest.Stake) > 0 {
			return &c10Problem{"active-set-not-converged-missing", "higher-stake-outside", fmt.Sprintf("qualifying candidate %s is not active although active validator %s has strictly lower stake", c, lowest)}
		}
	}
	return nil
}

func (o *c10Oracle) Finish(e *core.Engine) []core.Violation { return nil }

func (o *c10Oracle) NonTrivial(e *core.Engine) bool {
	p := e.Stats.Probes
	p["c10_blocks"] = o.blocks
	p["c10_elections"] = o.elections
	p["c10_removals"] = o.removals
	p["c10_cut_blocks"] = o.cutBlocks
	p["c10_excl_blocks"] = o.exclBlocks
	p["c10_frozen_blocks"] = o.frozenSeen
	p["c10_tie_blocks"] = o.tieBlocks
	p["c10_set_changes"] = o.setChanges
	p["c10_opt_changes"] = o.optChanges
	p["c10_conv_checks"] = o.convChecks
	// the election was judged in >= 8 blocks, the rule had something to decide in at least one of them (a staked
	// candidate was excluded by the minimum, a freeze or the top count), Tendermint's set changed membership at least
	// once, and at least one convergence comparison was made
	return o.elections >= 8 && (o.cutBlocks+o.exclBlocks) >= 1 && o.setChanges >= 1 && o.convChecks >= 1
}

// ---- profile ------------------------------------------------------------------------------------

// c10Phased silences a generator during the quiet windows of the run (convergence needs blocks without stake changes).
type c10Phased struct {
	inner gen.Generator
	quiet func(h int64) bool
}

func (p c10Phased) Name() string { return p.inner.Name() }
func (p c10Phased) Gen(c *gen.Ctx) []gen.Tx {
	if p.quiet(c.H) {
		return nil
	}
	return p.inner.Gen(c)
}

// c10Boundary is a staking client that aims at the boundaries of the rule: stakes exactly at / one below the minimum,
// stakes that tie with another candidate, unstaking down to such values, full unstake, top-ups back to the minimum.
// It reads the reference replica's committed state through the repository's stores (generators need no independence).
type c10Boundary struct {
	rate    int  // per cent of blocks
	foreign bool // also registers a second validator record carrying another validator's public key
}

func (c10Boundary) Name() string { return "c10-boundary" }

func (b c10Boundary) Gen(c *gen.Ctx) (out []gen.Tx) {
	defer func() {
		if rec := recover(); rec != nil {
			if _, ok := rec.(core.HarnessError); ok {
				panic(rec)
			}
			out = nil
		}
	}()
	if c.Ref == nil || c.Ref.App == nil || c.Rng.Intn(100) >= b.rate {
		return nil
	}
	r := c.Rng
	st := c.Ref.ReadState()
	vs := identity.NewValidatorStore("v", "purged", st)
	es := evdata.NewEvidenceStore("es", st)
	min := c.W.Knobs.MinSelfStake
	if so, err := governance.NewStore("g", st).GetStakingOptions(); err == nil && so != nil {
		min = so.MinSelfDelegationAmount.BigInt().Int64()
	}
	type known struct {
		vk    *core.ValidatorKeys
		stake int64
		has   bool
		froz  bool
	}
	var all []known
	var stakes []int64
	qualifying := 0
	for _, vk := range c.W.AllValidatorKeys() {
		k := known{vk: vk}
		if val, err := vs.Get(vk.ValKey.Addr); err == nil && val != nil {
			k.has, k.stake = true, val.Staking.BigInt().Int64()
			if !val.StakeAddress.Equal(vk.NodeKey.Addr) {
				continue
			}
		}
		k.froz = es.IsFrozenValidator(vk.ValKey.Addr)
		if k.has && k.stake > 0 {
			stakes = append(stakes, k.stake)
		}
		if k.has && k.stake >= min && !k.froz {
			qualifying++
		}
		all = append(all, k)
	}
	if len(all) == 0 {
		return nil
	}
	target := func() int64 {
		switch x := r.Intn(10); {
		case x < 2:
			return min
		case x < 3:
			return min - 1
		case x < 4:
			return min + 1
		case len(stakes) > 0 && x < 8:
			return stakes[r.Intn(len(stakes))] // tie with somebody
		case len(stakes) > 0 && x < 9:
			return stakes[r.Intn(len(stakes))] + 1
		case len(stakes) > 0:
			return stakes[r.Intn(len(stakes))] - 1
		}
		return min
	}
	stakeTx := func(vk *core.ValidatorKeys, amt int64, kind string) gen.Tx {
		msg := &stact.Stake{ValidatorAddress: vk.ValKey.Addr, StakeAddress: vk.NodeKey.Addr, ValidatorPubKey: vk.ValKey.Pub,
			ValidatorECDSAPubKey: vk.EcPub, NodeName: vk.Name, Stake: core.OLTi(amt)}
		return gen.Tx{Bytes: core.BuildTx(msg, core.DefaultFee(), c10Memo(r), vk.NodeKey, vk.ValKey), Kind: kind}
	}
	unstakeTx := func(vk *core.ValidatorKeys, amt int64, kind string) gen.Tx {
		msg := &stact.Unstake{ValidatorAddress: vk.ValKey.Addr, StakeAddress: vk.NodeKey.Addr, Stake: core.OLTi(amt)}
		return gen.Tx{Bytes: core.BuildTx(msg, core.DefaultFee(), c10Memo(r), vk.NodeKey, vk.ValKey), Kind: kind}
	}
	n := 1 + r.Intn(2)
	for i := 0; i < n; i++ {
		k := all[r.Intn(len(all))]
		t := target()
		if t < 1 {
			t = 1
		}
		switch {
		case b.foreign && r.Intn(12) == 0 && len(c.W.Candidates) > 0:
			// a new validator address (fresh key) staked by a candidate's node key, carrying the public key of
			// another (victim) validator
			victim := all[r.Intn(len(all))].vk
			payer := c.W.Candidates[r.Intn(len(c.W.Candidates))]
			fresh := core.NewEdAccount(c.W.Seed, fmt.Sprintf("c10-foreign-%d", r.Intn(2)))
			pub, kind := victim.ValKey.Pub, "STAKE/foreign-pubkey"
			if r.Intn(3) == 0 && len(c.W.EthUsers) > 0 {
				// a consensus key of a type Tendermint's consensus parameters do not admit
				pub, kind = c.W.EthUsers[r.Intn(len(c.W.EthUsers))].Pub, "STAKE/secp-consensus-key"
				fresh = core.NewEdAccount(c.W.Seed, "c10-secp")
			}
			msg := &stact.Stake{ValidatorAddress: fresh.Addr, StakeAddress: payer.NodeKey.Addr, ValidatorPubKey: pub,
				ValidatorECDSAPubKey: payer.EcPub, NodeName: "foreign", Stake: core.OLTi(t)}
			out = append(out, gen.Tx{Bytes: core.BuildTx(msg, core.DefaultFee(), c10Memo(r), payer.NodeKey, fresh), Kind: kind})
		case !k.has || k.stake == 0:
			out = append(out, stakeTx(k.vk, t, "STAKE/boundary-new"))
		case k.stake < t:
			out = append(out, stakeTx(k.vk, t-k.stake, "STAKE/boundary-raise"))
		case k.stake > t:
			// do not drain the set: the known "empty set" halt would end most runs early
			if t < min && k.stake >= min && !k.froz && qualifying <= 2 {
				continue
			}
			if r.Intn(15) == 0 && qualifying > 2 {
				out = append(out, unstakeTx(k.vk, k.stake, "UNSTAKE/everything"))
				qualifying--
				continue
			}
			if t < min && k.stake >= min && !k.froz {
				qualifying--
			}
			out = append(out, unstakeTx(k.vk, k.stake-t, "UNSTAKE/boundary-lower"))
		default:
			out = append(out, stakeTx(k.vk, 1, "STAKE/one-more"))
		}
	}
	return out
}

func c10Memo(r *rand.Rand) string {
	const letters = "abcdefghijklmnopqrstuvwxyz0123456789"
	b := make([]byte, 8)
	for i := range b {
		b[i] = letters[r.Intn(len(letters))]
	}
	return string(b)
}

func c10Setup(rng *rand.Rand, tier string, seed uint64) *Setup {
	k := SwarmKnobs(rng)
	k.NumValidators = 3 + rng.Intn(5) // 3..7
	k.NumWitnesses = rng.Intn(k.NumValidators + 1)
	k.NumCandidates = 2 + rng.Intn(3) // 2..4
	k.NumUsers = 3 + rng.Intn(3)
	k.NumEthUsers = 1
	k.GenesisMature = 0
	k.MaturityTime = int64(1 + rng.Intn(3))
	switch mode := rng.Intn(8); {
	case mode < 4:
		// no fork: the genesis staking options stay in force, small top count, sometimes tiny stakes (many ties)
		k.Frankenstein = 0
		k.TopValidators = int64(2 + rng.Intn(4))
		k.MinSelfStake = []int64{10, 40, 500000, 500000}[rng.Intn(4)]
	case mode < 5:
		k.Frankenstein = 1
		k.MinSelfStake = 500000
	default:
		// fork in mid-run: top count jumps to 64, the minimum moves to 500000 from below / above / not at all
		k.Frankenstein = int64(3 + rng.Intn(22))
		k.TopValidators = int64(2 + rng.Intn(4))
		k.MinSelfStake = []int64{250000, 500000, 500000, 1000000}[rng.Intn(4)]
	}
	// genesis stakes with ties and exactly-minimum values; the two first validators are comfortably above any minimum
	// that can come into force so that ordinary traffic rarely empties the set (known halt)
	m := k.MinSelfStake
	if k.Frankenstein != 0 && m < 500000 {
		m = 500000
	}
	pool := []int64{m, m, m + 1, 2 * m, 2 * m, 3 * m, m + m/2, 2*m + 1}
	k.ValidatorStakes = make([]int64, k.NumValidators)
	for i := range k.ValidatorStakes {
		k.ValidatorStakes[i] = pool[rng.Intn(len(pool))]
		if i >= 2 && rng.Intn(10) == 0 {
			k.ValidatorStakes[i] = k.MinSelfStake - 1 // a genesis validator below the minimum
		}
		if i >= 2 && k.Frankenstein > 1 && rng.Intn(4) == 0 {
			k.ValidatorStakes[i] = k.MinSelfStake + rng.Int63n(k.MinSelfStake) // between the two minima of a fork run
		}
	}
	k.ValidatorStakes[0] = 3 * m
	if rng.Intn(2) == 0 {
		k.ValidatorStakes[1] = 3 * m
	} else {
		k.ValidatorStakes[1] = 2 * m
	}
	// missed-votes freezing reachable within a short run
	// (a validator joins Tendermint's commits three blocks after its election; with a window shorter than
	// MinVotesReq+3 every newcomer is frozen at its first check and the set churns until it is empty, so most runs
	// use a longer window)
	k.MinVotesReq = int64(1 + rng.Intn(3))
	k.BlockVotesDiff = k.MinVotesReq + int64(3+rng.Intn(2))
	if rng.Intn(6) == 0 {
		k.BlockVotesDiff = k.MinVotesReq + int64(1+rng.Intn(2))
	}

	su := &Setup{Knobs: k, Sess: gen.NewSession()}
	su.Replicas = append(su.Replicas, core.ReplicaConf{Identity: "x0", Quiet: true, Recent: 10, Every: 100, Cycles: 10, WitnessInitEarly: true})
	if rng.Intn(5) == 0 {
		su.Replicas = append(su.Replicas, core.ReplicaConf{Identity: fmt.Sprintf("v%d", rng.Intn(k.NumValidators)), Quiet: true, Recent: 10, Every: 100, Cycles: 10, WitnessInitEarly: true})
	}

	// phases: active / quiet / active / quiet
	a1, q1, a2, q2 := 8+rng.Intn(8), 9+rng.Intn(3), 5+rng.Intn(6), 9+rng.Intn(3)
	if tier == "thorough" {
		a1, a2 = 10+rng.Intn(15), 8+rng.Intn(12)
	}
	su.Blocks = a1 + q1 + a2 + q2
	quiet := func(h int64) bool {
		x := int(h)
		return (x > a1 && x <= a1+q1) || x > a1+q1+a2
	}
	var gens []gen.Generator
	names := []string{"staking", "evidence"}
	if rng.Intn(3) != 0 {
		names = append(names, "gov")
	}
	for _, g := range gen.ByName(names...) {
		gens = append(gens, c10Phased{inner: g, quiet: quiet})
	}
	gens = append(gens, c10Phased{inner: c10Boundary{rate: 40 + rng.Intn(50), foreign: rng.Intn(10) == 0}, quiet: quiet})
	gens = append(gens, gen.ByName("send")...)
	su.Gens = gens
	su.MaxTx = 12
	absP := []float64{0.02, 0.05, 0.2, 0.45}[rng.Intn(4)]
	absent := AbsentHook(absP)
	su.PlanHook = func(e *core.Engine, rng *rand.Rand, st *core.Step, gc *gen.Ctx) {
		if quiet(e.C.Height() + 1) {
			return
		}
		absent(e, rng, st, gc)
	}
	return su
}

func init() {
	Register(&ClusterProp{
		Id: "C10",
		RuleText: "each run: one real replica (sometimes two) with 3-7 genesis validators and 2-4 funded candidates whose genesis stakes tie, sit exactly at the minimum self delegation or one below; half of the runs keep the genesis staking options " +
			"(top count 2-5, minimum 10/40/500000) for the whole run (no Frankenstein fork), the others fork at block 1 or at a mid-run height (top count 64, minimum 500000 from 250000/500000/1000000). Clients: stock staking, evidence (allegation/vote/release) and governance " +
			"(config updates of the staking options) generators, a boundary staking client (stake/unstake to exactly the minimum, one below, ties with other candidates, full unstake, top-up, a second record carrying another validator's public key or a secp256k1 consensus key in 1 run of 10), plain sends; " +
			"absent commit signers with probability 0.02-0.45 (missed-votes freezing); active and quiet phases alternate (quiet = sends only, 9-11 blocks). " +
			"Oracle A: the real Tendermint BlockExecutor's verdict on the EndBlock updates (step error). Oracle B: every positive update names a record of the previous block's dump with own stake >= minimum in force, no freeze in force in the previous block's evidence records, power == stake; " +
			"count <= top count; no strictly higher qualifying stake passed over. Oracle C: after 5 blocks without a change of stake records, freeze records and staking options Tendermint's active set equals the model's election. " +
			"Non-trivial: election judged in >=8 blocks, >=1 block where a staked candidate was excluded by minimum/freeze/top count, >=1 membership change of Tendermint's set, >=1 convergence comparison; distinct = distinct fingerprints.",
		MakeSetup:  c10Setup,
		MakeOracle: func(e *core.Engine, tr *core.Trace) Oracle { return &c10Oracle{} },
	})
}

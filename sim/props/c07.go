package props

import (
	"fmt"
	"math/rand"
	"strings"

	"olsim/core"
	"olsim/gen"
)

// C07 Mempool checks are isolated from consensus execution.

type c07Oracle struct {
	tr *TranscriptOracle
}

func (o *c07Oracle) AfterStep(e *core.Engine, idx int, st *core.Step, stepErr error) []core.Violation {
	vs := o.tr.Check(e)
	if len(vs) == 0 && stepErr != nil {
		if s := stepErr.Error(); strings.HasPrefix(s, "replica ") {
			vs = append(vs, core.Violation{Property: "C07", Oracle: "quiet-vs-noisy", Sig: "block-rejected", Msg: s})
		}
	}
	return vs
}
func (o *c07Oracle) Finish(e *core.Engine) []core.Violation { return o.tr.Check(e) }
func (o *c07Oracle) NonTrivial(e *core.Engine) bool {
	// >= 1 successful (state-writing) CheckTx landed strictly inside a block that delivered >= 1 transaction
	inside := 0
	for k, v := range e.Stats.Faults {
		if strings.HasPrefix(k, "checktx@") && (strings.Contains(k, "DeliverTx") || strings.Contains(k, "afterBeginBlock") || strings.Contains(k, "beforeEndBlock")) {
			inside += v
		}
	}
	okCheck := false
	for i, r := range e.C.Replicas {
		if i == 0 {
			continue
		}
		for _, c := range r.Tr.Checks {
			if c.Code == 0 {
				okCheck = true
			}
		}
	}
	return inside > 0 && okCheck && o.tr.Compared >= 5
}

func init() {
	Register(&ClusterProp{
		Id: "C07",
		RuleText: "each run: one quiet replica (never sees CheckTx) and 2-3 noisy replicas execute the same PRNG-built history; on the noisy ones the scheduler injects, at " +
			"every before/after site of InitChain(after)/BeginBlock/DeliverTx/EndBlock/Commit, 0-3 CheckTx calls drawn from the block's own transactions (before and after delivery), earlier ones, " +
			"and mempool-only transactions (valid config-update proposals for every option family, never delivered); no crashes. Oracle: transcripts of noisy replicas equal the quiet one (app hash, validator updates, code/data/gas and events of every delivered transaction). Non-trivial: >=1 CheckTx with code 0 and >=1 CheckTx strictly inside a block, >=5 block attempts compared; " +
			"distinct = distinct fingerprints.",
		MakeSetup: func(rng *rand.Rand, tier string, seed uint64) *Setup {
			nb := 12 + rng.Intn(25)
			if tier == "thorough" {
				nb = 15 + rng.Intn(50)
			}
			su := drawWorkload(rng, tier, seed, 3, nb)
			su.Knobs.MaxGas = drawMaxGas(rng)
			if rng.Intn(2) == 0 {
				su.Sess.M["olvm-blockhash"] = true // every replica has the same block store: BLOCKHASH is comparable
			}
			k := su.Knobs
			su.Replicas = append(su.Replicas, core.ReplicaConf{Identity: "x0", Quiet: true, Recent: 10, Every: 100, Cycles: 10, WitnessInitEarly: true})
			n := 2 + rng.Intn(2)
			for i := 0; i < n; i++ {
				rc := core.ReplicaConf{Identity: fmt.Sprintf("x%d", i+1), Recent: 10, Every: 100, Cycles: 10, WitnessInitEarly: true}
				if rng.Intn(2) == 0 {
					rc.Identity = fmt.Sprintf("v%d", rng.Intn(k.NumValidators))
				}
				su.Replicas = append(su.Replicas, rc)
			}
			su.MaxTx = 10
			rate := []float64{0.15, 0.3, 0.6}[rng.Intn(3)]
			// mempool-only transactions: valid config-update proposals that are checked but never delivered
			var mempoolOnly [][]byte
			su.Policy = &NoisePolicy{Rng: rng, Sess: su.Sess, CheckRate: rate, Extra: func() [][]byte { return mempoolOnly }}
			absent := AbsentHook(0.05)
			borrowed := su.PlanHook
			su.PlanHook = func(e *core.Engine, rng *rand.Rand, st *core.Step, gc *gen.Ctx) {
				if borrowed != nil {
					borrowed(e, rng, st, gc)
				}
				absent(e, rng, st, gc)
				if gc != nil && e.C.Height() >= 1 {
					mempoolOnly = mempoolOnly[:0]
					for _, t := range gen.MempoolOnlyProposals(gc) {
						mempoolOnly = append(mempoolOnly, t.Bytes)
					}
				}
			}
			return su
		},
		MakeOracle: func(e *core.Engine, tr *core.Trace) Oracle {
			to := NewTranscriptOracle("C07", "quiet-vs-noisy")
			to.Events = true // "delivered-transaction results": events (EVM logs, their indexes, the block bloom) included
			return &c07Oracle{tr: to}
		},
	})
}

func (o *c07Oracle) OnDeath(e *core.Engine, idx int, st *core.Step, deaths []string) []core.Violation {
	return ReplicaDeath("C07", "quiet-vs-noisy", e, st, deaths)
}

package props

import (
	"bytes"
	"fmt"
	"math/rand"
	"strings"

	"olsim/core"
	"olsim/gen"
)

// C06 Failed transactions are atomic no-ops: a raw-mode shadow twin receives the captured
// BeginBlock of every block, then only the transactions whose code was 0 on the main replica.

type c06Oracle struct {
	shadow      *core.Replica
	failedTx    int
	okAfterFail int
	blocks      int
	exhausted   bool // the block gas limit was reached at store level: later blocks are not judged
	poolReject  int  // failed OLVM transactions turned away by the block gas pool
}

func (o *c06Oracle) AfterStep(e *core.Engine, idx int, st *core.Step, stepErr error) []core.Violation {
	if st.Kind == "boot" {
		ref := e.C.Ref()
		sh, err := e.C.NewShadow(core.ReplicaSpec{Keys: ref.Spec.Keys, Rotation: ref.Spec.Rotation, WitnessInitEarly: ref.Spec.WitnessInitEarly, Quiet: true}, 90)
		if err != nil {
			panic(core.HarnessError{Msg: "shadow boot: " + err.Error()})
		}
		o.shadow = sh
		return nil
	}
	if st.Kind != "block" || stepErr != nil {
		return nil
	}
	h := e.C.Height()
	ref := e.C.Ref()
	ra := ref.Tr.Committed(h)
	if ra == nil {
		return nil
	}
	if o.exhausted {
		return nil
	}
	// The running gas total is the one thing a failed transaction may advance. Once the total reaches
	// the block gas limit every later store access of the block is refused, so from then on the block
	// with and the block without the failed transactions may legitimately differ (and so may every
	// later block). The total only grows within a block: if it is below the limit after the block, the
	// limit was never in the way, neither here nor on the twin (which consumes a subset).
	if lim := e.W.Knobs.MaxGas; lim > 0 && ref.App != nil {
		if int64(ref.App.VerifDeliverState().ConsumedGas()) >= lim {
			o.exhausted = true
			e.Stats.Probes["c06.block_gas_exhausted"]++
			return nil
		}
	}
	var keep [][]byte
	var keepRes []core.TxRes
	sawFail := false
	for i, tb := range ra.TxBytes {
		if ra.Txs[i].Code == 0 {
			keep = append(keep, tb)
			keepRes = append(keepRes, ra.Txs[i])
			if sawFail {
				o.okAfterFail++
			}
		} else {
			o.failedTx++
			sawFail = true
			if strings.Contains(ra.Txs[i].Log, "gas limit reached") {
				o.poolReject++
				e.Stats.Probes["c06.olvm_rejected_by_gas_pool"]++
			}
		}
	}
	cb := e.C.Blocks[h-1]
	sa := o.shadow.RawBlock(cb, *ra.Begin, keep)
	o.blocks++
	if o.shadow.Dead != "" {
		return nil // belongs to C18
	}
	var vs []core.Violation
	mk := func(sig, msg string) {
		rd, sd := ref.DumpMap(), o.shadow.DumpMap()
		ks := core.DiffDumps(rd, sd, 10)
		var vals []string
		for i, k := range ks {
			if i >= 3 {
				break
			}
			mv, mok := rd[k]
			tv, tok := sd[k]
			vals = append(vals, fmt.Sprintf("%q: main(present=%v)=%x twin(present=%v)=%x", k, mok, clipB(mv, 40), tok, clipB(tv, 40)))
		}
		vs = append(vs, core.Violation{Property: "C06", Oracle: "shadow-without-failed-txs", Sig: sig,
			Msg: fmt.Sprintf("h%d: %s; block had %d txs of which %d failed; leaked/differing keys: %q; values: %v", h, msg, len(ra.TxBytes), len(ra.TxBytes)-len(keep), ks, vals)})
	}
	for i := range keepRes {
		if i >= len(sa.Txs) {
			break
		}
		if sa.Txs[i].Key() != keepRes[i].Key() {
			kind := "?"
			if tx := core.DecodeTx(keep[i]); tx != nil {
				kind = tx.Type.String()
			}
			mk("surviving-tx-result", fmt.Sprintf("surviving tx #%d (%s) returns code=%d gasUsed=%d data=%x on the twin without the failed transactions, code=%d gasUsed=%d data=%x with them (log twin=%q main=%q)",
				i, kind, sa.Txs[i].Code, sa.Txs[i].GasUsed, sa.Txs[i].Data, keepRes[i].Code, keepRes[i].GasUsed, keepRes[i].Data, clipS(sa.Txs[i].Log, 120), clipS(keepRes[i].Log, 120)))
			return vs
		}
	}
	for i := range keepRes {
		if i < len(sa.Txs) && sa.Txs[i].Events != keepRes[i].Events {
			mk("surviving-tx-events", fmt.Sprintf("surviving tx #%d: events differ on the twin without the failed transactions: twin[%s] main[%s]", i, clipS(sa.Txs[i].Events, 4000), clipS(keepRes[i].Events, 4000)))
			return vs
		}
	}
	if sa.BlockEvents != ra.BlockEvents {
		mk("block-events", fmt.Sprintf("BeginBlock/EndBlock events differ: twin[%s] main[%s]", clipS(sa.BlockEvents, 6000), clipS(ra.BlockEvents, 6000)))
		return vs
	}
	if sa.ValUpdates != ra.ValUpdates {
		mk("validator-updates", fmt.Sprintf("validator updates differ: main[%s] twin[%s]", ra.ValUpdates, sa.ValUpdates))
		return vs
	}
	if !bytes.Equal(sa.AppHash, ra.AppHash) {
		mk("app-hash", fmt.Sprintf("app hash differs after removing the failed transactions: main=%x twin=%x", ra.AppHash, sa.AppHash))
	}
	return vs
}

func clipB(b []byte, n int) []byte {
	if len(b) > n {
		return b[:n]
	}
	return b
}

func clipS(s string, n int) string {
	if len(s) > n {
		return s[:n]
	}
	return s
}

func (o *c06Oracle) Finish(e *core.Engine) []core.Violation { return nil }
func (o *c06Oracle) NonTrivial(e *core.Engine) bool {
	// >= 2 failed transactions removed, at least one followed by a successful transaction in the same block
	return o.failedTx >= 2 && o.okAfterFail >= 1 && o.blocks >= 5
}

func init() {
	Register(&ClusterProp{
		Id: "C06",
		RuleText: "each run: one main replica executes a PRNG-built history biased to failures at every depth (overdrawn sends, whole-balance sends whose fee step fails, staking/delegation/withdraw failures, OLVM nonce/balance failures, unknown pools); " +
			"a raw-mode shadow twin receives the captured RequestBeginBlock of each block, then only the transactions whose code was 0, then EndBlock/Commit. Oracle: same app hash every block, same code/data/gas/events for every surviving transaction, same block events and validator updates. " +
			"Block gas limit none/40M/8M per run; the running gas total is exempt: contracts never read GASLIMIT, and once the consumed total of a block reaches the limit (read from the deliver state after the block) the rest of the run is not judged. Non-trivial: >=2 failed transactions removed, >=1 successful transaction after a failed one in the same block, >=5 blocks; distinct = distinct fingerprints.",
		MakeSetup: func(rng *rand.Rand, tier string, seed uint64) *Setup {
			nb := 12 + rng.Intn(25)
			if tier == "thorough" {
				nb = 15 + rng.Intn(50)
			}
			su := drawWorkload(rng, tier, seed, 3, nb)
			su.Knobs.MaxGas = []int64{-1, 40000000, 8000000}[rng.Intn(3)]
			// GASLIMIT makes the running gas total (exempt by the property) visible to contracts
			su.Sess.M["olvm-no-gaslimit"] = true
			gen.OlvmNoGaslimit = true
			su.Replicas = append(su.Replicas, core.ReplicaConf{Identity: "x0", Quiet: true, Recent: 10, Every: 100, Cycles: 10, WitnessInitEarly: true})
			su.Gens = append(su.Gens, gen.Failures{})
			su.MaxTx = 14
			su.PlanHook = chainPlan(su.PlanHook, AbsentHook(0.05))
			return su
		},
		MakeOracle: func(e *core.Engine, tr *core.Trace) Oracle { return &c06Oracle{} },
	})
}

package props

import (
	"encoding/hex"
	"fmt"
	"math/big"
	"math/rand"
	"os"
	"sort"
	"strings"

	dbm "github.com/tendermint/tm-db"

	"github.com/Oneledger/protocol/action"
	aons "github.com/Oneledger/protocol/action/ons"
	"github.com/Oneledger/protocol/action/transfer"
	"github.com/Oneledger/protocol/data/governance"
	"github.com/Oneledger/protocol/data/keys"
	"github.com/Oneledger/protocol/data/ons"
	"github.com/Oneledger/protocol/serialize"
	"github.com/Oneledger/protocol/storage"

	"olsim/core"
	"olsim/gen"
	"olsim/ledger"
)

// C20 Name ownership and expiry.
//
// "A domain name has at most one owner at a time; its owner, beneficiary, address, sale status and
// sub-domains change only through transactions signed by the current owner, or through a purchase in
// which the buyer pays at least the asking price to the previous owner (or pays the base price for an
// expired name). Creating, renewing or buying a name sets or extends its expiry by exactly the number
// of blocks the payment buys under the configured base and per-block prices (a sub-name expires with
// its parent)."
//
// MODEL (built from observations only: the "d_" records, the ONS options and the balances of the
// dumps at H-1 and H; the decoded transactions of block H with their result codes and the signatures
// that verify on the harness side).
//
//   registry: name -> {owner, beneficiary, onSale, price, set of acceptable expiry heights}
//   parent(name) = the last two labels of a name with more than two labels (own string arithmetic).
//
// Per block the SUCCESSFUL (code 0) transactions are walked in block order on a copy of the registry
// of H-1. Every ONS transaction must be signed (verified) by the account it names as actor, and
//   DOMAIN_CREATE     top-level: the name must be free (or be the signer's own, or be expired and paid
//                     like a purchase of an expired name); sub-name: the parent must exist and be owned
//                     by the signer at that point of the block.
//   DOMAIN_UPDATE     signer owns the name (for a sub-name: owns it or its parent).
//   DOMAIN_SELL       signer owns the name; sets / clears the asking price.
//   DOMAIN_DELETE_SUB signer owns the parent.
//   DOMAIN_PURCHASE   the name is on sale (asking price of that point of the block) or expired; moves
//                     the ownership to the buyer, clears the sale, may delete the sub-names.
//   DOMAIN_RENEW      pays for more blocks (who may renew is not fixed by the property).
//   DOMAIN_SEND       the name must exist; moves the amount from the sender to the beneficiary.
// A transaction that succeeded although its rule does not hold is a violation at once. After the walk
// the records of dump H are compared with H-1 name by name: every difference in owner, beneficiary,
// URI, active flag, sale status/price, existence (incl. sub-names) and expiry must be explained by the
// authorised events of the walk, with the values the model derived (owner, asking price, beneficiary,
// expiry set). Then, for every sub-name of dump H: owner == owner of its parent, expiry == expiry of
// its parent. Finally money: per account the OLT balance change of the block minus the effects of the
// understood transactions (SEND, DOMAIN_SEND, create/renew payments) must fit the purchases: seller
// receives >= asking price, buyer pays >= asking price (>= base price for an expired name), nobody is
// credited without reason (fees: any amount between 0 and price*gasLimit per transaction).
//
// Expiry arithmetic (own big.Int arithmetic; options read from the dumps at H-1 and H, every
// combination of the two accepted; after a successful PROPOSAL_FINALIZE transaction inside block H
// the prices a later transaction of H saw may be visible in neither dump: then only "a payment never
// moves the expiry backwards" is checked for the rest of the block):
//   create   : now + floor((paid-base)/perBlock)
//   renew    : old + floor(paid/perBlock)
//   purchase : baseline + floor((offer-asking)/perBlock)   (on sale)
//              baseline + floor((offer-base)/perBlock)     (expired)
//
// DON'T CARE (all accepted):
//   * whether "now" is H or H-1, per event; whether a purchased name that still has life left keeps it
//     (baseline = old expiry) or is reset (baseline = now);
//   * whether the purchase of a name on sale charges the base price again (floor((offer-asking-base)/per));
//   * whether a renewal pays the base price again (floor((paid-base)/per) also accepted);
//   * the boundary of "expired": the loosest reading (expiry <= H) is used to ACCEPT a purchase;
//   * who may renew (a stranger paying for somebody's name changes nothing the property protects);
//   * what an owner may do with an expired name that nobody bought yet (update, sub-names);
//   * whether an authorised deletion of sub-names (delete-sub, purchase of the parent) really removed
//     every sub-name (a survivor must still have the parent's owner and expiry);
//   * failures of any kind (rate limiting "not changeable", cancel-sale needing a price, URI rules,
//     first-level domain rules, price floors): the property only restricts what may change;
//   * fee amounts (bounded by price*gasLimit only), CreationHeight / LastUpdateHeight, the Name field
//     inside the record, URI values, the active flag's value (only that a change has an authorised cause);
//   * names present at genesis (there are none in this simulator's genesis);
//   * the bid application (its generator is not part of this profile; BID_* are unknown transactions).

const c20Prop = "C20"

type c20Rec struct {
	Name   string
	Owner  string // textual address ("" if empty)
	Benef  string
	Expire int64
	Active bool
	OnSale bool
	Price  *big.Int // nil if none
	URI    string
}

type c20Opt struct {
	Base, Per *big.Int
}

// c20M is the in-block model of one name.
type c20M struct {
	exists bool
	owner  string
	benef  string
	onSale bool
	price  *big.Int
	exp    []*big.Int // acceptable expiry heights (top-level names); nil = unknown (accept anything)
	expLow *big.Int   // with exp == nil after a paid event: a payment never moves the expiry below this
	// authorised events of this block
	created     bool
	createIdx   int
	evUpdate    bool
	evSell      bool
	evPurchase  bool
	purchaseIdx int
	evRenew     bool
	renewIdx    int
	evDeact     bool // a top-level update with active=false (cascades to the sub-names)
	evExpiry    bool // some event that sets or extends the expiry
	delAuth     bool // deletion authorised (delete-sub by the parent's owner, or parent purchased): the record may be gone
	benefOK     map[string]bool
	labels      []string
}

func (m *c20M) label(l string) {
	if l == "" {
		return
	}
	for _, x := range m.labels {
		if x == l {
			return
		}
	}
	m.labels = append(m.labels, l)
}

type c20Purchase struct {
	idx     int
	name    string
	buyer   string
	seller  string
	offer   *big.Int
	minBuy  *big.Int
	minSell *big.Int
	onSale  bool // the on-sale path is possible
	expired bool // the expired path is possible
}

type c20Oracle struct {
	obs      Obs
	prevRecs map[string]*c20Rec
	prevOpt  *c20Opt
	prevGov  string // fingerprint of the g_ records the options were read from
	users    map[string]bool

	// statistics (NonTrivial and report)
	blocks       int
	nCreate      int // authorised creations of top-level names with the expiry formula checked
	nSub         int // authorised sub-name creations
	nOwnerTx     int // authorised update / sell / delete-sub events
	nPurchase    int // authorised purchases
	nPurchMoney  int // ... with both money inequalities evaluated
	nRenew       int
	nSend        int // DOMAIN_SEND with money checked
	nRejected    int // failed ONS transactions (any reason)
	nMoneySkip   int
	nExpirySkip  int // paid events whose expiry could not be judged (options possibly changed earlier in the block)
	nOptChange   int // blocks in which the ONS options differ from the previous block
	nPaidAfterCh int // expiry events evaluated after an option change happened in the run
	nExpiredBuy  int
}

func c20Addr(a keys.Address) string {
	if len(a) == 0 {
		return ""
	}
	return a.String()
}

func c20Root(name string) (string, bool) {
	ls := strings.Split(name, ".")
	if len(ls) <= 2 {
		return name, false
	}
	return ls[len(ls)-2] + "." + ls[len(ls)-1], true
}

func c20Reverse(s string) string {
	r := []rune(s)
	for i, j := 0, len(r)-1; i < j; i, j = i+1, j-1 {
		r[i], r[j] = r[j], r[i]
	}
	return string(r)
}

func c20Decode(raw map[string][]byte) map[string]*c20Rec {
	out := map[string]*c20Rec{}
	for k, v := range raw {
		if !strings.HasPrefix(k, "d_") {
			panic(core.HarnessError{Msg: "C20: unexpected key in the domain family: " + k})
		}
		name := c20Reverse(k[2:])
		d := &ons.Domain{}
		if err := serialize.GetSerializer(serialize.PERSISTENT).Deserialize(v, d); err != nil {
			panic(core.HarnessError{Msg: fmt.Sprintf("C20: cannot decode domain record %q: %v", k, err)})
		}
		r := &c20Rec{Name: name, Owner: c20Addr(d.Owner), Benef: c20Addr(d.Beneficiary), Expire: d.ExpireHeight,
			Active: d.ActiveFlag, OnSale: d.OnSaleFlag, URI: d.URI}
		if d.SalePrice != nil {
			r.Price = new(big.Int).Set(d.SalePrice.BigInt())
		}
		out[name] = r
	}
	return out
}

// c20ReadOpt decodes the ONS options in force in a dump with the repository's own governance store
// (decoding only) on a throw-away state.
func c20ReadOpt(dump map[string][]byte, ks []string) *c20Opt {
	var opt *c20Opt
	func() {
		defer func() {
			if rec := recover(); rec != nil {
				panic(core.HarnessError{Msg: fmt.Sprintf("C20: cannot read ONS options: %v", rec)})
			}
		}()
		db := dbm.NewMemDB()
		cs := storage.NewChainState("c20opt", db)
		st := storage.NewState(cs)
		for _, k := range ks {
			if err := st.Set(storage.StoreKey(k), dump[k]); err != nil {
				panic(err)
			}
		}
		st.Commit()
		st = storage.NewState(cs)
		o, err := governance.NewStore("g", st).GetONSOptions()
		if err != nil || o == nil {
			panic(fmt.Sprintf("GetONSOptions: %v", err))
		}
		opt = &c20Opt{Base: new(big.Int).Set(o.BaseDomainPrice.BigInt()), Per: new(big.Int).Set(o.PerBlockFees.BigInt())}
	}()
	return opt
}

func (o *c20Oracle) options(dump map[string][]byte) *c20Opt {
	var ks []string
	for k := range dump {
		if strings.HasPrefix(k, "g_") {
			ks = append(ks, k)
		}
	}
	sort.Strings(ks)
	var b strings.Builder
	for _, k := range ks {
		b.WriteString(k)
		b.WriteByte(0)
		b.Write(dump[k])
		b.WriteByte(1)
	}
	fp := b.String()
	if o.prevOpt != nil && fp == o.prevGov {
		return o.prevOpt
	}
	o.prevGov = fp
	return c20ReadOpt(dump, ks)
}

// c20Blocks = floor((pay-minus)/per), nil when the payment does not cover minus or per is not positive.
func c20Blocks(pay, minus, per *big.Int) *big.Int {
	if per == nil || per.Sign() <= 0 || pay == nil {
		return nil
	}
	rem := new(big.Int).Sub(pay, minus)
	if rem.Sign() < 0 {
		return nil
	}
	return rem.Div(rem, per)
}

func c20AddUniq(set []*big.Int, x *big.Int) []*big.Int {
	for _, y := range set {
		if y.Cmp(x) == 0 {
			return set
		}
	}
	return append(set, x)
}

func c20SetStr(set []*big.Int) string {
	if set == nil {
		return "{any}"
	}
	ss := make([]string, 0, len(set))
	for _, x := range set {
		ss = append(ss, x.String())
	}
	sort.Strings(ss)
	if len(ss) > 12 {
		ss = append(ss[:12], "...")
	}
	return "{" + strings.Join(ss, ",") + "}"
}

func c20Amt(a *action.Amount) *big.Int {
	return new(big.Int).Set(a.Value.BigInt())
}

func c20Has(signers []keys.Address, a keys.Address) bool {
	for _, s := range signers {
		if s.Equal(a) && len(a) > 0 {
			return true
		}
	}
	return false
}

func (o *c20Oracle) AfterStep(e *core.Engine, idx int, st *core.Step, stepErr error) []core.Violation {
	if st.Kind == "boot" {
		o.obs.InitGenesis(e)
		o.prevRecs = c20Decode(o.obs.Cur.Raw["d_"])
		o.prevOpt = o.options(o.obs.CurDump)
		o.users = map[string]bool{}
		for _, u := range e.W.Users {
			o.users[u.Addr.String()] = true
		}
		return nil
	}
	if st.Kind != "block" || !o.obs.Update(e, st) {
		return nil
	}
	ob := &o.obs
	for _, p := range ob.Cur.Problems {
		if strings.HasPrefix(p, "unknown ") {
			panic(core.HarnessError{Msg: "ledger incomplete: " + p})
		}
	}
	o.blocks++
	curRecs := c20Decode(ob.Cur.Raw["d_"])
	curOpt := o.options(ob.CurDump)
	prevRecs, prevOpt := o.prevRecs, o.prevOpt
	if prevOpt.Base.Cmp(curOpt.Base) != 0 || prevOpt.Per.Cmp(curOpt.Per) != 0 {
		o.nOptChange++
	}
	vs := o.checkBlock(ob, prevRecs, curRecs, prevOpt, curOpt)
	o.prevRecs, o.prevOpt = curRecs, curOpt
	return vs
}

func (o *c20Oracle) checkBlock(ob *Obs, prevRecs, curRecs map[string]*c20Rec, prevOpt, curOpt *c20Opt) []core.Violation {
	h := ob.H
	H := big.NewInt(h)
	H1 := big.NewInt(h - 1)
	nows := []*big.Int{H1, H}

	// option combinations that may have been in force at some point of block H
	var combos []c20Opt
	for _, b := range []*big.Int{prevOpt.Base, curOpt.Base} {
		for _, p := range []*big.Int{prevOpt.Per, curOpt.Per} {
			dup := false
			for _, c := range combos {
				if c.Base.Cmp(b) == 0 && c.Per.Cmp(p) == 0 {
					dup = true
				}
			}
			if !dup {
				combos = append(combos, c20Opt{Base: b, Per: p})
			}
		}
	}
	minBase := prevOpt.Base
	if curOpt.Base.Cmp(minBase) < 0 {
		minBase = curOpt.Base
	}
	perOK := prevOpt.Per.Sign() > 0 && curOpt.Per.Sign() > 0
	// The block hooks finalise proposals outside the transactions of a block, so a paid transaction saw
	// the options of H-1 (or of H, both accepted) unless a transaction of block H changed them before:
	// a successful PROPOSAL_FINALIZE (or, in a block across which the options differ, any transaction
	// this oracle does not model) earlier in the block may have installed a value that neither dump
	// shows (the hooks can overwrite it at the end of the same block). After such a transaction the
	// expiry formula is not evaluated for the rest of the block.
	optsChanged := prevOpt.Base.Cmp(curOpt.Base) != 0 || prevOpt.Per.Cmp(curOpt.Per) != 0
	optUnknown := false

	// ---- the model of H-1 ----
	m := map[string]*c20M{}
	for n, r := range prevRecs {
		x := &c20M{exists: true, owner: r.Owner, benef: r.Benef, onSale: r.OnSale, benefOK: map[string]bool{}}
		if r.OnSale {
			x.price = new(big.Int)
			if r.Price != nil {
				x.price.Set(r.Price)
			}
		}
		x.exp = []*big.Int{big.NewInt(r.Expire)}
		m[n] = x
	}
	get := func(n string) *c20M {
		if x, ok := m[n]; ok {
			return x
		}
		x := &c20M{benefOK: map[string]bool{}}
		m[n] = x
		return x
	}
	subsOf := func(root string) []string {
		var out []string
		for n, x := range m {
			if !x.exists {
				continue
			}
			if r, isSub := c20Root(n); isSub && r == root {
				out = append(out, n)
			}
		}
		sort.Strings(out)
		return out
	}

	mk := func(oracle, class string, labels []string, format string, a ...interface{}) []core.Violation {
		return []core.Violation{{Property: c20Prop, Oracle: oracle, Sig: class + ":" + c20Labels(labels),
			Msg: fmt.Sprintf("block %d: ", h) + fmt.Sprintf(format, a...) + "; txs: " + c20TxSummary(ob)}}
	}

	// ---- money bookkeeping (OLT only) ----
	fixed := map[string]*big.Int{}           // effects of understood transactions, purchases excluded
	feeSlack := map[string]*big.Int{}        // upper bound of the fees an account may have paid
	involved := map[string]map[string]bool{} // account -> roles in the ONS money events of this block
	add := func(mp map[string]*big.Int, a string, x *big.Int) {
		if a == "" {
			return
		}
		if mp[a] == nil {
			mp[a] = new(big.Int)
		}
		mp[a].Add(mp[a], x)
	}
	role := func(a, r string) {
		if a == "" {
			return
		}
		if involved[a] == nil {
			involved[a] = map[string]bool{}
		}
		involved[a][r] = true
	}
	moneyUnknown := ""           // reason why the money check of this block is impossible
	unknownCredit := false       // a successful transaction of a kind this oracle does not model may credit anybody
	unclean := map[string]bool{} // signers of such transactions (may be debited by them)
	moneyLabels := map[string][]string{}
	mlabel := func(a, l string) {
		if a != "" && l != "" {
			moneyLabels[a] = append(moneyLabels[a], l)
		}
	}
	var purchases []*c20Purchase
	hasMoneyEvent := false

	for i, t := range ob.Txs {
		if t.Tx == nil {
			continue
		}
		// fee bound: the first signer pays at most price*gasLimit (also accepted for failed transactions)
		if len(t.Tx.Signatures) > 0 && t.Tx.Fee.Price.Currency == "OLT" && t.Tx.Fee.Gas > 0 {
			if hd, err := t.Tx.Signatures[0].Signer.GetHandler(); err == nil {
				p := t.Tx.Fee.Price.Value.BigInt()
				if p.Sign() > 0 {
					add(feeSlack, hd.Address().String(), new(big.Int).Mul(p, big.NewInt(t.Tx.Fee.Gas)))
				}
			}
		}
		isOns := t.Tx.Type >= action.DOMAIN_CREATE && t.Tx.Type <= action.DOMAIN_RENEW
		if t.Res.Code != 0 {
			if isOns {
				o.nRejected++
			}
			continue
		}
		bad := func(what string, err error) {
			panic(core.HarnessError{Msg: fmt.Sprintf("C20: successful %s at block %d index %d cannot be decoded: %v", what, h, i, err)})
		}
		switch t.Tx.Type {
		case action.SEND:
			msg := &transfer.Send{}
			if err := msg.Unmarshal(t.Tx.Data); err != nil {
				bad("SEND", err)
			}
			if msg.Amount.Currency == "OLT" {
				amt := c20Amt(&msg.Amount)
				if amt.Sign() < 0 {
					moneyUnknown = "a SEND with a negative amount succeeded"
				}
				add(fixed, c20Addr(msg.From), new(big.Int).Neg(amt))
				add(fixed, c20Addr(msg.To), amt)
			}

		case action.DOMAIN_CREATE:
			msg := &aons.DomainCreate{}
			if err := msg.Unmarshal(t.Tx.Data); err != nil {
				bad("DOMAIN_CREATE", err)
			}
			name := msg.Name.String()
			owner := c20Addr(msg.Owner)
			pay := c20Amt(&msg.BuyingPrice)
			lb := []string{t.Label}
			if !c20Has(t.Signers, msg.Owner) {
				return mk("actor-signed", "create-unsigned", lb, "DOMAIN_CREATE #%d of %q succeeded but the owner it names (%s) is not among the verified signers %v", i, name, owner, c20AddrList(t.Signers))
			}
			root, isSub := c20Root(name)
			x := get(name)
			x.label(t.Label)
			takeover := false
			if x.exists && !x.delAuth && x.owner != owner {
				// somebody else's name: only acceptable like the purchase of an expired name
				expired := false
				for _, ex := range x.exp {
					if ex.Cmp(H) <= 0 {
						expired = true
					}
				}
				if isSub || !expired || pay.Cmp(minBase) < 0 {
					return mk("one-owner", "create-over-existing-name", lb, "DOMAIN_CREATE #%d by %s succeeded for %q which exists and belongs to %s (expiry %s, not purchasable as expired or not paid for)", i, owner, name, x.owner, c20SetStr(x.exp))
				}
				takeover = true
			}
			if msg.BuyingPrice.Currency != "OLT" {
				moneyUnknown = "a creation was paid in " + msg.BuyingPrice.Currency
			}
			if isSub {
				p := get(root)
				p.label(t.Label)
				if !p.exists {
					return mk("sub-needs-parent-owner", "sub-created-without-parent", lb, "DOMAIN_CREATE #%d of sub-name %q succeeded but its parent %q does not exist at that point of the block", i, name, root)
				}
				if p.owner != owner {
					return mk("sub-needs-parent-owner", "sub-created-by-non-owner-of-parent", lb, "DOMAIN_CREATE #%d of sub-name %q by %s succeeded but the parent %q belongs to %s", i, name, owner, root, p.owner)
				}
				x.exp = nil // judged by "expires with its parent"
				o.nSub++
			} else {
				var set []*big.Int
				for _, c := range combos {
					if n := c20Blocks(pay, c.Base, c.Per); n != nil {
						for _, now := range nows {
							set = c20AddUniq(set, new(big.Int).Add(now, n))
						}
					}
				}
				if !perOK || optUnknown {
					set = nil
					x.expLow = H1
					o.nExpirySkip++
				} else if len(set) == 0 {
					return mk("expiry-paid-for", "create-below-base-price", lb, "DOMAIN_CREATE #%d of %q succeeded with a payment of %s which is below the base price (%s / %s)", i, name, pay, prevOpt.Base, curOpt.Base)
				}
				x.exp = set
				x.evExpiry = true
				o.nCreate++
				if o.nOptChange > 0 {
					o.nPaidAfterCh++
				}
			}
			x.exists, x.owner, x.created, x.createIdx = true, owner, true, i
			x.delAuth = false
			x.onSale, x.price = false, nil
			if takeover {
				x.evPurchase, x.purchaseIdx = true, i
			}
			b := c20Addr(msg.Beneficiary)
			x.benef = b
			if b == "" {
				x.benef = owner
				x.benefOK[""] = true
				x.benefOK[owner] = true
			} else {
				x.benefOK[b] = true
			}
			add(fixed, owner, new(big.Int).Neg(pay))
			role(owner, "payer")
			mlabel(owner, t.Label)
			hasMoneyEvent = true

		case action.DOMAIN_UPDATE:
			msg := &aons.DomainUpdate{}
			if err := msg.Unmarshal(t.Tx.Data); err != nil {
				bad("DOMAIN_UPDATE", err)
			}
			name := msg.Name.String()
			owner := c20Addr(msg.Owner)
			lb := []string{t.Label}
			if !c20Has(t.Signers, msg.Owner) {
				return mk("actor-signed", "update-unsigned", lb, "DOMAIN_UPDATE #%d of %q succeeded but the owner it names (%s) is not among the verified signers %v", i, name, owner, c20AddrList(t.Signers))
			}
			x := get(name)
			x.label(t.Label)
			if !x.exists {
				break // nothing to change; a record appearing from nowhere is caught below
			}
			root, isSub := c20Root(name)
			ok := x.owner == owner
			if !ok && isSub {
				if p := get(root); p.exists && p.owner == owner {
					ok = true
				}
			}
			if !ok {
				return mk("owner-only", "update-by-non-owner", lb, "DOMAIN_UPDATE #%d of %q signed by %s succeeded but the name belongs to %s", i, name, owner, x.owner)
			}
			x.evUpdate = true
			b := c20Addr(msg.Beneficiary)
			x.benef = b
			x.benefOK[b] = true
			if b == "" {
				x.benefOK[x.owner] = true
			}
			if !isSub && !msg.Active {
				x.evDeact = true
			}
			o.nOwnerTx++

		case action.DOMAIN_SELL:
			msg := &aons.DomainSale{}
			if err := msg.Unmarshal(t.Tx.Data); err != nil {
				bad("DOMAIN_SELL", err)
			}
			name := msg.Name.String()
			owner := c20Addr(msg.OwnerAddress)
			lb := []string{t.Label}
			if !c20Has(t.Signers, msg.OwnerAddress) {
				return mk("actor-signed", "sale-unsigned", lb, "DOMAIN_SELL #%d of %q succeeded but the owner it names (%s) is not among the verified signers %v", i, name, owner, c20AddrList(t.Signers))
			}
			x := get(name)
			x.label(t.Label)
			if !x.exists {
				break
			}
			if x.owner != owner {
				return mk("owner-only", "sale-by-non-owner", lb, "DOMAIN_SELL #%d of %q signed by %s succeeded but the name belongs to %s", i, name, owner, x.owner)
			}
			x.evSell = true
			if msg.CancelSale {
				x.onSale, x.price = false, nil
			} else {
				x.onSale, x.price = true, c20Amt(&msg.Price)
				if msg.Price.Currency != "OLT" {
					moneyUnknown = "an asking price in " + msg.Price.Currency
				}
			}
			o.nOwnerTx++

		case action.DOMAIN_DELETE_SUB:
			msg := &aons.DeleteSub{}
			if err := msg.Unmarshal(t.Tx.Data); err != nil {
				bad("DOMAIN_DELETE_SUB", err)
			}
			name := msg.Name.String()
			owner := c20Addr(msg.Owner)
			lb := []string{t.Label}
			if !c20Has(t.Signers, msg.Owner) {
				return mk("actor-signed", "delete-sub-unsigned", lb, "DOMAIN_DELETE_SUB #%d of %q succeeded but the owner it names (%s) is not among the verified signers %v", i, name, owner, c20AddrList(t.Signers))
			}
			root, isSub := c20Root(name)
			p := get(root)
			p.label(t.Label)
			if !p.exists {
				break
			}
			if p.owner != owner {
				return mk("owner-only", "delete-sub-by-non-owner", lb, "DOMAIN_DELETE_SUB #%d of %q signed by %s succeeded but the parent %q belongs to %s", i, name, owner, root, p.owner)
			}
			if isSub {
				x := get(name)
				x.label(t.Label)
				if x.exists {
					x.delAuth = true
				}
			} else {
				for _, sn := range subsOf(root) {
					s := m[sn]
					s.label(t.Label)
					s.delAuth = true
				}
			}
			o.nOwnerTx++

		case action.DOMAIN_RENEW:
			msg := &aons.RenewDomain{}
			if err := msg.Unmarshal(t.Tx.Data); err != nil {
				bad("DOMAIN_RENEW", err)
			}
			name := msg.Name.String()
			payer := c20Addr(msg.Owner)
			pay := c20Amt(&msg.BuyingPrice)
			lb := []string{t.Label}
			if !c20Has(t.Signers, msg.Owner) {
				return mk("actor-signed", "renew-unsigned", lb, "DOMAIN_RENEW #%d of %q succeeded but the payer it names (%s) is not among the verified signers %v", i, name, payer, c20AddrList(t.Signers))
			}
			if msg.BuyingPrice.Currency != "OLT" {
				moneyUnknown = "a renewal was paid in " + msg.BuyingPrice.Currency
			}
			x := get(name)
			x.label(t.Label)
			add(fixed, payer, new(big.Int).Neg(pay))
			role(payer, "payer")
			mlabel(payer, t.Label)
			hasMoneyEvent = true
			if !x.exists {
				break
			}
			if _, isSub := c20Root(name); isSub {
				break // a sub-name follows its parent; judged by "expires with its parent"
			}
			if x.exp != nil && perOK && !optUnknown {
				var set []*big.Int
				for _, old := range x.exp {
					for _, c := range combos {
						if n := c20Blocks(pay, new(big.Int), c.Per); n != nil {
							set = c20AddUniq(set, new(big.Int).Add(old, n))
						}
						if n := c20Blocks(pay, c.Base, c.Per); n != nil {
							set = c20AddUniq(set, new(big.Int).Add(old, n))
						}
					}
				}
				if len(set) == 0 {
					return mk("expiry-paid-for", "renew-negative-payment", lb, "DOMAIN_RENEW #%d of %q succeeded with a payment of %s that buys no whole number of blocks", i, name, pay)
				}
				x.exp = set
			} else {
				if x.exp != nil {
					x.expLow = nil
					for _, old := range x.exp {
						if x.expLow == nil || old.Cmp(x.expLow) < 0 {
							x.expLow = old
						}
					}
				}
				x.exp = nil
				o.nExpirySkip++
			}
			x.evRenew, x.renewIdx, x.evExpiry = true, i, true
			o.nRenew++
			if o.nOptChange > 0 {
				o.nPaidAfterCh++
			}

		case action.DOMAIN_PURCHASE:
			msg := &aons.DomainPurchase{}
			if err := msg.Unmarshal(t.Tx.Data); err != nil {
				bad("DOMAIN_PURCHASE", err)
			}
			name := msg.Name.String()
			buyer := c20Addr(msg.Buyer)
			offer := c20Amt(&msg.Offering)
			lb := []string{t.Label}
			if !c20Has(t.Signers, msg.Buyer) {
				return mk("actor-signed", "purchase-unsigned", lb, "DOMAIN_PURCHASE #%d of %q succeeded but the buyer it names (%s) is not among the verified signers %v", i, name, buyer, c20AddrList(t.Signers))
			}
			if msg.Offering.Currency != "OLT" {
				moneyUnknown = "a purchase was paid in " + msg.Offering.Currency
			}
			x := get(name)
			x.label(t.Label)
			if !x.exists {
				// the buyer's money went somewhere: no statement possible
				moneyUnknown = "a purchase of an unknown name succeeded"
				break
			}
			root, isSub := c20Root(name)
			onSale := x.onSale
			expired := x.exp == nil
			for _, ex := range x.exp {
				if ex.Cmp(H) <= 0 {
					expired = true
				}
			}
			if isSub {
				// a sub-name has no expiry of its own: it is expired when its parent is
				expired = false
				if p := get(root); p.exists {
					for _, ex := range p.exp {
						if ex.Cmp(H) <= 0 {
							expired = true
						}
					}
				}
			}
			if !onSale && !expired {
				return mk("purchase-needs-sale-or-expiry", "purchase-of-name-not-for-sale", lb, "DOMAIN_PURCHASE #%d of %q by %s succeeded but the name (owner %s) is not on sale and not expired (expiry %s) at that point of the block", i, name, buyer, x.owner, c20SetStr(x.exp))
			}
			pu := &c20Purchase{idx: i, name: name, buyer: buyer, seller: x.owner, offer: offer, onSale: onSale, expired: expired}
			price := new(big.Int)
			if onSale && x.price != nil {
				price.Set(x.price)
			}
			switch {
			case onSale && expired:
				pu.minSell = new(big.Int)
				pu.minBuy = price
				if minBase.Cmp(price) < 0 {
					pu.minBuy = minBase
				}
			case onSale:
				pu.minSell, pu.minBuy = price, price
			default:
				pu.minSell, pu.minBuy = new(big.Int), minBase
			}
			if offer.Cmp(pu.minBuy) < 0 {
				if onSale && !expired {
					return mk("purchase-pays-asking-price", "purchase-below-asking-price", lb, "DOMAIN_PURCHASE #%d of %q by %s succeeded with an offer of %s, the asking price is %s", i, name, buyer, offer, price)
				}
				return mk("purchase-pays-asking-price", "purchase-below-base-price", lb, "DOMAIN_PURCHASE #%d of expired %q by %s succeeded with an offer of %s, the base price is %s (asking price %s, on sale %v)", i, name, buyer, offer, minBase, price, onSale)
			}
			purchases = append(purchases, pu)
			role(buyer, "buyer")
			role(pu.seller, "seller")
			mlabel(buyer, t.Label)
			mlabel(pu.seller, t.Label)
			hasMoneyEvent = true
			// expiry
			if !isSub {
				var set []*big.Int
				if optUnknown {
					x.expLow = H1
					o.nExpirySkip++
				}
				if x.exp != nil && perOK && !optUnknown {
					bases := append([]*big.Int{}, nows...)
					for _, old := range x.exp {
						if old.Cmp(H1) >= 0 {
							bases = c20AddUniq(bases, old)
						}
					}
					for _, bl := range bases {
						for _, c := range combos {
							if onSale {
								if n := c20Blocks(offer, price, c.Per); n != nil {
									set = c20AddUniq(set, new(big.Int).Add(bl, n))
								}
								if n := c20Blocks(offer, new(big.Int).Add(price, c.Base), c.Per); n != nil {
									set = c20AddUniq(set, new(big.Int).Add(bl, n))
								}
							}
							if expired {
								if n := c20Blocks(offer, c.Base, c.Per); n != nil {
									set = c20AddUniq(set, new(big.Int).Add(bl, n))
								}
							}
						}
					}
					if len(set) == 0 {
						panic(core.HarnessError{Msg: fmt.Sprintf("C20: model bug: empty expiry set for purchase #%d at block %d", i, h)})
					}
				}
				x.exp = set
				x.evExpiry = true
				if o.nOptChange > 0 {
					o.nPaidAfterCh++
				}
			}
			x.owner = buyer
			x.onSale, x.price = false, nil
			x.evPurchase, x.purchaseIdx = true, i
			b := c20Addr(msg.Account)
			x.benef = b
			x.benefOK[b] = true
			if b == "" {
				x.benefOK[buyer] = true
			}
			// the sub-names of the previous owner may go
			if !isSub {
				for _, sn := range subsOf(root) {
					s := m[sn]
					s.label(t.Label)
					s.delAuth = true
				}
			}
			o.nPurchase++
			if expired && !onSale {
				o.nExpiredBuy++
			}

		case action.DOMAIN_SEND:
			msg := &aons.DomainSend{}
			if err := msg.Unmarshal(t.Tx.Data); err != nil {
				bad("DOMAIN_SEND", err)
			}
			name := msg.Name.String()
			from := c20Addr(msg.From)
			lb := []string{t.Label}
			if !c20Has(t.Signers, msg.From) {
				return mk("actor-signed", "domain-send-unsigned", lb, "DOMAIN_SEND #%d to %q succeeded but the sender it names (%s) is not among the verified signers %v", i, name, from, c20AddrList(t.Signers))
			}
			x := get(name)
			if !x.exists {
				return mk("send-to-beneficiary", "domain-send-to-unknown-name", lb, "DOMAIN_SEND #%d of %s from %s succeeded but the name %q does not exist at that point of the block", i, msg.Amount.String(), from, name)
			}
			if msg.Amount.Currency != "OLT" {
				break // other currencies are not tracked here
			}
			if x.delAuth {
				// an authorised deletion earlier in the block: the name may or may not be there any more
				moneyUnknown = "a DOMAIN_SEND to a name whose deletion was authorised earlier in the block"
				break
			}
			amt := c20Amt(&msg.Amount)
			if amt.Sign() < 0 {
				moneyUnknown = "a DOMAIN_SEND with a negative amount succeeded"
			}
			if x.benef == "" {
				moneyUnknown = "a DOMAIN_SEND to a name without beneficiary succeeded"
				break
			}
			add(fixed, from, new(big.Int).Neg(amt))
			add(fixed, x.benef, amt)
			role(from, "sender")
			role(x.benef, "beneficiary")
			mlabel(from, t.Label)
			mlabel(x.benef, t.Label)
			hasMoneyEvent = true
			o.nSend++

		default:
			unknownCredit = true
			if optsChanged || t.Tx.Type == action.PROPOSAL_FINALIZE {
				optUnknown = true
			}
			for _, s := range t.Signers {
				unclean[s.String()] = true
			}
			for _, s := range core.SignerAddrs(t.Tx) {
				unclean[s.String()] = true
			}
		}
	}

	// ---- name by name: dump H against dump H-1 and the model ----
	names := map[string]bool{}
	for n := range prevRecs {
		names[n] = true
	}
	for n := range curRecs {
		names[n] = true
	}
	nl := make([]string, 0, len(names))
	for n := range names {
		nl = append(nl, n)
	}
	sort.Strings(nl)
	lbOf := func(n string) []string {
		var out []string
		if x, ok := m[n]; ok {
			out = append(out, x.labels...)
		}
		if r, isSub := c20Root(n); isSub {
			if x, ok := m[r]; ok {
				out = append(out, x.labels...)
			}
		}
		return out
	}
	for _, n := range nl {
		P, C := prevRecs[n], curRecs[n]
		x := get(n)
		root, isSub := c20Root(n)
		var rootM *c20M
		if isSub {
			rootM = get(root)
		}
		lb := lbOf(n)
		if C == nil {
			// vanished: needs an authorised deletion (delete-sub by the parent's owner, purchase of the parent)
			if !x.delAuth {
				if isSub {
					return mk("sub-names-owner-only", "sub-name-deleted-unauthorised", lb, "sub-name %q (owner %s) vanished but no successful DOMAIN_DELETE_SUB signed by the owner of %q and no purchase of the parent explains it", n, P.Owner, root)
				}
				return mk("one-owner", "name-vanished", lb, "name %q (owner %s) vanished from the registry", n, P.Owner)
			}
			continue
		}
		fresh := P == nil || (x.created && x.exists)
		if P == nil && !(x.created && x.exists) {
			return mk("creation-signed-by-owner", "name-appeared-without-create", lb, "record %q (owner %s) appeared but no successful, authorised DOMAIN_CREATE of this block explains it", n, C.Owner)
		}
		if !x.exists {
			panic(core.HarnessError{Msg: fmt.Sprintf("C20: model bug: %q exists in both dumps but not in the model at block %d", n, h)})
		}
		// owner
		if C.Owner != x.owner {
			was := "-"
			if P != nil {
				was = P.Owner
			}
			return mk("owner-changes-by-purchase-only", "owner-changed-unauthorised", lb, "owner of %q is %s, expected %s (owner before the block: %s; authorised purchase in this block: %v)", n, C.Owner, x.owner, was, x.evPurchase)
		}
		// beneficiary
		if fresh || x.evPurchase {
			if !x.benefOK[C.Benef] {
				return mk("owner-only", "beneficiary-mismatch", lb, "beneficiary of %q is %q after its creation/purchase, the authorised transactions named %v", n, C.Benef, c20Keys(x.benefOK))
			}
		} else if C.Benef != P.Benef {
			if !x.evUpdate {
				return mk("owner-only", "beneficiary-changed-unauthorised", lb, "beneficiary of %q changed %q -> %q without a successful update signed by its owner %s", n, P.Benef, C.Benef, P.Owner)
			}
			if !x.benefOK[C.Benef] {
				return mk("owner-only", "beneficiary-mismatch", lb, "beneficiary of %q changed %q -> %q, the owner's transactions named %v", n, P.Benef, C.Benef, c20Keys(x.benefOK))
			}
		}
		if !fresh {
			// URI
			if C.URI != P.URI && !x.evUpdate && !x.evPurchase {
				return mk("owner-only", "uri-changed-unauthorised", lb, "URI of %q changed %q -> %q without a successful update signed by its owner %s or a purchase", n, P.URI, C.URI, P.Owner)
			}
			// active flag
			if C.Active != P.Active && !x.evUpdate && !x.evSell && !x.evPurchase && !(isSub && rootM.evDeact) {
				return mk("owner-only", "active-flag-changed-unauthorised", lb, "active flag of %q changed %v -> %v without a successful update/sale signed by its owner %s or a purchase", n, P.Active, C.Active, P.Owner)
			}
		}
		// sale status
		cp := new(big.Int)
		if C.Price != nil {
			cp = C.Price
		}
		xp := new(big.Int)
		if x.price != nil {
			xp = x.price
		}
		if C.OnSale != x.onSale || (C.OnSale && cp.Cmp(xp) != 0) {
			class := "sale-status-mismatch"
			if !x.evSell && !x.evPurchase && !fresh {
				class = "sale-status-changed-unauthorised"
			}
			return mk("owner-only", class, lb, "sale status of %q is onSale=%v price=%s, expected onSale=%v price=%s from the owner's transactions (before the block: onSale=%v)", n, C.OnSale, cp, x.onSale, xp, P != nil && P.OnSale)
		}
		// expiry of top-level names
		if !isSub && x.exp == nil && x.evExpiry && x.expLow != nil && big.NewInt(C.Expire).Cmp(x.expLow) < 0 {
			return mk("expiry-paid-for", "expiry-overflow", lb, "expiry of %q is %d after a payment for more blocks; whatever the prices in force, a payment cannot move the expiry below %s", n, C.Expire, x.expLow)
		}
		if !isSub && x.exp != nil {
			ce := big.NewInt(C.Expire)
			ok := false
			over := false
			for _, ex := range x.exp {
				if ex.Cmp(ce) == 0 {
					ok = true
				}
				if !ex.IsInt64() {
					over = true
				}
			}
			if !ok {
				class := "expiry-mismatch"
				switch {
				case !x.evExpiry:
					class = "expiry-changed-without-payment"
				case over:
					class = "expiry-overflow"
				case x.evPurchase:
					class = "expiry-mismatch-purchase"
				case x.evRenew:
					class = "expiry-mismatch-renew"
				case x.created:
					class = "expiry-mismatch-create"
				}
				was := "-"
				if P != nil {
					was = fmt.Sprint(P.Expire)
				}
				return mk("expiry-paid-for", class, lb, "expiry of %q is %d (before the block: %s), acceptable under base %s/%s per-block %s/%s: %s", n, C.Expire, was, prevOpt.Base, curOpt.Base, prevOpt.Per, curOpt.Per, c20SetStr(x.exp))
			}
		}
	}
	// ---- every sub-name follows its parent ----
	for _, n := range nl {
		C := curRecs[n]
		if C == nil {
			continue
		}
		root, isSub := c20Root(n)
		if !isSub {
			continue
		}
		R := curRecs[root]
		if R == nil {
			continue // orphan: nothing to compare with
		}
		x, rm := get(n), get(root)
		lb := lbOf(n)
		sameBlock := x.created
		if C.Owner != R.Owner {
			class := "sub-name-owner-differs-from-parent"
			if sameBlock && rm.evPurchase && rm.purchaseIdx > x.createIdx {
				class = "sub-created-in-purchase-block-keeps-old-owner"
			} else if rm.evPurchase {
				class = "sub-name-survives-purchase-of-parent"
			}
			return mk("sub-follows-parent", class, lb, "sub-name %q belongs to %s but its parent %q belongs to %s (sub created in this block: %v at #%d; parent purchased in this block: %v at #%d)", n, C.Owner, root, R.Owner, sameBlock, x.createIdx, rm.evPurchase, rm.purchaseIdx)
		}
		if C.Expire != R.Expire {
			class := "sub-name-expiry-differs-from-parent"
			switch {
			case sameBlock && rm.evRenew && rm.renewIdx > x.createIdx:
				class = "sub-created-in-renew-block-keeps-old-expiry"
			case sameBlock && rm.evPurchase && rm.purchaseIdx > x.createIdx:
				class = "sub-created-in-purchase-block-keeps-old-expiry"
			case rm.evRenew:
				class = "sub-name-not-renewed-with-parent"
			case rm.evPurchase:
				class = "sub-name-survives-purchase-of-parent"
			}
			return mk("sub-follows-parent", class, lb, "sub-name %q expires at %d but its parent %q expires at %d (sub created in this block: %v at #%d; parent renewed: %v at #%d, purchased: %v at #%d)", n, C.Expire, root, R.Expire, sameBlock, x.createIdx, rm.evRenew, rm.renewIdx, rm.evPurchase, rm.purchaseIdx)
		}
	}

	// ---- money ----
	if !hasMoneyEvent {
		return nil
	}
	if moneyUnknown != "" {
		o.nMoneySkip++
		return nil
	}
	// proposals are also finalised by the block hooks (no transaction in the block), which pays the
	// proposer's reward: any change in the proposal records means somebody may have been credited
	if !unknownCredit {
		unknownCredit = c20FamilyChanged(ob.PrevDump, ob.CurDump, "prop")
	}
	lower := map[string]*big.Int{}
	upper := map[string]*big.Int{}
	sells := map[string]bool{}
	buys := map[string]bool{}
	for _, pu := range purchases {
		if pu.buyer == pu.seller {
			add(lower, pu.buyer, new(big.Int).Neg(pu.offer))
			if !pu.onSale {
				add(upper, pu.buyer, new(big.Int).Neg(pu.minBuy))
			}
			buys[pu.buyer] = true
			continue
		}
		add(lower, pu.buyer, new(big.Int).Neg(pu.offer))
		add(upper, pu.buyer, new(big.Int).Neg(pu.minBuy))
		add(lower, pu.seller, pu.minSell)
		add(upper, pu.seller, pu.offer)
		buys[pu.buyer] = true
		sells[pu.seller] = true
	}
	accts := map[string]bool{}
	for a := range involved {
		accts[a] = true
	}
	for a := range o.users {
		accts[a] = true
	}
	for a := range fixed {
		accts[a] = true
	}
	al := make([]string, 0, len(accts))
	for a := range accts {
		al = append(al, a)
	}
	sort.Strings(al)
	z := new(big.Int)
	gb := func(mp map[string]*big.Int, a string) *big.Int {
		if x, ok := mp[a]; ok {
			return x
		}
		return z
	}
	// liquid OLT of an account: balance plus the undelegated amounts and delegation rewards that are
	// pending (they are moved into the balance by the block hooks when they mature: neutral here)
	bal := func(l *ledger.Ledger, a string) *big.Int {
		t := new(big.Int)
		if mm, ok := l.Bal[a]; ok {
			if x, ok := mm["OLT"]; ok {
				t.Add(t, x)
			}
		}
		for _, mm := range l.DelegPending {
			if x, ok := mm[a]; ok {
				t.Add(t, x)
			}
		}
		for _, mm := range l.DelegRwPending {
			if x, ok := mm[a]; ok {
				t.Add(t, x)
			}
		}
		return t
	}
	purchChecked := true
	for _, a := range al {
		obsDelta := new(big.Int).Sub(bal(ob.Cur, a), bal(ob.Prev, a))
		residual := new(big.Int).Sub(obsDelta, gb(fixed, a))
		lo := new(big.Int).Sub(gb(lower, a), gb(feeSlack, a))
		up := gb(upper, a)
		lb := moneyLabels[a]
		detail := fmt.Sprintf("account %s (%s): liquid OLT (balance + maturing amounts) %s -> %s (change %s), understood transfers/payments %s, residual %s, allowed residual [%s, %s] (fee allowance %s)",
			a, strings.Join(c20Keys(involved[a]), "+"), bal(ob.Prev, a), bal(ob.Cur, a), obsDelta, gb(fixed, a), residual, lo, up, gb(feeSlack, a))
		// lower bound: only unknown DEBITS can explain a shortfall, and they need the account's signature
		if residual.Cmp(lo) < 0 && !unclean[a] {
			switch {
			case sells[a]:
				return mk("purchase-pays-asking-price", "purchase-seller-underpaid", lb, "the previous owner received less than the asking price: %s; purchases: %s", detail, c20PurchStr(purchases))
			case involved[a]["beneficiary"]:
				return mk("send-to-beneficiary", "domain-send-beneficiary-short", lb, "the beneficiary did not receive what was sent to its name: %s", detail)
			}
			// an extra debit of a payer/buyer/sender is not this property's subject
		}
		if unclean[a] && (sells[a] || involved[a]["beneficiary"]) {
			purchChecked = false
		}
		// upper bound: impossible to judge when an unmodelled transaction may have credited the account
		if unknownCredit {
			if buys[a] || involved[a]["payer"] {
				purchChecked = false
			}
			continue
		}
		if residual.Cmp(up) > 0 {
			switch {
			case buys[a]:
				return mk("purchase-pays-asking-price", "purchase-buyer-underpaid", lb, "the buyer paid less than the asking (or base) price: %s; purchases: %s", detail, c20PurchStr(purchases))
			case involved[a]["payer"]:
				return mk("expiry-paid-for", "payment-not-debited", lb, "the payment that bought the blocks was not (fully) taken: %s", detail)
			default:
				return mk("send-to-beneficiary", "unexplained-credit", moneyLabelsAll(moneyLabels), "an account was credited although no transaction of the block explains it (DOMAIN_SEND must credit the beneficiary only; a purchase the previous owner and the fee pool only): %s; purchases: %s", detail, c20PurchStr(purchases))
			}
		}
	}
	if len(purchases) > 0 && purchChecked {
		o.nPurchMoney += len(purchases)
	} else if len(purchases) > 0 {
		o.nMoneySkip++
	}
	return nil
}

// c20FamilyChanged: some key with the prefix was added, removed or rewritten between two dumps.
func c20FamilyChanged(prev, cur map[string][]byte, prefix string) bool {
	for k, v := range cur {
		if strings.HasPrefix(k, prefix) {
			if pv, ok := prev[k]; !ok || string(pv) != string(v) {
				return true
			}
		}
	}
	for k := range prev {
		if strings.HasPrefix(k, prefix) {
			if _, ok := cur[k]; !ok {
				return true
			}
		}
	}
	return false
}

func moneyLabelsAll(m map[string][]string) []string {
	var out []string
	for _, ls := range m {
		out = append(out, ls...)
	}
	return out
}

func c20PurchStr(ps []*c20Purchase) string {
	var ss []string
	for _, p := range ps {
		ss = append(ss, fmt.Sprintf("#%d %q buyer=%s seller=%s offer=%s minToSeller=%s minFromBuyer=%s onSale=%v expired=%v", p.idx, p.name, p.buyer, p.seller, p.offer, p.minSell, p.minBuy, p.onSale, p.expired))
	}
	return "[" + strings.Join(ss, "; ") + "]"
}

func c20Keys(m map[string]bool) []string {
	ks := make([]string, 0, len(m))
	for k := range m {
		ks = append(ks, k)
	}
	sort.Strings(ks)
	return ks
}

func c20AddrList(as []keys.Address) []string {
	var out []string
	for _, a := range as {
		out = append(out, a.String())
	}
	return out
}

// c20Labels: sorted, de-duplicated intent labels of the transactions involved (signature material only).
func c20Labels(ls []string) string {
	set := map[string]bool{}
	for _, l := range ls {
		if l != "" {
			set[l] = true
		}
	}
	ks := c20Keys(set)
	if len(ks) == 0 {
		return "no-ons-tx"
	}
	if len(ks) > 4 {
		ks = append(ks[:4], "more")
	}
	return strings.Join(ks, "+")
}

func c20TxSummary(ob *Obs) string {
	var parts []string
	for i, t := range ob.Txs {
		if t.Tx == nil {
			continue
		}
		isOns := t.Tx.Type >= action.DOMAIN_CREATE && t.Tx.Type <= action.DOMAIN_RENEW
		if !isOns {
			continue
		}
		l := t.Label
		if l == "" {
			l = t.Tx.Type.String()
		}
		d := string(t.Tx.Data)
		if len(d) > 260 {
			d = d[:260] + "..."
		}
		parts = append(parts, fmt.Sprintf("#%d %s code=%d %s", i, l, t.Res.Code, d))
	}
	if len(parts) > 10 {
		parts = append(parts[:10], "...")
	}
	return strings.Join(parts, " | ")
}

func (o *c20Oracle) Finish(e *core.Engine) []core.Violation { return nil }

// NonTrivial: the run exercised every clause of the property at least once with an ACCEPTED event:
// >= 3 paid top-level creations/renewals with the expiry formula checked, >= 1 authorised purchase,
// >= 2 owner-signed changes (update / sale / delete-sub), >= 1 sub-name creation, and >= 3 rejected ONS
// transactions (the negative side).
func (o *c20Oracle) NonTrivial(e *core.Engine) bool {
	if f := os.Getenv("OLSIM_C20_STATS"); f != "" {
		// measurement aid only (never read back): one line of counters per run
		if fh, err := os.OpenFile(f, os.O_APPEND|os.O_CREATE|os.O_WRONLY, 0644); err == nil {
			fmt.Fprintf(fh, "blocks=%d create=%d sub=%d ownertx=%d purchase=%d purchMoney=%d expiredBuy=%d renew=%d send=%d rejected=%d moneySkip=%d expirySkip=%d optChangeBlocks=%d paidAfterChange=%d\n",
				o.blocks, o.nCreate, o.nSub, o.nOwnerTx, o.nPurchase, o.nPurchMoney, o.nExpiredBuy, o.nRenew, o.nSend, o.nRejected, o.nMoneySkip, o.nExpirySkip, o.nOptChange, o.nPaidAfterCh)
			fh.Close()
		}
	}
	return o.nCreate+o.nRenew >= 3 && o.nPurchase >= 1 && o.nOwnerTx >= 2 && o.nSub >= 1 && o.nRejected >= 3
}

func (o *c20Oracle) Inputs() int {
	return o.nCreate + o.nSub + o.nOwnerTx + o.nPurchase + o.nRenew + o.nSend + o.nRejected
}

// c20Thin passes a generator through in a fraction of the blocks only.
type c20Thin struct {
	g        gen.Generator
	num, den int
}

func (t c20Thin) Name() string { return t.g.Name() }
func (t c20Thin) Gen(c *gen.Ctx) []gen.Tx {
	if c.Rng.Intn(t.den) >= t.num {
		return nil
	}
	return t.g.Gen(c)
}

// c20NoSameBlockSub is a PlanHook (generation side only): it drops the creation of a sub-name from a
// planned block that also renews or purchases the parent. On the unchanged tree that combination
// trips a repository defect (the handler does not see sub-names created in the same block) within the
// first few blocks of nearly every run and would end the run there; the profile keeps the
// combination in a minority of the runs so that the rest of the property is explored as well.
func c20NoSameBlockSub(e *core.Engine, rng *rand.Rand, st *core.Step, gc *gen.Ctx) {
	parents := map[string]bool{}
	subRoot := make([]string, len(st.Txs))
	for i, hx := range st.Txs {
		b, err := hex.DecodeString(hx)
		if err != nil {
			continue
		}
		tx := core.DecodeTx(b)
		if tx == nil {
			continue
		}
		switch tx.Type {
		case action.DOMAIN_RENEW:
			msg := &aons.RenewDomain{}
			if msg.Unmarshal(tx.Data) == nil {
				parents[msg.Name.String()] = true
			}
		case action.DOMAIN_PURCHASE:
			msg := &aons.DomainPurchase{}
			if msg.Unmarshal(tx.Data) == nil {
				parents[msg.Name.String()] = true
			}
		case action.DOMAIN_CREATE:
			msg := &aons.DomainCreate{}
			if msg.Unmarshal(tx.Data) == nil {
				if r, isSub := c20Root(msg.Name.String()); isSub {
					subRoot[i] = r
				}
			}
		}
	}
	if len(st.Labels) != len(st.Txs) {
		return
	}
	var txs, labels []string
	for i := range st.Txs {
		if subRoot[i] != "" && parents[subRoot[i]] {
			continue
		}
		txs = append(txs, st.Txs[i])
		labels = append(labels, st.Labels[i])
	}
	st.Txs, st.Labels = txs, labels
}

var c20PerChoices = []string{"100000000000000", "100000000000000", "100000000000000", "1", "1000", "1000000000", "1000000000", "30000000000000000", "30000000000000000", "2500000000000000000", "2500000000000000000", "700000000000000000"}
var c20BaseChoices = []string{"1000000000000000000000", "1000000000000000000000", "0", "1", "250000000000000000000", "7000000000000000000000"}

func init() {
	Register(&ClusterProp{
		Id: c20Prop,
		RuleText: "each run: one real replica executes 40-70 blocks built by two instances of the ONS client (create / sub-create / update / sell / cancel / purchase on sale and expired / send-to-name / renew / delete-sub, races of two transactions on one name in one block, and ~25 hostile variants by strangers: foreign update/sale/renew/delete-sub, sub-name under a foreign parent, purchase below the asking price or of a name not for sale, re-creation of an existing name, forged signatures, payments at/below the base price, short-lived names that expire inside the run), " +
			"plain SEND traffic and a thinned governance client whose config proposals change the ONS base and per-block prices mid-run; genesis prices are drawn per run (per-block fee from 1 nue to 2.5 OLT, base price from 0 to 7000 OLT). " +
			"Oracle (observations only: d_ records, ONS options and balances of the dumps at H-1 and H, decoded transactions with harness-verified signers and result codes): successful transactions are walked in block order on a registry model; each must be signed by its actor and authorised by the ownership of that point of the block; every record difference between the dumps (owner, beneficiary, URI, active flag, sale status and price, existence of names and sub-names, expiry) must be explained by those authorised events with the model's values; " +
			"expiry after create/renew/purchase must lie in the set computed with own arithmetic from the payment and the options of H-1/H (now = H or H-1, base charged once or twice on a purchase: all accepted); every sub-name has its parent's owner and expiry; per account the OLT change minus understood transfers must give the seller >= asking price, take >= asking/base price from the buyer, and credit nobody else. " +
			"Non-trivial: >=3 paid creations/renewals with the expiry checked, >=1 authorised purchase, >=2 owner-signed changes, >=1 sub-name creation and >=3 rejected ONS transactions; distinct = distinct fingerprints.",
		MakeSetup: func(rng *rand.Rand, tier string, seed uint64) *Setup {
			k := SwarmKnobs(rng)
			k.NumUsers = 4 + rng.Intn(4)
			k.OnsPerBlock = c20PerChoices[rng.Intn(len(c20PerChoices))]
			k.OnsBase = c20BaseChoices[rng.Intn(len(c20BaseChoices))]
			su := &Setup{Knobs: k, Sess: gen.NewSession()}
			su.Replicas = append(su.Replicas, core.ReplicaConf{Identity: "x0", Quiet: true, Recent: 10, Every: 100, Cycles: 10, WitnessInitEarly: true})
			su.Gens = append(su.Gens, gen.ByName("ons", "ons")...)
			for _, g := range gen.ByName("send") {
				su.Gens = append(su.Gens, c20Thin{g: g, num: 1, den: 2})
			}
			if rng.Intn(20) < 17 {
				for _, g := range gen.ByName("gov") {
					su.Gens = append(su.Gens, c20Thin{g: g, num: 4, den: 5})
				}
			}
			su.Blocks = 40 + rng.Intn(31)
			if tier == "thorough" {
				su.Blocks = 60 + rng.Intn(60)
			}
			su.MaxTx = 14
			if rng.Intn(10) < 7 {
				su.PlanHook = c20NoSameBlockSub
			}
			return su
		},
		MakeOracle: func(e *core.Engine, tr *core.Trace) Oracle { return &c20Oracle{} },
	})
}

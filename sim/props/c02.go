package props

import (
	"fmt"
	"math/big"
	"math/rand"
	"sort"
	"strings"

	"github.com/Oneledger/protocol/action"
	ndact "github.com/Oneledger/protocol/action/network_delegation"
	"github.com/Oneledger/protocol/data/keys"

	"olsim/core"
	"olsim/gen"
)

// C02 No value creation.

type c02Oracle struct {
	obs            Obs
	blocks         int
	okTxs          int
	hostileOK      int
	rewardBlocks   int
	supplyAddrs    map[string]bool
	skippedWrapped int
	tightBlocks    int
	trackers       *TrackerModel // the C15 reference model: what locks/refunds reached witness finality in a block
}

func (o *c02Oracle) AfterStep(e *core.Engine, idx int, st *core.Step, stepErr error) []core.Violation {
	if st.Kind == "boot" {
		o.obs.InitGenesis(e)
		o.supplyAddrs = map[string]bool{
			keys.Address(core.SupplyAddrName).String(): true,
		}
		o.trackers = NewTrackerModel(e.W)
		return o.ledgerSanity(e, 0)
	}
	if st.Kind != "block" || !o.obs.Update(e, st) {
		return nil
	}
	ob := &o.obs
	h := ob.H
	o.blocks++
	for _, t := range ob.Txs {
		if t.Res.Code == 0 {
			o.okTxs++
		}
	}
	o.trackers.Update(ob, e) // its own verdicts belong to C15; here only the allowance is used
	vs := o.ledgerSanity(e, h)
	if len(vs) > 0 {
		return vs
	}
	if h == 1 {
		// genesis totals are the baseline at H = 1: InitChain writes are not "a block"; block 1 itself is
		// compared with the boot dump like any other block.
	}
	prevT := ob.Prev.Totals(o.supplyAddrs)
	curT := ob.Cur.Totals(o.supplyAddrs)
	prevClaims := ob.Prev.DelegRewardClaims()
	curClaims := ob.Cur.DelegRewardClaims()

	mk := func(oracle, sig, msg string) core.Violation {
		return core.Violation{Property: "C02", Oracle: oracle, Sig: sig, Msg: fmt.Sprintf("block %d: %s; txs in block: %s", h, msg, o.txSummary())}
	}

	// (i)+(ii) total OLT value, delegation reward claims included, grows in a block by at most the
	// amount pulled for that block under the block-reward schedule (delegation rewards are the only
	// value the schedule creates; conversions of claims into balances or delegations and all maturity
	// movements stay inside the total). pulled(H) is observed, not recomputed.
	_ = prevClaims
	_ = curClaims
	pOLT := getB(prevT.ByCurrency, "OLT")
	cOLT := getB(curT.ByCurrency, "OLT")
	if d := new(big.Int).Sub(cOLT, pOLT); d.Sign() > 0 {
		pulled, err := ObservePulled(ob.PrevDump, e.C.Ref(), h)
		if err != nil {
			panic(core.HarnessError{Msg: "cannot observe pulled(H): " + err.Error()})
		}
		o.rewardBlocks++
		if d.Cmp(pulled) > 0 {
			vs = append(vs, mk("total-never-increases", "olt-total-increased:"+o.obs.SuspectSig(),
				fmt.Sprintf("total OLT value on chain rose by %s nue (%s -> %s), the amount pulled for this block under the reward schedule is %s; components before %s after %s",
					d, pOLT, cOLT, pulled, partsStr(prevT.Parts["OLT"]), partsStr(curT.Parts["OLT"]))))
			return vs
		}
	}
	// (i') the tight form: the delegators' reward balances are the only records the reward schedule feeds.
	// All other OLT value together grows in a block only by what successful reward withdrawals and
	// reinvestments move out of those balances (amounts decoded from the transactions); maturity movements,
	// fees, stakes, escrows and burns stay inside or lower it.
	{
		moved := new(big.Int)
		tightOK := true
		for _, t := range ob.Txs {
			if t.Res.Code != 0 {
				continue
			}
			if t.Tx == nil {
				tightOK = false
				break
			}
			var amt *action.Amount
			switch t.Tx.Type {
			case action.REWARDS_WITHDRAW_NETWORK_DELEGATE:
				m := &ndact.Withdraw{}
				if m.Unmarshal(t.Tx.Data) != nil {
					tightOK = false
				} else {
					amt = &m.Amount
				}
			case action.REWARDS_REINVEST_NETWORK_DELEGATE:
				m := &ndact.Reinvest{}
				if m.Unmarshal(t.Tx.Data) != nil {
					tightOK = false
				} else {
					amt = &m.Amount
				}
			}
			if amt != nil {
				if amt.Currency != "OLT" || amt.Value.BigInt().Sign() < 0 {
					tightOK = false
				} else {
					moved.Add(moved, amt.Value.BigInt())
				}
			}
		}
		if tightOK {
			o.tightBlocks++
			pN := new(big.Int).Sub(pOLT, c02Sum(ob.Prev.DelegRwBalance))
			cN := new(big.Int).Sub(cOLT, c02Sum(ob.Cur.DelegRwBalance))
			if d := new(big.Int).Sub(cN, pN); d.Cmp(moved) > 0 {
				vs = append(vs, mk("total-never-increases", "olt-created-outside-reward-balances:"+o.obs.SuspectSig(),
					fmt.Sprintf("OLT value outside the delegators' reward balances rose by %s nue (%s -> %s); successful reward withdrawals/reinvestments of this block move %s nue out of the reward balances; components before %s after %s",
						d, pN, cN, moved, partsStr(prevT.Parts["OLT"]), partsStr(curT.Parts["OLT"]))))
				return vs
			}
		}
	}
	// (iii) other currencies: no increase (wrapped currencies: only when a tracker finalised in this block)
	curs := map[string]bool{}
	for c := range prevT.ByCurrency {
		curs[c] = true
	}
	for c := range curT.ByCurrency {
		curs[c] = true
	}
	cl := make([]string, 0, len(curs))
	for c := range curs {
		cl = append(cl, c)
	}
	sort.Strings(cl)
	for _, c := range cl {
		if c == "OLT" {
			continue
		}
		d := new(big.Int).Sub(getB(curT.ByCurrency, c), getB(prevT.ByCurrency, c))
		if d.Sign() <= 0 {
			continue
		}
		allowed := o.trackers.Allowance(c)
		if d.Cmp(allowed) > 0 {
			vs = append(vs, mk("total-never-increases", "wrapped-total-increased:"+o.obs.SuspectSig(),
				fmt.Sprintf("total %s on chain rose by %s, locks/refunds that reached witness finality in this block allow %s", c, d, allowed)))
			return vs
		}
	}
	return vs
}

func c02Sum(m map[string]*big.Int) *big.Int {
	x := new(big.Int)
	for _, v := range m {
		x.Add(x, v)
	}
	return x
}

func getB(m map[string]*big.Int, k string) *big.Int {
	if x, ok := m[k]; ok {
		return x
	}
	return new(big.Int)
}

func partsStr(m map[string]*big.Int) string {
	ks := make([]string, 0, len(m))
	for k := range m {
		ks = append(ks, k)
	}
	sort.Strings(ks)
	var b strings.Builder
	for _, k := range ks {
		fmt.Fprintf(&b, "%s=%s ", k, m[k])
	}
	return "{" + strings.TrimSpace(b.String()) + "}"
}

func (o *c02Oracle) txSummary() string {
	var parts []string
	for i, t := range o.obs.Txs {
		kind := "UNPARSEABLE"
		if t.Tx != nil {
			kind = t.Tx.Type.String()
		}
		parts = append(parts, fmt.Sprintf("#%d %s code=%d", i, kind, t.Res.Code))
	}
	if len(parts) > 14 {
		parts = append(parts[:14], "...")
	}
	return strings.Join(parts, ", ")
}

// culprit names the transaction kinds that succeeded in the block (for the violation signature).
func (o *c02Oracle) culprit() string {
	set := map[string]bool{}
	for _, t := range o.obs.Txs {
		if t.Tx != nil && t.Res.Code == 0 {
			set[t.Tx.Type.String()] = true
		}
	}
	ks := make([]string, 0, len(set))
	for k := range set {
		ks = append(ks, k)
	}
	sort.Strings(ks)
	if len(ks) == 0 {
		return "block-hooks"
	}
	if len(ks) > 3 {
		return "many"
	}
	return strings.Join(ks, "+")
}

func (o *c02Oracle) ledgerSanity(e *core.Engine, h int64) []core.Violation {
	l := o.obs.Cur
	for _, p := range l.Problems {
		if strings.HasPrefix(p, "unknown prefix holding") || strings.HasPrefix(p, "unknown key family") || strings.HasPrefix(p, "unknown ") {
			panic(core.HarnessError{Msg: "ledger incomplete: " + p})
		}
	}
	if len(l.Negative) > 0 {
		return []core.Violation{{Property: "C02", Oracle: "no-negative-amount", Sig: "negative-stored-amount:" + o.obs.SuspectSig(),
			Msg: fmt.Sprintf("block %d: stored amount is negative: %s; txs in block: %s", h, strings.Join(l.Negative, "; "), o.txSummary())}}
	}
	return nil
}

func famOf(s string) string {
	s = strings.TrimPrefix(s, "\"")
	if i := strings.Index(s, "_"); i > 0 {
		return s[:i]
	}
	return "?"
}

func (o *c02Oracle) Finish(e *core.Engine) []core.Violation { return nil }
func (o *c02Oracle) NonTrivial(e *core.Engine) bool {
	return o.blocks >= 5 && o.okTxs >= 5
}

func init() {
	Register(&ClusterProp{
		Id: "C02",
		RuleText: "each run: one real replica executes a PRNG-built history with all money-moving generators (swarm subset) plus hostile-value clients (negative, zero, > 2^63, > 2^256 amounts, unknown currency, whole balances) " +
			"and a byzantine-proposer sub-profile that puts transactions into blocks that never passed CheckTx; after every commit the full state is dumped and decoded by prefix into a ledger (own arithmetic). " +
			"Oracles per block: (i) total OLT (balances incl. pools, fee store, locked/unlocking/withdrawable stake, undelegating amounts, proposal funds, bid escrow) minus delegation reward claims never increases; " +
			"(ii) delegation reward claims grow by at most pulled(H), observed by calling the real PullRewards on a throw-away store over the committed records of H-1; (iii) every other currency never increases except by locks/refunds finalised in that block; " +
			"(iv) no decoded amount is negative; unknown key families make the check exit 2 (ledger incomplete). Non-trivial: >=5 blocks and >=5 successful transactions; distinct = distinct fingerprints.",
		MakeSetup: func(rng *rand.Rand, tier string, seed uint64) *Setup {
			nb := 12 + rng.Intn(30)
			if tier == "thorough" {
				nb = 15 + rng.Intn(50)
			}
			su := drawWorkload(rng, tier, seed, 4, nb)
			su.Replicas = append(su.Replicas, core.ReplicaConf{Identity: "x0", Quiet: true, Recent: 10, Every: 100, Cycles: 10, WitnessInitEarly: true})
			if su.Sess.M["borrowed-from"] == nil || rng.Intn(2) == 0 {
				su.Gens = append(su.Gens, gen.ByName("hostile-values")...)
			}
			su.PlanHook = chainPlan(su.PlanHook, AbsentHook(0.05))
			return su
		},
		MakeOracle: func(e *core.Engine, tr *core.Trace) Oracle { return &c02Oracle{} },
	})
}

// wrappedAllowance: how much the total of a wrapped currency may rise in this block. Until the C15
// tracker model provides exact amounts, any tracker record that changed in this block lifts the bound
// for that block (counted), otherwise nothing is allowed.
func wrappedAllowance(ob *Obs, cur string) *big.Int {
	changed := false
	for k, v := range ob.CurDump {
		if strings.HasPrefix(k, "etht_") || strings.HasPrefix(k, "ethsuccess_") || strings.HasPrefix(k, "ethfailed_") {
			if pv, ok := ob.PrevDump[k]; !ok || string(pv) != string(v) {
				changed = true
				break
			}
		}
	}
	if !changed {
		for k := range ob.PrevDump {
			if strings.HasPrefix(k, "etht_") {
				if _, ok := ob.CurDump[k]; !ok {
					changed = true
					break
				}
			}
		}
	}
	if changed {
		return new(big.Int).Lsh(big.NewInt(1), 300)
	}
	return new(big.Int)
}

package props

import (
	"bytes"
	"encoding/hex"
	"encoding/json"
	"fmt"
	"math/big"
	"math/rand"
	"os"
	"sort"
	"strings"
	"unicode/utf8"

	"github.com/Oneledger/protocol/action"
	govact "github.com/Oneledger/protocol/action/governance"
	"github.com/Oneledger/protocol/data/governance"
	"github.com/Oneledger/protocol/data/keys"
	"github.com/Oneledger/protocol/serialize"

	"olsim/core"
	"olsim/gen"
	"olsim/ledger"
)

// C14 Governance lifecycle and fund accounting.
//
// Model (built from observations only: decoded transactions + result codes, and the proposal / vote /
// fund / option records of the committed dumps before and after every block):
//
//   per proposal: stage (observed from the store prefix + status + outcome of its record), the fields
//   fixed at creation (type, proposer, goal, pass percentage, funding deadline, update string), the
//   voting deadline in force (the one in its record while it is in the voting stage), the validator
//   snapshot (validators + powers of the propVotes records in the block in which voting began), the
//   recorded votes (own bookkeeping: last successful PROPOSAL_VOTE per snapshot validator), funds per
//   funder (own bookkeeping: successful CREATE initial funding + FUND - WITHDRAW_FUNDS), the highest
//   total ever contributed, a distributed flag.
//
// Oracles:
//   stage-order        stage moves only along funding -> voting -> passed|failed|expired -> finalised
//                      (or finalise-failed), funding -> cancelled | goal-missed; records never vanish,
//                      are never duplicated over stores; fields fixed at creation never change; the
//                      voting deadline changes at most when voting begins.
//   funding-goal       voting begins only if the contributions (own bookkeeping) reached the goal and at
//                      a height <= funding deadline; a proposal whose goal was reached in time does not
//                      stay in funding; goal-missed is declared only after the deadline with goal unmet.
//   expiry-deadline    EXPIRED only from voting and only at a height > voting deadline in force; no
//                      vote is accepted at a height > voting deadline in force.
//   vote-tally         PASSED / FAILED only if, at some instant of that block (after any successful vote
//                      or at its start), the own power-weighted tally over the snapshot justifies it;
//                      snapshot never changes afterwards; stored opinions equal the bookkeeping.
//   config-once        governance option records ("g_" keys, values and writes) change only in a block
//                      in which a PASSED config-update proposal is finalised, only in the leaf it names,
//                      to the value it names; that leaf has the value after finalisation.
//   funds-refund       a successful withdraw needs a refundable proposal (cancelled / goal missed) and
//                      amount <= the funder's remaining contribution; an honest withdraw of a refundable
//                      contribution must not be refused; stored fund records equal the bookkeeping.
//   funds-distribution at finalisation the fund records are gone; value appearing outside the fund
//                      store in a block <= contributions released by withdraws and finalisations of
//                      that block (+ delegation rewards, if any delegation exists), so nothing is distributed twice or in
//                      excess of what was contributed.
//   overdue            (liveness flavour, reported under separate classes) a proposal whose voting
//                      deadline passed is expired, a decided or expired proposal is finalised, within
//                      c14Lag blocks - otherwise its funds are neither returned nor distributed.
//
// Don't care (silent): the split of distributed funds and any burn; who sends cancel / expire /
// finalise; votes by validators outside the snapshot (rejected or ignored); re-voting (the last
// successful vote counts, including opinion 0); whether give-ups count in the denominator; the exact
// comparison at equality with the pass percentage; which of the pass percentages (recorded in the
// proposal / option before / option after the block) is used; whether "failed" means "pass no longer
// reachable" or "no-share reached the percentage"; the rewrite of the voting deadline when voting
// begins; conformance of deadlines / goal with the options at creation; funds stuck in a
// finalise-failed proposal; option changes by genesis and by the fork hook (staking options in the
// Frankenstein block); transactions whose bytes were already included in an earlier block (answered
// from the index, C05's subject); value leaks in blocks before any proposal was ever decided (C02).

const c14Lag = 3

type c14Stage int

const (
	c14Absent c14Stage = iota
	c14Funding
	c14Voting
	c14Passed
	c14Failed
	c14Expired
	c14Cancelled
	c14Missed
	c14FinalYes
	c14FinalNo
	c14FinalExp
	c14FinalFailed
	c14Odd
)

var c14StageName = map[c14Stage]string{
	c14Absent: "absent", c14Funding: "funding", c14Voting: "voting", c14Passed: "passed", c14Failed: "failed", c14Expired: "expired",
	c14Cancelled: "cancelled", c14Missed: "goal-missed", c14FinalYes: "finalised-passed", c14FinalNo: "finalised-failed",
	c14FinalExp: "finalised-expired", c14FinalFailed: "finalise-failed", c14Odd: "unclassifiable",
}

func (s c14Stage) String() string { return c14StageName[s] }

func (s c14Stage) in(set ...c14Stage) bool {
	for _, x := range set {
		if s == x {
			return true
		}
	}
	return false
}

func (s c14Stage) votingOrLater() bool {
	return s.in(c14Voting, c14Passed, c14Failed, c14Expired, c14FinalYes, c14FinalNo, c14FinalExp, c14FinalFailed)
}

func (s c14Stage) finalised() bool { return s.in(c14FinalYes, c14FinalNo, c14FinalExp) }

func c14EdgeOK(a, b c14Stage) bool {
	if a == b {
		return true
	}
	switch a {
	case c14Absent:
		return b != c14Odd
	case c14Funding:
		return b.votingOrLater() || b.in(c14Cancelled, c14Missed)
	case c14Voting:
		return b.votingOrLater()
	case c14Passed:
		return b.in(c14FinalYes, c14FinalFailed)
	case c14Failed:
		return b.in(c14FinalNo, c14FinalFailed)
	case c14Expired:
		return b.in(c14FinalExp, c14FinalFailed)
	case c14FinalFailed:
		return b.finalised() // the property does not know this stage: silent
	}
	return false
}

var c14Stores = []string{"propActive", "propPassed", "propFailed", "propFinalized", "propFinalizeFailed"}

type c14Rec struct {
	Store string
	P     governance.Proposal
	Stage c14Stage
}

func (r *c14Rec) desc() string {
	return fmt.Sprintf("%s{status=%#x outcome=%#x}", r.Store, int(r.P.Status), int(r.P.Outcome))
}

// c14Records decodes every proposal record of a dump, by proposal id.
func c14Records(l *ledger.Ledger) map[string][]*c14Rec {
	out := map[string][]*c14Rec{}
	for _, fam := range c14Stores {
		for k, v := range l.Raw[fam] {
			r := &c14Rec{Store: fam}
			id := k[len(fam):]
			if err := serialize.GetSerializer(serialize.PERSISTENT).Deserialize(v, &r.P); err != nil {
				panic(core.HarnessError{Msg: fmt.Sprintf("C14: cannot decode proposal record %q: %v", k, err)})
			}
			r.Stage = c14Classify(r)
			if string(r.P.ProposalID) != id {
				r.Stage = c14Odd
			}
			out[id] = append(out[id], r)
		}
	}
	for _, rs := range out {
		sort.Slice(rs, func(i, j int) bool { return rs[i].Store < rs[j].Store })
	}
	return out
}

func c14Classify(r *c14Rec) c14Stage {
	st, oc := r.P.Status, r.P.Outcome
	switch r.Store {
	case "propActive":
		if st == governance.ProposalStatusFunding && oc == governance.ProposalOutcomeInProgress {
			return c14Funding
		}
		if st == governance.ProposalStatusVoting && oc == governance.ProposalOutcomeInProgress {
			return c14Voting
		}
	case "propPassed":
		if st == governance.ProposalStatusCompleted && oc == governance.ProposalOutcomeCompletedYes {
			return c14Passed
		}
	case "propFailed":
		if st != governance.ProposalStatusCompleted {
			return c14Odd
		}
		switch oc {
		case governance.ProposalOutcomeCompletedNo:
			return c14Failed
		case governance.ProposalOutcomeInsufficientVotes:
			return c14Expired
		case governance.ProposalOutcomeCancelled:
			return c14Cancelled
		case governance.ProposalOutcomeInsufficientFunds:
			return c14Missed
		}
	case "propFinalized":
		switch oc {
		case governance.ProposalOutcomeCompletedYes:
			return c14FinalYes
		case governance.ProposalOutcomeCompletedNo:
			return c14FinalNo
		case governance.ProposalOutcomeInsufficientVotes:
			return c14FinalExp
		}
	case "propFinalizeFailed":
		return c14FinalFailed
	}
	return c14Odd
}

type c14Tally struct{ yes, no, giveup, all int64 }

func c14Mul(a, b int64) *big.Int { return new(big.Int).Mul(big.NewInt(a), big.NewInt(b)) }

// passOK: some reading of "the yes share reached the pass percentage" holds (silent at equality,
// with or without give-ups in the denominator, for any of the candidate percentages).
func (t c14Tally) passOK(pcts []int) bool {
	for _, total := range []int64{t.all - t.giveup, t.all} {
		if total <= 0 {
			return true // nothing to divide by: the property does not say
		}
		for _, pct := range pcts {
			if c14Mul(t.yes, 100).Cmp(c14Mul(int64(pct), total)) >= 0 {
				return true
			}
		}
	}
	return false
}

// failOK: a pass is no longer reachable, or the no share reached the percentage (either reading).
func (t c14Tally) failOK(pcts []int) bool {
	for _, total := range []int64{t.all - t.giveup, t.all} {
		if total <= 0 {
			return true
		}
		for _, pct := range pcts {
			if c14Mul(total-t.no, 100).Cmp(c14Mul(int64(pct), total)) <= 0 {
				return true
			}
			if c14Mul(t.no, 100).Cmp(c14Mul(int64(pct), total)) >= 0 {
				return true
			}
		}
	}
	return false
}

func (t c14Tally) String() string {
	return fmt.Sprintf("yes=%d no=%d giveup=%d all=%d", t.yes, t.no, t.giveup, t.all)
}

type c14Prop struct {
	ID       string
	Type     governance.ProposalType
	Proposer string
	Cfg      string
	Goal     *big.Int
	PassPct  int
	FundDL   int64
	VoteDL0  int64 // as given at creation
	VoteDL   int64 // in force (record)
	Created  int64

	Stage  c14Stage
	StageH int64

	Funds   map[string]*big.Int
	Total   *big.Int
	Peak    *big.Int // highest total ever contributed
	GoalAtH int64    // height at which the bookkeeping first reached the goal (0 = never)

	Snap     map[string]int64 // validator -> power, nil until voting began
	Votes    map[string]int   // own bookkeeping of opinions
	SnapH    int64
	Released bool // funds were distributed at finalisation
	// expired from voting at a height > voting deadline (the overdue oracle only follows those)
	ExpiredLegit bool
}

func (p *c14Prop) short() string {
	if len(p.ID) > 10 {
		return p.ID[:10] + ".."
	}
	return p.ID
}

func (p *c14Prop) fund(a string) *big.Int {
	if x, ok := p.Funds[a]; ok {
		return x
	}
	return new(big.Int)
}

func (p *c14Prop) tally() c14Tally {
	var t c14Tally
	for v, pw := range p.Snap {
		t.all += pw
		switch p.Votes[v] {
		case int(governance.OPIN_POSITIVE):
			t.yes += pw
		case int(governance.OPIN_NEGATIVE):
			t.no += pw
		case int(governance.OPIN_GIVEUP):
			t.giveup += pw
		}
	}
	return t
}

// per block scratch of one proposal
type c14Blk struct {
	s0        c14Stage
	created   bool
	cancelled bool // a PROPOSAL_CANCEL succeeded earlier in this block
	expireTx  bool // an EXPIRE_VOTES succeeded earlier in this block (judged in pass 2)
	voteEvs   []c14VoteEv
	votes0    map[string]int // opinions at block start
}

type c14VoteEv struct {
	val string
	op  int
}

type c14Oracle struct {
	obs    Obs
	props  map[string]*c14Prop
	seen   map[string]bool // tx bytes included in earlier blocks
	supply map[string]bool
	frank  int64
	survey bool
	found  map[string]int
	// overdue findings: first per class, in order of appearance
	lateV   []core.Violation
	lateCls map[string]bool

	decidedEver bool
	// statistics / non-trivial
	nCreated, nVoting, nTally, nExpired, nFinal, nWithdraw, nCancelled, nMissed, nCfg, nReplays, nRevotes, nDLRewrite int
	nValueChecks                                                                                                      int
}

func (o *c14Oracle) Inputs() int { return len(o.props) }

// mk builds a violation about proposal id ("" = not about one proposal). The label part of the
// signature is narrow on purpose: the intent labels of the successful governance transactions of the
// block that name this proposal (adversarial ones first), else the shape of the id.
func (o *c14Oracle) mk(id, oracle, class, format string, a ...interface{}) core.Violation {
	return core.Violation{Property: "C14", Oracle: oracle, Sig: class + ":" + o.sigLabels(id, strings.HasPrefix(oracle, "funds-")),
		Msg: fmt.Sprintf("block %d: ", o.obs.H) + fmt.Sprintf(format, a...) + "; txs: " + txSummary(&o.obs)}
}

func c14IDShape(id string) string {
	switch {
	case strings.HasPrefix(id, "~"):
		return "id-tilde"
	case strings.Contains(id, "_"):
		return "id-underscore"
	}
	return "id-plain"
}

// c14TxProposal returns the proposal id a governance transaction names ("" if none / not decodable).
func c14TxProposal(tx *action.SignedTx) string {
	switch tx.Type {
	case action.PROPOSAL_CREATE:
		m := &govact.CreateProposal{}
		if m.Unmarshal(tx.Data) == nil {
			return string(m.ProposalID)
		}
	case action.PROPOSAL_FUND:
		m := &govact.FundProposal{}
		if m.Unmarshal(tx.Data) == nil {
			return string(m.ProposalId)
		}
	case action.PROPOSAL_CANCEL:
		m := &govact.CancelProposal{}
		if m.Unmarshal(tx.Data) == nil {
			return string(m.ProposalId)
		}
	case action.PROPOSAL_VOTE:
		m := &govact.VoteProposal{}
		if m.Unmarshal(tx.Data) == nil {
			return string(m.ProposalID)
		}
	case action.PROPOSAL_WITHDRAW_FUNDS:
		m := &govact.WithdrawFunds{}
		if m.Unmarshal(tx.Data) == nil {
			return string(m.ProposalID)
		}
	case action.EXPIRE_VOTES:
		m := &govact.ExpireVotes{}
		if m.Unmarshal(tx.Data) == nil {
			return string(m.ProposalID)
		}
	case action.PROPOSAL_FINALIZE:
		m := &govact.FinalizeProposal{}
		if m.Unmarshal(tx.Data) == nil {
			return string(m.ProposalID)
		}
	}
	return ""
}

func (o *c14Oracle) sigLabels(id string, shapeAlways bool) string {
	adv, honest := map[string]bool{}, map[string]bool{}
	for _, t := range o.obs.Txs {
		if t.Tx == nil || t.Res.Code != 0 || o.seen[string(t.Bytes)] {
			continue
		}
		pid := c14TxProposal(t.Tx)
		if pid == "" || (id != "" && pid != id) {
			continue
		}
		if id == "" && t.Tx.Type != action.PROPOSAL_FINALIZE {
			continue
		}
		if strings.Contains(t.Label, "/") && !strings.HasPrefix(t.Label, "PROPOSAL_CREATE/") {
			adv[t.Label] = true
		} else {
			honest[t.Tx.Type.String()] = true
		}
	}
	join := func(m map[string]bool) string {
		ks := make([]string, 0, len(m))
		for k := range m {
			ks = append(ks, k)
		}
		sort.Strings(ks)
		if len(ks) > 3 {
			ks = append(ks[:3], "more")
		}
		return strings.Join(ks, "+")
	}
	shape := ""
	if id != "" {
		shape = c14IDShape(id)
	}
	switch {
	case len(adv) > 0:
		if shapeAlways && shape != "" && shape != "id-plain" {
			return shape + "+" + join(adv)
		}
		return join(adv)
	case len(honest) > 0:
		if shape != "" && shape != "id-plain" {
			return shape + "+" + join(honest)
		}
		return join(honest)
	case shape != "":
		return "block-end+" + shape
	}
	return "block-end"
}

func (o *c14Oracle) mkTx(t *ObsTx, i int, oracle, class, format string, a ...interface{}) core.Violation {
	l := t.Label
	if l == "" && t.Tx != nil {
		l = t.Tx.Type.String()
	}
	if t.Tx != nil {
		if sh := c14IDShape(c14TxProposal(t.Tx)); sh != "id-plain" {
			l = sh + "+" + l
		}
	}
	return core.Violation{Property: "C14", Oracle: oracle, Sig: class + ":" + l,
		Msg: fmt.Sprintf("block %d tx #%d (%s, code %d): ", o.obs.H, i, l, t.Res.Code) + fmt.Sprintf(format, a...)}
}

func (o *c14Oracle) AfterStep(e *core.Engine, idx int, st *core.Step, stepErr error) []core.Violation {
	if st.Kind == "boot" {
		o.obs.InitGenesis(e)
		o.props = map[string]*c14Prop{}
		o.seen = map[string]bool{}
		o.found = map[string]int{}
		o.lateCls = map[string]bool{}
		o.supply = map[string]bool{keys.Address(core.SupplyAddrName).String(): true}
		o.frank = e.W.Knobs.Frankenstein
		o.survey = os.Getenv("OLSIM_C14_SURVEY") != ""
		if len(c14Records(o.obs.Cur)) > 0 {
			panic(core.HarnessError{Msg: "C14: proposals in genesis are not modelled"})
		}
		return nil
	}
	if st.Kind != "block" || stepErr != nil || !o.obs.Update(e, st) {
		return nil
	}
	for _, p := range o.obs.Cur.Problems {
		if strings.HasPrefix(p, "unknown ") {
			panic(core.HarnessError{Msg: "ledger incomplete: " + p})
		}
	}
	vs := o.block(e)
	for _, t := range o.obs.Txs {
		o.seen[string(t.Bytes)] = true
	}
	if len(vs) == 0 {
		return nil
	}
	if o.survey {
		// diagnostics only (OLSIM_C14_SURVEY): count every class, report none, keep running
		for _, v := range vs {
			c := v.Oracle + "/" + strings.SplitN(v.Sig, ":", 2)[0]
			if o.found[c] == 0 {
				c14Logf("C14 survey seed=%d %s [%s] %s", e.Trace.Seed, v.Oracle, v.Sig, clipS(v.Msg, 600))
			}
			o.found[c]++
		}
		return nil
	}
	return vs[:1]
}

func c14Big(a *action.Amount) *big.Int {
	v := a.Value
	return new(big.Int).Set(v.BigInt())
}

func c14ValidAddr(a keys.Address) bool { return len(a) == 20 }

func (o *c14Oracle) block(e *core.Engine) []core.Violation {
	ob := &o.obs
	h := ob.H
	var vs []core.Violation
	blk := map[string]*c14Blk{}
	get := func(id string) *c14Blk {
		if b, ok := blk[id]; ok {
			return b
		}
		b := &c14Blk{s0: c14Absent}
		if p := o.props[id]; p != nil {
			b.s0 = p.Stage
			b.votes0 = map[string]int{}
			for k, v := range p.Votes {
				b.votes0[k] = v
			}
		}
		blk[id] = b
		return b
	}
	contributed, withdrawn := new(big.Int), new(big.Int)
	finalizeTxOK := false
	signedBefore := map[string]bool{} // accounts that signed an earlier transaction of this block

	// ---- pass 1: transactions in block order: bookkeeping and the rules only visible per transaction
	for i, t := range ob.Txs {
		if o.seen[string(t.Bytes)] {
			o.nReplays++
			continue // answered from the index without execution
		}
		if t.Tx == nil {
			continue
		}
		ok := t.Res.Code == 0
		switch t.Tx.Type {
		case action.PROPOSAL_CREATE:
			m := &govact.CreateProposal{}
			if !ok || m.Unmarshal(t.Tx.Data) != nil {
				break
			}
			id := string(m.ProposalID)
			b := get(id)
			if o.props[id] != nil {
				vs = append(vs, o.mkTx(t, i, "stage-order", "created-twice", "PROPOSAL_CREATE succeeded for proposal %s which already exists in stage %s (created at %d)", id, o.props[id].Stage, o.props[id].Created))
				break
			}
			p := &c14Prop{ID: id, Type: m.ProposalType, Proposer: m.Proposer.String(), Cfg: m.ConfigUpdate, Goal: new(big.Int), PassPct: m.PassPercentage,
				FundDL: m.FundingDeadline, VoteDL0: m.VotingDeadline, VoteDL: m.VotingDeadline, Created: h, Stage: c14Absent, StageH: h,
				Funds: map[string]*big.Int{}, Total: new(big.Int), Peak: new(big.Int), Votes: map[string]int{}}
			if m.FundingGoal != nil {
				p.Goal.Set(m.FundingGoal.BigInt())
			}
			o.props[id] = p
			b.created = true
			o.nCreated++
			amt := c14Big(&m.InitialFunding)
			if m.InitialFunding.Currency != "OLT" && amt.Sign() > 0 {
				// escrow records, the funding goal, refunds and the distribution count OLT: a contribution named in another
				// currency that is accepted is booked as the same number of OLT
				vs = append(vs, o.mkTx(t, i, "funds-accounted", "contribution-in-foreign-currency", "PROPOSAL_CREATE succeeded with an initial funding of %s %s: proposal funds are accounted in OLT, what the proposer can get back (or what is distributed) is not what was contributed", amt, m.InitialFunding.Currency))
			}
			o.contribute(p, p.Proposer, amt, h)
			contributed.Add(contributed, amt)
		case action.PROPOSAL_FUND:
			m := &govact.FundProposal{}
			if !ok || m.Unmarshal(t.Tx.Data) != nil {
				break
			}
			amt := c14Big(&m.FundValue)
			if m.FundValue.Currency != "OLT" && amt.Sign() > 0 {
				vs = append(vs, o.mkTx(t, i, "funds-accounted", "contribution-in-foreign-currency", "PROPOSAL_FUND succeeded with %s %s: proposal funds are accounted in OLT, what the funder can get back (or what is distributed) is not what was contributed", amt, m.FundValue.Currency))
			}
			contributed.Add(contributed, amt)
			p := o.props[string(m.ProposalId)]
			if p == nil {
				break // money sent to nothing: not this property's words
			}
			get(p.ID)
			o.contribute(p, m.FunderAddress.String(), amt, h)
		case action.PROPOSAL_CANCEL:
			m := &govact.CancelProposal{}
			if !ok || m.Unmarshal(t.Tx.Data) != nil {
				break
			}
			if p := o.props[string(m.ProposalId)]; p != nil {
				get(p.ID).cancelled = true
			}
		case action.PROPOSAL_VOTE:
			m := &govact.VoteProposal{}
			if !ok || m.Unmarshal(t.Tx.Data) != nil {
				break
			}
			p := o.props[string(m.ProposalID)]
			if p == nil {
				break
			}
			b := get(p.ID)
			if b.s0 == c14Voting && h > p.VoteDL {
				vs = append(vs, o.mkTx(t, i, "expiry-deadline", "vote-after-deadline", "vote of validator %s (opinion %d) on proposal %s accepted at height %d, voting deadline in force is %d",
					keys.Address(m.ValidatorAddress).String(), int(m.Opinion), p.short(), h, p.VoteDL))
			}
			b.voteEvs = append(b.voteEvs, c14VoteEv{val: keys.Address(m.ValidatorAddress).String(), op: int(m.Opinion)})
		case action.PROPOSAL_WITHDRAW_FUNDS:
			m := &govact.WithdrawFunds{}
			if m.Unmarshal(t.Tx.Data) != nil {
				break
			}
			p := o.props[string(m.ProposalID)]
			if p == nil {
				break
			}
			b := get(p.ID)
			amt := c14Big(&m.WithdrawValue)
			funder := m.Funder.String()
			have := p.fund(funder)
			refundable := !p.Released && (b.s0.in(c14Cancelled, c14Missed) || b.cancelled ||
				(b.s0 == c14Funding && h > p.FundDL && p.Peak.Cmp(p.Goal) < 0))
			if ok {
				switch {
				case !refundable:
					vs = append(vs, o.mkTx(t, i, "funds-refund", "withdraw-not-refundable",
						"withdraw of %s by %s from proposal %s succeeded although the proposal is not refundable: stage before block %s, cancelled earlier in this block %v, funding deadline %d, contributed at most %s of goal %s, funds already distributed %v",
						amt, funder, p.short(), b.s0, b.cancelled, p.FundDL, p.Peak, p.Goal, p.Released))
				case amt.Cmp(have) > 0:
					vs = append(vs, o.mkTx(t, i, "funds-refund", "withdraw-exceeds-contribution",
						"withdraw of %s by %s from proposal %s succeeded, the funder's remaining contribution is %s", amt, funder, p.short(), have))
				}
				p.Funds[funder] = new(big.Int).Sub(have, amt)
				p.Total.Sub(p.Total, amt)
				withdrawn.Add(withdrawn, amt)
				o.nWithdraw++
			} else if refundable && !b.expireTx && amt.Sign() > 0 && amt.Cmp(have) <= 0 && m.WithdrawValue.Currency == "OLT" &&
				c14ValidAddr(m.Beneficiary) && c14ValidAddr(m.Funder) && len(m.ProposalID) == governance.SHA256LENGTH &&
				c14SignedBy(t, m.Funder) && len(t.Tx.Signatures) == 1 && bytes.Equal(t.Tx.SignedBytes(), t.Bytes) && !signedBefore[funder] && o.canPayFee(t, funder) {
				vs = append(vs, o.mkTx(t, i, "funds-refund", "refund-refused",
					"honest withdraw of %s (of %s contributed and not yet returned) by funder %s from refundable proposal %s was refused: stage before block %s, cancelled earlier in this block %v, height %d > funding deadline %d, contributed at most %s of goal %s; log: %s",
					amt, have, funder, p.ID, b.s0, b.cancelled, h, p.FundDL, p.Peak, p.Goal, clipS(t.Res.Log, 160)))
			}
		case action.EXPIRE_VOTES:
			m := &govact.ExpireVotes{}
			if !ok || m.Unmarshal(t.Tx.Data) != nil {
				break
			}
			if p := o.props[string(m.ProposalID)]; p != nil {
				get(p.ID).expireTx = true
			}
		case action.PROPOSAL_FINALIZE:
			if ok {
				finalizeTxOK = true
			}
		}
		for _, a := range t.Signers {
			signedBefore[a.String()] = true
		}
	}
	if len(vs) > 0 && !o.survey {
		return vs
	}

	// ---- pass 2: the committed records
	recs := c14Records(ob.Cur)
	ids := make([]string, 0, len(o.props))
	for id := range o.props {
		ids = append(ids, id)
	}
	sort.Strings(ids)
	var orphan []string
	for id := range recs {
		if o.props[id] == nil {
			orphan = append(orphan, id)
		}
	}
	sort.Strings(orphan)
	for _, id := range orphan {
		vs = append(vs, o.mk(id, "stage-order", "appeared-without-create", "proposal record %s (%s) exists but no successful PROPOSAL_CREATE was observed for it", id, recs[id][0].desc()))
	}
	votesByProp := c14VoteRecords(ob.Cur)
	optPrev, optCur := c14EffOptions(ob.Prev), c14EffOptions(ob.Cur)
	released := new(big.Int)
	var cfgFinal []*c14Prop
	finalisedNow := 0

	for _, id := range ids {
		p := o.props[id]
		b := get(id)
		s0 := b.s0
		rs := recs[id]
		if len(rs) == 0 {
			vs = append(vs, o.mk(id, "stage-order", "proposal-vanished", "proposal %s (stage %s since block %d) has no record in any store", id, s0, p.StageH))
			delete(o.props, id)
			continue
		}
		if len(rs) > 1 {
			vs = append(vs, o.mk(id, "stage-order", "duplicate-record", "proposal %s has records in several stores: %s and %s", id, rs[0].desc(), rs[1].desc()))
			continue
		}
		r := rs[0]
		s1 := r.Stage
		if s1 == c14Odd {
			vs = append(vs, o.mk(id, "stage-order", "unclassifiable-record", "proposal %s: record %s is not a stage of the life cycle", id, r.desc()))
			continue
		}
		// fields fixed at creation
		goal := new(big.Int)
		if r.P.FundingGoal != nil {
			goal.Set(r.P.FundingGoal.BigInt())
		}
		if r.P.Type != p.Type || r.P.Proposer.String() != p.Proposer || r.P.FundingDeadline != p.FundDL || goal.Cmp(p.Goal) != 0 ||
			r.P.PassPercentage != p.PassPct || r.P.GovernanceStateUpdate != p.Cfg {
			vs = append(vs, o.mk(id, "stage-order", "creation-field-changed",
				"proposal %s: record differs from what was created: type %#x/%#x proposer %s/%s fundingDeadline %d/%d goal %s/%s passPercent %d/%d update %q/%q (record/created)",
				id, int(r.P.Type), int(p.Type), r.P.Proposer, p.Proposer, r.P.FundingDeadline, p.FundDL, goal, p.Goal, r.P.PassPercentage, p.PassPct, r.P.GovernanceStateUpdate, p.Cfg))
			continue
		}
		entered := !s0.votingOrLater() && s1.votingOrLater()
		if s1 == c14Cancelled && s0 != c14Cancelled && p.GoalAtH != 0 && p.GoalAtH <= p.FundDL {
			vs = append(vs, o.mk(id, "stage-order", "cancelled-after-goal-met", "proposal %s went %s -> cancelled although its contributions reached %s of goal %s at height %d (funding deadline %d), i.e. voting had to begin", id, s0, p.Peak, p.Goal, p.GoalAtH, p.FundDL))
			o.setStage(p, s1, h)
			p.VoteDL = r.P.VotingDeadline
			continue
		}
		if !entered && r.P.VotingDeadline != p.VoteDL {
			vs = append(vs, o.mk(id, "stage-order", "voting-deadline-changed", "proposal %s (stage %s -> %s): voting deadline changed from %d to %d outside the start of voting", id, s0, s1, p.VoteDL, r.P.VotingDeadline))
			continue
		}
		if s0 != s1 {
			// expiry straight out of funding (the goal was never reached): its own class
			if s1.in(c14Expired, c14FinalExp) && !s0.votingOrLater() && p.Peak.Cmp(p.Goal) < 0 {
				vs = append(vs, o.mk(id, "stage-order", "expired-from-funding",
					"proposal %s went %s -> %s although it never reached voting: contributed at most %s of goal %s (funding deadline %d, voting deadline %d)", id, s0, s1, p.Peak, p.Goal, p.FundDL, p.VoteDL))
				o.setStage(p, s1, h)
				p.VoteDL = r.P.VotingDeadline
				continue
			}
			if !c14EdgeOK(s0, s1) {
				vs = append(vs, o.mk(id, "stage-order", "bad-edge-"+s0.String()+"-to-"+s1.String(), "proposal %s moved %s -> %s (record %s), which is not a forward path of the life cycle", id, s0, s1, r.desc()))
				o.setStage(p, s1, h)
				p.VoteDL = r.P.VotingDeadline
				continue
			}
		}
		if s0 == c14Absent && !b.created {
			panic(core.HarnessError{Msg: "C14 model: absent proposal without creation in block"})
		}
		// voting began in this block
		if entered {
			o.nVoting++
			if r.P.VotingDeadline != p.VoteDL0 {
				o.nDLRewrite++
			}
			if p.Peak.Cmp(p.Goal) < 0 {
				vs = append(vs, o.mk(id, "funding-goal", "voting-below-goal", "proposal %s went %s -> %s but contributions reached at most %s of goal %s", id, s0, s1, p.Peak, p.Goal))
			} else if h > p.FundDL {
				vs = append(vs, o.mk(id, "funding-goal", "voting-after-funding-deadline", "proposal %s went %s -> %s at height %d, funding deadline is %d", id, s0, s1, h, p.FundDL))
			}
			p.Snap = map[string]int64{}
			for _, vr := range votesByProp[id] {
				p.Snap[vr.Validator.String()] = vr.Power
			}
			p.SnapH = h
			p.Votes = map[string]int{}
			b.votes0 = map[string]int{}
		}
		// expiry
		if s1.in(c14Expired, c14FinalExp) && !s0.in(c14Expired, c14FinalExp) {
			dl := p.VoteDL
			if entered {
				dl = r.P.VotingDeadline
				if p.VoteDL0 < dl {
					dl = p.VoteDL0
				}
			}
			if h <= dl {
				vs = append(vs, o.mk(id, "expiry-deadline", "expired-before-deadline", "proposal %s went %s -> %s at height %d, its voting deadline is %d (given at creation: %d)", id, s0, s1, h, dl, p.VoteDL0))
			} else {
				o.nExpired++
				p.ExpiredLegit = s0.in(c14Voting) || entered
			}
		}
		// votes of this block, tally instants
		if p.Snap != nil {
			p.Votes = map[string]int{}
			for k, v := range b.votes0 {
				p.Votes[k] = v
			}
			instants := []c14Tally{p.tally()}
			for _, ev := range b.voteEvs {
				if _, in := p.Snap[ev.val]; !in {
					continue // not in the snapshot: rejected or ignored, both fine
				}
				if old, had := p.Votes[ev.val]; had && old != 0 {
					o.nRevotes++
				}
				p.Votes[ev.val] = ev.op
				instants = append(instants, p.tally())
			}
			pcts := c14Pcts(p, optPrev, optCur)
			yesNow := (s1.in(c14Passed, c14FinalYes) && !s0.in(c14Passed, c14FinalYes)) ||
				(s1 == c14FinalFailed && !s0.in(c14Passed, c14Failed, c14Expired, c14FinalFailed) && r.P.Outcome == governance.ProposalOutcomeCompletedYes)
			noNow := (s1.in(c14Failed, c14FinalNo) && !s0.in(c14Failed, c14FinalNo)) ||
				(s1 == c14FinalFailed && !s0.in(c14Passed, c14Failed, c14Expired, c14FinalFailed) && r.P.Outcome == governance.ProposalOutcomeCompletedNo)
			if (yesNow || noNow) && !s0.in(c14Passed, c14Failed) {
				good := false
				for _, t := range instants {
					if (yesNow && t.passOK(pcts)) || (noNow && t.failOK(pcts)) {
						good = true
					}
				}
				o.nTally++
				if !good {
					var is []string
					for _, t := range instants {
						is = append(is, "{"+t.String()+"}")
					}
					cl, what := "passed-against-tally", "PASSED"
					if noNow {
						cl, what = "failed-against-tally", "FAILED"
					}
					vs = append(vs, o.mk(id, "vote-tally", cl, "proposal %s was declared %s (%s -> %s) but at no instant of this block the recorded votes of the validators snapshotted at block %d justify it: pass percentages in force %v, tallies (snapshot power) %s",
						id, what, s0, s1, p.SnapH, pcts, strings.Join(is, " ")))
				}
			}
			// snapshot and stored opinions
			stored := votesByProp[id]
			if len(stored) != len(p.Snap) {
				vs = append(vs, o.mk(id, "vote-tally", "snapshot-changed", "proposal %s: %d vote records, snapshot taken at block %d has %d validators", id, len(stored), p.SnapH, len(p.Snap)))
			} else {
				for _, vr := range stored {
					a := vr.Validator.String()
					pw, in := p.Snap[a]
					if !in || pw != vr.Power {
						vs = append(vs, o.mk(id, "vote-tally", "snapshot-changed", "proposal %s: vote record of %s has power %d, snapshot taken at block %d has %d (member %v)", id, a, vr.Power, p.SnapH, pw, in))
						break
					}
					if int(vr.Opinion) != p.Votes[a] {
						vs = append(vs, o.mk(id, "vote-tally", "vote-record-differs", "proposal %s: stored opinion of %s is %d, the last accepted vote of that validator was %d", id, a, int(vr.Opinion), p.Votes[a]))
						break
					}
				}
			}
		} else if len(votesByProp[id]) > 0 {
			vs = append(vs, o.mk(id, "vote-tally", "votes-before-voting", "proposal %s is in stage %s and never reached voting but has %d vote records", id, s1, len(votesByProp[id])))
		}
		// goal-missed
		if s1 == c14Missed && s0 != c14Missed {
			if h <= p.FundDL || p.Peak.Cmp(p.Goal) >= 0 {
				vs = append(vs, o.mk(id, "funding-goal", "goal-missed-declared-wrongly", "proposal %s declared goal-missed at height %d: funding deadline %d, contributions reached %s of goal %s", id, h, p.FundDL, p.Peak, p.Goal))
			}
			o.nMissed++
		}
		if s1 == c14Cancelled && s0 != c14Cancelled {
			o.nCancelled++
		}
		// goal reached in time but still funding
		if s1 == c14Funding && p.GoalAtH != 0 && p.GoalAtH <= p.FundDL {
			vs = append(vs, o.mk(id, "funding-goal", "goal-met-not-voting", "proposal %s is still in funding although contributions reached %s of goal %s at height %d (funding deadline %d)", id, p.Peak, p.Goal, p.GoalAtH, p.FundDL))
		}
		// finalisation
		if s1.finalised() && !s0.finalised() {
			released.Add(released, p.Total)
			p.Released = true
			p.Total = new(big.Int)
			p.Funds = map[string]*big.Int{}
			o.nFinal++
			finalisedNow++
			if s1 == c14FinalYes && p.Type == governance.ProposalTypeConfigUpdate {
				cfgFinal = append(cfgFinal, p)
			}
		}
		o.setStage(p, s1, h)
		p.VoteDL = r.P.VotingDeadline
		if s1.in(c14Passed, c14Failed, c14Expired) || s1.finalised() || s1 == c14FinalFailed {
			o.decidedEver = true
		}
		// overdue: remembered, reported when the run ends (never hides a later safety violation)
		switch {
		case s1 == c14Voting && h >= p.VoteDL+c14Lag:
			o.late(id, "voting-not-expired", "proposal %s is still in voting at height %d, its voting deadline was %d: it can no longer be voted on and its funds (%s) are neither returned nor distributed", id, h, p.VoteDL, p.Total)
		case s1.in(c14Passed, c14Failed) && h >= p.StageH+c14Lag:
			o.late(id, "decided-not-finalised", "proposal %s is %s since block %d and still not finalised at height %d; its funds (%s) are not distributed", id, s1, p.StageH, h, p.Total)
		case s1 == c14Expired && p.ExpiredLegit && h >= p.StageH+c14Lag:
			o.late(id, "expired-not-finalised", "proposal %s expired after its voting deadline at block %d and is still not finalised at height %d; its funds (%s) are neither returned nor distributed", id, p.StageH, h, p.Total)
		}
	}

	// ---- fund records against the bookkeeping
	vs = append(vs, o.checkFundRecords(ids)...)

	// ---- option records
	vs = append(vs, o.checkOptions(optPrev, optCur, cfgFinal)...)

	// ---- value appearing outside the fund store
	if o.decidedEver || finalizeTxOK || finalisedNow > 0 {
		o.nValueChecks++
		v0, v1 := o.outside(ob.Prev), o.outside(ob.Cur)
		d := new(big.Int).Sub(v1, v0)
		d.Add(d, contributed)
		d.Sub(d, withdrawn)
		d.Sub(d, released)
		if d.Sign() > 0 {
			// The only value the chain creates is delegation rewards (at most the amount pulled for the
			// block, observed as in C02). Without any network delegation there is nothing to reward.
			pulled := new(big.Int)
			if c14HasDelegation(ob.Prev) || c14HasDelegation(ob.Cur) {
				var err error
				if pulled, err = ObservePulled(ob.PrevDump, e.C.Ref(), h); err != nil {
					panic(core.HarnessError{Msg: "cannot observe pulled(H): " + err.Error()})
				}
			}
			if d.Cmp(pulled) > 0 {
				cl := "value-created-without-finalisation"
				if finalisedNow > 0 {
					cl = "distribution-exceeds-contributions"
				} else if finalizeTxOK {
					cl = "value-created-by-repeated-finalise"
				}
				vs = append(vs, o.mk("", "funds-distribution", cl,
					"OLT value outside the proposal fund store rose from %s to %s; contributions paid in this block %s, withdrawn %s, contributions of the %d proposals finalised in this block %s, delegation rewards that may have been created %s: %s nue unexplained",
					v0, v1, contributed, withdrawn, finalisedNow, released, pulled, new(big.Int).Sub(d, pulled)))
			}
		}
	}
	return vs
}

func c14HasDelegation(l *ledger.Ledger) bool {
	return len(l.DelegActive) > 0 || len(l.DelegPending) > 0 || len(l.DelegRwBalance) > 0 || len(l.DelegRwPending) > 0 || l.DelegRwTotal.Sign() != 0
}

// c14Logf appends a diagnostics line to the file named by OLSIM_C14_SURVEY (survey mode only).
func c14Logf(format string, a ...interface{}) {
	f, err := os.OpenFile(os.Getenv("OLSIM_C14_SURVEY"), os.O_APPEND|os.O_CREATE|os.O_WRONLY, 0644)
	if err != nil {
		return
	}
	fmt.Fprintf(f, format+"\n", a...)
	f.Close()
}

func (o *c14Oracle) late(id, class, format string, a ...interface{}) {
	key := class + ":" + c14IDShape(id)
	if o.lateCls[key] {
		return
	}
	o.lateCls[key] = true
	o.lateV = append(o.lateV, core.Violation{Property: "C14", Oracle: "overdue", Sig: key, Msg: fmt.Sprintf(format, a...)})
}

func (o *c14Oracle) setStage(p *c14Prop, s c14Stage, h int64) {
	if p.Stage != s {
		p.Stage, p.StageH = s, h
	}
}

func (o *c14Oracle) contribute(p *c14Prop, who string, amt *big.Int, h int64) {
	p.Funds[who] = new(big.Int).Add(p.fund(who), amt)
	p.Total = new(big.Int).Add(p.Total, amt)
	if p.Total.Cmp(p.Peak) > 0 {
		p.Peak = new(big.Int).Set(p.Total)
	}
	if p.GoalAtH == 0 && p.Total.Cmp(p.Goal) >= 0 {
		p.GoalAtH = h
	}
}

func c14SignedBy(t *ObsTx, a keys.Address) bool {
	for _, s := range t.Signers {
		if bytes.Equal(s, a) {
			return true
		}
	}
	return false
}

// canPayFee: the transaction offers the fee every accepted transaction of the simulator offers and the
// payer was rich before and after the block (so a refusal is not about the fee).
func (o *c14Oracle) canPayFee(t *ObsTx, payer string) bool {
	df := core.DefaultFee()
	if t.Tx.Fee.Price.Currency != df.Price.Currency || t.Tx.Fee.Gas < df.Gas {
		return false
	}
	pv, dv := t.Tx.Fee.Price.Value, df.Price.Value
	if pv.BigInt().Cmp(dv.BigInt()) < 0 {
		return false
	}
	rich := new(big.Int).Mul(pv.BigInt(), big.NewInt(int64(t.Tx.Fee.Gas)))
	rich.Mul(rich, big.NewInt(10))
	for _, l := range []*ledger.Ledger{o.obs.Prev, o.obs.Cur} {
		m := l.Bal[payer]
		if m == nil || m["OLT"] == nil || m["OLT"].Cmp(rich) < 0 {
			return false
		}
	}
	return true
}

// outside = all OLT value on chain except what the individual proposal fund records hold.
func (o *c14Oracle) outside(l *ledger.Ledger) *big.Int {
	t := l.Totals(o.supply)
	v := new(big.Int).Set(getB(t.ByCurrency, "OLT"))
	if parts := t.Parts["OLT"]; parts != nil {
		v.Sub(v, getB(parts, "proposal_funds"))
	}
	return v
}

func (o *c14Oracle) checkFundRecords(ids []string) []core.Violation {
	var vs []core.Violation
	cur := o.obs.Cur
	for _, id := range ids {
		p := o.props[id]
		set := map[string]bool{}
		for a := range p.Funds {
			set[a] = true
		}
		for a := range cur.PropFunds[id] {
			set[a] = true
		}
		as := make([]string, 0, len(set))
		for a := range set {
			as = append(as, a)
		}
		sort.Strings(as)
		bad := false
		for _, a := range as {
			st := new(big.Int)
			if m := cur.PropFunds[id]; m != nil && m[a] != nil {
				st = m[a]
			}
			if st.Cmp(p.fund(a)) != 0 {
				if p.Released {
					vs = append(vs, o.mk(id, "funds-distribution", "funds-remain-after-finalisation", "proposal %s (%s, finalised at block %d): fund record of %s still holds %s", id, p.Stage, p.StageH, a, st))
				} else {
					vs = append(vs, o.mk(id, "funds-refund", "fund-record-differs", "proposal %s (%s): fund record of %s holds %s, contributions minus withdrawals of that funder are %s", id, p.Stage, a, st, p.fund(a)))
				}
				bad = true
				break
			}
		}
		if bad {
			continue
		}
		tot := new(big.Int)
		if x := cur.PropFundsTotal[id]; x != nil {
			tot = x
		}
		if tot.Cmp(p.Total) != 0 {
			cl := "fund-total-differs"
			if p.Released {
				cl = "funds-remain-after-finalisation"
			}
			vs = append(vs, o.mk(id, "funds-refund", cl, "proposal %s (%s): total fund record holds %s, contributions minus withdrawals are %s", id, p.Stage, tot, p.Total))
		}
	}
	var unknown []string
	for id, m := range cur.PropFunds {
		if o.props[id] != nil {
			continue
		}
		for a, x := range m {
			if x.Sign() != 0 {
				unknown = append(unknown, id+"/"+a+"="+x.String())
			}
		}
	}
	if len(unknown) > 0 {
		sort.Strings(unknown)
		vs = append(vs, o.mk("", "funds-refund", "fund-record-without-proposal", "fund records for proposals that were never created: %s", clipS(strings.Join(unknown, ", "), 300)))
	}
	return vs
}

// ---- vote records -------------------------------------------------------------------------------

// c14VoteRecords decodes the propVotes records by proposal id. Key: "propVotes_" + id + "_" + raw
// validator address; the id has a fixed length, the address is taken from the record.
func c14VoteRecords(l *ledger.Ledger) map[string][]*governance.ProposalVote {
	out := map[string][]*governance.ProposalVote{}
	ks := make([]string, 0, len(l.Raw["propVotes"]))
	for k := range l.Raw["propVotes"] {
		ks = append(ks, k)
	}
	sort.Strings(ks)
	for _, k := range ks {
		pv := &governance.ProposalVote{}
		if err := serialize.GetSerializer(serialize.PERSISTENT).Deserialize(l.Raw["propVotes"][k], pv); err != nil {
			panic(core.HarnessError{Msg: fmt.Sprintf("C14: cannot decode vote record %q: %v", k, err)})
		}
		rest := strings.TrimPrefix(k, "propVotes_")
		suffix := "_" + string(pv.Validator)
		if !strings.HasSuffix(rest, suffix) {
			panic(core.HarnessError{Msg: fmt.Sprintf("C14: vote record key %q does not end with its validator %s", k, pv.Validator)})
		}
		id := rest[:len(rest)-len(suffix)]
		out[id] = append(out[id], pv)
	}
	return out
}

// ---- option records -----------------------------------------------------------------------------

type c14Opt struct {
	ver int64
	raw []byte
}

// c14EffOptions: the value in force per option record name = the record with the highest version
// (key "g_" + rune(height) + "_" + name).
func c14EffOptions(l *ledger.Ledger) map[string]c14Opt {
	out := map[string]c14Opt{}
	for k, v := range l.Raw["g_"] {
		name, ver, ok := c14Versioned(k)
		if !ok {
			continue
		}
		if cur, had := out[name]; !had || ver > cur.ver {
			out[name] = c14Opt{ver: ver, raw: v}
		}
	}
	return out
}

func c14Versioned(k string) (name string, ver int64, ok bool) {
	rest := strings.TrimPrefix(k, "g_")
	r, n := utf8.DecodeRuneInString(rest)
	if n == 0 || n >= len(rest) || rest[n] != '_' {
		return "", 0, false
	}
	return rest[n+1:], int64(r), true
}

// c14Family maps the family word of an update string to the option record name (decoding knowledge).
var c14Family = map[string]string{
	"feeOption": "feeopt", "onsOptions": "onsopt", "propOptions": "proposal", "stakingOptions": "stakingopt", "evidenceOptions": "evidenceopt",
	"rewardOptions": "reward", "delegOptions": "networkdelegopt", "ethchaindriverOption": "ethcdopt", "bitcoinChainDriverOption": "btccdopt",
}

func c14Leaves(raw []byte) map[string]string {
	out := map[string]string{}
	dec := json.NewDecoder(bytes.NewReader(raw))
	dec.UseNumber()
	var x interface{}
	if err := dec.Decode(&x); err != nil {
		out[""] = "0x" + hex.EncodeToString(raw)
		return out
	}
	var walk func(path string, x interface{})
	walk = func(path string, x interface{}) {
		switch t := x.(type) {
		case map[string]interface{}:
			for k, v := range t {
				np := k
				if path != "" {
					np = path + "." + k
				}
				walk(np, v)
			}
		case []interface{}:
			for i, v := range t {
				walk(fmt.Sprintf("%s[%d]", path, i), v)
			}
		case json.Number:
			out[path] = t.String()
		case string:
			out[path] = t
		default:
			out[path] = fmt.Sprint(t)
		}
	}
	walk("", x)
	return out
}

func c14SameValue(a, b string) bool {
	if a == b {
		return true
	}
	x, ok1 := new(big.Int).SetString(strings.TrimSpace(a), 10)
	y, ok2 := new(big.Int).SetString(strings.TrimSpace(b), 10)
	return ok1 && ok2 && x.Cmp(y) == 0
}

type c14Update struct {
	p            *c14Prop
	record, leaf string
	value        string
	ok           bool
}

func c14ParseUpdate(p *c14Prop) c14Update {
	u := c14Update{p: p}
	parts := strings.Split(p.Cfg, ":")
	if len(parts) != 2 {
		return u
	}
	ks := strings.Split(parts[0], ".")
	if len(ks) < 2 {
		return u
	}
	u.record = c14Family[ks[0]]
	u.leaf = strings.Join(ks[1:], ".")
	u.value = parts[1]
	u.ok = true
	return u
}

func c14Pcts(p *c14Prop, opts ...map[string]c14Opt) []int {
	out := []int{p.PassPct}
	for _, m := range opts {
		o, ok := m["proposal"]
		if !ok {
			continue
		}
		set := &governance.ProposalOptionSet{}
		if err := serialize.GetSerializer(serialize.PERSISTENT).Deserialize(o.raw, set); err != nil {
			continue
		}
		v := 0
		switch p.Type {
		case governance.ProposalTypeConfigUpdate:
			v = set.ConfigUpdate.PassPercentage
		case governance.ProposalTypeCodeChange:
			v = set.CodeChange.PassPercentage
		case governance.ProposalTypeGeneral:
			v = set.General.PassPercentage
		default:
			continue
		}
		dup := false
		for _, x := range out {
			if x == v {
				dup = true
			}
		}
		if !dup {
			out = append(out, v)
		}
	}
	return out
}

func (o *c14Oracle) checkOptions(optPrev, optCur map[string]c14Opt, cfgFinal []*c14Prop) []core.Violation {
	var vs []core.Violation
	ob := &o.obs
	h := ob.H
	var ups []c14Update
	for _, p := range cfgFinal {
		ups = append(ups, c14ParseUpdate(p))
	}
	explains := func(record string) bool {
		for _, u := range ups {
			if !u.ok || u.record == "" || u.record == record {
				return true
			}
		}
		return false
	}
	exempt := func(record string) bool { return h == o.frank && record == "stakingopt" }
	// (a) writes
	pg, cg := ob.Prev.Raw["g_"], ob.Cur.Raw["g_"]
	set := map[string]bool{}
	for k, v := range cg {
		if pv, ok := pg[k]; !ok || !bytes.Equal(pv, v) {
			set[k] = true
		}
	}
	for k := range pg {
		if _, ok := cg[k]; !ok {
			set[k] = true
		}
	}
	ks := make([]string, 0, len(set))
	for k := range set {
		ks = append(ks, k)
	}
	sort.Strings(ks)
	for _, k := range ks {
		name, _, versioned := c14Versioned(k)
		if versioned {
			if exempt(name) || explains(name) {
				continue
			}
		} else {
			if (h == o.frank && k == "g_stakingOptions_defaultOptions") || len(ups) > 0 {
				continue
			}
		}
		vs = append(vs, o.mk("", "config-once", "option-written-without-passed-proposal",
			"governance record %q was written in this block (value now %s) but no passed config-update proposal that names it was finalised in this block (finalised passed config updates: %s)",
			k, clipS(string(cg[k]), 120), c14UpdList(ups)))
		return vs
	}
	// (b) values in force
	names := map[string]bool{}
	for n := range optPrev {
		names[n] = true
	}
	for n := range optCur {
		names[n] = true
	}
	ns := make([]string, 0, len(names))
	for n := range names {
		ns = append(ns, n)
	}
	sort.Strings(ns)
	for _, n := range ns {
		if exempt(n) {
			continue
		}
		a, b := map[string]string{}, map[string]string{}
		if x, ok := optPrev[n]; ok {
			a = c14Leaves(x.raw)
		}
		if x, ok := optCur[n]; ok {
			b = c14Leaves(x.raw)
		}
		leafs := map[string]bool{}
		for l := range a {
			leafs[l] = true
		}
		for l := range b {
			leafs[l] = true
		}
		ls := make([]string, 0, len(leafs))
		for l := range leafs {
			ls = append(ls, l)
		}
		sort.Strings(ls)
		for _, l := range ls {
			av, aok := a[l]
			bv, bok := b[l]
			if aok == bok && av == bv {
				continue
			}
			good := false
			for _, u := range ups {
				if u.ok && (u.record == "" || u.record == n) && u.leaf == l && bok && c14SameValue(bv, u.value) {
					good = true
				}
			}
			if !good {
				vs = append(vs, o.mk("", "config-once", "option-changed-without-passed-proposal",
					"option %s.%s changed from %q to %q; finalised passed config updates of this block: %s", n, l, av, bv, c14UpdList(ups)))
				return vs
			}
		}
	}
	// (c) applied
	for _, u := range ups {
		if !u.ok {
			vs = append(vs, o.mk(u.p.ID, "config-once", "unparseable-update-finalised", "config-update proposal %s with update string %q was finalised as passed", u.p.ID, u.p.Cfg))
			continue
		}
		applied := false
		for n, opt := range optCur {
			if u.record != "" && u.record != n {
				continue
			}
			if v, ok := c14Leaves(opt.raw)[u.leaf]; ok {
				if c14SameValue(v, u.value) {
					applied = true
				}
				for _, w := range ups {
					if w.ok && w.p != u.p && w.leaf == u.leaf && w.record == u.record && c14SameValue(v, w.value) {
						applied = true // two updates of one leaf finalised in one block: either order
					}
				}
			}
		}
		if !applied {
			vs = append(vs, o.mk(u.p.ID, "config-once", "config-not-applied", "passed config-update proposal %s (%q) was finalised in this block but the option in force does not have that value", u.p.ID, u.p.Cfg))
		} else {
			o.nCfg++
		}
	}
	return vs
}

func c14UpdList(ups []c14Update) string {
	if len(ups) == 0 {
		return "none"
	}
	var s []string
	for _, u := range ups {
		s = append(s, fmt.Sprintf("%s %q", u.p.short(), u.p.Cfg))
	}
	return strings.Join(s, ", ")
}

func (o *c14Oracle) Finish(e *core.Engine) []core.Violation {
	if o.survey {
		c14Logf("C14 stats seed=%d created=%d voting=%d tally=%d expired=%d final=%d withdraw=%d cancelled=%d missed=%d cfg=%d replays=%d revotes=%d dlrewrite=%d valuechecks=%d nontrivial=%v found=%v late=%d",
			e.Trace.Seed, o.nCreated, o.nVoting, o.nTally, o.nExpired, o.nFinal, o.nWithdraw, o.nCancelled, o.nMissed, o.nCfg, o.nReplays, o.nRevotes, o.nDLRewrite, o.nValueChecks, o.NonTrivial(e), o.found, len(o.lateV))
		for _, v := range o.lateV {
			c14Logf("C14 survey seed=%d %s [%s] %s", e.Trace.Seed, v.Oracle, v.Sig, clipS(v.Msg, 400))
		}
		return nil
	}
	return o.lateV
}

// NonTrivial: the run decided at least one proposal by votes (tally oracle evaluated), finalised at
// least one (distribution oracle evaluated on a real distribution) and either returned funds through a
// successful withdraw or saw a legitimate expiry.
func (o *c14Oracle) NonTrivial(e *core.Engine) bool {
	return o.nTally >= 1 && o.nFinal >= 1 && (o.nWithdraw >= 1 || o.nExpired >= 1)
}

// c14Thin runs a generator only in some blocks (background validator-set changes).
type c14Thin struct {
	g   gen.Generator
	pct int
}

func (t c14Thin) Name() string { return t.g.Name() }
func (t c14Thin) Gen(c *gen.Ctx) []gen.Tx {
	if c.Rng.Intn(100) >= t.pct {
		return nil
	}
	return t.g.Gen(c)
}

func init() {
	Register(&ClusterProp{
		Id: "C14",
		RuleText: "each run: one real replica, 3-6 genesis validators with different powers, short funding (4-10 blocks) and voting (3-10 blocks) periods, 40-70 blocks of the governance generator " +
			"(create / fund / vote / cancel / withdraw / expire / finalise from proposers, funders, validators and strangers, at heights before, at and after the deadlines, hostile ids and amounts) " +
			"interleaved with SEND traffic and, in some blocks, staking and evidence traffic (validator-set changes between snapshot and vote). After every commit the oracle decodes the proposal, vote, fund and option records " +
			"of the dump and advances its own per-proposal model from the decoded transactions and result codes (see the comment in props/c14.go for the eight oracles). " +
			"Non-trivial: >=1 proposal decided by votes with the tally oracle evaluated, >=1 proposal finalised, and >=1 successful refund or legitimate expiry; distinct = distinct fingerprints.",
		MakeSetup: func(rng *rand.Rand, tier string, seed uint64) *Setup {
			k := SwarmKnobs(rng)
			k.NumValidators = 3 + rng.Intn(4)
			k.NumWitnesses = rng.Intn(k.NumValidators + 1)
			k.FundingDeadline = int64(4 + rng.Intn(7))
			k.VotingDeadline = int64(3 + rng.Intn(8))
			if k.NumUsers < 4 {
				k.NumUsers = 4
			}
			su := &Setup{Knobs: k, Sess: gen.NewSession()}
			su.Replicas = append(su.Replicas, core.ReplicaConf{Identity: "x0", Quiet: true, Recent: 10, Every: 100, Cycles: 10, WitnessInitEarly: true})
			su.Gens = append(su.Gens, gen.ByName("gov", "send")...)
			for _, g := range gen.ByName("staking", "evidence") {
				su.Gens = append(su.Gens, c14Thin{g: g, pct: 15 + rng.Intn(25)})
			}
			su.Blocks = 40 + rng.Intn(31)
			if tier == "thorough" {
				su.Blocks = 60 + rng.Intn(60)
			}
			su.MaxTx = 14
			return su
		},
		MakeOracle: func(e *core.Engine, tr *core.Trace) Oracle { return &c14Oracle{} },
	})
}

package props

import (
	"encoding/hex"
	"fmt"
	"math/big"
	"math/rand"
	"strings"
	"time"

	"github.com/Oneledger/protocol/action/transfer"

	"olsim/core"
	"olsim/gen"
)

// C18 No transaction input can crash or halt the node.
//
// One replica per run. Honest traffic builds state; hostile-value, garbage, impersonating and the
// generators' own hostile variants (including the ones gated as "lethal") are submitted first through
// CheckTx and then inside a block, whatever CheckTx said. Every block also carries a liveness probe: a
// fresh valid SEND from a reserved account that must return code 0.
// Process death (os.Exit) is observed by the parent, which re-runs the seed with trace streaming to
// obtain the exact prefix that killed the worker.

type c18Oracle struct {
	inputs  int
	hostile int
	probes  int
	// "keeps serving subsequent calls with unchanged behaviour": a twin that never sees the transactions that
	// were answered with an error code must agree on every later result and hash (the C06 twin, reported here)
	twin   c06Oracle
	noTwin bool
}

func (o *c18Oracle) unchanged(e *core.Engine, idx int, st *core.Step, stepErr error) []core.Violation {
	if o.noTwin {
		return nil
	}
	vs := o.twin.AfterStep(e, idx, st, stepErr)
	for i := range vs {
		vs[i].Property = "C18"
		vs[i].Oracle = "unchanged-behaviour"
		vs[i].Sig = vs[i].Sig + ":" + c18Suspects(st)
	}
	return vs
}

func (o *c18Oracle) Inputs() int { return o.inputs }

func (o *c18Oracle) OnDeath(e *core.Engine, idx int, st *core.Step, deaths []string) []core.Violation {
	for _, d := range deaths {
		if strings.Contains(d, "call stalled") {
			return []core.Violation{{Property: "C18", Oracle: "keeps-serving", Sig: "app-stalled:" + c18Suspects(st),
				Msg: fmt.Sprintf("an application call did not return while processing step %d (%s): %s; inputs of the step: %v", idx, st.Kind, strings.Join(deaths, "; "), c18Labels(st))}}
		}
	}
	return []core.Violation{{Property: "C18", Oracle: "keeps-serving", Sig: "app-died:" + c18Suspects(st),
		Msg: fmt.Sprintf("the application panicked out or shut itself down while processing step %d (%s): %s; inputs of the step: %v", idx, st.Kind, strings.Join(deaths, "; "), c18Labels(st))}}
}

func c18Labels(st *core.Step) []string {
	if len(st.Labels) > 16 {
		return st.Labels[:16]
	}
	return st.Labels
}

// c18Suspects: labels of the adversarial inputs of the step (or everything if none is marked).
func c18Suspects(st *core.Step) string {
	var adv []string
	for _, l := range st.Labels {
		if strings.Contains(l, "/") && l != "PROBE" {
			adv = append(adv, l)
		}
	}
	if len(adv) == 0 {
		adv = st.Labels
	}
	return labelsSig(adv)
}

func (o *c18Oracle) AfterStep(e *core.Engine, idx int, st *core.Step, stepErr error) []core.Violation {
	if st.Kind == "checks" {
		o.inputs += len(st.Txs)
		return nil
	}
	if st.Kind == "boot" {
		return o.unchanged(e, idx, st, stepErr)
	}
	if st.Kind != "block" {
		return nil
	}
	o.inputs += len(st.Txs)
	for _, l := range st.Labels {
		if strings.Contains(l, "/") {
			o.hostile++
		}
	}
	h := e.C.Height()
	ra := e.C.Ref().Tr.Committed(h)
	if ra == nil {
		if stepErr != nil && strings.Contains(stepErr.Error(), "validator") {
			// the real Tendermint BlockExecutor refused what the application returned at the end of the block:
			// on a real network every node stops here (what exactly is wrong with the updates is C10's subject)
			return []core.Violation{{Property: "C18", Oracle: "keeps-serving", Sig: "chain-halted:" + c18Suspects(st),
				Msg: fmt.Sprintf("block %d could not be applied: %s; inputs of the block: %v", e.C.Height()+1, clipS(stepErr.Error(), 300), c18Labels(st))}}
		}
		return nil
	}
	for i, l := range st.Labels {
		if l == "PROBE" && i < len(ra.Txs) {
			o.probes++
			if ra.Txs[i].Code != 0 {
				return []core.Violation{{Property: "C18", Oracle: "keeps-serving", Sig: "probe-failed:" + c18Suspects(st),
					Msg: fmt.Sprintf("block %d: the liveness probe (a fresh valid SEND from a reserved funded account) returned code %d log=%q after inputs %v", h, ra.Txs[i].Code, clipS(ra.Txs[i].Log, 200), c18Labels(st))}}
			}
		}
	}
	return o.unchanged(e, idx, st, stepErr)
}

func (o *c18Oracle) Finish(e *core.Engine) []core.Violation { return nil }
func (o *c18Oracle) NonTrivial(e *core.Engine) bool         { return o.hostile >= 5 && o.probes >= 5 }

func init() {
	Register(&ClusterProp{
		Id: "C18",
		RuleText: "each run: one real replica in its own worker process; honest generators build state while the hostile-value client (negative/zero/>2^63/>2^256 amounts, unknown/empty/other currency, empty/short/long/non-hex addresses, huge/NUL strings, null objects, int64 extremes), " +
			"the garbage client (random bytes, truncated/deep/type-confused JSON, envelopes with missing parts, empty payloads, unknown types), the impersonator and the generators' own hostile variants incl. those known to be lethal (malformed embedded Ethereum transactions, negative vote indexes, out-of-range opinions, nil goals, unregistered asset types, BASEFEE) " +
			"submit every input first through CheckTx and then inside a block. Oracles: the worker process stays alive (parent observes exit; the seed is re-run with trace streaming to capture the killing prefix), no panic escapes and the application does not close itself, " +
			"and a liveness probe in every block (fresh valid SEND from a reserved account) returns code 0. Non-trivial: >=5 hostile inputs and >=5 probes; distinct = distinct fingerprints; `inputs` = inputs submitted (CheckTx + delivery).",
		MakeSetup: func(rng *rand.Rand, tier string, seed uint64) *Setup {
			k := SwarmKnobs(rng)
			// a block whose transactions use up a finite gas limit must not stop the node either (2M: most blocks do)
			k.MaxGas = []int64{-1, -1, 40000000, 8000000, 2000000}[rng.Intn(5)]
			su := &Setup{Knobs: k, Sess: gen.NewSession()}
			su.Sess.M["lethal"] = true
			su.Sess.M["olvm-basefee"] = true
			su.Sess.M["olvm-no-gaslimit"] = true // the twin's running gas total legitimately differs
			gen.OlvmNoGaslimit = true
			if rng.Intn(4) == 0 {
				// BLOCKHASH reads the node's block store, which the raw-mode twin does not have: these runs go without twin
				su.Sess.M["olvm-blockhash"] = true
				su.Extra = []byte(`{"notwin":true}`)
			}
			su.Replicas = append(su.Replicas, core.ReplicaConf{Identity: "x0", Recent: 10, Every: 100, Cycles: 10, WitnessInitEarly: true})
			su.Gens = allGens(rng)
			su.Gens = append(su.Gens, gen.ByName("hostile-values", "garbage", "impersonator")...)
			su.Blocks = 10 + rng.Intn(20)
			if tier == "thorough" {
				su.Blocks = 12 + rng.Intn(40)
			}
			su.MaxTx = 12
			probeNo := 0
			su.PlanHook = func(e *core.Engine, rng *rand.Rand, st *core.Step, gc *gen.Ctx) {
				// liveness probe first in the block
				probeNo++
				msg := &transfer.Send{From: e.W.Probe.Addr, To: e.W.ProbeSink.Addr, Amount: core.OLT(big.NewInt(int64(1 + probeNo)))}
				pb := core.BuildTx(msg, core.DefaultFee(), fmt.Sprintf("probe-%d", probeNo), e.W.Probe)
				st.Txs = append([]string{hex.EncodeToString(pb)}, st.Txs...)
				st.Labels = append([]string{"PROBE"}, st.Labels...)
			}
			// every input goes through CheckTx before its block
			su.Between = nil
			su.PreBlock = func(e *core.Engine, rng *rand.Rand, st *core.Step) []*core.Step {
				if len(st.Txs) <= 1 {
					return nil
				}
				chk := &core.Step{Kind: "checks", Replica: 0, Note: "inputs"}
				chk.Txs = append(chk.Txs, st.Txs[1:]...)
				chk.Labels = append(chk.Labels, st.Labels[1:]...)
				return []*core.Step{chk}
			}
			return su
		},
		MakeOracle: func(e *core.Engine, tr *core.Trace) Oracle {
			core.StallLimit = 30 * time.Second
			return &c18Oracle{noTwin: strings.Contains(string(tr.Extra), `"notwin":true`)}
		},
	})
}

package props

import (
	"fmt"
	"hash/fnv"
	"math/big"
	"math/rand"
	"os"
	"sort"
	"strings"
	"time"

	sm "github.com/tendermint/tendermint/state"
	dbm "github.com/tendermint/tm-db"

	"github.com/Oneledger/protocol/action"
	evact "github.com/Oneledger/protocol/action/evidence"
	stact "github.com/Oneledger/protocol/action/staking"
	"github.com/Oneledger/protocol/action/transfer"
	"github.com/Oneledger/protocol/data/evidence"
	"github.com/Oneledger/protocol/data/governance"
	"github.com/Oneledger/protocol/data/keys"
	"github.com/Oneledger/protocol/identity"
	"github.com/Oneledger/protocol/serialize"
	"github.com/Oneledger/protocol/storage"

	"olsim/core"
	"olsim/gen"
)

// C19 Allegations, verdicts, freezing and release.
//
// "A validator is declared guilty or innocent only when the yes or no votes of distinct currently
// active validators cross the configured share, each active validator counting at most once per
// allegation; a guilty validator is frozen, loses exactly the configured percentage of its stake of
// which at most the penalty goes to the bounty program, drops out of the validator set, and can
// neither stake, unstake nor withdraw until it is released after the configured release time.
// Accounts that are not active validators cannot open or vote on allegations."
//
// MODEL (built from observations only: decoded transactions + result codes + harness-verified
// signers, committed dumps of H-1 and H, BeginBlock header time, EndBlock events, the Tendermint
// validator set that results from the validator updates):
//
//   active(H)        the validator status records (es__vss_<addr>, isActive) of the dump of H. A
//                    transaction of block H is judged against active(H-1) (statuses only change at
//                    block end); a verdict at the end of block H against active(H-1) and active(H),
//                    whichever gives the LOWER bar ("currently" is not sharper than that).
//   frozen(H)        suspicious-validator records (es__ssvk_<addr>) that carry no release later than
//                    the freeze. Inside block H: frozen(H-1) minus the validators whose RELEASE
//                    succeeded earlier in the block.
//   requests         open allegation requests {id, accused, reporter, votes}. A request is created by
//                    a successful ALLEGATION, a vote is added by a successful ALLEGATION_VOTE whose
//                    choice is YES or NO and whose voter has no vote on that request yet (a second
//                    successful vote of the same voter never adds a vote; if it names the other choice
//                    the voter is counted for whichever side is asked - lenient). Requests that are
//                    gone from the dump of H are closed (their id may be used again: property silent).
//   bar              required = ceil(|active| * validatorVotePercentage / validatorVoteDecimals)
//                    ("at least that share of the active validators" as a count of voters);
//                    guilty  needs  yes / required >= allegationPercentage / allegationDecimals
//                    innocent needs no / required >= min(p, 1-p)  (the property names one share for
//                    both; the complement is the other defensible reading, so both are accepted).
//                    Equality is accepted for either outcome ("cross").
//   declarations     GUILTY: an allegation_tracker EndBlock event with status GUILTY for the accused, or a
//                    suspicious-validator record with byzantine status and freeze height H written in
//                    block H. INNOCENT: an allegation_tracker event with status INNOCENT.
//   guilt            accused -> (height, block time) of the first un-released guilty verdict; kept by the
//                    model independently of what the record's status field says later.
//
// ORACLES
//   verdict-needs-share      every declaration is backed by an open request against the accused whose
//                            yes (resp. no) votes of distinct validators, each active when it voted,
//                            reach the bar (class *-below-share); the votes of those voters that are
//                            still active at the verdict reach it too (class verdict-counts-departed-
//                            voters); a declared request is closed in the same block (one verdict per
//                            allegation: the same votes must not be counted for a second verdict).
//   votes-explained          every request and every vote found in the evidence store is explained by a
//                            successful transaction signed by the named validator, active at that time;
//                            no voter appears twice in a request (so failed transactions and outsiders
//                            change nothing, and a double vote is not counted twice).
//   only-active-validators   a successful ALLEGATION / ALLEGATION_VOTE is signed by the validator it names
//                            and that validator is active at H-1.
//   frozen-cannot-act        a validator that is frozen (and not released earlier in the block) does not
//                            open or vote on allegations.
//   guilty-consequences      on GUILTY: freeze record present at H; stake total st__t_<accused> reduced by
//                            stake*pct within one stake unit; bounty balance rises by at most the loss;
//                            from 4 blocks after the verdict on and while not released the accused is not
//                            in the Tendermint validator set.
//   frozen-staking           STAKE / UNSTAKE / WITHDRAW naming a frozen validator do not succeed.
//   release-rules            RELEASE succeeds only if signed by the validator itself and, for a guilty
//                            one, at block time >= verdict block time + releaseTime days; a frozen record
//                            turns un-frozen only through such a RELEASE.
//
// DON'T CARE (both outcomes accepted)
//   * float rounding / equality at the bar; rounding of the penalty (within one stake unit); the part of
//     the penalty that goes to the bounty program below the upper bound.
//   * RELEASE at block time exactly verdict time + release time.
//   * the missed-votes freezing rules (who gets frozen for missed votes and when; their release time).
//     A validator frozen for missed votes is "frozen" for frozen-staking / frozen-cannot-act, nothing more.
//   * whether a verdict MUST come once the bar is reached (the property says "only when").
//   * at which of the two block boundaries around the verdict a voter has to be "currently active"
//     (either will do; see c19StrictCurrentVoters).
//   * requests that vanish without any declaration (duplicate clean-up), re-use of the RequestID of a
//     closed request, allegations against addresses that are not validators (the verdict rules apply,
//     the stake rules do not), allegations from the future, self-accusation, a second request against an
//     accused that has one.
//   * options changed inside the block: the options of H-1 and of H are both tried.
//   * the bounty bound in a block that also moves proposal records or holds a successful transaction of
//     a kind other than the evidence / staking kinds and plain SEND to somebody else (other money may
//     reach the bounty program); the penalty of an accused without a stake record. The stake the
//     penalty applies to is the stake of H-1 plus/minus the successful STAKE/UNSTAKE of block H.
//   * validator-set membership after a release.

type c19Vote struct{ Yes, No bool }

type c19Req struct {
	ID       string
	Accused  string
	Reporter string
	Born     int64
	Votes    map[string]*c19Vote // voter address -> choice(s) of successful votes
}

type c19Guilt struct {
	Height    int64
	At        time.Time
	Validator bool // the accused had a validator record when it was declared guilty
}

type c19View struct {
	active  map[string]bool
	susp    map[string]*evidence.LastValidatorHistory
	reqs    map[string]*evidence.AllegationRequest
	vals    map[string]*identity.Validator
	opt     *evidence.Options
	bounty  string // textual address of the bounty program
	optSig  uint64
	propSig uint64 // hash over the proposal record families
}

type c19Oracle struct {
	obs   Obs
	prev  *c19View
	reqs  map[string]*c19Req
	guilt map[string]*c19Guilt

	optCacheSig uint64
	optCacheEv  *evidence.Options
	optCacheB   string

	// measured
	guiltyChecked   int
	innocentChecked int
	rejected        int // ALLEGATION / ALLEGATION_VOTE of non-active, frozen or foreign signers that failed
	frozenStaking   int // STAKE / UNSTAKE / WITHDRAW naming a frozen validator seen (and failed)
	releasesOK      int
	releasesEarly   int // RELEASE of a guilty validator before its time that failed
	penalties       int
	dropsChecked    int
}

func c19Frozen(l *evidence.LastValidatorHistory) bool {
	if l == nil {
		return false
	}
	if l.ReleaseAt == nil || l.FrozenAt == nil {
		return true
	}
	return !l.ReleaseAt.After(*l.FrozenAt)
}

func c19Hash(dump map[string][]byte, prefixes ...string) uint64 {
	var ks []string
	for k := range dump {
		for _, p := range prefixes {
			if strings.HasPrefix(k, p) {
				ks = append(ks, k)
				break
			}
		}
	}
	sort.Strings(ks)
	h := fnv.New64a()
	for _, k := range ks {
		h.Write([]byte(k))
		h.Write([]byte{0})
		h.Write(dump[k])
		h.Write([]byte{1})
	}
	return h.Sum64()
}

// options decodes the evidence options and the bounty address in force in a dump, by loading the
// governance records into a throw-away store and reading them with the repository's own store type
// (decoding only).
func (o *c19Oracle) options(dump map[string][]byte) (ev *evidence.Options, bounty string, sig uint64) {
	sig = c19Hash(dump, "g_")
	if o.optCacheEv != nil && sig == o.optCacheSig {
		return o.optCacheEv, o.optCacheB, sig
	}
	defer func() {
		if rec := recover(); rec != nil {
			ev, bounty = nil, ""
		}
	}()
	db := dbm.NewMemDB()
	cs := storage.NewChainState("c19opt", db)
	st := storage.NewState(cs)
	ks := make([]string, 0, 32)
	for k := range dump {
		if strings.HasPrefix(k, "g_") {
			ks = append(ks, k)
		}
	}
	sort.Strings(ks)
	for _, k := range ks {
		st.Set(storage.StoreKey(k), dump[k])
	}
	st.Commit()
	gs := governance.NewStore("g", storage.NewState(cs))
	eo, err := gs.GetEvidenceOptions()
	if err != nil || eo == nil {
		return nil, "", sig
	}
	po, err := gs.GetProposalOptions()
	if err != nil || po == nil {
		return nil, "", sig
	}
	ev, bounty = eo, keys.Address(po.BountyProgramAddr).String()
	o.optCacheSig, o.optCacheEv, o.optCacheB = sig, ev, bounty
	return ev, bounty, sig
}

func (o *c19Oracle) view(dump map[string][]byte) *c19View {
	v := &c19View{active: map[string]bool{}, susp: map[string]*evidence.LastValidatorHistory{},
		reqs: map[string]*evidence.AllegationRequest{}, vals: map[string]*identity.Validator{}}
	ser := serialize.GetSerializer(serialize.PERSISTENT)
	for k, val := range dump {
		switch {
		case strings.HasPrefix(k, "es__vss_"):
			s := &evidence.ValidatorStatus{}
			if err := ser.Deserialize(val, s); err != nil {
				panic(core.HarnessError{Msg: fmt.Sprintf("C19: undecodable validator status %q: %v", k, err)})
			}
			if s.IsActive {
				v.active[s.Address.String()] = true
			}
		case strings.HasPrefix(k, "es__ssvk_"):
			l := &evidence.LastValidatorHistory{}
			if err := ser.Deserialize(val, l); err != nil {
				panic(core.HarnessError{Msg: fmt.Sprintf("C19: undecodable suspicious validator record %q: %v", k, err)})
			}
			v.susp[l.Address.String()] = l
		case strings.HasPrefix(k, "es__ark_"):
			ar := &evidence.AllegationRequest{}
			if err := ser.Deserialize(val, ar); err != nil {
				panic(core.HarnessError{Msg: fmt.Sprintf("C19: undecodable allegation request %q: %v", k, err)})
			}
			v.reqs[k[len("es__ark_"):]] = ar
		case strings.HasPrefix(k, "v_"):
			vr, err := (&identity.Validator{}).FromBytes(val)
			if err != nil || vr == nil {
				continue
			}
			v.vals[vr.Address.String()] = vr
		}
	}
	v.opt, v.bounty, v.optSig = o.options(dump)
	v.propSig = c19Hash(dump, "propActive", "propPassed", "propFailed", "propFinalized", "propFinalizeFailed", "propFunds_")
	return v
}

// required number of voters for an active count (integer ceiling of the configured share).
func c19Required(active int, opt *evidence.Options) int64 {
	if opt == nil || opt.ValidatorVoteDecimals <= 0 || active <= 0 {
		return 0
	}
	a := int64(active) * opt.ValidatorVotePercentage
	return (a + opt.ValidatorVoteDecimals - 1) / opt.ValidatorVoteDecimals
}

// reaches: votes / required >= num / den  (equality accepted).
func c19Reaches(votes int, required, num, den int64) bool {
	if required <= 0 || den <= 0 {
		return false
	}
	return int64(votes)*den >= num*required
}

type c19Bar struct {
	Active   int
	Required int64
	Opt      *evidence.Options
}

func (b c19Bar) guilty(yes int) bool {
	return c19Reaches(yes, b.Required, b.Opt.AllegationPercentage, b.Opt.AllegationDecimals)
}

func (b c19Bar) innocent(no int) bool {
	p := b.Opt.AllegationPercentage
	if q := b.Opt.AllegationDecimals - p; q < p {
		p = q
	}
	return c19Reaches(no, b.Required, p, b.Opt.AllegationDecimals)
}

func (b c19Bar) String() string {
	return fmt.Sprintf("{active=%d required=%d votePct=%d/%d allegPct=%d/%d}", b.Active, b.Required,
		b.Opt.ValidatorVotePercentage, b.Opt.ValidatorVoteDecimals, b.Opt.AllegationPercentage, b.Opt.AllegationDecimals)
}

func (r *c19Req) count() (yes, no int) {
	for _, v := range r.Votes {
		if v.Yes {
			yes++
		}
		if v.No {
			no++
		}
	}
	return
}

func (r *c19Req) String() string {
	ks := make([]string, 0, len(r.Votes))
	for k, v := range r.Votes {
		c := ""
		if v.Yes {
			c += "Y"
		}
		if v.No {
			c += "N"
		}
		ks = append(ks, k[len(k)-6:]+"="+c)
	}
	sort.Strings(ks)
	return fmt.Sprintf("{id=%s accused=%s reporter=%s born=%d votes=%v}", r.ID, r.Accused, r.Reporter, r.Born, ks)
}

func hasAddr(l []keys.Address, a keys.Address) bool {
	for _, x := range l {
		if x.Equal(a) {
			return true
		}
	}
	return false
}

func c19Label(t *ObsTx) string {
	if t.Label != "" {
		return t.Label
	}
	if t.Tx != nil {
		return t.Tx.Type.String()
	}
	return "UNPARSEABLE"
}

type c19Decl struct {
	guiltyEvent   bool
	guiltyState   bool
	innocentEvent bool
}

// endBlockDeclarations reads the allegation_tracker events of the EndBlock response of height h.
func c19Events(e *core.Engine, h int64) (guilty, innocent []string) {
	ref := e.C.Ref()
	if ref.Disk == nil || ref.Disk.StateDB == nil {
		panic(core.HarnessError{Msg: "C19: no Tendermint state DB on the reference replica"})
	}
	resp, err := sm.LoadABCIResponses(ref.Disk.StateDB, h)
	if err != nil || resp == nil || resp.EndBlock == nil {
		panic(core.HarnessError{Msg: fmt.Sprintf("C19: no ABCI responses for height %d: %v", h, err)})
	}
	for _, ev := range resp.EndBlock.Events {
		if ev.Type != "allegation_tracker" {
			continue
		}
		var mal keys.Address
		status := int8(0)
		for _, kvp := range ev.Attributes {
			switch string(kvp.Key) {
			case "block.malicious":
				mal = keys.Address(append([]byte{}, kvp.Value...))
			case "block.status":
				if len(kvp.Value) == 1 {
					status = int8(kvp.Value[0])
				}
			}
		}
		switch status {
		case evidence.GUILTY:
			guilty = append(guilty, mal.String())
		case evidence.INNOCENT:
			innocent = append(innocent, mal.String())
		}
	}
	return
}

func (o *c19Oracle) AfterStep(e *core.Engine, idx int, st *core.Step, stepErr error) []core.Violation {
	if st.Kind == "boot" {
		o.obs.InitGenesis(e)
		o.reqs = map[string]*c19Req{}
		o.guilt = map[string]*c19Guilt{}
		o.prev = o.view(o.obs.CurDump)
		return nil
	}
	if st.Kind != "block" || !o.obs.Update(e, st) {
		return nil
	}
	ob := &o.obs
	h := ob.H
	prev := o.prev
	cur := o.view(ob.CurDump)
	o.prev = cur
	if ob.Att == nil || ob.Att.Begin == nil {
		panic(core.HarnessError{Msg: "C19: no BeginBlock request recorded"})
	}
	now := ob.Att.Begin.Header.Time
	debug := os.Getenv("OLSIM_C19_DEBUG") != ""

	var vs []core.Violation
	viol := func(oracle, class, label, format string, a ...interface{}) {
		vs = append(vs, core.Violation{Property: "C19", Oracle: oracle, Sig: class + ":" + label,
			Msg: fmt.Sprintf("block %d: ", h) + fmt.Sprintf(format, a...)})
	}

	// ---- transactions, in block order ---------------------------------------------------------------
	frozen := map[string]bool{}
	for a, l := range prev.susp {
		if c19Frozen(l) {
			frozen[a] = true
		}
	}
	for a := range o.guilt {
		frozen[a] = true
	}
	released := map[string]bool{}
	touched := map[string]*big.Int{} // net stake change by the successful STAKE/UNSTAKE of this block, per validator (stake units)
	releaseDays := func() (lo int64) {
		lo = -1
		for _, op := range []*evidence.Options{prev.opt, cur.opt} {
			if op != nil && (lo < 0 || op.ValidatorReleaseTime < lo) {
				lo = op.ValidatorReleaseTime
			}
		}
		return
	}
	otherCredit := false // a successful transaction of a kind that may pay the bounty program
	for i, t := range ob.Txs {
		if t.Tx == nil {
			if t.Res.Code == 0 {
				otherCredit = true
			}
			continue
		}
		ok := t.Res.Code == 0
		if ok {
			switch t.Tx.Type {
			case action.ALLEGATION, action.ALLEGATION_VOTE, action.RELEASE, action.STAKE, action.UNSTAKE, action.WITHDRAW:
			case action.SEND:
				m := &transfer.Send{}
				if m.Unmarshal(t.Tx.Data) != nil || keys.Address(m.To).String() == prev.bounty || keys.Address(m.To).String() == cur.bounty {
					otherCredit = true
				}
			default:
				otherCredit = true
			}
		}
		switch t.Tx.Type {
		case action.ALLEGATION:
			m := &evact.Allegation{}
			if m.Unmarshal(t.Tx.Data) != nil {
				continue
			}
			rep := m.ValidatorAddress.String()
			signedBy := hasAddr(t.Signers, m.ValidatorAddress)
			if !ok {
				if !signedBy || !prev.active[rep] || frozen[rep] {
					o.rejected++
				}
				continue
			}
			switch {
			case !signedBy:
				viol("only-active-validators", "allegation-not-signed-by-reporter", c19Label(t),
					"tx #%d ALLEGATION %q naming reporter %s succeeded but no signature of that address verifies (verified signers %v)", i, m.RequestID, rep, t.Signers)
			case !prev.active[rep]:
				viol("only-active-validators", "allegation-by-non-active", c19Label(t),
					"tx #%d ALLEGATION %q by %s against %s succeeded (code 0) but %s has no active status record in the evidence store at height %d (active: %v)",
					i, m.RequestID, rep, m.MaliciousAddress, rep, h-1, sortedKeys(prev.active))
			case frozen[rep]:
				viol("frozen-cannot-act", "allegation-by-frozen-reporter", c19Label(t),
					"tx #%d ALLEGATION %q by %s against %s succeeded (code 0) although the reporter is frozen at height %d (record %s) and was not released in this block",
					i, m.RequestID, rep, m.MaliciousAddress, h-1, c19Rec(prev.susp[rep]))
			}
			o.reqs[m.RequestID] = &c19Req{ID: m.RequestID, Accused: m.MaliciousAddress.String(), Reporter: rep, Born: h, Votes: map[string]*c19Vote{}}
		case action.ALLEGATION_VOTE:
			m := &evact.AllegationVote{}
			if m.Unmarshal(t.Tx.Data) != nil {
				continue
			}
			voter := m.Address.String()
			signedBy := hasAddr(t.Signers, m.Address)
			if !ok {
				if !signedBy || !prev.active[voter] || frozen[voter] {
					o.rejected++
				}
				continue
			}
			switch {
			case !signedBy:
				viol("only-active-validators", "vote-not-signed-by-voter", c19Label(t),
					"tx #%d ALLEGATION_VOTE on %q naming voter %s succeeded but no signature of that address verifies (verified signers %v)", i, m.RequestID, voter, t.Signers)
			case !prev.active[voter]:
				viol("only-active-validators", "vote-by-non-active", c19Label(t),
					"tx #%d ALLEGATION_VOTE on %q by %s succeeded (code 0) but %s has no active status record in the evidence store at height %d (active: %v)",
					i, m.RequestID, voter, voter, h-1, sortedKeys(prev.active))
			case frozen[voter]:
				viol("frozen-cannot-act", "vote-by-frozen", c19Label(t),
					"tx #%d ALLEGATION_VOTE on %q by %s succeeded (code 0) although the voter is frozen at height %d (record %s)", i, m.RequestID, voter, h-1, c19Rec(prev.susp[voter]))
			}
			if len(vs) > 0 {
				continue
			}
			r := o.reqs[m.RequestID]
			if r == nil || (m.Choice != evidence.YES && m.Choice != evidence.NO) {
				continue // not a yes/no vote on an open request: counts for nothing
			}
			v := r.Votes[voter]
			if v == nil {
				v = &c19Vote{}
				r.Votes[voter] = v
			}
			// the voter stays ONE voter; a successful second vote can at most make its side ambiguous
			if m.Choice == evidence.YES {
				v.Yes = true
			} else {
				v.No = true
			}
		case action.RELEASE:
			m := &evact.Release{}
			if m.Unmarshal(t.Tx.Data) != nil {
				continue
			}
			val := m.ValidatorAddress.String()
			g := o.guilt[val]
			if !ok {
				if g != nil && releaseDays() >= 0 && now.Before(g.At.Add(time.Duration(releaseDays())*24*time.Hour)) {
					o.releasesEarly++
				}
				continue
			}
			if !frozen[val] {
				continue // nothing to release: no effect the property talks about
			}
			if !hasAddr(t.Signers, m.ValidatorAddress) {
				viol("release-rules", "release-not-signed-by-validator", c19Label(t),
					"tx #%d RELEASE of frozen validator %s succeeded but no signature of that validator verifies (verified signers %v)", i, val, t.Signers)
			}
			if g != nil {
				days := releaseDays()
				if days < 0 {
					panic(core.HarnessError{Msg: "C19: evidence options not decodable at a release"})
				}
				due := g.At.Add(time.Duration(days) * 24 * time.Hour)
				if now.Before(due) {
					viol("release-rules", "release-too-early", c19Label(t),
						"tx #%d RELEASE of %s succeeded at block time %s; it was declared guilty in block %d at %s and validatorReleaseTime is %d day(s), so the earliest release is %s (record at height %d: %s)",
						i, val, now.UTC().Format(time.RFC3339Nano), g.Height, g.At.UTC().Format(time.RFC3339Nano), days, due.UTC().Format(time.RFC3339Nano), h-1, c19Rec(prev.susp[val]))
				}
			}
			o.releasesOK++
			released[val] = true
			delete(frozen, val)
			delete(o.guilt, val)
		case action.STAKE, action.UNSTAKE, action.WITHDRAW:
			var val keys.Address
			delta := new(big.Int)
			switch t.Tx.Type {
			case action.STAKE:
				m := &stact.Stake{}
				if m.Unmarshal(t.Tx.Data) != nil {
					continue
				}
				val = m.ValidatorAddress
				delta.Set(m.Stake.Value.BigInt())
			case action.UNSTAKE:
				m := &stact.Unstake{}
				if m.Unmarshal(t.Tx.Data) != nil {
					continue
				}
				val = m.ValidatorAddress
				delta.Neg(m.Stake.Value.BigInt())
			default:
				m := &stact.Withdraw{}
				if m.Unmarshal(t.Tx.Data) != nil {
					continue
				}
				val = m.ValidatorAddress
			}
			a := val.String()
			if frozen[a] {
				if ok {
					kind := strings.ToLower(t.Tx.Type.String())
					viol("frozen-staking", kind+"-while-frozen", c19Label(t),
						"tx #%d %s naming validator %s succeeded (code 0) although that validator is frozen at height %d (record %s, guilty verdict in model: %v) and was not released in this block",
						i, t.Tx.Type.String(), a, h-1, c19Rec(prev.susp[a]), o.guilt[a] != nil)
				} else {
					o.frozenStaking++
				}
			}
			if ok && t.Tx.Type != action.WITHDRAW {
				if touched[a] == nil {
					touched[a] = new(big.Int)
				}
				touched[a].Add(touched[a], delta)
			}
		}
	}
	if len(vs) > 0 {
		return vs
	}

	// ---- block end: declarations --------------------------------------------------------------------
	decl := map[string]*c19Decl{}
	get := func(a string) *c19Decl {
		if decl[a] == nil {
			decl[a] = &c19Decl{}
		}
		return decl[a]
	}
	gEv, iEv := c19Events(e, h)
	for _, a := range gEv {
		get(a).guiltyEvent = true
	}
	for _, a := range iEv {
		get(a).innocentEvent = true
	}
	for a, l := range cur.susp {
		if l.Status == evidence.BYZANTINE_FAULT && l.FrozenHeight == h {
			if p := prev.susp[a]; p == nil || p.FrozenHeight != h || p.Status != l.Status {
				get(a).guiltyState = true
			}
		}
	}
	var bars []c19Bar
	for _, c := range []struct {
		n   int
		opt *evidence.Options
	}{{len(prev.active), prev.opt}, {len(cur.active), cur.opt}, {len(prev.active), cur.opt}, {len(cur.active), prev.opt}} {
		if c.opt != nil {
			bars = append(bars, c19Bar{Active: c.n, Required: c19Required(c.n, c.opt), Opt: c.opt})
		}
	}
	accused := make([]string, 0, len(decl))
	for a := range decl {
		accused = append(accused, a)
	}
	sort.Strings(accused)
	byAccused := func(a string) []*c19Req {
		var out []*c19Req
		ids := make([]string, 0, len(o.reqs))
		for id := range o.reqs {
			ids = append(ids, id)
		}
		sort.Strings(ids)
		for _, id := range ids {
			if o.reqs[id].Accused == a {
				out = append(out, o.reqs[id])
			}
		}
		return out
	}
	lossTotal := new(big.Int) // stake units lost by the guilty of this block
	bountyChecks := 0
	bountyUnknown := false // a guilty validator of this block whose loss could not be established
	for _, a := range accused {
		d := decl[a]
		cands := byAccused(a)
		kind := "non-validator"
		if prev.vals[a] != nil {
			kind = "validator"
		}
		if len(bars) == 0 {
			panic(core.HarnessError{Msg: fmt.Sprintf("C19: a verdict on %s at height %d but the evidence options cannot be decoded", a, h)})
		}
		describe := func() string {
			var parts []string
			for _, r := range cands {
				parts = append(parts, r.String())
			}
			var bs []string
			for _, b := range bars[:minInt(2, len(bars))] {
				bs = append(bs, b.String())
			}
			return fmt.Sprintf("open requests against it in the model: %v; bars %v", parts, bs)
		}
		if d.guiltyEvent || d.guiltyState {
			var hit *c19Req
			for _, r := range cands {
				yes, _ := r.count()
				for _, b := range bars {
					if b.Required > 0 && b.guilty(yes) {
						hit = r
					}
				}
			}
			how := "suspicious-validator record with byzantine status frozen at this height"
			if d.guiltyEvent {
				how = "allegation_tracker event with status GUILTY"
			}
			if hit == nil {
				viol("verdict-needs-share", "guilty-below-share", kind,
					"%s declared GUILTY (%s) but no open request against it has yes votes of distinct active validators reaching the share; %s", a, how, describe())
				continue
			}
			o.guiltyChecked++
			e.Stats.Probes["c19.guilty."+kind]++
			if n, still, gone := c19Current(hit, prev, cur, bars, true); !still {
				e.Stats.Probes["c19.departed_voters_decisive"]++
				if c19StrictCurrentVoters {
					viol("verdict-needs-share", "verdict-counts-departed-voters", "guilty",
						"%s declared GUILTY on request %s: only %d of its yes votes come from validators that are active at height %d or %d, which does not reach the share; the verdict stands only by the votes of %v, which are not active validators any more; bars %v",
						a, hit.String(), n, h-1, h, gone, bars[:minInt(2, len(bars))])
				}
			}
			// one verdict per allegation
			if ar := cur.reqs[hit.ID]; ar != nil && ar.MaliciousAddress.String() == a {
				viol("verdict-needs-share", "verdict-not-final", "guilty-"+kind,
					"%s declared GUILTY (%s) on request %s but the request is still open (status %d, %d votes) in the evidence store after the block: the same votes will be counted for another verdict",
					a, how, hit.String(), ar.Status, len(ar.Votes))
			}
			// frozen
			if !c19Frozen(cur.susp[a]) {
				viol("guilty-consequences", "guilty-not-frozen", kind,
					"%s declared GUILTY (%s) on request %s but it has no frozen suspicious-validator record after the block (record: %s)", a, how, hit.String(), c19Rec(cur.susp[a]))
			}
			// stake
			if prev.vals[a] != nil {
				pT, cT := ob.Prev.StakeValTotal[a], ob.Cur.StakeValTotal[a]
				if pT != nil && touched[a] != nil {
					// the verdict falls at the block end: the stake it applies to includes this block's own changes
					pT = new(big.Int).Add(pT, touched[a])
					e.Stats.Probes["c19.penalty_base_adjusted"]++
				}
				if pT != nil && pT.Sign() > 0 {
					if cT == nil {
						cT = new(big.Int)
					}
					loss := new(big.Int).Sub(pT, cT)
					okAny := false
					var exp []string
					for _, op := range []*evidence.Options{prev.opt, cur.opt} {
						if op == nil || op.PenaltyBaseDecimals <= 0 {
							continue
						}
						// |loss*dec - stake*pct| <= dec  <=>  loss within one stake unit of stake*pct/dec
						x := new(big.Int).Mul(loss, big.NewInt(op.PenaltyBaseDecimals))
						y := new(big.Int).Mul(pT, big.NewInt(op.PenaltyBasePercentage))
						diff := new(big.Int).Abs(new(big.Int).Sub(x, y))
						if diff.Cmp(big.NewInt(op.PenaltyBaseDecimals)) <= 0 {
							okAny = true
						}
						exp = append(exp, fmt.Sprintf("%s*%d/%d", pT, op.PenaltyBasePercentage, op.PenaltyBaseDecimals))
					}
					o.penalties++
					if !okAny {
						viol("guilty-consequences", "penalty-amount", kind,
							"%s declared GUILTY on request %s: its stake total st__t_ went %s -> %s (loss %s), expected a loss of %v within one stake unit", a, hit.ID, pT, cT, loss, exp)
					}
					if loss.Sign() > 0 {
						lossTotal.Add(lossTotal, loss)
					}
					bountyChecks++
				} else {
					e.Stats.Probes["c19.penalty_skipped"]++
					bountyUnknown = true
				}
			}
			if o.guilt[a] == nil {
				o.guilt[a] = &c19Guilt{Height: h, At: now, Validator: prev.vals[a] != nil}
			}
		}
		if d.innocentEvent {
			var hit *c19Req
			for _, r := range cands {
				_, no := r.count()
				for _, b := range bars {
					if b.Required > 0 && b.innocent(no) {
						hit = r
					}
				}
			}
			if hit == nil {
				viol("verdict-needs-share", "innocent-below-share", kind,
					"%s declared INNOCENT (allegation_tracker event) but no open request against it has no-votes of distinct active validators reaching the share; %s", a, describe())
				continue
			}
			o.innocentChecked++
			e.Stats.Probes["c19.innocent."+kind]++
			if n, still, gone := c19Current(hit, prev, cur, bars, false); !still {
				e.Stats.Probes["c19.departed_voters_decisive"]++
				if c19StrictCurrentVoters {
					viol("verdict-needs-share", "verdict-counts-departed-voters", "innocent",
						"%s declared INNOCENT on request %s: only %d of its no votes come from validators that are active at height %d or %d, which does not reach the share; the verdict stands only by the votes of %v, which are not active validators any more; bars %v",
						a, hit.String(), n, h-1, h, gone, bars[:minInt(2, len(bars))])
				}
			}
			if ar := cur.reqs[hit.ID]; ar != nil && ar.MaliciousAddress.String() == a {
				viol("verdict-needs-share", "verdict-not-final", "innocent-"+kind,
					"%s declared INNOCENT on request %s but the request is still open in the evidence store after the block", a, hit.String())
			}
		}
	}
	// bounty: rises by at most what the guilty lost (skipped when proposal records moved: proposal funds may reach the bounty)
	if bountyChecks > 0 && prev.bounty != "" && prev.bounty == cur.bounty {
		if prev.propSig == cur.propSig && !bountyUnknown && !otherCredit {
			pb, cb := getBal(ob.Prev.Bal, prev.bounty), getBal(ob.Cur.Bal, prev.bounty)
			rise := new(big.Int).Sub(cb, pb)
			bound := new(big.Int).Mul(lossTotal, new(big.Int).Exp(big.NewInt(10), big.NewInt(18), nil))
			if rise.Cmp(bound) > 0 {
				viol("guilty-consequences", "bounty-exceeds-penalty", "validator",
					"bounty program %s balance rose by %s nue (%s -> %s) in a block where the guilty validators lost %s stake units = %s nue in total", prev.bounty, rise, pb, cb, lossTotal, bound)
			}
			e.Stats.Probes["c19.bounty_checked"]++
		} else {
			e.Stats.Probes["c19.bounty_skipped"]++
		}
	}

	// ---- freeze records: only a legitimate RELEASE un-freezes ------------------------------------------
	addrs := map[string]bool{}
	for a := range prev.susp {
		addrs[a] = true
	}
	for a := range cur.susp {
		addrs[a] = true
	}
	for _, a := range sortedKeys(addrs) {
		pf, cf := c19Frozen(prev.susp[a]), c19Frozen(cur.susp[a])
		if pf && !cf && !released[a] {
			viol("release-rules", "unfrozen-without-release", "state",
				"validator %s was frozen at height %d (record %s) and is not frozen at height %d (record %s) but no RELEASE signed by it succeeded in this block",
				a, h-1, c19Rec(prev.susp[a]), h, c19Rec(cur.susp[a]))
		}
		if cf && (!pf || prev.susp[a].FrozenHeight != cur.susp[a].FrozenHeight) && cur.susp[a].Status == evidence.MISSED_REQUIRED_VOTES {
			e.Stats.Probes["c19.missed_votes_freeze"]++
			if o.guilt[a] != nil {
				e.Stats.Probes["c19.guilty_record_overwritten_by_missed_votes"]++
			}
		}
	}

	// ---- a guilty validator drops out of the validator set ---------------------------------------------
	tmset := map[string]bool{}
	if nv := e.C.Ref().State.NextValidators; nv != nil {
		for _, v := range nv.Validators {
			tmset[keys.Address(v.Address).String()] = true
		}
	}
	for _, a := range sortedGuilt(o.guilt) {
		g := o.guilt[a]
		if !g.Validator || h < g.Height+4 {
			continue
		}
		o.dropsChecked++
		if tmset[a] {
			// label only: the chain is younger than the missed-votes window (blockVotesDiff) or not
			label := "validator"
			if cur.opt != nil && h <= cur.opt.BlockVotesDiff {
				label = "chain-younger-than-votes-window"
			}
			viol("guilty-consequences", "guilty-still-in-validator-set", label,
				"%s was declared guilty in block %d and has not been released, but %d blocks later it is still a member of the Tendermint validator set that results from the validator updates up to block %d (active status record: %v)",
				a, g.Height, h-g.Height, h, cur.active[a])
		}
	}

	// ---- evidence store content is explained by successful transactions of active validators ----------
	for _, id := range sortedReqIDs(cur.reqs) {
		ar := cur.reqs[id]
		m := o.reqs[id]
		if m == nil || m.Accused != ar.MaliciousAddress.String() {
			viol("votes-explained", "unexplained-request", "state",
				"the evidence store holds request %q against %s by %s but no successful ALLEGATION with that id and accused was observed (model: %v)", id, ar.MaliciousAddress, ar.ReporterAddress, m)
			continue
		}
		seen := map[string]bool{}
		for _, v := range ar.Votes {
			if v == nil {
				continue
			}
			va := v.Address.String()
			if seen[va] {
				viol("votes-explained", "voter-recorded-twice", "state", "request %q holds more than one vote of %s: %s", id, va, ar.String())
			}
			seen[va] = true
			mv := m.Votes[va]
			switch {
			case mv == nil:
				viol("votes-explained", "unexplained-vote", "state",
					"request %q holds a vote (choice %d) of %s but no successful ALLEGATION_VOTE signed by that address while it was active was observed; model %s", id, v.Choice, va, m.String())
			case (v.Choice == evidence.YES && !mv.Yes) || (v.Choice == evidence.NO && !mv.No) || (v.Choice != evidence.YES && v.Choice != evidence.NO):
				viol("votes-explained", "unexplained-vote-choice", "state",
					"request %q holds choice %d for %s, the successful votes of that address were yes=%v no=%v", id, v.Choice, va, mv.Yes, mv.No)
			}
		}
	}
	for _, id := range sortedModelIDs(o.reqs) {
		if cur.reqs[id] == nil {
			r := o.reqs[id]
			if d := decl[r.Accused]; d == nil {
				e.Stats.Probes["c19.request_vanished_without_declaration"]++
				if debug {
					fmt.Fprintf(os.Stderr, "C19 h=%d VANISHED %s\n", h, r.String())
				}
			}
			delete(o.reqs, id)
		}
	}
	if debug {
		fmt.Fprintf(os.Stderr, "C19 h=%d t=%s active=%d->%d frozen=%v guilt=%v open=%d decl=%v txs=%s\n", h, now.UTC().Format(time.RFC3339), len(prev.active), len(cur.active),
			sortedKeys(frozen), sortedGuilt(o.guilt), len(o.reqs), accused, txSummary(ob))
	}
	return vs
}

// c19StrictCurrentVoters: the property counts "the yes or no votes of distinct CURRENTLY active
// validators". A vote is always required to come from a validator that was active when it voted; with
// this switch on, a verdict must also stand on the votes of the validators that are still active at
// the verdict (status record of H-1 or of H, whichever helps). Off = the second condition is only
// measured (Probes["c19.departed_voters_decisive"]).
const c19StrictCurrentVoters = true

// c19Current counts the decisive votes of r that come from validators active at H-1 or H and tells
// whether they alone reach one of the bars; gone lists the other voters of that side.
func c19Current(r *c19Req, prev, cur *c19View, bars []c19Bar, guilty bool) (n int, still bool, gone []string) {
	for a, v := range r.Votes {
		if !((guilty && v.Yes) || (!guilty && v.No)) {
			continue
		}
		if prev.active[a] || cur.active[a] {
			n++
		} else {
			gone = append(gone, a)
		}
	}
	sort.Strings(gone)
	for _, b := range bars {
		if b.Required > 0 && ((guilty && b.guilty(n)) || (!guilty && b.innocent(n))) {
			return n, true, gone
		}
	}
	return n, false, gone
}

func c19Rec(l *evidence.LastValidatorHistory) string {
	if l == nil {
		return "none"
	}
	f, r := "nil", "nil"
	if l.FrozenAt != nil {
		f = l.FrozenAt.UTC().Format(time.RFC3339Nano)
	}
	if l.ReleaseAt != nil {
		r = l.ReleaseAt.UTC().Format(time.RFC3339Nano)
	}
	return fmt.Sprintf("{status=%d frozenHeight=%d frozenAt=%s releaseHeight=%d releaseAt=%s}", l.Status, l.FrozenHeight, f, l.ReleaseHeight, r)
}

func getBal(m map[string]map[string]*big.Int, addr string) *big.Int {
	if c, ok := m[addr]; ok {
		if x, ok := c["OLT"]; ok {
			return x
		}
	}
	return new(big.Int)
}

func minInt(a, b int) int {
	if a < b {
		return a
	}
	return b
}

func sortedKeys(m map[string]bool) []string {
	ks := make([]string, 0, len(m))
	for k, v := range m {
		if v {
			ks = append(ks, k)
		}
	}
	sort.Strings(ks)
	return ks
}

func sortedGuilt(m map[string]*c19Guilt) []string {
	ks := make([]string, 0, len(m))
	for k := range m {
		ks = append(ks, k)
	}
	sort.Strings(ks)
	return ks
}

func sortedReqIDs(m map[string]*evidence.AllegationRequest) []string {
	ks := make([]string, 0, len(m))
	for k := range m {
		ks = append(ks, k)
	}
	sort.Strings(ks)
	return ks
}

func sortedModelIDs(m map[string]*c19Req) []string {
	ks := make([]string, 0, len(m))
	for k := range m {
		ks = append(ks, k)
	}
	sort.Strings(ks)
	return ks
}

func (o *c19Oracle) Finish(e *core.Engine) []core.Violation {
	p := e.Stats.Probes
	p["c19.verdicts_guilty"] += o.guiltyChecked
	p["c19.verdicts_innocent"] += o.innocentChecked
	p["c19.rejected_outsider_or_frozen"] += o.rejected
	p["c19.frozen_staking_rejected"] += o.frozenStaking
	p["c19.releases_ok"] += o.releasesOK
	p["c19.releases_early_rejected"] += o.releasesEarly
	p["c19.penalties_checked"] += o.penalties
	p["c19.set_drop_checks"] += o.dropsChecked
	return nil
}

// NonTrivial: at least one verdict was judged against the share AND at least one transaction of an
// account that must not act (non-active / frozen / foreign signer on an allegation or vote, or a staking
// kind naming a frozen validator) was seen and judged.
func (o *c19Oracle) NonTrivial(e *core.Engine) bool {
	return o.guiltyChecked+o.innocentChecked >= 1 && o.rejected+o.frozenStaking >= 1
}

// thinGen lets a generator speak only in a fraction of the blocks.
type thinGen struct {
	g gen.Generator
	p float64
}

func (t thinGen) Name() string { return t.g.Name() }
func (t thinGen) Gen(c *gen.Ctx) []gen.Tx {
	if c.Rng.Float64() >= t.p {
		return nil
	}
	return t.g.Gen(c)
}

// dropKinds removes the transactions of some intent labels from a generator's output.
type dropKinds struct {
	g    gen.Generator
	drop map[string]bool
}

func (d dropKinds) Name() string { return d.g.Name() }
func (d dropKinds) Gen(c *gen.Ctx) []gen.Tx {
	var out []gen.Tx
	for _, t := range d.g.Gen(c) {
		if !d.drop[t.Kind] {
			out = append(out, t)
		}
	}
	return out
}

func c19Pick(rng *rand.Rand, xs ...int64) int64 { return xs[rng.Intn(len(xs))] }

func init() {
	Register(&ClusterProp{
		Id: "C19",
		RuleText: "each run: one real replica, 4-9 genesis validators plus candidates, vote share and allegation share each drawn from {34,50,51,67}%, penalty from {10,30,50}%, release time 0 or 1 day, " +
			"40-70 blocks of the evidence generator (allegations guilty/innocent/split, pairs decided together, slow and held requests, outsiders, inactive and frozen validators alleging and voting, double votes, " +
			"forged ids, early / foreign / repeated releases, staking kinds of frozen validators) mixed with staking, send and a thin governance client; absent signers, clock jumps of 1-3 days. " +
			"The oracle keeps its own request/vote/freeze model from decoded transactions, result codes, verified signers, dumps of H-1/H, header times, EndBlock events and the resulting Tendermint set " +
			"(see the comment at the top of props/c19.go). Non-trivial: >=1 verdict judged against the share and >=1 forbidden actor (outsider, inactive or frozen validator, staking kind of a frozen validator) judged.",
		MakeSetup: func(rng *rand.Rand, tier string, seed uint64) *Setup {
			k := SwarmKnobs(rng)
			k.NumValidators = 4 + rng.Intn(6)
			k.NumWitnesses = rng.Intn(k.NumValidators + 1)
			k.NumCandidates = 1 + rng.Intn(3)
			k.NumUsers = 3 + rng.Intn(3)
			k.Frankenstein = 1
			k.VotePercent = c19Pick(rng, 34, 50, 51, 67)
			k.AllegPercent = c19Pick(rng, 34, 50, 51, 67)
			k.PenaltyPct = c19Pick(rng, 10, 30, 50)
			k.ReleaseTime = int64(rng.Intn(2))
			k.MinVotesReq = int64(1 + rng.Intn(2))
			k.BlockVotesDiff = k.MinVotesReq + int64(3+rng.Intn(4))
			if rng.Intn(8) == 0 {
				k.BlockVotesDiff = k.MinVotesReq + int64(1+rng.Intn(2)) // tight: missed-votes freezing is frequent
			}
			k.MaturityTime = int64(1 + rng.Intn(4))
			su := &Setup{Knobs: k, Sess: gen.NewSession()}
			su.Replicas = append(su.Replicas, core.ReplicaConf{Identity: "x0", Quiet: true, Recent: 10, Every: 100, Cycles: 10, WitnessInitEarly: true})
			// two behaviours of the unchanged tree end a run at the first verdict they touch (an allegation
			// against a non-validator never closes; a frozen reporter may still allege for one block): the
			// client variants that trigger them are kept in a fraction of the runs only, so that most runs
			// go deep. Labels steer generation here, never the verdict.
			drop := map[string]bool{}
			if rng.Intn(6) != 0 {
				drop["ALLEGATION/non-validator"] = true
			}
			if rng.Intn(4) != 0 {
				drop["ALLEGATION/by-frozen"] = true
			}
			for _, g := range gen.ByName("evidence") {
				su.Gens = append(su.Gens, dropKinds{g, drop})
			}
			for _, g := range gen.ByName("staking") {
				su.Gens = append(su.Gens, thinGen{g, 0.5})
			}
			for _, g := range gen.ByName("send") {
				su.Gens = append(su.Gens, thinGen{g, 0.5})
			}
			for _, g := range gen.ByName("gov") {
				su.Gens = append(su.Gens, thinGen{g, 0.15})
			}
			su.Blocks = 40 + rng.Intn(31)
			su.MaxTx = 10
			absent := AbsentHook(0.02)
			jump := 0.04 + 0.12*rng.Float64()
			// in a third of the runs one validator signs unreliably, so that missed-votes freezing meets
			// allegations against the same validator
			flaky := -1
			if rng.Intn(3) == 0 {
				flaky = rng.Intn(16)
			}
			su.PlanHook = func(e *core.Engine, rng *rand.Rand, st *core.Step, gc *gen.Ctx) {
				absent(e, rng, st, gc)
				if vals := e.C.Ref().State.LastValidators; flaky >= 0 && e.C.Height() > 0 && vals != nil && len(vals.Validators) > 2 {
					if rng.Intn(10) < 6 {
						st.Absent = append(st.Absent, vals.Validators[flaky%len(vals.Validators)].Address.String())
					}
				}
				if rng.Float64() < jump {
					// one to three days, so that release times pass
					st.DtMs = int64(24*3600*1000)*int64(1+rng.Intn(3)) + rng.Int63n(3600*1000)
				}
			}
			return su
		},
		MakeOracle: func(e *core.Engine, tr *core.Trace) Oracle { return &c19Oracle{} },
	})
}

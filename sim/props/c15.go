package props

// C15 Cross-chain lock/redeem: threshold-gated, exactly-once mint and refund.
//
// MODEL (TrackerModel) -- built from observations only: the delivered transactions of every block (decoded
// bytes, harness-verified signers, result codes), the tracker / witness records and the balances in the
// state dumps before and after the block.
//
//   tracker incarnation = (external transaction bytes, kind, wrapped currency, amount, owner, witnesses, votes)
//     created by   a successful ETH_LOCK / ERC20_LOCK / ETH_REDEEM / ERC20_REDEEM
//     owner        the account whose signature on that transaction verifies (the submitter)
//     amount       decoded HERE from the embedded Ethereum transaction with go-ethereum's rlp + abi packages:
//                  ETH lock = value of the transaction; ERC20 lock = 2nd argument of transfer(address,uint256)
//                  (currency = the token whose contract is the `to`); ETH redeem = argument of redeem(uint256);
//                  ERC20 redeem = 1st argument of redeem(uint256,address) (currency = token named by the 2nd)
//     witnesses    the list in the tracker record at the end of the creating block (fallback when the record is
//                  never visible: the witness-store records of the previous block, in key order)
//     votes        a successful ETH_REPORT_FINALITY_MINT counts iff its ValidatorAddress verifiably signed it, is
//                  a recorded witness, VoteIndex is that witness's position in the recorded list and the witness
//                  has no counted vote yet. Everything else (non-witnesses, users, wrong / out-of-range index,
//                  second votes, failed transactions) changes nothing.
//     threshold    "more than two thirds": 3*count > 2*len(witnesses)
//
// ORACLES (per block; balances are compared per account and wrapped currency, transfers by successful SEND
// transactions are taken out first):
//   mint-once-after-threshold   every credit that is not a transfer must be the mint of a lock whose yes-count is
//                               over the threshold by the end of this block, not minted before (neither this
//                               tracker nor an earlier tracker for the same Ethereum transaction), in exactly the
//                               decoded amount, to the tracker's owner; or the refund below.
//   redeem-debit-refund         the block that creates a redeem tracker debits the owner by exactly the decoded
//                               amount; a credit back happens once, to the owner, in the decoded amount, only when
//                               the no-count is over the threshold -- and then it has to happen (exactly once):
//                               a redeem whose no-count crossed and that is still not refunded c15RefundPatience
//                               blocks later is reported.
//   one-tracker-per-eth-tx      a lock/redeem must not succeed while an earlier tracker for the same Ethereum
//                               transaction is live (ongoing or succeeded by the model's count); retrying after a
//                               failure (no-count over the threshold) is allowed. This one is *deferred*: the model
//                               follows the new tracker (fresh votes, new owner) so that a consequence (second
//                               mint) gets its own class; the deferred violation is reported together with the
//                               next hard violation or at the end of the run.
//   witness-report-counts       a first, correctly indexed, verifiably signed report of a recorded witness for a
//                               tracker that is in the ongoing store must not be rejected (the complement of
//                               "votes of non-witnesses or repeated votes do not count").
//   supply-counter              balance of the supply address == sum of all other balances, per wrapped currency,
//                               at genesis and after every block.
//
// DON'T CARE: which block-end transition moves a tracker between internal states and when it is archived; the
// tracker State field; the job store; fees (paid in OLT); the order of votes; whether votes are accepted in
// state New / after the decision; what the tracker is named; whether the Locker equals the Ethereum sender;
// the `to` of a redeem transaction; the configured supply cap (TotalSupply) -- the property does not name it
// (blocks with counter > cap are only counted in the probe "c15.supply-above-cap"); whether a lock is ever
// minted (the text says "at most once"); what happens to ERC lock trackers that were voted down.
// A delivered transaction whose bytes were already delivered in an earlier block is skipped (the node answers
// it from its index without executing it; re-execution is C05's subject).
//
// DIAGNOSTIC SWITCHES (environment, never set in normal runs; a replay must be run with the same setting):
//   OLSIM_C15_MUTE=class,class   drop violations of these classes and keep going (to look behind a frequent finding)
//   OLSIM_C15_CAP=1              treat a supply counter rising above the configured cap as a violation
//   OLSIM_C15_SELFTEST=1         compare the stateless WrappedAllowance with the model's allowance (probes only)

import (
	"bytes"
	"crypto/sha256"
	"encoding/hex"
	"fmt"
	"math/big"
	"math/rand"
	"os"
	"sort"
	"strings"

	"github.com/ethereum/go-ethereum/accounts/abi"
	ethcmn "github.com/ethereum/go-ethereum/common"
	ethtypes "github.com/ethereum/go-ethereum/core/types"
	"github.com/ethereum/go-ethereum/rlp"

	"github.com/Oneledger/protocol/action"
	ethact "github.com/Oneledger/protocol/action/eth"
	"github.com/Oneledger/protocol/action/transfer"
	ethchain "github.com/Oneledger/protocol/chains/ethereum"
	"github.com/Oneledger/protocol/data/balance"
	"github.com/Oneledger/protocol/data/chain"
	ethdata "github.com/Oneledger/protocol/data/ethereum"
	"github.com/Oneledger/protocol/data/keys"
	"github.com/Oneledger/protocol/identity"
	"github.com/Oneledger/protocol/serialize"

	"olsim/core"
	"olsim/gen"
)

// c15RefundPatience: the property gives no deadline for the refund of a voted-down redeem; the check waits
// this many blocks after the model's no-count crossed the threshold before it reports a missing refund.
const c15RefundPatience = 5

// C15CheckSupplyCap turns the configured supply cap (ChainDriverOption.TotalSupply / TokTotalSupply) into an
// oracle (class supply-above-cap). Off by default: the property text does not name a cap, the blocks in which
// the counter exceeds it are only counted (probe c15.supply-above-cap). OLSIM_C15_CAP=1 switches it on.
var C15CheckSupplyCap = os.Getenv("OLSIM_C15_CAP") != ""

type c15Kind int8

const (
	c15Lock c15Kind = iota + 1
	c15Redeem
	c15LockERC
	c15RedeemERC
)

func (k c15Kind) isLock() bool { return k == c15Lock || k == c15LockERC }

func (k c15Kind) String() string {
	switch k {
	case c15Lock:
		return "ETH_LOCK"
	case c15Redeem:
		return "ETH_REDEEM"
	case c15LockERC:
		return "ERC20_LOCK"
	case c15RedeemERC:
		return "ERC20_REDEEM"
	}
	return "?"
}

// ModelTracker is one tracker incarnation of the model.
type ModelTracker struct {
	Name      string // hex of the 32-byte name the votes refer to
	Raw       []byte // the external (Ethereum) transaction
	Kind      c15Kind
	Cur       string   // wrapped currency
	Owner     string   // textual address of the submitter ("" = unknown: any recipient accepted)
	Amount    *big.Int // decoded by the harness
	Witnesses []string
	Votes     map[string]int8 // witness -> 1 yes / 2 no (first counted vote)
	BornH     int64
	YesH, NoH int64 // block in which the model's count first exceeded the threshold (0: never)
	Minted    bool
	Refunded  bool
	ReplacedH int64
	Replaced  bool   // a later successful submission took this tracker's place (deferred violation recorded)
	Label     string // intent label (or kind) of the creating transaction: signatures and messages only
	overdue   bool
}

func (t *ModelTracker) counts() (yes, no int) {
	for _, v := range t.Votes {
		if v == 1 {
			yes++
		} else if v == 2 {
			no++
		}
	}
	return
}

func (t *ModelTracker) over(count int) bool {
	return len(t.Witnesses) > 0 && 3*count > 2*len(t.Witnesses)
}

func (t *ModelTracker) yesOver() bool { y, _ := t.counts(); return t.over(y) }
func (t *ModelTracker) noOver() bool  { _, n := t.counts(); return t.over(n) }

func (t *ModelTracker) pos(w string) int {
	for i, x := range t.Witnesses {
		if x == w {
			return i
		}
	}
	return -1
}

func (t *ModelTracker) String() string {
	y, n := t.counts()
	return fmt.Sprintf("%s %s… amount=%s %s owner=%s born=%d model-votes yes=%d no=%d of %d witnesses minted=%v refunded=%v",
		t.Kind, clipS(t.Name, 12), t.Amount, t.Cur, t.Owner, t.BornH, y, n, len(t.Witnesses), t.Minted, t.Refunded)
}

// c15Vote is one report seen in the current block (diagnosis only).
type c15Vote struct {
	name, voter, locker  string
	success, ok, counted bool
	index                int64
	label                string
}

// TrackerModel is the reusable C15 reference model: NewTrackerModel at boot, Update after every block.
type TrackerModel struct {
	opt        ethchain.ChainDriverOption
	SupplyAddr string
	Wrapped    []string // wrapped currencies, sorted
	abiEth     *abi.ABI
	abiErc     *abi.ABI
	tokAbi     map[ethcmn.Address]*abi.ABI
	tokName    map[ethcmn.Address]string

	byName   map[string]*ModelTracker // current incarnation per tracker name
	all      []*ModelTracker
	mintsRaw map[string]int  // hex(raw eth tx) -> mints attributed so far
	seenTx   map[string]bool // sha256 of transaction bytes delivered in earlier blocks
	H        int64
	allow    map[string]*big.Int
	done     map[string]*big.Int // legitimate mints + refunds attributed in the last block, per currency
	blkVotes []c15Vote

	// Pending holds deferred violations (one-tracker-per-eth-tx): reported with the next hard violation or at the end.
	Pending []core.Violation

	muted     map[string]bool // diagnostic switch OLSIM_C15_MUTE=class,class: drop these classes (to look behind a frequent finding)
	MutedHits map[string]int

	// statistics
	Created, CrossedYes, CrossedNo, Mints, Refunds, VotesCounted, VotesIgnored, DupSkipped, Transfers, OpaqueBlocks int
}

// NewTrackerModel builds an empty model for the world's chain-driver options.
func NewTrackerModel(w *core.World) *TrackerModel {
	m := &TrackerModel{opt: w.EthOpt, byName: map[string]*ModelTracker{}, mintsRaw: map[string]int{}, seenTx: map[string]bool{},
		allow: map[string]*big.Int{}, tokAbi: map[ethcmn.Address]*abi.ABI{}, tokName: map[ethcmn.Address]string{}}
	m.SupplyAddr = keys.Address(w.EthOpt.TotalSupplyAddr).String()
	m.muted, m.MutedHits = map[string]bool{}, map[string]int{}
	for _, c := range strings.Split(os.Getenv("OLSIM_C15_MUTE"), ",") {
		if c != "" {
			m.muted[c] = true
		}
	}
	parse := func(src, what string) *abi.ABI {
		a, err := abi.JSON(strings.NewReader(src))
		if err != nil {
			panic(core.HarnessError{Msg: "C15: cannot parse " + what + " ABI of the chain driver options: " + err.Error()})
		}
		return &a
	}
	m.abiEth = parse(w.EthOpt.ContractABI, "lock contract")
	m.abiErc = parse(w.EthOpt.ERCContractABI, "ERC lock contract")
	cs := map[string]bool{"ETH": true}
	for _, tok := range w.EthOpt.TokenList {
		m.tokAbi[tok.TokAddr] = parse(tok.TokAbi, "token "+tok.TokName)
		m.tokName[tok.TokAddr] = tok.TokName
		cs[tok.TokName] = true
	}
	for c := range cs {
		m.Wrapped = append(m.Wrapped, c)
	}
	sort.Strings(m.Wrapped)
	return m
}

func (m *TrackerModel) isWrapped(cur string) bool {
	for _, c := range m.Wrapped {
		if c == cur {
			return true
		}
	}
	return false
}

// Allowance is the sum of the amounts of the locks that may legitimately be minted and of the redeems that
// may legitimately be refunded in the last updated block, for one wrapped currency, by the model's own count.
func (m *TrackerModel) Allowance(cur string) *big.Int {
	if x, ok := m.allow[cur]; ok {
		return new(big.Int).Set(x)
	}
	return new(big.Int)
}

// Trackers returns all incarnations in creation order (read-only use).
func (m *TrackerModel) Trackers() []*ModelTracker { return m.all }

// ---- the harness's own decoder of embedded Ethereum transactions ------------------------------------------

func c15DecodeEthTx(raw []byte) (*ethtypes.Transaction, error) {
	tx := new(ethtypes.Transaction)
	if err := rlp.DecodeBytes(raw, tx); err != nil {
		tx2 := new(ethtypes.Transaction)
		if err2 := tx2.UnmarshalBinary(raw); err2 != nil {
			return nil, err
		}
		return tx2, nil
	}
	return tx, nil
}

func c15Args(a *abi.ABI, method string, data []byte) ([]interface{}, error) {
	mt, ok := a.Methods[method]
	if !ok {
		return nil, fmt.Errorf("method %s not in ABI", method)
	}
	if len(data) < 4 || !bytes.Equal(data[:4], mt.ID) {
		return nil, fmt.Errorf("call data does not start with the selector of %s", mt.Sig)
	}
	return mt.Inputs.Unpack(data[4:])
}

// decode returns the wrapped currency and the amount an embedded Ethereum transaction stands for.
func (m *TrackerModel) decode(kind c15Kind, raw []byte) (string, *big.Int, error) {
	tx, err := c15DecodeEthTx(raw)
	if err != nil {
		return "", nil, fmt.Errorf("not an Ethereum transaction: %v", err)
	}
	big0 := func(v interface{}) (*big.Int, error) {
		x, ok := v.(*big.Int)
		if !ok || x == nil {
			return nil, fmt.Errorf("argument is not a uint256")
		}
		return new(big.Int).Set(x), nil
	}
	switch kind {
	case c15Lock:
		return "ETH", new(big.Int).Set(tx.Value()), nil
	case c15LockERC:
		if tx.To() == nil {
			return "", nil, fmt.Errorf("contract creation, no token")
		}
		ta, ok := m.tokAbi[*tx.To()]
		if !ok {
			return "", nil, fmt.Errorf("`to` %s is not a listed token", tx.To().Hex())
		}
		args, err := c15Args(ta, "transfer", tx.Data())
		if err != nil || len(args) != 2 {
			return "", nil, fmt.Errorf("not a transfer(address,uint256) call: %v", err)
		}
		amt, err := big0(args[1])
		return m.tokName[*tx.To()], amt, err
	case c15Redeem:
		args, err := c15Args(m.abiEth, "redeem", tx.Data())
		if err != nil || len(args) != 1 {
			return "", nil, fmt.Errorf("not a redeem(uint256) call: %v", err)
		}
		amt, err := big0(args[0])
		return "ETH", amt, err
	case c15RedeemERC:
		args, err := c15Args(m.abiErc, "redeem", tx.Data())
		if err != nil || len(args) != 2 {
			return "", nil, fmt.Errorf("not a redeem(uint256,address) call: %v", err)
		}
		tok, ok := args[1].(ethcmn.Address)
		if !ok {
			return "", nil, fmt.Errorf("second redeem argument is not an address")
		}
		name, ok := m.tokName[tok]
		if !ok {
			return "", nil, fmt.Errorf("token %s is not listed", tok.Hex())
		}
		amt, err := big0(args[0])
		return name, amt, err
	}
	return "", nil, fmt.Errorf("unknown kind")
}

// ---- reading records ----------------------------------------------------------------------------------

func c15Record(dump map[string][]byte, prefix string, nameHex string) *ethdata.Tracker {
	nb, err := hex.DecodeString(nameHex)
	if err != nil {
		return nil
	}
	v, ok := dump[prefix+string(nb)]
	if !ok {
		return nil
	}
	t := &ethdata.Tracker{}
	if err := serialize.GetSerializer(serialize.PERSISTENT).Deserialize(v, t); err != nil {
		panic(core.HarnessError{Msg: fmt.Sprintf("C15: cannot decode tracker record %s%s: %v", prefix, nameHex, err)})
	}
	return t
}

func c15RecordStr(ob *Obs, nameHex string) string {
	var parts []string
	for _, d := range []struct {
		n string
		m map[string][]byte
	}{{"before", ob.PrevDump}, {"after", ob.CurDump}} {
		for _, p := range []string{"etht_", "ethsuccess_", "ethfailed_"} {
			if r := c15Record(d.m, p, nameHex); r != nil {
				if p == "etht_" {
					parts = append(parts, fmt.Sprintf("%s: %s{type=%s state=%s owner=%s votes=%v}", d.n, p, r.Type, r.State, r.ProcessOwner, r.FinalityVotes))
				} else {
					parts = append(parts, fmt.Sprintf("%s: %s{state=%s}", d.n, p, r.State))
				}
			}
		}
	}
	if len(parts) == 0 {
		return "no repository record before or after the block"
	}
	return strings.Join(parts, "; ")
}

func c15AddrStrings(as []keys.Address) []string {
	out := make([]string, 0, len(as))
	for _, a := range as {
		out = append(out, a.String())
	}
	return out
}

// c15StoreWitnesses lists the Ethereum witnesses of a dump in key order.
func c15StoreWitnesses(dump map[string][]byte) []string {
	prefix := "w_" + chain.ETHEREUM.String() + "_"
	var ks []string
	for k := range dump {
		if strings.HasPrefix(k, prefix) {
			ks = append(ks, k)
		}
	}
	sort.Strings(ks)
	var out []string
	for _, k := range ks {
		w, err := (&identity.Witness{}).FromBytes(dump[k])
		if err != nil || w == nil {
			panic(core.HarnessError{Msg: fmt.Sprintf("C15: cannot decode witness record %q: %v", k, err)})
		}
		out = append(out, w.Address.String())
	}
	return out
}

func c15HasAddr(as []keys.Address, a keys.Address) bool {
	for _, x := range as {
		if x.Equal(a) {
			return true
		}
	}
	return false
}

// ---- per-block update ---------------------------------------------------------------------------------

type c15Delta map[string]*big.Int // account -> signed amount

func (d c15Delta) add(a string, x *big.Int) {
	if d[a] == nil {
		d[a] = new(big.Int)
	}
	d[a].Add(d[a], x)
}

func (m *TrackerModel) mk(oracle, class string, ob *Obs, labels string, msg string) core.Violation {
	if m.muted[class] {
		m.MutedHits[class]++
		return core.Violation{}
	}
	return core.Violation{Property: "C15", Oracle: oracle, Sig: class + ":" + labels, Msg: fmt.Sprintf("block %d: %s", ob.H, msg)}
}

// c15JoinLabels builds the label part of a signature from the intent labels of the culprit transactions:
// the adversarial / special ones (containing '/') if there are any, otherwise all of them ("honest:...").
func c15JoinLabels(labels ...string) string {
	set := map[string]bool{}
	adv := false
	for _, l := range labels {
		if l == "" {
			continue
		}
		set[l] = true
		if strings.Contains(l, "/") {
			adv = true
		}
	}
	var ks []string
	for k := range set {
		if adv && !strings.Contains(k, "/") {
			continue
		}
		ks = append(ks, k)
	}
	sort.Strings(ks)
	if len(ks) == 0 {
		return "none"
	}
	if len(ks) > 4 {
		ks = append(ks[:4], "more")
	}
	if !adv {
		return "honest:" + strings.Join(ks, "+")
	}
	return strings.Join(ks, "+")
}

func c15TxLabel(t *ObsTx) string {
	if t.Label != "" {
		return t.Label
	}
	if t.Tx != nil {
		return t.Tx.Type.String()
	}
	return "UNPARSEABLE"
}

// culprits: labels of the reports of this block counted for tracker t -- those naming `credited` as Locker if any --
// or, when no report of this block is involved, the label of the transaction that created the tracker.
func (m *TrackerModel) culprits(t *ModelTracker, credited string, withCreation bool) string {
	var named, all []string
	for _, v := range m.blkVotes {
		if v.name != t.Name || !v.counted {
			continue
		}
		all = append(all, v.label)
		if v.locker == credited && credited != t.Owner {
			named = append(named, v.label)
		}
	}
	if len(named) > 0 {
		all = named
	}
	if withCreation || len(all) == 0 {
		all = append(all, t.Label)
	}
	return c15JoinLabels(all...)
}

// Seed fills the model from the ongoing tracker records of a dump, TRUSTING the recorded votes and states. Only
// the stateless WrappedAllowance uses it; the C15 oracle never does.
func (m *TrackerModel) Seed(dump map[string][]byte) {
	var ks []string
	for k := range dump {
		if strings.HasPrefix(k, "etht_") {
			ks = append(ks, k)
		}
	}
	sort.Strings(ks)
	for _, k := range ks {
		nameHex := hex.EncodeToString([]byte(k[len("etht_"):]))
		r := c15Record(dump, "etht_", nameHex)
		if r == nil {
			continue
		}
		var kind c15Kind
		switch r.Type {
		case ethdata.ProcessTypeLock:
			kind = c15Lock
		case ethdata.ProcessTypeRedeem:
			kind = c15Redeem
		case ethdata.ProcessTypeLockERC:
			kind = c15LockERC
		case ethdata.ProcessTypeRedeemERC:
			kind = c15RedeemERC
		default:
			continue
		}
		cur, amt, err := m.decode(kind, r.SignedETHTx)
		if err != nil {
			continue
		}
		t := &ModelTracker{Name: nameHex, Raw: r.SignedETHTx, Kind: kind, Cur: cur, Amount: amt, Owner: r.ProcessOwner.String(),
			Witnesses: c15AddrStrings(r.Witnesses), Votes: map[string]int8{}}
		for i, v := range r.FinalityVotes {
			if i < len(t.Witnesses) && (v == 1 || v == 2) {
				t.Votes[t.Witnesses[i]] = int8(v)
			}
		}
		if t.yesOver() {
			t.YesH = -1
			t.Minted = kind.isLock() // trusted: the repository decides in the crossing transaction
		}
		if t.noOver() {
			t.NoH = -1
			t.Refunded = !kind.isLock()
		}
		m.byName[nameHex] = t
		m.all = append(m.all, t)
	}
}

// Update advances the model over the block in ob and returns the hard violations found in it. e may be nil
// (no statistics are recorded then).
func (m *TrackerModel) Update(ob *Obs, e *core.Engine) []core.Violation {
	if ob.Prev == nil || ob.Cur == nil {
		panic(core.HarnessError{Msg: "C15: TrackerModel.Update needs the ledger before and after the block"})
	}
	var vs []core.Violation
	add := func(v core.Violation) {
		if v.Property != "" { // (a muted class comes back empty)
			vs = append(vs, v)
		}
	}
	m.H = ob.H
	m.blkVotes = nil
	m.done = map[string]*big.Int{}
	probe := func(name string) {
		if e != nil && e.Stats != nil {
			e.Stats.Probes["c15."+name]++
		}
	}
	storeWitnesses := c15StoreWitnesses(ob.PrevDump)
	// trackers the repository holds in its ongoing store at this point of the block
	ongoingNow := map[string]bool{}
	for k := range ob.PrevDump {
		if strings.HasPrefix(k, "etht_") {
			ongoingNow[hex.EncodeToString([]byte(k[len("etht_"):]))] = true
		}
	}
	transfers := map[string]c15Delta{}       // currency -> account -> signed amount (certain)
	debits := map[string]c15Delta{}          // currency -> account -> -amount of redeems created in this block
	redeemBy := map[string][]*ModelTracker{} // account -> redeems created in this block
	for _, c := range m.Wrapped {
		transfers[c], debits[c] = c15Delta{}, c15Delta{}
	}
	opaque := false
	var thisBlock []string

	for _, t := range ob.Txs {
		sum := sha256.Sum256(t.Bytes)
		key := string(sum[:])
		if m.seenTx[key] {
			m.DupSkipped++
			continue
		}
		thisBlock = append(thisBlock, key)
		if t.Tx == nil {
			continue
		}
		ok := t.Res.Code == 0
		switch t.Tx.Type {
		case action.SEND:
			if !ok {
				continue
			}
			s := &transfer.Send{}
			if err := s.Unmarshal(t.Tx.Data); err != nil {
				opaque = true
				continue
			}
			if !m.isWrapped(s.Amount.Currency) {
				continue
			}
			x := s.Amount.Value.BigInt()
			if x == nil || x.Sign() < 0 {
				opaque = true
				continue
			}
			transfers[s.Amount.Currency].add(keys.Address(s.From).String(), new(big.Int).Neg(x))
			transfers[s.Amount.Currency].add(keys.Address(s.To).String(), x)
			m.Transfers++
		case action.ETH_LOCK, action.ERC20_LOCK, action.ETH_REDEEM, action.ERC20_REDEEM:
			if !ok {
				continue
			}
			var kind c15Kind
			var named keys.Address
			var raw []byte
			var derr error
			switch t.Tx.Type {
			case action.ETH_LOCK:
				v := &ethact.Lock{}
				derr = v.Unmarshal(t.Tx.Data)
				kind, named, raw = c15Lock, keys.Address(v.Locker), v.ETHTxn
			case action.ERC20_LOCK:
				v := &ethact.ERC20Lock{}
				derr = v.Unmarshal(t.Tx.Data)
				kind, named, raw = c15LockERC, keys.Address(v.Locker), v.ETHTxn
			case action.ETH_REDEEM:
				v := &ethact.Redeem{}
				derr = v.Unmarshal(t.Tx.Data)
				kind, named, raw = c15Redeem, keys.Address(v.Owner), v.ETHTxn
			case action.ERC20_REDEEM:
				v := &ethact.ERC20Redeem{}
				derr = v.Unmarshal(t.Tx.Data)
				kind, named, raw = c15RedeemERC, keys.Address(v.Owner), v.ETHTxn
			}
			if derr != nil {
				panic(core.HarnessError{Msg: "C15: successful " + t.Tx.Type.String() + " whose payload does not decode: " + derr.Error()})
			}
			nameHex := hex.EncodeToString(ethcmn.BytesToHash(raw).Bytes())
			owner := ""
			switch {
			case c15HasAddr(t.Signers, named):
				owner = named.String()
			case len(t.Signers) > 0:
				owner = t.Signers[0].String()
			}
			cur, amt, err := m.decode(kind, raw)
			if err != nil {
				add(m.mk("one-tracker-per-eth-tx", "tracker-for-undecodable-eth-tx", ob, c15JoinLabels(c15TxLabel(t)),
					fmt.Sprintf("%s by %s succeeded and created tracker %s, but the embedded bytes are not an Ethereum transaction carrying the call this kind stands for (harness decoder: %v); no amount is defined for it. raw=%x",
						kind, owner, nameHex, err, c15ClipB(raw, 200))))
				opaque = true
				ongoingNow[nameHex] = true
				continue
			}
			nt := &ModelTracker{Name: nameHex, Raw: raw, Kind: kind, Cur: cur, Owner: owner, Amount: amt, BornH: ob.H, Votes: map[string]int8{}, Label: c15TxLabel(t)}
			switch {
			case c15Record(ob.CurDump, "etht_", nameHex) != nil:
				nt.Witnesses = c15AddrStrings(c15Record(ob.CurDump, "etht_", nameHex).Witnesses)
			case c15Record(ob.PrevDump, "etht_", nameHex) != nil:
				nt.Witnesses = c15AddrStrings(c15Record(ob.PrevDump, "etht_", nameHex).Witnesses)
			default:
				nt.Witnesses = append([]string(nil), storeWitnesses...)
			}
			if prev := m.byName[nameHex]; prev != nil && bytes.Equal(prev.Raw, raw) {
				failed := prev.noOver()
				if !failed {
					state := "is still ongoing"
					class := "second-tracker-while-ongoing"
					if prev.Minted || prev.yesOver() {
						state = "has succeeded"
						class = "second-tracker-after-success"
					}
					prev.Replaced, prev.ReplacedH = true, ob.H
					if v := m.mk("one-tracker-per-eth-tx", class, ob, c15JoinLabels(c15TxLabel(t)),
						fmt.Sprintf("%s by %s succeeded for an Ethereum transaction that already backs a tracker which %s by the model's count: earlier [%s]; expected: rejected (only a failed lock/redeem may be retried). repository records: %s",
							kind, owner, state, prev, c15RecordStr(ob, nameHex))); v.Property != "" {
						m.Pending = append(m.Pending, v)
					}
				} else {
					prev.Replaced, prev.ReplacedH = true, ob.H // legitimate retry after a failure
				}
			}
			m.byName[nameHex] = nt
			m.all = append(m.all, nt)
			m.Created++
			ongoingNow[nameHex] = true
			if !kind.isLock() {
				debits[cur].add(owner, new(big.Int).Neg(amt))
				redeemBy[owner] = append(redeemBy[owner], nt)
			}
		case action.ETH_REPORT_FINALITY_MINT:
			f := &ethact.ReportFinality{}
			if err := f.Unmarshal(t.Tx.Data); err != nil {
				if ok {
					panic(core.HarnessError{Msg: "C15: successful finality report whose payload does not decode: " + err.Error()})
				}
				continue
			}
			nameHex := hex.EncodeToString(f.TrackerName.Bytes())
			voter := ""
			if c15HasAddr(t.Signers, keys.Address(f.ValidatorAddress)) {
				voter = keys.Address(f.ValidatorAddress).String()
			}
			bv := c15Vote{name: nameHex, voter: voter, locker: keys.Address(f.Locker).String(), success: f.Success, ok: ok, index: f.VoteIndex, label: c15TxLabel(t)}
			tr := m.byName[nameHex]
			proper := false
			if tr != nil && voter != "" {
				p := tr.pos(voter)
				proper = p >= 0 && f.VoteIndex == int64(p) && tr.Votes[voter] == 0
			}
			switch {
			case ok && proper:
				if f.Success {
					tr.Votes[voter] = 1
				} else {
					tr.Votes[voter] = 2
				}
				bv.counted = true
				m.VotesCounted++
				if y, n := tr.counts(); tr.YesH == 0 && tr.over(y) {
					tr.YesH = ob.H
					m.CrossedYes++
					probe("crossed-yes")
				} else if tr.NoH == 0 && tr.over(n) {
					tr.NoH = ob.H
					m.CrossedNo++
					probe("crossed-no")
				}
			case ok:
				m.VotesIgnored++
				probe("votes-ignored")
			case proper && ongoingNow[nameHex]:
				y, n := tr.counts()
				// the signature carries the tracker kind: the report itself is an ordinary honest one
				add(m.mk("witness-report-counts", "witness-report-rejected", ob, tr.Kind.String(),
					fmt.Sprintf("finality report (success=%v, index %d) signed by recorded witness %s, its first for tracker [%s] which is in the ongoing store, was rejected: code %d log %q; expected: counted (model count before it: yes=%d no=%d of %d). repository records: %s",
						f.Success, f.VoteIndex, voter, tr, t.Res.Code, clipS(t.Res.Log, 160), y, n, len(tr.Witnesses), c15RecordStr(ob, nameHex))))
			}
			m.blkVotes = append(m.blkVotes, bv)
		default:
			if ok {
				opaque = true // a kind this model does not know could move wrapped tokens: balances are not judged
			}
		}
	}
	for _, k := range thisBlock {
		m.seenTx[k] = true
	}
	if opaque {
		m.OpaqueBlocks++
	}

	// balances
	for _, cur := range m.Wrapped {
		for _, v := range m.attribute(ob, cur, transfers[cur], debits[cur], redeemBy, opaque) {
			add(v)
		}
	}

	// exactly once: a voted-down redeem has to be refunded
	for _, t := range m.all {
		if t.Kind.isLock() || t.Replaced || t.Refunded || t.overdue || t.NoH <= 0 || t.Amount.Sign() == 0 {
			continue
		}
		if ob.H-t.NoH >= c15RefundPatience {
			t.overdue = true
			// the signature carries the kind (not the block's labels) so that ETH and ERC20 redeems are separate findings
			add(m.mk("redeem-debit-refund", "refund-missing", ob, t.Kind.String(),
				fmt.Sprintf("redeem [%s]: the model's no-count exceeded two thirds of the recorded witnesses in block %d, %d blocks later the owner has not been credited back %s %s; expected: refunded exactly once. repository records: %s",
					t, t.NoH, ob.H-t.NoH, t.Amount, t.Cur, c15RecordStr(ob, t.Name))))
		}
	}

	// supply counter == tokens in circulation
	for _, cur := range m.Wrapped {
		if v := m.supplyCheck(ob, cur); v != nil {
			add(*v)
		}
		cap := new(big.Int)
		capS := m.opt.TotalSupply
		for _, tok := range m.opt.TokenList {
			if tok.TokName == cur {
				capS = tok.TokTotalSupply
			}
		}
		if _, ok := cap.SetString(capS, 10); ok && c15Bal(ob.Cur.Bal, m.SupplyAddr, cur).Cmp(cap) > 0 {
			probe("supply-above-cap")
			if C15CheckSupplyCap && c15Bal(ob.Cur.Bal, m.SupplyAddr, cur).Cmp(c15Bal(ob.Prev.Bal, m.SupplyAddr, cur)) > 0 {
				add(m.mk("supply-counter", "supply-above-cap", ob, ob.SuspectSig(),
					fmt.Sprintf("supply counter of %s rose from %s to %s, above the configured total supply %s; txs: %s", cur, c15Bal(ob.Prev.Bal, m.SupplyAddr, cur), c15Bal(ob.Cur.Bal, m.SupplyAddr, cur), cap, txSummary(ob))))
			}
		}
	}
	return vs
}

func c15Bal(b map[string]map[string]*big.Int, a, cur string) *big.Int {
	if m, ok := b[a]; ok {
		if x, ok := m[cur]; ok {
			return x
		}
	}
	return new(big.Int)
}

func (m *TrackerModel) supplyCheck(ob *Obs, cur string) *core.Violation {
	total := new(big.Int)
	for a, bal := range ob.Cur.Bal {
		if a == m.SupplyAddr {
			continue
		}
		if x, ok := bal[cur]; ok {
			total.Add(total, x)
		}
	}
	counter := c15Bal(ob.Cur.Bal, m.SupplyAddr, cur)
	if counter.Cmp(total) == 0 {
		return nil
	}
	v := m.mk("supply-counter", "supply-counter-mismatch", ob, ob.SuspectSig(),
		fmt.Sprintf("supply counter of %s (balance of %s) is %s, the sum of all other %s balances is %s (difference %s); before the block counter=%s; txs: %s",
			cur, m.SupplyAddr, counter, cur, total, new(big.Int).Sub(counter, total), c15Bal(ob.Prev.Bal, m.SupplyAddr, cur), txSummary(ob)))
	if v.Property == "" {
		return nil
	}
	return &v
}

type c15Cand struct {
	t      *ModelTracker
	refund bool
	used   bool
}

func (c *c15Cand) what() string {
	if c.refund {
		return "refund"
	}
	return "mint"
}

// subset finds a subset of the unused candidates in cs summing to target (nil if none; empty slice for 0).
func c15Subset(cs []*c15Cand, target *big.Int) []*c15Cand {
	var free []*c15Cand
	for _, c := range cs {
		if !c.used {
			free = append(free, c)
		}
	}
	if len(free) > 14 {
		free = free[:14]
	}
	for mask := 0; mask < 1<<uint(len(free)); mask++ {
		s := new(big.Int)
		for i, c := range free {
			if mask&(1<<uint(i)) != 0 {
				s.Add(s, c.t.Amount)
			}
		}
		if s.Cmp(target) == 0 {
			out := []*c15Cand{}
			for i, c := range free {
				if mask&(1<<uint(i)) != 0 {
					out = append(out, c)
				}
			}
			return out
		}
	}
	return nil
}

func (m *TrackerModel) votesStr(name string) string {
	var parts []string
	for _, v := range m.blkVotes {
		if v.name != name {
			continue
		}
		parts = append(parts, fmt.Sprintf("{voter=%s index=%d success=%v Locker=%s code-ok=%v counted=%v %s}", v.voter, v.index, v.success, v.locker, v.ok, v.counted, v.label))
	}
	if len(parts) == 0 {
		return "none"
	}
	return strings.Join(parts, " ")
}

// eligible tells whether a mint (lock) / refund (redeem) of t is legitimate in block h by the model's count.
func (m *TrackerModel) eligible(t *ModelTracker, h int64) bool {
	if t.Amount.Sign() <= 0 || (t.Replaced && t.ReplacedH != h) {
		return false // (a tracker replaced in this very block may have been decided before it was replaced)
	}
	if t.Kind.isLock() {
		return !t.Minted && m.mintsRaw[hex.EncodeToString(t.Raw)] == 0 && t.yesOver()
	}
	return !t.Refunded && t.noOver()
}

// attribute explains the balance changes of one wrapped currency over the block.
func (m *TrackerModel) attribute(ob *Obs, cur string, transfers, debits c15Delta, redeemBy map[string][]*ModelTracker, opaque bool) []core.Violation {
	// legitimate events by the model's count (at most one mint per Ethereum transaction)
	var legit []*c15Cand
	allow := new(big.Int)
	rawSeen := map[string]bool{}
	for _, t := range m.all {
		if t.Cur != cur || !m.eligible(t, ob.H) {
			continue
		}
		if t.Kind.isLock() {
			if rawSeen[string(t.Raw)] {
				continue
			}
			rawSeen[string(t.Raw)] = true
		}
		legit = append(legit, &c15Cand{t: t, refund: !t.Kind.isLock()})
		allow.Add(allow, t.Amount)
	}
	m.allow[cur] = allow

	accts := map[string]bool{}
	for a, b := range ob.Prev.Bal {
		if _, ok := b[cur]; ok {
			accts[a] = true
		}
	}
	for a, b := range ob.Cur.Bal {
		if _, ok := b[cur]; ok {
			accts[a] = true
		}
	}
	for a := range transfers {
		accts[a] = true
	}
	for a := range debits {
		accts[a] = true
	}
	delete(accts, m.SupplyAddr)
	al := make([]string, 0, len(accts))
	for a := range accts {
		al = append(al, a)
	}
	sort.Strings(al)

	type anomaly struct {
		a                  string
		res, observed, exp *big.Int
	}
	ownOf := func(a string) []*c15Cand {
		var mine []*c15Cand
		for _, c := range legit {
			if c.t.Owner == a || c.t.Owner == "" {
				mine = append(mine, c)
			}
		}
		return mine
	}
	var anomalies []anomaly
	for _, a := range al {
		observed := new(big.Int).Sub(c15Bal(ob.Cur.Bal, a, cur), c15Bal(ob.Prev.Bal, a, cur))
		exp := new(big.Int)
		if x := transfers[a]; x != nil {
			exp.Add(exp, x)
		}
		if x := debits[a]; x != nil {
			exp.Add(exp, x)
		}
		res := new(big.Int).Sub(observed, exp)
		if res.Sign() == 0 {
			continue
		}
		if res.Sign() > 0 {
			if sub := c15Subset(ownOf(a), res); sub != nil {
				for _, c := range sub {
					m.markDone(c)
				}
				continue
			}
		}
		anomalies = append(anomalies, anomaly{a, res, observed, exp})
	}
	if opaque || len(anomalies) == 0 {
		return nil
	}

	var vs []core.Violation
	for _, an := range anomalies {
		a, res := an.a, an.res
		mine := ownOf(a)
		// fits: res == x + (a subset of this account's own unused legitimate events)
		fits := func(x *big.Int) []*c15Cand {
			rest := new(big.Int).Sub(res, x)
			if rest.Sign() < 0 {
				return nil
			}
			return c15Subset(mine, rest)
		}
		head := fmt.Sprintf("%s balance of %s changed by %s (%s -> %s); transfers and redeem debits of this block explain %s, unexplained %s",
			cur, a, an.observed, c15Bal(ob.Prev.Bal, a, cur), c15Bal(ob.Cur.Bal, a, cur), an.exp, res)
		report := func(oracle, class string, t *ModelTracker, why string) {
			labels := ob.SuspectSig()
			detail := ""
			if t != nil {
				switch {
				case strings.HasPrefix(class, "redeem-"):
					labels = c15JoinLabels(t.Label)
				case strings.HasPrefix(class, "double-") && m.firstOfRaw(t) != t:
					labels = c15JoinLabels(t.Label) // the resubmission that created the second tracker
				default:
					labels = m.culprits(t, a, false)
				}
				detail = fmt.Sprintf(" tracker [%s] created by %s; reports in this block: %s; repository records: %s", t, t.Label, m.votesStr(t.Name), c15RecordStr(ob, t.Name))
			}
			if v := m.mk(oracle, class, ob, labels, head+". "+why+detail); v.Property != "" {
				vs = append(vs, v)
			}
		}
		done := false
		if res.Sign() > 0 {
			// 1. legitimate event(s) of other accounts credited to this one
			if sub := c15Subset(legit, res); sub != nil {
				for _, c := range sub {
					if c.t.Owner == a || c.t.Owner == "" || done {
						continue
					}
					class, oracle := "mint-to-wrong-account", "mint-once-after-threshold"
					if c.refund {
						class, oracle = "refund-to-wrong-account", "redeem-debit-refund"
					}
					report(oracle, class, c.t, fmt.Sprintf("The %s of %s %s is due by the model's count, but it was credited to %s instead of the account that submitted the transaction (%s).", c.what(), c.t.Amount, cur, a, c.t.Owner))
					done = true
				}
				for _, c := range sub {
					m.markDone(c)
				}
			}
			// Trackers of equal amounts make 2 and 3 ambiguous: the trackers that were touched in this block
			// (created, or a report counted) are tried first, all others after them.
			active := map[*ModelTracker]bool{}
			for _, t := range m.all {
				if t.BornH == ob.H {
					active[t] = true
				}
			}
			for _, v := range m.blkVotes {
				if t := m.byName[v.name]; t != nil && v.counted {
					active[t] = true
				}
			}
			for pass := 0; pass < 2 && !done; pass++ {
				// 2. second mint / refund (newest tracker first: it is the one the repository holds)
				for i := len(m.all) - 1; i >= 0 && !done; i-- {
					t := m.all[i]
					if t.Cur != cur || t.Amount.Sign() <= 0 || (t.Replaced && t.ReplacedH != ob.H) || (pass == 0 && !active[t]) {
						continue
					}
					usedNow := false
					for _, c := range legit {
						if c.t == t && c.used {
							usedNow = true
						}
					}
					before := m.mintsRaw[hex.EncodeToString(t.Raw)]
					if t.Kind.isLock() && (t.Minted || usedNow || (before > 0 && t.yesOver()) || m.eligible(t, ob.H)) {
						if sub := fits(t.Amount); sub != nil {
							for _, s := range sub {
								m.markDone(s)
							}
							t.Minted = true
							m.mintsRaw[hex.EncodeToString(t.Raw)]++
							report("mint-once-after-threshold", "double-mint-same-eth-tx", t, fmt.Sprintf("The Ethereum transaction of this lock has already been minted (%d mint(s) attributed before this credit, the first tracker for it was created in block %d); %s is credited another %s %s.", before, m.firstOfRaw(t).BornH, a, t.Amount, cur))
							done = true
						}
					}
					if !done && !t.Kind.isLock() && (t.Refunded || usedNow || m.eligible(t, ob.H)) {
						if sub := fits(t.Amount); sub != nil {
							report("redeem-debit-refund", "double-refund", t, fmt.Sprintf("This redeem has already been refunded; %s is credited another %s %s.", a, t.Amount, cur))
							done = true
						}
					}
				}
				// 3. below the threshold
				for i := len(m.all) - 1; i >= 0 && !done; i-- {
					t := m.all[i]
					if t.Replaced || t.Cur != cur || t.Amount.Sign() <= 0 || (pass == 0 && !active[t]) {
						continue
					}
					if t.Kind.isLock() && !t.Minted && !t.yesOver() {
						if sub := fits(t.Amount); sub != nil {
							t.Minted = true
							m.mintsRaw[hex.EncodeToString(t.Raw)]++
							y, _ := t.counts()
							report("mint-once-after-threshold", "mint-below-threshold", t, fmt.Sprintf("%s is credited the locked amount although only %d of %d recorded witnesses reported success by the model's count (more than two thirds needed).", a, y, len(t.Witnesses)))
							done = true
						}
					}
					if !done && !t.Kind.isLock() && !t.Refunded && !t.noOver() {
						if sub := fits(t.Amount); sub != nil {
							t.Refunded = true
							_, n := t.counts()
							report("redeem-debit-refund", "refund-below-threshold", t, fmt.Sprintf("%s is credited the redeemed amount although only %d of %d recorded witnesses reported failure by the model's count (more than two thirds needed).", a, n, len(t.Witnesses)))
							done = true
						}
					}
				}
			}
		}
		if done {
			continue
		}
		// 4. a redeem created in this block by this account and no exact explanation: the debit is wrong
		if rs := redeemBy[a]; len(rs) > 0 {
			t := rs[0]
			class := "redeem-debit-wrong-amount"
			net := new(big.Int).Sub(an.observed, c15TransfersOf(transfers, a))
			if net.Sign() == 0 {
				class = "redeem-not-debited"
			}
			if net.Sign() <= 0 {
				report("redeem-debit-refund", class, t, fmt.Sprintf("Expected: the block that creates the redeem tracker debits its owner by the redeemed amount %s decoded from the Ethereum transaction (redeem argument); observed debit %s.", t.Amount, new(big.Int).Neg(net)))
				continue
			}
		}
		if res.Sign() < 0 {
			report("mint-once-after-threshold", "unexplained-wrapped-debit", nil, "Expected: wrapped balances fall only by transfers and by redeems of the owner.")
			continue
		}
		// 5. something is due to this account, but not this amount
		for _, c := range mine {
			if !c.used {
				m.markDone(c)
				class, oracle := "mint-wrong-amount", "mint-once-after-threshold"
				if c.refund {
					class, oracle = "refund-wrong-amount", "redeem-debit-refund"
				}
				report(oracle, class, c.t, fmt.Sprintf("A %s of exactly %s %s is due to this account by the model's count; no combination of due amounts gives the observed credit.", c.what(), c.t.Amount, cur))
				done = true
				break
			}
		}
		if done {
			continue
		}
		report("mint-once-after-threshold", "unexplained-wrapped-credit", nil, "Expected: wrapped balances rise only by transfers, by the mint of a lock whose yes-count is over two thirds, or by the refund of a redeem whose no-count is over two thirds; no tracker of the model matches this credit.")
	}
	return vs
}

// firstOfRaw returns the first tracker the model saw for t's Ethereum transaction.
func (m *TrackerModel) firstOfRaw(t *ModelTracker) *ModelTracker {
	for _, x := range m.all {
		if bytes.Equal(x.Raw, t.Raw) {
			return x
		}
	}
	return t
}

func c15TransfersOf(d c15Delta, a string) *big.Int {
	if x := d[a]; x != nil {
		return x
	}
	return new(big.Int)
}

func (m *TrackerModel) markDone(c *c15Cand) {
	if c.used {
		return
	}
	c.used = true
	if m.done[c.t.Cur] == nil {
		m.done[c.t.Cur] = new(big.Int)
	}
	m.done[c.t.Cur].Add(m.done[c.t.Cur], c.t.Amount)
	if c.refund {
		c.t.Refunded = true
		m.Refunds++
	} else {
		c.t.Minted = true
		m.mintsRaw[hex.EncodeToString(c.t.Raw)]++
		m.Mints++
	}
}

func c15ClipB(b []byte, n int) []byte {
	if len(b) > n {
		return b[:n]
	}
	return b
}

// WrappedAllowance is the stateless form for other checks (C02): the amount by which the circulating total of
// the wrapped currency cur may legitimately rise in block ob.H = locks that may be minted + redeems that may be
// refunded in this block. Being stateless it has to TRUST the votes recorded in the tracker records of block
// H-1 and counts only the reports of block H itself by the C15 rules; a check that wants the fully independent
// count embeds a TrackerModel (NewTrackerModel at boot, Update(ob, e) after every block, Allowance(cur)).
func WrappedAllowance(ob *Obs, w *core.World, cur string) *big.Int {
	if ob == nil || ob.Prev == nil || ob.Cur == nil {
		return new(big.Int)
	}
	m := NewTrackerModel(w)
	m.Seed(ob.PrevDump)
	m.Update(ob, nil)
	return m.Allowance(cur)
}

// ---- oracle ---------------------------------------------------------------------------------------------

type c15Oracle struct {
	obs    Obs
	m      *TrackerModel
	blocks int
}

func (o *c15Oracle) AfterStep(e *core.Engine, idx int, st *core.Step, stepErr error) []core.Violation {
	if st.Kind == "boot" {
		o.obs.InitGenesis(e)
		o.m = NewTrackerModel(e.W)
		var vs []core.Violation
		o.obs.Prev = o.obs.Cur
		for _, cur := range o.m.Wrapped {
			if v := o.m.supplyCheck(&o.obs, cur); v != nil {
				vs = append(vs, *v)
			}
		}
		o.obs.Prev = nil
		return vs
	}
	if st.Kind != "block" || !o.obs.Update(e, st) {
		return nil
	}
	o.blocks++
	for _, p := range o.obs.Cur.Problems {
		if strings.HasPrefix(p, "unknown ") || strings.HasPrefix(p, "undecodable balance") {
			panic(core.HarnessError{Msg: "ledger incomplete: " + p})
		}
	}
	var stateless map[string]*big.Int
	if os.Getenv("OLSIM_C15_SELFTEST") != "" { // diagnostic: compare the stateless WrappedAllowance with the model's
		stateless = map[string]*big.Int{}
		for _, cur := range o.m.Wrapped {
			stateless[cur] = WrappedAllowance(&o.obs, e.W, cur)
		}
	}
	vs := o.m.Update(&o.obs, e)
	for cur, x := range stateless {
		if x.Cmp(o.m.Allowance(cur)) != 0 {
			e.Stats.Probes["c15.selftest-stateless-allowance-differs"]++
		} else if x.Sign() > 0 {
			e.Stats.Probes["c15.selftest-stateless-allowance-equal-nonzero"]++
		}
		if d := o.m.done[cur]; d != nil && d.Sign() > 0 {
			if x.Cmp(d) < 0 {
				e.Stats.Probes["c15.selftest-stateless-allowance-below-legit-events"]++
			} else {
				e.Stats.Probes["c15.selftest-stateless-allowance-covers-legit-events"]++
			}
		}
	}
	if len(vs) > 0 {
		vs = append(vs, o.m.Pending...)
		o.m.Pending = nil
	}
	return vs
}

func (o *c15Oracle) Finish(e *core.Engine) []core.Violation {
	if o.m == nil {
		return nil
	}
	vs := o.m.Pending
	o.m.Pending = nil
	return vs
}

// NonTrivial: at least one tracker of the model crossed a witness threshold (yes or no) in this run.
func (o *c15Oracle) NonTrivial(e *core.Engine) bool {
	return o.m != nil && o.m.CrossedYes+o.m.CrossedNo >= 1
}

func (o *c15Oracle) Inputs() int {
	if o.m == nil {
		return 0
	}
	return o.m.VotesCounted + o.m.VotesIgnored
}

// ---- profile --------------------------------------------------------------------------------------------

// c15WrappedSend makes wrapped tokens circulate (the stock "send" generator moves OLT only): holders send part
// of their ETH / token balance to other users, so that mints and refunds have to be told apart from transfers
// and redeemers are not always the original lockers. (The supply-counter address itself cannot be a SEND target:
// it is not a 20-byte address.)
type c15WrappedSend struct{}

func (c15WrappedSend) Name() string { return "c15-wrapped-send" }

func (c15WrappedSend) Gen(c *gen.Ctx) []gen.Tx {
	if c == nil || c.W == nil || c.Ref == nil || c.Ref.App == nil || len(c.W.Users) == 0 || c.Rng.Intn(3) != 0 {
		return nil
	}
	curs := []string{"ETH"}
	for _, tok := range c.W.EthOpt.TokenList {
		curs = append(curs, tok.TokName)
	}
	cur := curs[c.Rng.Intn(len(curs))]
	start := c.Rng.Intn(len(c.W.Users))
	for i := range c.W.Users {
		from := c.W.Users[(start+i)%len(c.W.Users)]
		bal := c.Ref.BalanceOf(from.Addr, cur)
		if bal.Sign() <= 0 {
			continue
		}
		to := c.W.Users[c.Rng.Intn(len(c.W.Users))].Addr
		amt := new(big.Int).Mul(bal, big.NewInt(int64(5+c.Rng.Intn(56))))
		amt.Div(amt, big.NewInt(100))
		label := "SEND/wrapped"
		switch c.Rng.Intn(12) {
		case 0:
			amt = new(big.Int).Set(bal)
		case 1:
			amt = new(big.Int).Add(bal, big.NewInt(1))
			label = "SEND/wrapped-overdraw"
		}
		if amt.Sign() <= 0 {
			return nil
		}
		memo := fmt.Sprintf("ws%08x", c.Rng.Uint32())
		msg := &transfer.Send{From: from.Addr, To: to, Amount: action.Amount{Currency: cur, Value: *balance.NewAmountFromBigInt(amt)}}
		return []gen.Tx{{Bytes: core.BuildTx(msg, core.DefaultFee(), memo, from), Kind: label}}
	}
	return nil
}

func init() {
	Register(&ClusterProp{
		Id: "C15",
		RuleText: "each run: one real replica (a witness validator or an unrelated node), 1-7 genesis validators of which 4-7 (1 run in 8: 1-3) are Ethereum witnesses, 40-70 blocks; generator `eth` crafts signed raw Ethereum transactions the repository's own parsers accept, submits ETH_LOCK / ERC20_LOCK / ETH_REDEEM / ERC20_REDEEM " +
			"(incl. duplicates in the same and later blocks, replays of ongoing/passed/failed ones, front-running, supply races, malformed embeddings) and plays the witnesses with ETH_REPORT_FINALITY_MINT in random orders: honest yes/no, minorities and blocking coalitions lying about Success or about the Locker, reports in the creating block, wrong/out-of-range index, second votes, non-witness validators, users, forged signers; " +
			"`send` plus a wrapped-token transfer generator keep balances moving. A reference model built only from decoded transactions, harness-verified signers, result codes and the tracker/witness/balance records of the state dump of every block keeps per tracker: owner (= submitter), amount (own rlp+abi decoding of the embedded transaction), recorded witnesses, first valid vote per witness. " +
			"Oracles per block: every wrapped credit that is not a transfer is the mint of a lock whose yes-count is > 2/3 of the recorded witnesses (once per Ethereum transaction, exact amount, to the submitter) or the refund of a redeem whose no-count is > 2/3 (once, exact amount, to the owner; must happen within 5 blocks); the creating block debits a redeem's owner by exactly the decoded amount; " +
			"no lock/redeem succeeds while a tracker for the same Ethereum transaction is ongoing or succeeded; a first proper report of a recorded witness for an ongoing tracker is not rejected; supply counter == sum of all other balances per wrapped currency at genesis and after every block. " +
			"Non-trivial: >=1 tracker crossed a witness threshold (yes or no) by the model's count; `inputs` = finality reports evaluated.",
		MakeSetup: func(rng *rand.Rand, tier string, seed uint64) *Setup {
			k := SwarmKnobs(rng)
			// 4..7 witnesses (with 4 the 2/3 and 1/2 thresholds coincide, so most runs have more); sometimes
			// there are validators that are not witnesses
			k.NumWitnesses = 4 + rng.Intn(4)
			if rng.Intn(3) == 0 {
				k.NumWitnesses = 5 + rng.Intn(3)
			}
			if rng.Intn(8) == 0 {
				k.NumWitnesses = 1 + rng.Intn(3) // tiny witness sets: one report decides
			}
			k.NumValidators = k.NumWitnesses + rng.Intn(3)
			if k.NumValidators > 7 {
				k.NumValidators = 7
			}
			if k.NumUsers < 4 {
				k.NumUsers = 4
			}
			su := &Setup{Knobs: k, Sess: gen.NewSession()}
			id := "x0"
			if rng.Intn(2) == 0 {
				id = "v0" // the replica is itself a witness: the block-end transitions also create its jobs
			}
			su.Replicas = append(su.Replicas, core.ReplicaConf{Identity: id, Quiet: true, Recent: 10, Every: 100, Cycles: 10, WitnessInitEarly: rng.Intn(2) == 0})
			su.Gens = append(gen.ByName("eth", "send"), c15WrappedSend{})
			su.Blocks = 40 + rng.Intn(31)
			if tier == "thorough" {
				su.Blocks = 60 + rng.Intn(61)
			}
			su.MaxTx = 10
			return su
		},
		MakeOracle: func(e *core.Engine, tr *core.Trace) Oracle { return &c15Oracle{} },
	})
}

package props

import (
	"encoding/json"
	"os"
	"path/filepath"
	"strings"

	"olsim/core"
)

// Open known findings (known_findings.json, status "open"). A violation explained by them does not end
// the run: it is recorded once and the run goes on, so that a listed defect that fires early and often
// does not hide whatever lies behind it. The parent applies the same matching when it reports.
var openKnown = map[string]bool{} // "<property>|<oracle>/<class>[:<label>]"

// LoadKnownOpen reads the open findings of dir/known_findings.json (missing file: none).
func LoadKnownOpen(dir string) {
	b, err := os.ReadFile(filepath.Join(dir, "known_findings.json"))
	if err != nil {
		return
	}
	var kf struct {
		Findings []struct {
			Property  string `json:"property"`
			Signature string `json:"signature"`
			Status    string `json:"status"`
		} `json:"findings"`
	}
	if json.Unmarshal(b, &kf) != nil {
		return
	}
	for _, k := range kf.Findings {
		if k.Status == "open" {
			openKnown[k.Property+"|"+k.Signature] = true
		}
	}
}

// IsKnownOpen: the violation's full signature is listed, or each of its labels is listed for the same
// oracle and class.
func IsKnownOpen(v core.Violation) bool {
	if len(openKnown) == 0 {
		return false
	}
	if openKnown[v.Property+"|"+v.Oracle+"/"+v.Sig] {
		return true
	}
	i := strings.Index(v.Sig, ":")
	if i < 0 {
		return false
	}
	class := v.Sig[:i]
	for _, l := range strings.Split(v.Sig[i+1:], "+") {
		if !openKnown[v.Property+"|"+v.Oracle+"/"+class+":"+l] {
			return false
		}
	}
	return true
}

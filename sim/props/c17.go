package props

import (
	"bytes"
	"crypto/sha256"
	"encoding/hex"
	"fmt"
	"io/ioutil"
	"math/big"
	"math/rand"
	"sort"
	"strings"

	ethcmn "github.com/ethereum/go-ethereum/common"
	ethcrypto "github.com/ethereum/go-ethereum/crypto"
	sm "github.com/tendermint/tendermint/state"

	"github.com/Oneledger/protocol/action"
	"github.com/Oneledger/protocol/action/olvm"
	"github.com/Oneledger/protocol/data/balance"
	"github.com/Oneledger/protocol/data/evm"
	"github.com/Oneledger/protocol/data/fees"
	"github.com/Oneledger/protocol/data/keys"
	"github.com/Oneledger/protocol/log"
	"github.com/Oneledger/protocol/serialize"
	"github.com/Oneledger/protocol/storage"
	"github.com/Oneledger/protocol/vm"

	"olsim/core"
	"olsim/gen"
)

// C17 One balance, two views; exact OLVM accounting.
//
// OBSERVATION. The oracle wraps the cluster's scheduler (core.Cluster.Sched, consulted by the ABCI
// interposer before and after every consensus call) and photographs the reference replica's
// deliver state right before and right after EVERY DeliverTx: the block's dirty set (every key written
// since BeginBlock, read from the block cache without metering gas) over the committed tree of H-1.
// That is true per-transaction observation of the real replica driven by the real BlockExecutor; no
// twin is needed. Every snapshot also records, for the accounts in play, the number the repository's
// EVM adapters return (NesterAccountKeeper.GetBalance / GetAccount, a fresh CommitStateDB.GetBalance)
// over a private, unmetered State loaded with the same dirty set. The results (code, gas used) come
// from the transcript, the execution status (tx.status event) from the stored ABCI responses.
//
// MODEL (own arithmetic; the repository's types are used for DECODING only).
//  state per snapshot: bal(a) = amount under b_<a>_OLT (absent = 0); rec(a) = keeper_<a> record
//  (sequence, code hash); pool = f_<pool key>.
//  V  views: at every snapshot and in every committed state, for every 20-byte account in play:
//     bal(a) == keeper.GetBalance(a) == keeper.GetAccount(a).Balance() == CommitStateDB.GetBalance(a).
//  P  in-EVM read: a successful call of the profile's probe contract (recognised by the code hash in the
//     recipient's record and 32 bytes of call data naming X) leaves slot0 = BALANCE(X) as the running
//     EVM saw it: slot0 == bal_before(X) (+ value if X is the probe itself; skipped if X is the sender,
//     whose in-flight balance depends on the up-front gas purchase) and slot1 == bal_before(probe)+value.
//  F  OLVM transaction with code != 0: no key of the state changes across it.
//  X  OLVM transaction with code == 0 (executed), g = gas used from the response, p = gas price,
//     v = value, fee = g*p, S = from, R = to, status from the tx.status event:
//     X1 sequence(S) rises by exactly 1.
//     X2 pool rises by exactly fee.
//     X3 status failed (revert, out of gas, ...): bal(S) falls by exactly fee, no other OLT balance moves.
//     X4 status ok, R carries no code before the transaction (plain account, precompile, empty, zero
//        address) or R is / the transaction creates the profile's probe contract (which never moves
//        value): bal(S) -= fee+v, bal(R) += v (S == R: bal(S) -= fee), no other OLT balance moves.
//     X5 status ok, R is a contract or the transaction creates one: contracts may move value on, so only
//        what holds for every contract is checked: bal(S) >= before - fee - v, and the OLT balances of
//        all accounts together fall by exactly fee (by at least fee when a burn is possible: a coded
//        account disappeared, or the creations the sequence numbers account for - one for a creating
//        transaction, one per step of a contract's sequence - are not all visible afterwards as new coded
//        accounts with sequence 1, i.e. something created may be gone again or created something itself).
//     X6 gas used: intrinsic(data, creation) <= g <= gas limit; g == intrinsic when R carries no code
//        and is not a precompile address (nothing runs) - the independent anchor for "gas used".
//     If the exact bytes were already delivered in an EARLIER block the application answers from its
//     transaction index without executing; then "nothing changed" is accepted as well (C05's subject).
//
// DON'T CARE (silent, both outcomes accepted): logs/events other than tx.status, contract storage
// (except the probe's two slots), the size of refunds, GASLIMIT/block gas accounting, which nonces are
// admissible (gaps are executed on this tree and bump the sequence by one: counted, not judged), the
// address a created contract gets (counted: derives from the account sequence, not the transaction
// nonce), keeper records of accounts other than the sender (an empty record left behind for a touched
// account is counted, not judged), the effects of native transactions
// (their arithmetic is C02/C03's subject; here they only have to keep the two views equal), every
// currency but OLT, executed transactions with a negative value or a foreign currency or an address
// that is not 20 bytes long (C04/C18's subject), what BeginBlock/EndBlock do (fee distribution).

type c17View struct {
	native  *big.Int
	keeper  *big.Int
	account *big.Int // nil: the keeper knows no account
	statedb *big.Int
}

type c17ProbeRead struct {
	slot0, slot1 *big.Int
}

type c17Snap struct {
	dirty map[string][]byte
	views map[string]*c17View // key: raw address bytes
	probe *c17ProbeRead
}

type c17Block struct {
	h     int64
	pre   map[int]*c17Snap
	post  map[int]*c17Snap
	final *c17Snap
}

type c17Oracle struct {
	obs    Obs
	e      *core.Engine
	cur    *balance.CurrencySet
	logger *log.Logger
	blk    *c17Block
	capErr string
	seen   map[[32]byte]bool // transactions delivered in earlier blocks

	blocks     int
	execOK     int // executed, status ok, fully checked
	execFail   int // executed, status failed, fully checked
	preFail    int // code != 0, checked to change nothing
	mixed      int // (block, account) pairs moved by a native and by an OLVM transaction
	probeReads int
	viewChecks int
}

type c17Watch struct {
	inner core.Scheduler
	o     *c17Oracle
}

func (w *c17Watch) At(r *core.Replica, s core.Site) {
	if len(w.o.e.C.Replicas) > 0 && r == w.o.e.C.Ref() && !s.Handshake && r.App != nil && r.Dead == "" {
		w.o.observe(r, s)
	}
	if w.inner != nil {
		w.inner.At(r, s)
	}
}

// observe runs inside an ABCI call of the reference replica: it must never panic and never write.
func (o *c17Oracle) observe(r *core.Replica, s core.Site) {
	defer func() {
		if rec := recover(); rec != nil && o.capErr == "" {
			o.capErr = fmt.Sprintf("snapshot at %s panicked: %v", s, rec)
		}
	}()
	switch s.Call {
	case core.CBeginBlock:
		if !s.After {
			o.blk = &c17Block{h: s.Height, pre: map[int]*c17Snap{}, post: map[int]*c17Snap{}}
		}
	case core.CDeliverTx:
		if o.blk == nil || o.blk.h != s.Height {
			return
		}
		var txb []byte
		if cb := o.e.C.Blocks; int64(len(cb)) >= s.Height && s.TxIdx < len(cb[s.Height-1].Block.Txs) {
			txb = cb[s.Height-1].Block.Txs[s.TxIdx]
		}
		snap := o.capture(r, txb, s.After)
		if s.After {
			o.blk.post[s.TxIdx] = snap
		} else {
			o.blk.pre[s.TxIdx] = snap
		}
	case core.CCommit:
		if !s.After && o.blk != nil && o.blk.h == s.Height {
			o.blk.final = o.capture(r, nil, false)
		}
	}
}

var c17Tomb = []byte(storage.TOMBSTONE)

func c17BalKey(a []byte) string { return "b_" + keys.Address(a).String() + "_OLT" }
func c17RecKey(a []byte) string { return "keeper_" + string(a) }

var c17PoolKey = "f_" + fees.POOL_KEY

// c17AddrOfKey extracts the 20-byte account a state key belongs to (nil: not an account key of interest).
func c17AddrOfKey(k string) []byte {
	switch {
	case strings.HasPrefix(k, "b_") && strings.HasSuffix(k, "_OLT"):
		t := k[2 : len(k)-4]
		if !strings.HasPrefix(t, "0lt") {
			return nil
		}
		b, err := hex.DecodeString(t[3:])
		if err != nil || len(b) != 20 {
			return nil
		}
		return b
	case strings.HasPrefix(k, "keeper_"):
		b := []byte(k[len("keeper_"):])
		if len(b) != 20 {
			return nil
		}
		return b
	}
	return nil
}

type c17Call struct {
	tx     *olvm.Transaction
	from   []byte
	to     []byte // nil: creation
	target []byte // 32-byte call data read as an address (probe calls)
}

func c17DecodeCall(stx *action.SignedTx) *c17Call {
	if stx == nil || stx.Type != action.OLVM {
		return nil
	}
	t := &olvm.Transaction{}
	if err := t.Unmarshal(stx.Data); err != nil {
		return nil
	}
	c := &c17Call{tx: t, from: t.From.Bytes()}
	if t.To != nil {
		c.to = t.To.Bytes()
	}
	if len(t.Data) == 32 {
		c.target = append([]byte{}, t.Data[12:]...)
	}
	return c
}

// capture photographs the deliver state. It builds a private State over the same committed tree,
// loaded with a copy of the block's dirty set, and asks the repository's EVM adapters what they see.
func (o *c17Oracle) capture(r *core.Replica, txb []byte, after bool) *c17Snap {
	snap := &c17Snap{dirty: map[string][]byte{}, views: map[string]*c17View{}}
	var order []string
	r.App.VerifDeliverState().GetGasStore().GetIterable().Iterate(func(k, v []byte) bool {
		ks := string(k)
		if _, ok := snap.dirty[ks]; !ok {
			order = append(order, ks)
		}
		snap.dirty[ks] = append([]byte{}, v...)
		return false
	})
	st := storage.NewState(r.App.VerifChainState())
	for _, k := range order {
		if v := snap.dirty[k]; bytes.Equal(v, c17Tomb) {
			_, _ = st.Delete(storage.StoreKey(k))
		} else {
			_ = st.Set(storage.StoreKey(k), append([]byte{}, v...))
		}
	}
	keeper := balance.NewNesterAccountKeeper(st, balance.NewStore("b", st), o.cur)
	sdb := vm.NewCommitStateDB(evm.NewContractStore(st), keeper, o.logger)
	accts := map[string]bool{}
	var call *c17Call
	if txb != nil {
		call = c17DecodeCall(core.DecodeTx(txb))
	}
	if call != nil {
		for _, a := range [][]byte{call.from, call.to, call.target} {
			if len(a) == 20 {
				accts[string(a)] = true
			}
		}
	}
	for _, k := range order {
		if len(accts) >= 96 {
			break
		}
		if a := c17AddrOfKey(k); a != nil {
			accts[string(a)] = true
		}
	}
	for a := range accts {
		snap.views[a] = c17ViewOf(st, keeper, sdb, []byte(a))
	}
	if after && call != nil && len(call.to) == 20 && call.target != nil {
		if acc, err := keeper.GetAccount(keys.Address(call.to)); err == nil && acc != nil && bytes.Equal(acc.CodeHash, c17ProbeCodeHash) {
			ea := ethcmn.BytesToAddress(call.to)
			snap.probe = &c17ProbeRead{
				slot0: sdb.GetState(ea, ethcmn.Hash{}).Big(),
				slot1: sdb.GetState(ea, ethcmn.BigToHash(big.NewInt(1))).Big(),
			}
		}
	}
	return snap
}

func c17ViewOf(st *storage.State, keeper balance.AccountKeeper, sdb *vm.CommitStateDB, a []byte) *c17View {
	v := &c17View{native: new(big.Int)}
	if raw, _ := st.Get(storage.StoreKey(c17BalKey(a))); len(raw) > 0 {
		if x, err := c17Amount(raw); err == nil {
			v.native = x
		} else {
			v.native = nil // undecodable: reported by the caller
		}
	}
	v.keeper = new(big.Int).Set(keeper.GetBalance(keys.Address(a)))
	if acc, err := keeper.GetAccount(keys.Address(a)); err == nil && acc != nil {
		v.account = new(big.Int).Set(acc.Balance())
	}
	v.statedb = new(big.Int).Set(sdb.GetBalance(ethcmn.BytesToAddress(a)))
	return v
}

func c17Amount(raw []byte) (*big.Int, error) {
	a := balance.NewAmount(0)
	if err := serialize.GetSerializer(serialize.PERSISTENT).Deserialize(raw, a); err != nil {
		return nil, err
	}
	return new(big.Int).Set(a.BigInt()), nil
}

// ---- reading a snapshot (evaluation time: committed base = dump of H-1) -------------------------

type c17At struct {
	base map[string][]byte
	snap *c17Snap
}

func (s c17At) raw(k string) []byte {
	if v, ok := s.snap.dirty[k]; ok {
		if bytes.Equal(v, c17Tomb) {
			return nil
		}
		return v
	}
	return s.base[k]
}

func (s c17At) amount(k string) *big.Int {
	raw := s.raw(k)
	if len(raw) == 0 {
		return new(big.Int)
	}
	x, err := c17Amount(raw)
	if err != nil {
		panic(core.HarnessError{Msg: fmt.Sprintf("C17: undecodable amount under %q: %v", k, err)})
	}
	return x
}

func (s c17At) bal(a []byte) *big.Int { return s.amount(c17BalKey(a)) }

func (s c17At) rec(a []byte) *balance.EthAccount {
	raw := s.raw(c17RecKey(a))
	if len(raw) == 0 {
		return nil
	}
	ea := &balance.EthAccount{}
	if err := serialize.GetSerializer(serialize.PERSISTENT).Deserialize(raw, ea); err != nil {
		panic(core.HarnessError{Msg: fmt.Sprintf("C17: undecodable account record of %x: %v", a, err)})
	}
	return ea
}

func (s c17At) seq(a []byte) uint64 {
	if r := s.rec(a); r != nil {
		return r.Sequence
	}
	return 0
}

var c17EmptyCode = ethcrypto.Keccak256(nil)

func c17HasCode(r *balance.EthAccount) bool {
	return r != nil && len(r.CodeHash) > 0 && !bytes.Equal(r.CodeHash, c17EmptyCode)
}

func c17IsPrecompile(a []byte) bool {
	for _, b := range a[:19] {
		if b != 0 {
			return false
		}
	}
	return a[19] >= 1 && a[19] <= 9
}

// c17Intrinsic: 21000 (53000 for a creation) + 16 per non-zero and 4 per zero byte of call data.
func c17Intrinsic(data []byte, creation bool) int64 {
	g := int64(21000)
	if creation {
		g = 53000
	}
	for _, b := range data {
		if b != 0 {
			g += 16
		} else {
			g += 4
		}
	}
	return g
}

// changed keys between two snapshots of one block (dirty sets only grow inside a block)
func c17Changed(base map[string][]byte, pre, post *c17Snap) []string {
	var out []string
	a, b := c17At{base, pre}, c17At{base, post}
	for k := range post.dirty {
		if !bytes.Equal(a.raw(k), b.raw(k)) {
			out = append(out, k)
		}
	}
	sort.Strings(out)
	return out
}

// c17ShowKeys renders changed keys with their values before/after (account records decoded).
func c17ShowKeys(ks []string, a, b c17At) string {
	var parts []string
	for i, k := range ks {
		if i >= 6 {
			parts = append(parts, "...")
			break
		}
		if ad := c17AddrOfKey(k); ad != nil && strings.HasPrefix(k, "keeper_") {
			show := func(r *balance.EthAccount) string {
				if r == nil {
					return "absent"
				}
				return fmt.Sprintf("{sequence %d, codeHash %x}", r.Sequence, r.CodeHash)
			}
			parts = append(parts, fmt.Sprintf("keeper_<%x>: %s -> %s", ad, show(a.rec(ad)), show(b.rec(ad))))
			continue
		}
		parts = append(parts, fmt.Sprintf("%q: %q -> %q", k, clipS(string(a.raw(k)), 80), clipS(string(b.raw(k)), 80)))
	}
	return strings.Join(parts, "; ")
}

func c17Status(evs []c17Event) string {
	for _, ev := range evs {
		if ev.typ != olvm.HandlerName {
			continue
		}
		for _, kv := range ev.attrs {
			if kv[0] == "tx.status" {
				return kv[1]
			}
		}
	}
	return ""
}

type c17Event struct {
	typ   string
	attrs [][2]string
}

func (o *c17Oracle) AfterStep(e *core.Engine, idx int, st *core.Step, stepErr error) []core.Violation {
	if st.Kind == "boot" {
		o.e = e
		o.obs.InitGenesis(e)
		o.seen = map[[32]byte]bool{}
		o.cur = balance.NewCurrencySet()
		if e.W.AppState != nil {
			for _, cu := range e.W.AppState.Currencies {
				_ = o.cur.Register(cu)
			}
		}
		o.logger = log.NewLoggerWithPrefix(ioutil.Discard, "c17").WithLevel(log.Level(0))
		e.C.Sched = &c17Watch{inner: e.C.Sched, o: o}
		return nil
	}
	if o.capErr != "" {
		panic(core.HarnessError{Msg: "C17: " + o.capErr})
	}
	if st.Kind != "block" || stepErr != nil || !o.obs.Update(e, st) {
		return nil
	}
	ob := &o.obs
	h := ob.H
	blk := o.blk
	if blk == nil || blk.h != h || blk.final == nil {
		panic(core.HarnessError{Msg: fmt.Sprintf("C17: no snapshots of block %d (scheduler hook not consulted)", h)})
	}
	o.blocks++
	ref := e.C.Ref()
	// self-check of the observation method: dirty set at Commit over dump(H-1) must be dump(H)
	fin := c17At{ob.PrevDump, blk.final}
	for k := range blk.final.dirty {
		if !bytes.Equal(fin.raw(k), ob.CurDump[k]) {
			panic(core.HarnessError{Msg: fmt.Sprintf("C17: block %d key %q: snapshot before Commit has %x, committed dump has %x", h, k, fin.raw(k), ob.CurDump[k])})
		}
	}
	for k, v := range ob.CurDump {
		if pv, ok := ob.PrevDump[k]; !ok || !bytes.Equal(pv, v) {
			if _, seen := blk.final.dirty[k]; !seen {
				panic(core.HarnessError{Msg: fmt.Sprintf("C17: block %d changed key %q outside the observed dirty set", h, k)})
			}
		}
	}
	for k := range ob.PrevDump {
		if _, ok := ob.CurDump[k]; !ok {
			if _, seen := blk.final.dirty[k]; !seen {
				panic(core.HarnessError{Msg: fmt.Sprintf("C17: block %d deleted key %q outside the observed dirty set", h, k)})
			}
		}
	}
	// tx.status events of the block
	var events [][]c17Event
	if len(ob.Txs) > 0 {
		resp, err := sm.LoadABCIResponses(ref.Disk.StateDB, h)
		if err != nil || resp == nil || len(resp.DeliverTxs) != len(ob.Txs) {
			panic(core.HarnessError{Msg: fmt.Sprintf("C17: ABCI responses of block %d unavailable: %v", h, err)})
		}
		for _, r := range resp.DeliverTxs {
			var evs []c17Event
			if r != nil {
				for _, ev := range r.Events {
					ce := c17Event{typ: ev.Type}
					for _, a := range ev.Attributes {
						ce.attrs = append(ce.attrs, [2]string{string(a.Key), string(a.Value)})
					}
					evs = append(evs, ce)
				}
			}
			events = append(events, evs)
		}
	}
	nativeMoved := map[string]bool{}
	olvmMoved := map[string]bool{}
	var vs []core.Violation
	for i, t := range ob.Txs {
		pre, post := blk.pre[i], blk.post[i]
		if pre == nil || post == nil {
			panic(core.HarnessError{Msg: fmt.Sprintf("C17: block %d tx #%d has no before/after snapshot", h, i)})
		}
		kind := "UNPARSEABLE"
		if t.Tx != nil {
			kind = t.Tx.Type.String()
		}
		lab := t.Label
		if lab == "" {
			lab = kind
		}
		where := fmt.Sprintf("block %d tx #%d (%s, code %d)", h, i, lab, t.Res.Code)
		// signature label: the observable shape of the transaction (few, stable under minimisation);
		// the generator's intent label is in the message only
		shape := kind
		if sc := c17DecodeCall(t.Tx); sc != nil {
			switch {
			case sc.to == nil:
				shape = "OLVM/create"
			case len(sc.to) == 20 && c17HasCode(c17At{ob.PrevDump, pre}.rec(sc.to)):
				shape = "OLVM/to-contract"
			default:
				shape = "OLVM/to-plain"
			}
		}
		mk := func(oracle, class, msg string) {
			vs = append(vs, core.Violation{Property: "C17", Oracle: oracle, Sig: class + ":" + shape, Msg: where + ": " + msg})
		}
		// V: the two views at both snapshots
		o.checkViews(pre, "before", mk)
		if len(vs) == 0 {
			o.checkViews(post, "after", mk)
		}
		if len(vs) > 0 {
			return vs
		}
		A, B := c17At{ob.PrevDump, pre}, c17At{ob.PrevDump, post}
		changed := c17Changed(ob.PrevDump, pre, post)
		movedBal := map[string]*big.Int{} // hex of the 20-byte address (or "key:"+state key) -> delta of the OLT balance
		for _, k := range changed {
			if !strings.HasPrefix(k, "b_") || !strings.HasSuffix(k, "_OLT") {
				continue
			}
			d := new(big.Int).Sub(B.amount(k), A.amount(k))
			if d.Sign() == 0 {
				continue
			}
			if a := c17AddrOfKey(k); a != nil {
				movedBal[hex.EncodeToString(a)] = d
			} else {
				movedBal["key:"+k] = d // not a 20-byte account (module address): still part of the sums
			}
		}
		call := c17DecodeCall(t.Tx)
		if t.Tx == nil || t.Tx.Type != action.OLVM {
			if t.Res.Code == 0 {
				for a := range movedBal {
					nativeMoved[a] = true
				}
			}
			continue
		}
		// F: a rejected OLVM transaction changes nothing
		if t.Res.Code != 0 {
			if len(changed) > 0 {
				mk("failed-olvm-changes-nothing", "failed-olvm-changed-state",
					fmt.Sprintf("the OLVM transaction was rejected (log %q) but %d state key(s) differ before/after it: %s", clipS(t.Res.Log, 120), len(changed), c17ShowKeys(changed, A, B)))
				return vs
			}
			o.preFail++
			e.Stats.Probes["c17_rejected_olvm_checked"]++
			if t.Res.GasUsed != 0 {
				e.Stats.Probes["c17_rejected_olvm_reports_gas_used"]++
			}
			continue
		}
		if call == nil {
			panic(core.HarnessError{Msg: where + ": executed OLVM transaction whose payload the harness cannot decode"})
		}
		if len(changed) == 0 && o.seen[sha256.Sum256(t.Bytes)] {
			// answered from the transaction index (same bytes delivered in an earlier block): not executed
			e.Stats.Probes["c17_replayed_bytes_noop"]++
			continue
		}
		T := call.tx
		S := call.from
		if len(S) != 20 || (T.To != nil && len(call.to) != 20) || T.Amount.Currency != "OLT" || T.Amount.Value.BigInt().Sign() < 0 ||
			t.Tx.Fee.Price.Currency != "OLT" || t.Tx.Fee.Price.Value.BigInt().Sign() < 0 || t.Tx.Fee.Gas < 0 || t.Res.GasUsed < 0 {
			e.Stats.Probes["c17_executed_malformed_skipped"]++
			continue
		}
		price := t.Tx.Fee.Price.Value.BigInt()
		value := T.Amount.Value.BigInt()
		gasUsed, gasLimit := t.Res.GasUsed, t.Tx.Fee.Gas
		fee := new(big.Int).Mul(big.NewInt(gasUsed), price)
		status := c17Status(events[i])
		desc := fmt.Sprintf("from %x to %x value %s gasUsed %d gasLimit %d price %s status %q nonce(tx) %d", S, call.to, value, gasUsed, gasLimit, price, status, T.Nonce)
		if status != "1" && status != "0" {
			panic(core.HarnessError{Msg: where + ": executed OLVM transaction without a tx.status event (" + desc + ")"})
		}
		for a := range movedBal {
			olvmMoved[a] = true
		}
		// X1 sequence
		n0, n1 := A.seq(S), B.seq(S)
		if n1 != n0+1 {
			mk("olvm-nonce-plus-one", "sender-nonce-not-plus-one", fmt.Sprintf("sequence of the sender went %d -> %d, expected %d (%s)", n0, n1, n0+1, desc))
		}
		if T.Nonce > n0 {
			e.Stats.Probes["c17_nonce_gap_executed"]++
		}
		// X2 fee pool
		p0, p1 := A.amount(c17PoolKey), B.amount(c17PoolKey)
		if d := new(big.Int).Sub(p1, p0); d.Cmp(fee) != 0 {
			mk("olvm-fee-pool", "fee-pool-delta", fmt.Sprintf("fee pool went %s -> %s (delta %s), expected delta gasUsed*price = %s (%s)", p0, p1, d, fee, desc))
		}
		// balances
		dS := new(big.Int).Sub(B.bal(S), A.bal(S))
		others := func(except ...[]byte) []string {
			var out []string
			for a := range movedBal {
				skip := false
				for _, x := range except {
					if x != nil && a == hex.EncodeToString(x) {
						skip = true
					}
				}
				if !skip {
					out = append(out, a)
				}
			}
			sort.Strings(out)
			return out
		}
		showOthers := func(as []string) string {
			var parts []string
			for _, a := range as {
				parts = append(parts, fmt.Sprintf("%s:%s", a, movedBal[a]))
			}
			return strings.Join(parts, ", ")
		}
		negFee := new(big.Int).Neg(fee)
		recR := (*balance.EthAccount)(nil)
		if call.to != nil {
			recR = A.rec(call.to)
		}
		plainR := call.to != nil && !c17HasCode(recR)
		// the profile's probe contract never moves value: calls of it are as exact as plain transfers
		probeR := call.to != nil && recR != nil && bytes.Equal(recR.CodeHash, c17ProbeCodeHash)
		switch {
		case status == "0":
			// X3
			if dS.Cmp(negFee) != 0 {
				mk("olvm-sender-debit", "reverted-sender-delta", fmt.Sprintf("execution failed, so no value moved: sender balance %s -> %s (delta %s), expected delta -gasUsed*price = %s (%s)", A.bal(S), B.bal(S), dS, negFee, desc))
			}
			if os := others(S); len(os) > 0 {
				mk("olvm-recipient-credit", "reverted-others-moved", fmt.Sprintf("execution failed, yet OLT balances other than the sender's moved: %s (%s)", showOthers(os), desc))
			}
			if len(vs) == 0 {
				o.execFail++
				e.Stats.Probes["c17_executed_failed_checked"]++
				if value.Sign() > 0 {
					e.Stats.Probes["c17_executed_failed_with_value"]++
				}
			}
		case call.to == nil && bytes.Equal(T.Data, c17ProbeInit):
			// X4 for the creation of a probe contract: the init code only returns the runtime code
			wantS := new(big.Int).Neg(new(big.Int).Add(fee, value))
			if dS.Cmp(wantS) != 0 {
				mk("olvm-sender-debit", "transfer-sender-delta", fmt.Sprintf("sender balance %s -> %s (delta %s), expected delta -(gasUsed*price + value) = %s (%s)", A.bal(S), B.bal(S), dS, wantS, desc))
			}
			os := others(S)
			okR := len(os) == 0 && value.Sign() == 0
			if len(os) == 1 && value.Sign() > 0 && movedBal[os[0]].Cmp(value) == 0 && !strings.HasPrefix(os[0], "key:") {
				created, _ := hex.DecodeString(os[0])
				r1 := B.rec(created)
				okR = r1 != nil && bytes.Equal(r1.CodeHash, c17ProbeCodeHash)
			}
			if !okR {
				mk("olvm-recipient-credit", "transfer-recipient-delta", fmt.Sprintf("creation of a contract whose init code moves nothing: expected exactly the created account to gain value %s, moved besides the sender: %s (%s)", value, showOthers(os), desc))
			}
			if len(vs) == 0 {
				o.execOK++
				e.Stats.Probes["c17_executed_transfer_checked"]++
			}
		case plainR || probeR:
			// X4
			wantS := new(big.Int).Neg(new(big.Int).Add(fee, value))
			wantR := value
			if bytes.Equal(S, call.to) {
				wantS, wantR = negFee, nil
			}
			if dS.Cmp(wantS) != 0 {
				mk("olvm-sender-debit", "transfer-sender-delta", fmt.Sprintf("sender balance %s -> %s (delta %s), expected delta -(gasUsed*price + value) = %s (%s)", A.bal(S), B.bal(S), dS, wantS, desc))
			}
			if wantR != nil {
				if dR := new(big.Int).Sub(B.bal(call.to), A.bal(call.to)); dR.Cmp(wantR) != 0 {
					mk("olvm-recipient-credit", "transfer-recipient-delta", fmt.Sprintf("recipient balance %s -> %s (delta %s), expected delta +value = %s (%s)", A.bal(call.to), B.bal(call.to), dR, wantR, desc))
				}
			}
			if os := others(S, call.to); len(os) > 0 {
				mk("olvm-recipient-credit", "transfer-others-moved", fmt.Sprintf("a transfer to an account without code (or to the value-neutral probe contract) moved OLT balances of third parties: %s (%s)", showOthers(os), desc))
			}
			if len(vs) == 0 {
				o.execOK++
				e.Stats.Probes["c17_executed_transfer_checked"]++
			}
		default:
			// X5
			floor := new(big.Int).Neg(new(big.Int).Add(fee, value))
			if dS.Cmp(floor) < 0 {
				mk("olvm-sender-debit", "contract-sender-overcharged", fmt.Sprintf("sender balance %s -> %s (delta %s) fell by more than gasUsed*price + value = %s (%s)", A.bal(S), B.bal(S), dS, new(big.Int).Neg(floor), desc))
			}
			sum := new(big.Int)
			for _, d := range movedBal {
				sum.Add(sum, d)
			}
			// A burn (SELFDESTRUCT naming the contract itself, or a contract created and destroyed within the
			// transaction) is possible when a coded account disappeared or when not every creation the sequence
			// numbers account for is visible afterwards as a new coded account that itself created nothing.
			// Otherwise nothing was destroyed and value only changed hands.
			burn := false
			var creations, newCoded uint64
			for _, k := range changed {
				a := c17AddrOfKey(k)
				if a == nil || !strings.HasPrefix(k, "keeper_") || bytes.Equal(a, S) {
					continue
				}
				r0, r1 := A.rec(a), B.rec(a)
				switch {
				case c17HasCode(r0) && !c17HasCode(r1):
					burn = true // destroyed
				case r0 != nil && r1 != nil && r0.Sequence != r1.Sequence:
					if r1.Sequence < r0.Sequence {
						burn = true
					} else {
						creations += r1.Sequence - r0.Sequence // it created something (which may be gone again)
					}
				case !c17HasCode(r0) && c17HasCode(r1):
					newCoded++
					if r1.Sequence != 1 {
						burn = true // the new contract created something itself
					}
				}
			}
			if call.to == nil {
				creations++
			}
			if newCoded != creations {
				burn = true
			}
			if !burn && creations > 0 {
				e.Stats.Probes["c17_contract_creations_all_visible"]++
			}
			if burn {
				e.Stats.Probes["c17_contract_burn_possible"]++
				if sum.Cmp(negFee) > 0 {
					mk("olvm-conservation", "contract-sum-above-minus-fee", fmt.Sprintf("all OLT balances together moved by %s, expected at most -gasUsed*price = %s; moved: %s (%s)", sum, negFee, showOthers(others()), desc))
				}
			} else if sum.Cmp(negFee) != 0 {
				mk("olvm-conservation", "contract-sum-not-minus-fee", fmt.Sprintf("all OLT balances together moved by %s, expected exactly -gasUsed*price = %s (value only changes hands); moved: %s (%s)", sum, negFee, showOthers(others()), desc))
			}
			if len(vs) == 0 {
				o.execOK++
				e.Stats.Probes["c17_executed_contract_checked"]++
			}
		}
		// statistics about behaviour the property does not judge
		for _, k := range changed {
			a := c17AddrOfKey(k)
			if a == nil || !strings.HasPrefix(k, "keeper_") || bytes.Equal(a, S) {
				continue
			}
			if r0, r1 := A.rec(a), B.rec(a); r0 == nil && r1 != nil && !c17HasCode(r1) && r1.Sequence == 0 && movedBal[hex.EncodeToString(a)] == nil {
				e.Stats.Probes["c17_empty_record_left_behind"]++
			}
		}
		if call.to == nil && status == "1" && T.Nonce > n0 {
			if c17HasCode(B.rec(ethcrypto.CreateAddress(ethcmn.BytesToAddress(S), n0).Bytes())) {
				e.Stats.Probes["c17_gap_create_address_from_state_nonce"]++
			}
			if c17HasCode(B.rec(ethcrypto.CreateAddress(ethcmn.BytesToAddress(S), T.Nonce).Bytes())) {
				e.Stats.Probes["c17_gap_create_address_from_tx_nonce"]++
			}
		}
		// X6 gas used
		intr := c17Intrinsic(T.Data, call.to == nil)
		if gasUsed < intr || gasUsed > gasLimit {
			mk("olvm-gas-used-bounds", "gas-used-out-of-bounds", fmt.Sprintf("gas used %d outside [intrinsic %d, limit %d] (%s)", gasUsed, intr, gasLimit, desc))
		} else if plainR && !c17IsPrecompile(call.to) && gasUsed != intr {
			mk("olvm-gas-used-bounds", "gas-used-no-code-not-intrinsic", fmt.Sprintf("nothing runs at an account without code, gas used %d, expected the intrinsic gas %d (%s)", gasUsed, intr, desc))
		}
		// P in-EVM read through the probe contract
		if post.probe != nil && status == "1" && call.target != nil && recR != nil && bytes.Equal(recR.CodeHash, c17ProbeCodeHash) {
			X := call.target
			if !bytes.Equal(X, S) {
				want := A.bal(X)
				if bytes.Equal(X, call.to) {
					want = new(big.Int).Add(want, value)
				}
				if post.probe.slot0.Cmp(want) != 0 {
					mk("evm-read-equals-native", "balance-opcode-differs", fmt.Sprintf("BALANCE(%x) executed inside the EVM returned %s, the native balance store held %s right before the transaction (%s)", X, post.probe.slot0, want, desc))
				}
				o.probeReads++
				e.Stats.Probes["c17_probe_reads"]++
				if nativeMoved[hex.EncodeToString(X)] {
					e.Stats.Probes["c17_probe_reads_after_native_move_same_block"]++
				}
			}
			if want := new(big.Int).Add(A.bal(call.to), value); post.probe.slot1.Cmp(want) != 0 {
				mk("evm-read-equals-native", "selfbalance-opcode-differs", fmt.Sprintf("SELFBALANCE executed inside the EVM returned %s, native balance before the transaction %s + value %s = %s (%s)", post.probe.slot1, A.bal(call.to), value, want, desc))
			}
		}
		if len(vs) > 0 {
			return vs
		}
	}
	for a := range nativeMoved {
		if olvmMoved[a] {
			o.mixed++
			e.Stats.Probes["c17_account_moved_by_both_kinds_in_block"]++
		}
	}
	for _, t := range ob.Txs {
		o.seen[sha256.Sum256(t.Bytes)] = true
	}
	// V on the committed state: every account that has a balance or a record
	rs := ref.ReadState()
	keeper := balance.NewNesterAccountKeeper(rs, balance.NewStore("b", rs), o.cur)
	sdb := vm.NewCommitStateDB(evm.NewContractStore(rs), keeper, o.logger)
	accts := map[string]bool{}
	for k := range ob.CurDump {
		if a := c17AddrOfKey(k); a != nil {
			accts[string(a)] = true
		}
	}
	as := make([]string, 0, len(accts))
	for a := range accts {
		as = append(as, a)
	}
	sort.Strings(as)
	snap := &c17Snap{views: map[string]*c17View{}}
	for _, a := range as {
		snap.views[a] = c17ViewOf(rs, keeper, sdb, []byte(a))
	}
	o.checkViews(snap, "committed", func(oracle, class, msg string) {
		vs = append(vs, core.Violation{Property: "C17", Oracle: oracle, Sig: class + ":" + ob.SuspectSig(), Msg: fmt.Sprintf("block %d committed state: %s", h, msg)})
	})
	return vs
}

// checkViews: native number == every EVM-side number, for every account of the snapshot.
func (o *c17Oracle) checkViews(s *c17Snap, when string, mk func(oracle, class, msg string)) {
	as := make([]string, 0, len(s.views))
	for a := range s.views {
		as = append(as, a)
	}
	sort.Strings(as)
	for _, a := range as {
		v := s.views[a]
		o.viewChecks++
		if v.native == nil {
			panic(core.HarnessError{Msg: fmt.Sprintf("C17: undecodable native balance of %x", a)})
		}
		bad := v.keeper.Cmp(v.native) != 0 || v.statedb.Cmp(v.native) != 0 || (v.account != nil && v.account.Cmp(v.native) != 0)
		if bad {
			acc := "no account"
			if v.account != nil {
				acc = v.account.String()
			}
			mk("native-view-equals-evm-view", "views-differ", fmt.Sprintf("%s: account %x: native store b_..._OLT = %s, keeper.GetBalance = %s, keeper.GetAccount().Balance = %s, CommitStateDB.GetBalance = %s",
				when, a, v.native, v.keeper, acc, v.statedb))
			return
		}
	}
}

func (o *c17Oracle) Finish(e *core.Engine) []core.Violation { return nil }

func (o *c17Oracle) NonTrivial(e *core.Engine) bool {
	return o.blocks >= 10 && o.execOK >= 8 && o.execFail >= 1 && o.preFail >= 1 && o.mixed >= 1 && o.probeReads >= 1
}

func init() {
	Register(&ClusterProp{
		Id: "C17",
		RuleText: "each run: one real replica, OLVM enabled from block 1, 2-4 funded eth accounts, 30-60 blocks of at most 6-9 shuffled transactions from the generators olvm (contract creation, reverting/out-of-gas/nested calls, self-destruct, nonce gaps, low balance, wrong chain id, bad memo, low gas price, replays), " +
			"olvm-transfer, send, sendpool and c17mix (native SEND and OLVM transfers touching the same accounts in the same block, a balance-probe contract: slot0 := BALANCE(x), slot1 := SELFBALANCE). " +
			"The oracle hooks the scheduler sites of the reference replica and photographs the deliver state (block dirty set over the committed tree, unmetered) before and after EVERY DeliverTx. " +
			"Oracles: (V) at every snapshot and every commit the native balance b_<a>_OLT equals keeper.GetBalance, keeper.GetAccount().Balance and a fresh CommitStateDB.GetBalance for every account in play; (P) BALANCE/SELFBALANCE executed inside the EVM equal the native balance before the transaction; " +
			"(F) an OLVM transaction with code != 0 changes no state key; (X) an executed OLVM transaction raises the sender's sequence by exactly 1, the fee pool by exactly gasUsed*price, and moves OLT exactly: failed status: sender -fee only; ok to an account without code: sender -(fee+value), recipient +value, nobody else; " +
			"ok to a contract/creation: sender not below -(fee+value) and all OLT balances together -fee (at most -fee if a burn by self-destruct is possible); gas used within [intrinsic, limit] and == intrinsic when the recipient has no code. " +
			"Non-trivial: >=10 blocks, >=8 executed-ok and >=1 executed-failed OLVM transactions fully checked, >=1 rejected OLVM transaction checked, >=1 account moved by a native and an OLVM transaction in the same block, >=1 in-EVM probe read; distinct = distinct fingerprints.",
		MakeSetup: func(rng *rand.Rand, tier string, seed uint64) *Setup {
			k := SwarmKnobs(rng)
			k.Frankenstein = 1
			k.MaxGas = -1
			k.NumEthUsers = 2 + rng.Intn(3)
			// a roomy block gas limit in half of the runs: a transaction asking for more gas than a block holds is
			// turned away by the gas pool inside the state transition (after the account was read)
			k.MaxGas = []int64{-1, 40000000}[rng.Intn(2)]
			su := &Setup{Knobs: k, Sess: gen.NewSession()}
			if rng.Intn(2) == 0 {
				su.Sess.M["olvm-basefee"] = true // calls that panic inside the EVM (answered with an error code)
			}
			su.Replicas = append(su.Replicas, core.ReplicaConf{Identity: "x0", Quiet: true, Recent: 10, Every: 100, Cycles: 10, WitnessInitEarly: true})
			su.Gens = append(gen.ByName("olvm", "olvm-transfer", "send", "sendpool"), c17Mix{})
			su.Blocks = 30 + rng.Intn(31)
			if tier == "thorough" {
				su.Blocks = 50 + rng.Intn(70)
			}
			su.MaxTx = 6 + rng.Intn(4)
			return su
		},
		MakeOracle: func(e *core.Engine, tr *core.Trace) Oracle { return &c17Oracle{} },
	})
}

package props

import (
	"crypto/sha256"
	"fmt"
	"math/big"
	"math/rand"
	"os"
	"sort"
	"strings"

	dbm "github.com/tendermint/tm-db"

	"github.com/Oneledger/protocol/action"
	ndact "github.com/Oneledger/protocol/action/network_delegation"
	rwact "github.com/Oneledger/protocol/action/rewards"
	"github.com/Oneledger/protocol/action/transfer"
	"github.com/Oneledger/protocol/data/fees"
	"github.com/Oneledger/protocol/data/governance"
	"github.com/Oneledger/protocol/data/keys"
	nddata "github.com/Oneledger/protocol/data/network_delegation"
	"github.com/Oneledger/protocol/storage"

	"olsim/core"
	"olsim/gen"
	"olsim/ledger"
)

// C12 Delegation pool consistency and undelegation maturity.
//
// MODEL (own state machine; the repository's types are used for DECODING only)
//
//   Observations per block H: the committed dumps of H-1 and H (decoded by ledger.Ledger), the delivered
//   transactions with their result code and gas, the maturity period M read from the governance record
//   of the dump of H-1.
//
//   Operations (only transactions with result code 0 count; amounts x in nue, delegator d as named in
//   the transaction):
//     delegate(d,x)   : active[d] += x ; balance[d] -= x
//     undelegate(d,x) : active[d] -= x ; pending[H+M][d] += x
//     withdraw(d,x)   : rewardBalance[d] -= x ; pendingRewards[H+M][d] += x
//     reinvest(d,x)   : rewardBalance[d] -= x ; active[d] += x
//     block H begins  : for every d: balance[d] += pending[H][d] + pendingRewards[H][d]; both entries become 0
//     accrual         : rewardBalance[d] += a, a >= 0 unknown (its size is C13's subject)
//   Everything else leaves active / pending / pendingRewards alone.
//
//   Oracles at every block boundary:
//   (1) pool-covers-active        balance(pool) >= sum(active); == while no donation has been observed. A donation is
//                                 any successful transaction that may credit the pool other than delegate/reinvest:
//                                 SENDPOOL to "DelegationPool", SEND to the pool address, and, conservatively, every
//                                 successful transaction of a kind this model does not know.
//   (2) active-follows-operations active[d](H) == active[d](H-1) + delegated + reinvested - undelegated.
//   (3) undelegation-pending      pending[h][d](H) == pending[h][d](H-1) (+ undelegated if h == H+M) for h > H,
//                                 and == 0 for h <= H (paid entries are cleared, nothing is left behind).
//   (4) reward-withdrawal-pending the same for pendingRewards with withdrawn amounts.
//   (5) reward-balance            rewardBalance[d](H) - rewardBalance[d](H-1) + withdrawn + reinvested >= 0 (a decrease
//                                 needs a successful withdraw/reinvest of d in this block) and rewardBalance >= 0;
//                                 in a block with a successful withdraw/reinvest the implied accrual of all
//                                 delegators together is at most pulled(H) (observed with ObservePulled): a withdrawal
//                                 that does not reduce the reward balance shows up as an impossible accrual.
//   (6) paid-exactly-at-maturity  for every account a that is not a pool:
//                                 balance[a](H) - balance[a](H-1) - explained(a) == pending[H][a] + pendingRewards[H][a]
//                                 (values of the dump of H-1). explained(a) = effects of the successful transactions
//                                 of the block that this model knows: delegate (-x), SEND (-x / +x), SENDPOOL (-x) and
//                                 the fee (gas used * gas price, charged to the first signer). Less than the matured
//                                 amount = not paid; more = paid early, twice or to somebody else. The exact form
//                                 is used while every successful transaction of the run was of a known kind;
//                                 afterwards only "at least the matured amount" is required.
//
// DON'T CARE
//   * the size of the per-block reward accrual, how it is split between delegators, rounding (C13);
//   * who is allowed to sign for a delegator (C03/C04); whether a byte-identical resubmission executes again (C05):
//     the parties of a resubmitted transaction are not judged in that block;
//   * negative, foreign-currency or otherwise invalid amounts that are accepted (C02/C18): parties are not judged in
//     that block and the equality half of (1) is dropped for the rest of the run;
//   * zero-amount operations (an absent record and a zero record are the same thing);
//   * unexplained DEBITS of an account when nothing matured for it (C03);
//   * balances of the pool accounts other than the delegation pool; the fee store;
//   * accounts touched by WITHDRAW_REWARD (validator rewards, C13) are not judged by (6) in that block;
//   * the value of the maturity period itself (whatever the governance record of H-1 says).

type c12Oracle struct {
	obs     Obs
	pool    string          // textual address of the delegation pool
	pools   map[string]bool // pool accounts, excluded from (6)
	donated string          // != "": why the equality half of (1) is off
	opaque  string          // != "": a successful transaction of an unknown kind was seen (exact form of (6) is off)
	seen    map[[32]byte]bool
	matKey  string
	mat     int64
	matErr  error

	// measured reach
	blocks      int
	eqBlocks    int // boundaries where equality was required with sum(active) > 0
	geBlocks    int // boundaries where only >= was required
	exactBlocks int // blocks judged with the exact form of (6)
	nAdd        int
	nUndel      int
	nWithdraw   int
	nReinvest   int
	paidUndel   int // matured undelegations (> 0) observed being paid
	paidRewards int // matured reward withdrawals (> 0) observed being paid
	multiOps    int // (block, delegator) pairs with >= 2 successful delegation operations
	redeleg     int // delegate after the active amount had dropped to zero
	boundChecks int
	lastMature  int64 // highest maturity height created
}

type c12Ops struct {
	add, undel, wd, reinv *big.Int
	n                     int
}

func newC12Ops() *c12Ops {
	return &c12Ops{add: new(big.Int), undel: new(big.Int), wd: new(big.Int), reinv: new(big.Int)}
}

func c12Get(m map[string]*big.Int, k string) *big.Int {
	if m != nil {
		if x, ok := m[k]; ok && x != nil {
			return x
		}
	}
	return new(big.Int)
}

func c12Bal(m map[string]map[string]*big.Int, a string) *big.Int {
	if mm, ok := m[a]; ok {
		if x, ok := mm["OLT"]; ok && x != nil {
			return x
		}
	}
	return new(big.Int)
}

// maturity reads the maturity period from the governance records of a dump (repository decoder).
func (o *c12Oracle) maturity(dump map[string][]byte) (m int64, err error) {
	var ks []string
	for k := range dump {
		if strings.HasPrefix(k, "g_") && (strings.Contains(k, governance.LAST_UPDATE_HEIGHT_NETWK_DELEG) || strings.Contains(k, governance.ADMIN_NETWK_DELEG_OPTION)) {
			ks = append(ks, k)
		}
	}
	sort.Strings(ks)
	var sb strings.Builder
	for _, k := range ks {
		fmt.Fprintf(&sb, "%q=%x;", k, dump[k])
	}
	key := sb.String()
	if key == o.matKey && key != "" {
		return o.mat, o.matErr // unchanged records: cached
	}
	o.matKey = key
	defer func() {
		if rec := recover(); rec != nil {
			err = fmt.Errorf("panic while reading the network delegation options: %v", rec)
		}
		o.mat, o.matErr = m, err
	}()
	cs := storage.NewChainState("c12opt", dbm.NewMemDB())
	st := storage.NewState(cs)
	for _, k := range ks {
		if err := st.Set(storage.StoreKey(k), dump[k]); err != nil {
			return 0, err
		}
	}
	st.Commit()
	opts, err := governance.NewStore("g", storage.NewState(cs)).GetNetworkDelegOptions()
	if err != nil {
		return 0, err
	}
	return opts.RewardsMaturityTime, nil
}

func c12FeePayer(tx *action.SignedTx) string {
	if len(tx.Signatures) == 0 {
		return ""
	}
	h, err := tx.Signatures[0].Signer.GetHandler()
	if err != nil {
		return ""
	}
	return h.Address().String()
}

func c12Amt(a action.Amount) *big.Int { return new(big.Int).Set(a.Value.BigInt()) }

func (o *c12Oracle) AfterStep(e *core.Engine, idx int, st *core.Step, stepErr error) []core.Violation {
	if st.Kind == "boot" {
		o.obs.InitGenesis(e)
		o.seen = map[[32]byte]bool{}
		o.pool = keys.Address(nddata.DELEGATION_POOL_KEY).String()
		o.pools = map[string]bool{o.pool: true}
		// the other pool accounts, as named by the genesis governance state of this run
		if as := e.W.AppState; as != nil {
			o.pools[keys.Address(as.Governance.PropOptions.BountyProgramAddr).String()] = true
			o.pools[keys.Address(as.Governance.RewardOptions.RewardPoolAddress).String()] = true
		}
		o.pools[keys.Address(fees.POOL_KEY).String()] = true
		l := o.obs.Cur
		if c12Bal(l.Bal, o.pool).Cmp(c12Sum(l.DelegActive)) != 0 {
			o.donated = "the genesis pool balance differs from the genesis active delegations"
		}
		return nil
	}
	if st.Kind != "block" || !o.obs.Update(e, st) {
		return nil
	}
	ob := &o.obs
	H := ob.H
	o.blocks++
	for _, p := range ob.Cur.Problems {
		if strings.Contains(p, "deleg") || strings.Contains(p, "balance") || strings.Contains(p, "pending reward") {
			panic(core.HarnessError{Msg: "C12 cannot decode a record it needs: " + p})
		}
	}
	prev, cur := ob.Prev, ob.Cur
	if os.Getenv("OLSIM_C12_DEBUG") != "" {
		for _, t := range ob.Txs {
			fmt.Fprintf(os.Stderr, "C12DBG h=%d tx %s code=%d log=%s\n", H, t.Label, t.Res.Code, clipS(t.Res.Log, 120))
		}
		for hh, m := range cur.DelegPending {
			for a, x := range m {
				fmt.Fprintf(os.Stderr, "C12DBG h=%d pending[%d][%s]=%s\n", H, hh, a, x)
			}
		}
	}

	var vs []core.Violation
	classes := map[string]bool{}
	add := func(oracle, class, msg string) {
		if classes[oracle+"/"+class] {
			return
		}
		classes[oracle+"/"+class] = true
		vs = append(vs, core.Violation{Property: "C12", Oracle: oracle, Sig: class + ":" + ob.SuspectSig(),
			Msg: fmt.Sprintf("block %d: %s; txs: %s", H, msg, txSummary(ob))})
	}

	// ---- the block's successful transactions -----------------------------------------------------
	M, mErr := o.maturity(ob.PrevDump)
	ops := map[string]*c12Ops{}
	opsOf := func(d string) *c12Ops {
		if ops[d] == nil {
			ops[d] = newC12Ops()
		}
		return ops[d]
	}
	expl := map[string]*big.Int{} // explained OLT balance delta per account
	explain := func(a string, x *big.Int) {
		if a == "" {
			return
		}
		if expl[a] == nil {
			expl[a] = new(big.Int)
		}
		expl[a].Add(expl[a], x)
	}
	tainted := map[string]bool{}      // not judged in this block (records and balance)
	excused := map[string]bool{}      // balance not judged in this block
	opaqueSigner := map[string]bool{} // signed a successful transaction of unknown kind in this block
	needM := false
	rewardOps := false
	for _, t := range ob.Txs {
		sum := sha256.Sum256(t.Bytes)
		dup := o.seen[sum]
		o.seen[sum] = true
		if t.Res.Code != 0 {
			continue
		}
		if t.Tx == nil {
			o.opaque = "an unparseable transaction returned code 0"
			if o.donated == "" {
				o.donated = o.opaque
			}
			continue
		}
		tx := t.Tx
		payer := c12FeePayer(tx)
		if tx.Fee.Price.Currency == "OLT" {
			fee := new(big.Int).Mul(tx.Fee.Price.Value.BigInt(), big.NewInt(t.Res.GasUsed))
			explain(payer, fee.Neg(fee))
		}
		taint := func(as ...string) {
			for _, a := range as {
				if a != "" {
					tainted[a] = true
				}
			}
		}
		bad := func(a action.Amount) bool { return a.Currency != "OLT" || a.Value.BigInt().Sign() < 0 }
		invalid := func(kind string) {
			if o.donated == "" {
				o.donated = "a successful " + kind + " carried a negative or non-OLT amount"
			}
		}
		switch tx.Type {
		case action.ADD_NETWORK_DELEGATE:
			m := &ndact.AddNetworkDelegation{}
			if err := m.Unmarshal(tx.Data); err != nil {
				panic(core.HarnessError{Msg: "C12 cannot decode a successful ADD_NETWORK_DELEGATE: " + err.Error()})
			}
			d := m.DelegationAddress.String()
			if dup || bad(m.Amount) {
				taint(d, payer)
				if !dup {
					invalid("ADD_NETWORK_DELEGATE")
				}
				continue
			}
			x := c12Amt(m.Amount)
			op := opsOf(d)
			op.add.Add(op.add, x)
			op.n++
			explain(d, new(big.Int).Neg(x))
			if x.Sign() > 0 {
				o.nAdd++
				if c12Get(prev.DelegActive, d).Sign() == 0 && H > 1 {
					for _, m := range prev.DelegPending {
						if c12Get(m, d).Sign() > 0 {
							o.redeleg++
							break
						}
					}
				}
			}
		case action.NETWORK_UNDELEGATE:
			m := &ndact.Undelegate{}
			if err := m.Unmarshal(tx.Data); err != nil {
				panic(core.HarnessError{Msg: "C12 cannot decode a successful NETWORK_UNDELEGATE: " + err.Error()})
			}
			d := m.Delegator.String()
			if dup || bad(m.Amount) {
				taint(d, payer)
				if !dup {
					invalid("NETWORK_UNDELEGATE")
				}
				continue
			}
			x := c12Amt(m.Amount)
			op := opsOf(d)
			op.undel.Add(op.undel, x)
			op.n++
			if x.Sign() > 0 {
				o.nUndel++
				needM = true
			}
		case action.REWARDS_WITHDRAW_NETWORK_DELEGATE:
			m := &ndact.Withdraw{}
			if err := m.Unmarshal(tx.Data); err != nil {
				panic(core.HarnessError{Msg: "C12 cannot decode a successful REWARDS_WITHDRAW_NETWORK_DELEGATE: " + err.Error()})
			}
			d := keys.Address(m.Delegator).String()
			if dup || m.Amount.Currency != "OLT" {
				taint(d, payer)
				if !dup {
					invalid("REWARDS_WITHDRAW_NETWORK_DELEGATE")
				}
				continue
			}
			x := c12Amt(m.Amount)
			if x.Sign() < 0 {
				// a negative amount takes nothing out of the reward balance: whatever the balance gains from it
				// shows up as accrual and is held against pulled(H)
				x = new(big.Int)
				rewardOps = true
			}
			op := opsOf(d)
			op.wd.Add(op.wd, x)
			op.n++
			if x.Sign() > 0 {
				o.nWithdraw++
				needM = true
				rewardOps = true
			}
		case action.REWARDS_REINVEST_NETWORK_DELEGATE:
			m := &ndact.Reinvest{}
			if err := m.Unmarshal(tx.Data); err != nil {
				panic(core.HarnessError{Msg: "C12 cannot decode a successful REWARDS_REINVEST_NETWORK_DELEGATE: " + err.Error()})
			}
			d := keys.Address(m.Delegator).String()
			if dup || m.Amount.Currency != "OLT" {
				taint(d, payer)
				if !dup {
					invalid("REWARDS_REINVEST_NETWORK_DELEGATE")
				}
				continue
			}
			x := c12Amt(m.Amount)
			if x.Sign() < 0 {
				// a negative amount takes nothing out of the reward balance: whatever the balance gains from it
				// shows up as accrual and is held against pulled(H)
				x = new(big.Int)
				rewardOps = true
			}
			op := opsOf(d)
			op.reinv.Add(op.reinv, x)
			op.n++
			if x.Sign() > 0 {
				o.nReinvest++
				rewardOps = true
			}
		case action.SEND:
			m := &transfer.Send{}
			if err := m.Unmarshal(tx.Data); err != nil {
				panic(core.HarnessError{Msg: "C12 cannot decode a successful SEND: " + err.Error()})
			}
			from, to := keys.Address(m.From).String(), keys.Address(m.To).String()
			if dup || m.Amount.Value.BigInt().Sign() < 0 {
				taint(from, to, payer)
				if to == o.pool && o.donated == "" {
					o.donated = "a SEND to the pool address was seen"
				}
				continue
			}
			if m.Amount.Currency == "OLT" {
				x := c12Amt(m.Amount)
				explain(from, new(big.Int).Neg(x))
				explain(to, x)
				if (to == o.pool || from == o.pool) && o.donated == "" {
					o.donated = fmt.Sprintf("SEND of %s nue to the pool address at block %d", x, H)
				}
			}
		case action.SENDPOOL:
			m := &transfer.SendPool{}
			if err := m.Unmarshal(tx.Data); err != nil {
				panic(core.HarnessError{Msg: "C12 cannot decode a successful SENDPOOL: " + err.Error()})
			}
			from := keys.Address(m.From).String()
			if dup || m.Amount.Value.BigInt().Sign() < 0 {
				taint(from, payer)
				if o.donated == "" {
					o.donated = "a resubmitted or negative SENDPOOL was seen"
				}
				continue
			}
			if m.Amount.Currency == "OLT" {
				explain(from, new(big.Int).Neg(c12Amt(m.Amount)))
			}
			if m.PoolName == governance.POOL_DELEGATION && o.donated == "" {
				o.donated = fmt.Sprintf("SENDPOOL of %s to %s at block %d", m.Amount.String(), m.PoolName, H)
			}
		case action.WITHDRAW_REWARD:
			// validator rewards (C13): pays its signer address out of the rewards pool; the parties are not judged here
			m := &rwact.Withdraw{}
			if err := m.Unmarshal(tx.Data); err == nil {
				excused[keys.Address(m.SignerAddress).String()] = true
				if keys.Address(m.SignerAddress).String() == o.pool && o.donated == "" {
					o.donated = "a WITHDRAW_REWARD names the pool address as receiver"
				}
			} else if o.opaque == "" {
				o.opaque = "undecodable successful WITHDRAW_REWARD"
			}
			excused[payer] = true
			for _, s := range t.Signers {
				excused[s.String()] = true
			}
		default:
			why := fmt.Sprintf("a %s transaction succeeded at block %d (its effects on balances are unknown to this model)", tx.Type.String(), H)
			if o.opaque == "" {
				o.opaque = why
			}
			if o.donated == "" {
				o.donated = why
			}
			opaqueSigner[payer] = true
			for _, s := range t.Signers {
				opaqueSigner[s.String()] = true
			}
		}
	}
	if needM && mErr != nil {
		panic(core.HarnessError{Msg: "C12 cannot read the maturity period from the dump of H-1: " + mErr.Error()})
	}
	for _, op := range ops {
		if op.n >= 2 {
			o.multiOps++
		}
	}
	if needM && H+M > o.lastMature {
		o.lastMature = H + M
	}

	// ---- (2) active amounts ----------------------------------------------------------------------
	dels := map[string]bool{}
	for d := range prev.DelegActive {
		dels[d] = true
	}
	for d := range cur.DelegActive {
		dels[d] = true
	}
	for d := range prev.DelegRwBalance {
		dels[d] = true
	}
	for d := range cur.DelegRwBalance {
		dels[d] = true
	}
	for d := range ops {
		dels[d] = true
	}
	dl := make([]string, 0, len(dels))
	for d := range dels {
		dl = append(dl, d)
	}
	sort.Strings(dl)
	anyTaint := len(tainted) > 0
	accrualSum := new(big.Int)
	for _, d := range dl {
		if tainted[d] {
			continue
		}
		op := ops[d]
		if op == nil {
			op = newC12Ops()
		}
		pa, ca := c12Get(prev.DelegActive, d), c12Get(cur.DelegActive, d)
		want := new(big.Int).Add(pa, op.add)
		want.Add(want, op.reinv)
		want.Sub(want, op.undel)
		if want.Cmp(ca) != 0 {
			add("active-follows-operations", "active-delta",
				fmt.Sprintf("active delegation of %s is %s, expected %s = %s (block %d) + delegated %s + reinvested %s - undelegated %s",
					d, ca, want, pa, H-1, op.add, op.reinv, op.undel))
		}
		// ---- (5) reward balance ------------------------------------------------------------------
		pr, cr := c12Get(prev.DelegRwBalance, d), c12Get(cur.DelegRwBalance, d)
		if cr.Sign() < 0 {
			add("reward-balance", "reward-balance-negative", fmt.Sprintf("reward balance of %s is %s: withdrawn %s and reinvested %s exceed what had accrued (balance at block %d: %s)",
				d, cr, op.wd, op.reinv, H-1, pr))
		}
		acc := new(big.Int).Sub(cr, pr)
		acc.Add(acc, op.wd)
		acc.Add(acc, op.reinv)
		if acc.Sign() < 0 {
			add("reward-balance", "reward-balance-unexplained-decrease",
				fmt.Sprintf("reward balance of %s fell from %s to %s, successful withdrawals (%s) and reinvestments (%s) of this delegator in this block explain only %s",
					d, pr, cr, op.wd, op.reinv, new(big.Int).Add(op.wd, op.reinv)))
		}
		accrualSum.Add(accrualSum, acc)
	}
	if rewardOps && !anyTaint && len(vs) == 0 {
		pulled, err := ObservePulled(ob.PrevDump, e.C.Ref(), H)
		if err == nil {
			o.boundChecks++
			if accrualSum.Cmp(pulled) > 0 {
				add("reward-balance", "reward-claims-exceed-accrual-bound",
					fmt.Sprintf("reward balances + amounts withdrawn/reinvested in this block imply an accrual of %s nue for all delegators together, but only %s nue were pulled for this block: a withdrawal or reinvestment did not reduce the reward balance by its amount",
						accrualSum, pulled))
			}
		}
	}

	// ---- (3) (4) pending records -----------------------------------------------------------------
	checkPending := func(oracle, what string, pp, cp map[int64]map[string]*big.Int, added func(op *c12Ops) *big.Int, paid *int) {
		hs := map[int64]bool{}
		for h := range pp {
			hs[h] = true
		}
		for h := range cp {
			hs[h] = true
		}
		if needM {
			hs[H+M] = true
		}
		hl := make([]int64, 0, len(hs))
		for h := range hs {
			hl = append(hl, h)
		}
		sort.Slice(hl, func(i, j int) bool { return hl[i] < hl[j] })
		for _, h := range hl {
			ds := map[string]bool{}
			for d := range pp[h] {
				ds[d] = true
			}
			for d := range cp[h] {
				ds[d] = true
			}
			if h == H+M {
				for d := range ops {
					ds[d] = true
				}
			}
			dl := make([]string, 0, len(ds))
			for d := range ds {
				dl = append(dl, d)
			}
			sort.Strings(dl)
			for _, d := range dl {
				if tainted[d] {
					continue
				}
				p, c := c12Get(pp[h], d), c12Get(cp[h], d)
				if h <= H {
					if c.Sign() != 0 {
						if h == H {
							add(oracle, what+"-matured-entry-not-cleared", fmt.Sprintf("%s entry [height %d][%s] matured in this block (value %s in the dump of block %d) and is %s afterwards, expected 0",
								what, h, d, p, H-1, c))
						} else {
							add(oracle, what+"-stale-entry", fmt.Sprintf("%s entry [height %d][%s] = %s although the chain is at block %d: it can never be paid at its maturity height",
								what, h, d, c, H))
						}
					} else if h == H && p.Sign() > 0 {
						*paid++
					}
					continue
				}
				want := new(big.Int).Set(p)
				plus := new(big.Int)
				if h == H+M && ops[d] != nil {
					plus = added(ops[d])
					want.Add(want, plus)
				}
				if want.Cmp(c) != 0 {
					add(oracle, what+"-delta", fmt.Sprintf("%s entry [height %d][%s] is %s, expected %s = %s (block %d) + %s requested by successful transactions of this block (maturity period %d, so they mature at %d)",
						what, h, d, c, want, p, H-1, plus, M, H+M))
				}
			}
		}
	}
	checkPending("undelegation-pending", "pending-undelegation", prev.DelegPending, cur.DelegPending, func(op *c12Ops) *big.Int { return op.undel }, &o.paidUndel)
	checkPending("reward-withdrawal-pending", "pending-reward", prev.DelegRwPending, cur.DelegRwPending, func(op *c12Ops) *big.Int { return op.wd }, &o.paidRewards)

	// ---- (1) pool covers the active delegations ---------------------------------------------------
	poolBal := c12Bal(cur.Bal, o.pool)
	sumA := c12Sum(cur.DelegActive)
	if poolBal.Cmp(sumA) < 0 {
		add("pool-covers-active", "pool-below-active", fmt.Sprintf("delegation pool %s holds %s nue, the active delegations sum to %s nue (short by %s); before the block: pool %s, active %s",
			o.pool, poolBal, sumA, new(big.Int).Sub(sumA, poolBal), c12Bal(prev.Bal, o.pool), c12Sum(prev.DelegActive)))
	} else if o.donated == "" {
		if sumA.Sign() > 0 {
			o.eqBlocks++
		}
		if poolBal.Cmp(sumA) != 0 {
			add("pool-covers-active", "pool-above-active-without-donation", fmt.Sprintf("delegation pool %s holds %s nue, the active delegations sum to %s nue (surplus %s) and no transaction of this run credited the pool directly; before the block: pool %s, active %s",
				o.pool, poolBal, sumA, new(big.Int).Sub(poolBal, sumA), c12Bal(prev.Bal, o.pool), c12Sum(prev.DelegActive)))
		}
	} else {
		o.geBlocks++
	}

	// ---- (6) paid exactly at maturity ------------------------------------------------------------
	accts := map[string]bool{}
	for a := range prev.Bal {
		accts[a] = true
	}
	for a := range cur.Bal {
		accts[a] = true
	}
	for a := range expl {
		accts[a] = true
	}
	for a := range prev.DelegPending[H] {
		accts[a] = true
	}
	for a := range prev.DelegRwPending[H] {
		accts[a] = true
	}
	al := make([]string, 0, len(accts))
	for a := range accts {
		al = append(al, a)
	}
	sort.Strings(al)
	exact := o.opaque == ""
	if exact {
		o.exactBlocks++
	}
	for _, a := range al {
		if o.pools[a] || tainted[a] || excused[a] {
			continue
		}
		mu, mr := c12Get(prev.DelegPending[H], a), c12Get(prev.DelegRwPending[H], a)
		due := new(big.Int).Add(mu, mr)
		delta := new(big.Int).Sub(c12Bal(cur.Bal, a), c12Bal(prev.Bal, a))
		ex := c12Get(expl, a)
		unexplained := new(big.Int).Sub(delta, ex)
		if !exact && opaqueSigner[a] {
			continue
		}
		switch c := unexplained.Cmp(due); {
		case c < 0 && due.Sign() > 0:
			add("paid-exactly-at-maturity", "matured-amount-not-paid",
				fmt.Sprintf("account %s: undelegated %s + withdrawn rewards %s nue mature at this block (records of block %d), but its balance moved by %s of which %s is explained by its transactions and fees: only %s arrived",
					a, mu, mr, H-1, delta, ex, unexplained))
		case c > 0 && exact:
			add("paid-exactly-at-maturity", "credit-without-maturity",
				fmt.Sprintf("account %s: balance moved by %s, its transactions and fees explain %s, amounts maturing for it at this block are %s (undelegation) + %s (rewards): %s nue arrived that no maturing record accounts for (paid early, twice or to the wrong account)%s",
					a, delta, ex, mu, mr, new(big.Int).Sub(unexplained, due), c12Hint(prev, cur, H, a, new(big.Int).Sub(unexplained, due))))
		}
	}
	return vs
}

// c12Hint looks for a pending record whose amount equals the surplus (diagnosis only).
func c12Hint(prev, cur *ledger.Ledger, H int64, a string, surplus *big.Int) string {
	if surplus.Sign() <= 0 {
		return ""
	}
	var hits []string
	look := func(name string, l *ledger.Ledger, m map[int64]map[string]*big.Int) {
		for h, mm := range m {
			for d, x := range mm {
				if x.Cmp(surplus) == 0 {
					hits = append(hits, fmt.Sprintf("%s[height %d][%s]", name, h, d))
				}
			}
		}
	}
	look("pending undelegation before the block", prev, prev.DelegPending)
	look("pending undelegation after the block", cur, cur.DelegPending)
	look("pending reward before the block", prev, prev.DelegRwPending)
	look("pending reward after the block", cur, cur.DelegRwPending)
	if len(hits) == 0 {
		return ""
	}
	sort.Strings(hits)
	if len(hits) > 4 {
		hits = hits[:4]
	}
	return "; the surplus equals " + strings.Join(hits, ", ")
}

func c12Sum(m map[string]*big.Int) *big.Int {
	t := new(big.Int)
	for _, x := range m {
		t.Add(t, x)
	}
	return t
}

func (o *c12Oracle) Finish(e *core.Engine) []core.Violation {
	p := e.Stats.Probes
	p["c12:boundaries-equality"] += o.eqBlocks
	p["c12:boundaries-geq-only"] += o.geBlocks
	p["c12:blocks-exact-balance"] += o.exactBlocks
	p["c12:delegate-ok"] += o.nAdd
	p["c12:undelegate-ok"] += o.nUndel
	p["c12:withdraw-ok"] += o.nWithdraw
	p["c12:reinvest-ok"] += o.nReinvest
	p["c12:undelegation-paid"] += o.paidUndel
	p["c12:reward-withdrawal-paid"] += o.paidRewards
	p["c12:multi-op-delegator-blocks"] += o.multiOps
	p["c12:redelegate-after-undelegate-all"] += o.redeleg
	p["c12:accrual-bound-checks"] += o.boundChecks
	if o.lastMature > 0 && o.obs.H >= o.lastMature {
		p["c12:runs-past-all-maturity-heights"]++
	}
	return nil
}

// NonTrivial: the run saw the whole life cycle — at least two undelegations and one reward withdrawal were
// requested, matured and were paid inside the run, at least one reinvestment succeeded, and at least one
// delegator had two or more successful delegation operations in one block.
func (o *c12Oracle) NonTrivial(e *core.Engine) bool {
	return o.paidUndel >= 2 && o.paidRewards >= 1 && o.nReinvest >= 1 && o.multiOps >= 1
}

func init() {
	Register(&ClusterProp{
		Id: "C12",
		RuleText: "each run: one real replica executes 28-45 blocks of a PRNG-built history in which 2-4 delegators delegate large amounts, undelegate (partly, everything, several times per block, too much), re-delegate, withdraw and reinvest rewards " +
			"(several operations per block and per delegator, races, zero amounts, fee-step failures), bystanders send plain transfers; 1 run in 4 adds direct donations to the pool (SENDPOOL / SEND to the pool address), 1 in 4 adds the stock netdeleg/rewards/send clients with forged-signer, negative and foreign-currency variants; " +
			"most runs stop requesting new maturities 6 blocks before the end so that everything matures inside the run. After every commit the state is dumped and decoded. " +
			"Oracles per block: pool balance >= sum of active delegations, == while no donation (or transaction of unknown kind) was observed; active amounts move exactly by the successful delegate/undelegate/reinvest amounts; " +
			"pending undelegation / pending reward records rise by exactly the undelegated / withdrawn amounts at height H + maturity (maturity read from the dump of H-1), never otherwise, and are zero once their height is reached; " +
			"reward balances fall only by successful withdraw/reinvest amounts, never below zero, and the implied accrual stays within pulled(H); " +
			"every non-pool account's balance delta minus the effects of its own transactions (delegated amounts, transfers, fees = gas used x price) equals exactly the amounts maturing for it at that block. " +
			"Non-trivial: >=2 undelegations and >=1 reward withdrawal matured and were paid inside the run, >=1 reinvestment, >=1 delegator with >=2 successful delegation operations in one block; distinct = distinct fingerprints.",
		MakeSetup: func(rng *rand.Rand, tier string, seed uint64) *Setup {
			k := SwarmKnobs(rng)
			k.NumUsers = 5 + rng.Intn(3)
			// (the maturity period is fixed: InitChain installs the constant network_delegation.RewardsMaturityTime = 4
			// whatever the genesis document says, and the governance validation refuses to change it)
			su := &Setup{Knobs: k, Sess: gen.NewSession()}
			su.Replicas = append(su.Replicas, core.ReplicaConf{Identity: "x0", Quiet: true, Recent: 10, Every: 100, Cycles: 10, WitnessInitEarly: true})
			su.Blocks = 28 + rng.Intn(18)
			if tier == "thorough" {
				su.Blocks = 35 + rng.Intn(45)
			}
			g := &c12Gen{NDeleg: 2 + rng.Intn(3), Blocks: su.Blocks, Donors: rng.Intn(4) == 0, DonateFrom: int64(6 + rng.Intn(16)), QuietTail: rng.Intn(5) != 0}
			su.Gens = []gen.Generator{g}
			if rng.Intn(4) == 0 {
				su.Gens = append(su.Gens, gen.ByName("rewards", "netdeleg", "send")...)
				if g.Donors {
					su.Gens = append(su.Gens, gen.ByName("sendpool")...)
				}
			}
			su.MaxTx = 14
			su.PlanHook = AbsentHook(0.05)
			return su
		},
		MakeOracle: func(e *core.Engine, tr *core.Trace) Oracle { return &c12Oracle{} },
	})
}

package props

import (
	"math/big"
	"strconv"

	ethcmn "github.com/ethereum/go-ethereum/common"
	ethcrypto "github.com/ethereum/go-ethereum/crypto"

	"github.com/Oneledger/protocol/action/transfer"
	"github.com/Oneledger/protocol/data/balance"
	"github.com/Oneledger/protocol/data/keys"

	"olsim/core"
	"olsim/gen"
)

// Workload generator of the C17 profile ("c17mix"): it mixes native and OLVM value movements on
// the SAME accounts inside the same blocks and keeps a "balance probe" contract alive whose only job
// is to make the number the EVM sees for an account observable in the state:
//
//	probe runtime:  slot0 := BALANCE(calldata[0..32]) ; slot1 := SELFBALANCE ; STOP
//
// The oracle recognises a probe call from observations only (code hash of the recipient's account
// record + 32 bytes of call data), never from the generator's memory or labels.

// c17ProbeRuntime: PUSH1 0 CALLDATALOAD BALANCE PUSH1 0 SSTORE SELFBALANCE PUSH1 1 SSTORE STOP
var c17ProbeRuntime = []byte{0x60, 0x00, 0x35, 0x31, 0x60, 0x00, 0x55, 0x47, 0x60, 0x01, 0x55, 0x00}

// c17ProbeInit: PUSH1 len DUP1 PUSH1 11 PUSH1 0 CODECOPY PUSH1 0 RETURN ++ runtime
var c17ProbeInit = append([]byte{0x60, byte(len(c17ProbeRuntime)), 0x80, 0x60, 0x0b, 0x60, 0x00, 0x39, 0x60, 0x00, 0xf3}, c17ProbeRuntime...)

var c17ProbeCodeHash = ethcrypto.Keccak256(c17ProbeRuntime)

type c17Probe struct {
	Addr ethcmn.Address
	Born int64
	Live bool
}

type c17GenState struct {
	Own      []*core.Account
	Probes   []*c17Probe
	FundedAt map[string]int64
	Recent   []keys.Address // recent recipients (20-byte addresses)
}

type c17Mix struct{}

func (c17Mix) Name() string { return "c17mix" }

func c17Nue(olt int64) *big.Int {
	return new(big.Int).Mul(big.NewInt(olt), new(big.Int).Exp(big.NewInt(10), big.NewInt(18), nil))
}

func c17Memo(c *gen.Ctx) string {
	const letters = "abcdefghijklmnopqrstuvwxyz0123456789"
	b := make([]byte, 8)
	for i := range b {
		b[i] = letters[c.Rng.Intn(len(letters))]
	}
	return string(b)
}

func c17Small(c *gen.Ctx) *big.Int {
	return new(big.Int).Add(big.NewInt(1), new(big.Int).Rand(c.Rng, c17Nue(3)))
}

func (c17Mix) Gen(c *gen.Ctx) []gen.Tx {
	if c == nil || c.Ref == nil || c.Ref.App == nil || c.W == nil || c.S == nil || len(c.W.Users) == 0 {
		return nil
	}
	if c.S.M == nil {
		c.S.M = map[string]interface{}{}
	}
	st, _ := c.S.M["c17mix"].(*c17GenState)
	if st == nil {
		st = &c17GenState{FundedAt: map[string]int64{}}
		for i := 0; i < 3; i++ {
			st.Own = append(st.Own, core.NewEthAccount(c.W.Seed, "c17a"+strconv.Itoa(i)))
		}
		c.S.M["c17mix"] = st
	}
	rs := c.Ref.ReadState()
	cur := balance.NewCurrencySet()
	if c.W.AppState != nil {
		for _, cu := range c.W.AppState.Currencies {
			_ = cur.Register(cu)
		}
	}
	keeper := balance.NewNesterAccountKeeper(rs, balance.NewStore("b", rs), cur)
	bal := func(a keys.Address) *big.Int { return c.Ref.BalanceOf(a, "OLT") }
	hasProbeCode := func(a ethcmn.Address) bool {
		acc, err := keeper.GetAccount(keys.Address(a.Bytes()))
		return err == nil && acc != nil && string(acc.CodeHash) == string(c17ProbeCodeHash)
	}
	// reconcile the probes with the committed state
	keep := st.Probes[:0]
	for _, p := range st.Probes {
		p.Live = hasProbeCode(p.Addr)
		if p.Live || c.H-p.Born <= 3 {
			keep = append(keep, p)
		}
	}
	st.Probes = keep
	var live []*c17Probe
	for _, p := range st.Probes {
		if p.Live {
			live = append(live, p)
		}
	}
	edUser := func() *core.Account { return c.W.Users[c.Rng.Intn(len(c.W.Users))] }
	remember := func(a keys.Address) {
		st.Recent = append(st.Recent, a)
		if len(st.Recent) > 12 {
			st.Recent = st.Recent[1:]
		}
	}
	// somebody interesting: an account that both worlds touch
	someone := func() keys.Address {
		switch r := c.Rng.Intn(10); {
		case r < 3 && len(c.W.EthUsers) > 0:
			return c.W.EthUsers[c.Rng.Intn(len(c.W.EthUsers))].Addr
		case r < 5:
			return st.Own[c.Rng.Intn(len(st.Own))].Addr
		case r < 7:
			return edUser().Addr
		case r < 8 && len(live) > 0:
			return keys.Address(live[c.Rng.Intn(len(live))].Addr.Bytes())
		case r < 9 && len(st.Recent) > 0:
			return st.Recent[c.Rng.Intn(len(st.Recent))]
		}
		return core.NewEthAccount(c.W.Seed, "c17fresh"+strconv.Itoa(c.Rng.Intn(4))).Addr
	}
	var out []gen.Tx
	native := func(from *core.Account, to keys.Address, amt *big.Int, label string) {
		msg := &transfer.Send{From: from.Addr, To: to, Amount: core.OLT(amt)}
		out = append(out, gen.Tx{Bytes: core.BuildTx(msg, core.DefaultFee(), c17Memo(c), from), Kind: label})
	}
	// keep the generator's own accounts funded (native SEND to an address the EVM side uses)
	for _, a := range st.Own {
		if bal(a.Addr).Cmp(c17Nue(50)) >= 0 {
			continue
		}
		if h, ok := st.FundedAt[a.Label]; ok && c.H-h < 3 {
			continue
		}
		from := edUser()
		if bal(from.Addr).Cmp(c17Nue(20000)) < 0 {
			continue
		}
		st.FundedAt[a.Label] = c.H
		native(from, a.Addr, c17Nue(3000), "SEND/c17-fund")
	}
	// one OLVM transaction per own account and block at most (the block order is shuffled afterwards)
	price := big.NewInt(1000000000)
	olvm := func(s *core.Account, to *ethcmn.Address, value *big.Int, data []byte, gas int64, label string) {
		var toK *keys.Address
		if to != nil {
			k := keys.Address(append([]byte{}, to.Bytes()...))
			toK = &k
		}
		if value == nil {
			value = new(big.Int)
		}
		n := keeper.GetNonce(s.Addr)
		out = append(out, gen.Tx{Bytes: core.BuildOLVM(c.W.ChainID, s, toK, n, value, data, gas, price, nil, nil), Kind: label})
	}
	word := func(a keys.Address) []byte { return ethcmn.LeftPadBytes(a.Bytes(), 32) }
	pendingProbe := len(st.Probes) > len(live)
	order := c.Rng.Perm(len(st.Own))
	for _, i := range order {
		s := st.Own[i]
		if bal(s.Addr).Cmp(c17Nue(5)) < 0 || c.Rng.Intn(4) == 0 {
			continue
		}
		sEth := ethcmn.BytesToAddress(s.Addr.Bytes())
		if len(live) == 0 {
			if !pendingProbe {
				addr := ethcrypto.CreateAddress(sEth, keeper.GetNonce(s.Addr))
				st.Probes = append(st.Probes, &c17Probe{Addr: addr, Born: c.H})
				pendingProbe = true
				var v *big.Int
				if c.Rng.Intn(3) == 0 {
					v = c17Small(c)
				}
				olvm(s, nil, v, c17ProbeInit, 200000, "OLVM/c17-probe-create")
				continue
			}
		} else if len(live) < 2 && !pendingProbe && c.Rng.Intn(12) == 0 {
			addr := ethcrypto.CreateAddress(sEth, keeper.GetNonce(s.Addr))
			st.Probes = append(st.Probes, &c17Probe{Addr: addr, Born: c.H})
			pendingProbe = true
			olvm(s, nil, nil, c17ProbeInit, 200000, "OLVM/c17-probe-create")
			continue
		}
		switch r := c.Rng.Intn(20); {
		case r < 9 && len(live) > 0:
			p := live[c.Rng.Intn(len(live))]
			x := someone()
			var v *big.Int
			if c.Rng.Intn(5) == 0 {
				v = c17Small(c)
			}
			olvm(s, &p.Addr, v, word(x), 150000, "OLVM/c17-probe")
			// the same account is moved natively in the same block (before or after: order is shuffled)
			if c.Rng.Intn(2) == 0 && len(x) == 20 {
				native(edUser(), x, c17Small(c), "SEND/c17-to-probed")
			}
		case r < 11 && len(live) > 0:
			// not enough gas for the two SSTOREs: out of gas, the value must come back
			p := live[c.Rng.Intn(len(live))]
			olvm(s, &p.Addr, c17Small(c), word(someone()), int64(21000+32*16+2700+c.Rng.Intn(20000)), "OLVM/c17-probe-oog")
		case r < 14:
			to := edUser().Addr
			remember(to)
			t := ethcmn.BytesToAddress(to.Bytes())
			olvm(s, &t, c17Small(c), nil, 21000+int64(c.Rng.Intn(2))*30000, "OLVM/c17-to-native")
		case r < 17:
			to := someone()
			remember(to)
			t := ethcmn.BytesToAddress(to.Bytes())
			olvm(s, &t, c17Small(c), nil, 60000, "OLVM/c17-transfer")
		case r < 18:
			// the whole balance minus the exact cost of a plain transfer: leaves zero behind
			b := bal(s.Addr)
			cost := new(big.Int).Mul(big.NewInt(21000), price)
			if b.Cmp(new(big.Int).Mul(cost, big.NewInt(2))) > 0 && b.Cmp(c17Nue(200)) < 0 {
				to := edUser().Addr
				t := ethcmn.BytesToAddress(to.Bytes())
				olvm(s, &t, new(big.Int).Sub(b, cost), nil, 21000, "OLVM/c17-sweep")
			}
		default:
			// data to an account without code: nothing runs, the intrinsic gas is all that is used
			to := someone()
			t := ethcmn.BytesToAddress(to.Bytes())
			d := make([]byte, 1+c.Rng.Intn(40))
			c.Rng.Read(d)
			olvm(s, &t, nil, d, 80000, "OLVM/c17-data-to-any")
		}
	}
	// native movements towards accounts of the EVM world
	for n := c.Rng.Intn(3); n > 0; n-- {
		from := edUser()
		if bal(from.Addr).Cmp(c17Nue(100)) < 0 {
			continue
		}
		to := someone()
		if len(to) != 20 {
			continue
		}
		remember(to)
		native(from, to, c17Small(c), "SEND/c17-to-eth")
	}
	return out
}

// c17Mix is deliberately NOT registered with gen.Register: the swarm of the other profiles must not
// change; the C17 profile adds it to its generator list itself.

package props

import (
	"bytes"
	"fmt"
	"math/rand"
	"strings"

	"olsim/core"
)

// C08 Crash-restart equivalence.

type c08Oracle struct {
	tr       *TranscriptOracle
	infoSeen map[int]int
	replayed int // block attempts executed by the handshaker and compared
	midCrash int
}

func (o *c08Oracle) infos(e *core.Engine) []core.Violation {
	var vs []core.Violation
	for i, r := range e.C.Replicas {
		for j := o.infoSeen[i]; j < len(r.Tr.Infos); j++ {
			in := r.Tr.Infos[j]
			if in.Height != in.WantHeight || (in.WantHeight > 0 && !bytes.Equal(in.AppHash, in.WantHash)) {
				vs = append(vs, core.Violation{Property: "C08", Oracle: "info-after-restart", Sig: "info-mismatch",
					Msg: fmt.Sprintf("replica %d after restart #%d reports height=%d hash=%x, its last completed commit was height=%d hash=%x",
						i, in.Restarts, in.Height, in.AppHash, in.WantHeight, in.WantHash)})
			}
		}
		o.infoSeen[i] = len(r.Tr.Infos)
	}
	return vs
}

func (o *c08Oracle) AfterStep(e *core.Engine, idx int, st *core.Step, stepErr error) []core.Violation {
	vs := o.infos(e)
	vs = append(vs, o.tr.Check(e)...)
	if len(vs) == 0 && stepErr != nil {
		s := stepErr.Error()
		switch {
		case strings.HasPrefix(s, "handshake"):
			vs = append(vs, core.Violation{Property: "C08", Oracle: "handshake-completes", Sig: "handshake-failed", Msg: s})
		case strings.HasPrefix(s, "replica "):
			vs = append(vs, core.Violation{Property: "C08", Oracle: "transcript-equality", Sig: "block-rejected-after-restart", Msg: s})
		}
	}
	return vs
}

func (o *c08Oracle) Finish(e *core.Engine) []core.Violation {
	vs := o.infos(e)
	vs = append(vs, o.tr.Check(e)...)
	// bounded liveness: faults have stopped and every victim was restarted; it must be at the tip
	for i, r := range e.C.Replicas {
		if i == 0 {
			continue
		}
		if !r.Up || r.State.LastBlockHeight != e.C.Height() {
			vs = append(vs, core.Violation{Property: "C08", Oracle: "catches-up", Sig: "not-at-tip",
				Msg: fmt.Sprintf("replica %d up=%v at height %d, chain is at %d after faults stopped", i, r.Up, r.State.LastBlockHeight, e.C.Height())})
		}
	}
	return vs
}

func (o *c08Oracle) NonTrivial(e *core.Engine) bool {
	// >= 1 crash between BeginBlock and Commit, followed by a replay of >= 1 block with >= 1 successful tx
	mid := 0
	for k, v := range e.Stats.Faults {
		if strings.HasPrefix(k, "crash@") && !strings.Contains(k, "beforeBeginBlock") && !strings.Contains(k, "afterCommit") && !strings.Contains(k, "InitChain") {
			mid += v
		}
	}
	replayedOK := false
	for i, r := range e.C.Replicas {
		if i == 0 {
			continue
		}
		for _, a := range r.Tr.Attempts {
			if a.Handshake && a.Committed {
				for _, t := range a.Txs {
					if t.Code == 0 {
						replayedOK = true
					}
				}
			}
		}
	}
	return mid > 0 && replayedOK
}

func init() {
	Register(&ClusterProp{
		Id: "C08",
		RuleText: "each run: reference replica (never crashed) + 1-3 victims executing the same PRNG-built history; victims are killed at PRNG-chosen ABCI boundaries " +
			"(before/after BeginBlock, each DeliverTx, EndBlock, Commit; also during handshake replay and catch-up, repeatedly; and, as `bounce`, between two blocks with an immediate restart) and restarted from a byte copy of their open data directory through the real Handshaker. " +
			"Oracles: Info after reopen == victim's own last completed commit; handshake completes; every (re)executed block attempt equals the reference's results (code, data, gas, events of every transaction; validator updates; app hash); victims reach the tip once faults stop. " +
			"Non-trivial: >=1 crash strictly inside a block followed by a handshake replay of a block with >=1 successful transaction; distinct = distinct fingerprints.",
		MakeSetup: func(rng *rand.Rand, tier string, seed uint64) *Setup {
			nb := 12 + rng.Intn(25)
			if tier == "thorough" {
				nb = 15 + rng.Intn(50)
			}
			su := drawWorkload(rng, tier, seed, 3, nb)
			su.Knobs.MaxGas = drawMaxGas(rng)
			if rng.Intn(2) == 0 {
				su.Sess.M["olvm-blockhash"] = true // every replica has the same block store: BLOCKHASH is comparable
			}
			k := su.Knobs
			nv := 1 + rng.Intn(3)
			su.Replicas = append(su.Replicas, core.ReplicaConf{Identity: "x0", Quiet: true, Recent: 10, Every: 100, Cycles: 10, WitnessInitEarly: true})
			for i := 0; i < nv; i++ {
				rc := core.ReplicaConf{WitnessInitEarly: rng.Intn(2) == 0, Quiet: rng.Intn(2) == 0}
				switch rng.Intn(3) {
				case 0:
					rc.Identity = fmt.Sprintf("v%d", rng.Intn(k.NumValidators))
				case 1:
					rc.Identity = fmt.Sprintf("c%d", rng.Intn(4))
				default:
					rc.Identity = fmt.Sprintf("x%d", i+1)
				}
				rc.Recent, rc.Every, rc.Cycles = drawRotation(rng)
				su.Replicas = append(su.Replicas, rc)
			}
			su.MaxTx = 10
			rate := []float64{0.01, 0.02, 0.04}[rng.Intn(3)]
			su.Policy = &NoisePolicy{Rng: rng, Sess: su.Sess, CheckRate: 0.02, CrashRate: rate, ReplayCrashRate: rate * 2, MaxCrashes: 12}
			su.Between = chainBetween(RestartAndJoinBetween(0.6, 0.03, nv+3, k.NumValidators), BounceVictimBetween(0.15))
			su.PlanHook = chainPlan(su.PlanHook, AbsentHook(0.05))
			return su
		},
		MakeOracle: func(e *core.Engine, tr *core.Trace) Oracle {
			to := NewTranscriptOracle("C08", "transcript-equality")
			to.Events = true
			return &c08Oracle{tr: to, infoSeen: map[int]int{}}
		},
	})
}

func (o *c08Oracle) OnDeath(e *core.Engine, idx int, st *core.Step, deaths []string) []core.Violation {
	return ReplicaDeath("C08", "transcript-equality", e, st, deaths)
}

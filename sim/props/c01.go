package props

import (
	"fmt"
	"math/rand"

	"olsim/core"
	"olsim/gen"
)

// C01 Replica determinism.

type c01Oracle struct {
	tr *TranscriptOracle
}

func (o *c01Oracle) AfterStep(e *core.Engine, idx int, st *core.Step, stepErr error) []core.Violation {
	vs := o.tr.Check(e)
	if len(vs) == 0 && stepErr != nil {
		// a non-reference replica rejecting a canonical block is itself a divergence
		if s := stepErr.Error(); len(s) > 8 && s[:8] == "replica " {
			vs = append(vs, core.Violation{Property: "C01", Oracle: "transcript-equality", Sig: "block-rejected", Msg: s})
		}
	}
	return vs
}
func (o *c01Oracle) Finish(e *core.Engine) []core.Violation { return o.tr.Check(e) }
func (o *c01Oracle) NonTrivial(e *core.Engine) bool {
	// at least two live replicas with different roles compared over >= 5 blocks with >= 3 successful txs
	ok := 0
	for k, v := range e.Stats.Txs {
		if len(k) > 3 && k[len(k)-3:] == ":ok" {
			ok += v
		}
	}
	return o.tr.Compared >= 5 && ok >= 3 && len(e.C.Replicas) >= 2
}

func drawRotation(rng *rand.Rand) (int64, int64, int64) {
	switch rng.Intn(4) {
	case 0:
		return 10, 100, 10 // shipped default
	case 1:
		return 0, 1, 0 // archive
	case 2:
		return int64(1 + rng.Intn(3)), int64(rng.Intn(4)), int64(rng.Intn(3))
	}
	return int64(1 + rng.Intn(5)), 0, 0
}

// SwarmKnobs draws a per-run configuration around DefaultKnobs.
func SwarmKnobs(rng *rand.Rand) core.Knobs {
	k := core.DefaultKnobs()
	k.NumValidators = 1 + rng.Intn(6)
	k.NumWitnesses = rng.Intn(k.NumValidators + 1)
	k.NumUsers = 3 + rng.Intn(5)
	k.NumEthUsers = 1 + rng.Intn(3)
	k.NumCandidates = rng.Intn(4)
	k.MaturityTime = int64(1 + rng.Intn(5))
	k.RewardInterval = int64(2 + rng.Intn(6))
	k.SpeedCycle = int64(3 + rng.Intn(10))
	k.SecondsPerCycle = k.SpeedCycle * k.BlockSeconds
	k.YearCloseWindow = int64(10 + rng.Intn(100))
	k.FundingDeadline = int64(4 + rng.Intn(10))
	k.VotingDeadline = k.FundingDeadline + int64(3+rng.Intn(10))
	k.MinVotesReq = int64(1 + rng.Intn(3))
	k.BlockVotesDiff = k.MinVotesReq + int64(1+rng.Intn(4))
	k.GenesisMature = rng.Intn(5)
	if rng.Intn(4) == 0 {
		k.Frankenstein = int64(2 + rng.Intn(12))
	}
	return k
}

// drawMaxGas: block gas limit of the genesis consensus params (none, roomy, tight). Only profiles whose
// oracle compares executions of the same block sequence use it; with a finite limit a block's later
// transactions can be refused for gas, which is the same on every replica.
func drawMaxGas(rng *rand.Rand) int64 {
	return []int64{-1, -1, 40000000, 8000000}[rng.Intn(4)]
}

// borrowable: sibling checks whose profiles (knobs, clients, schedule hooks) were tuned for reach into one
// subsystem each; other oracles run over them in a share of their runs.
var borrowable = []string{"C10", "C11", "C12", "C13", "C14", "C15", "C17", "C19", "C20"}

// drawWorkload draws the history part of a run: the generic swarm (knobs + random subset of all clients,
// nBlocks blocks) or, in tenths/10 of the runs, the workload of a sibling check (its knobs, clients, block
// count capped at 50 and per-block hook; its replicas, fault policy and oracle are NOT taken). The caller adds
// replicas, fault policy and its own hooks.
func drawWorkload(rng *rand.Rand, tier string, seed uint64, tenths int, nBlocks int) *Setup {
	su := drawWorkload0(rng, tier, seed, tenths, nBlocks)
	// inputs that make a handler panic: since the per-transaction panic recovery they are answered with an
	// error code like any failed transaction, so half of the runs of every profile carry them
	if rng.Intn(2) == 0 {
		su.Sess.M["lethal"] = true
		su.Sess.M["olvm-basefee"] = true
	}
	return su
}

func drawWorkload0(rng *rand.Rand, tier string, seed uint64, tenths int, nBlocks int) *Setup {
	if rng.Intn(10) < tenths {
		from := borrowable[rng.Intn(len(borrowable))]
		if p, ok := Registry[from].(*ClusterProp); ok {
			b := p.MakeSetup(rng, tier, seed)
			su := &Setup{Knobs: b.Knobs, Gens: b.Gens, Blocks: b.Blocks, MaxTx: b.MaxTx, PlanHook: b.PlanHook, Sess: b.Sess, Extra: nil}
			if su.Sess == nil {
				su.Sess = gen.NewSession()
			}
			if su.Blocks > 50 {
				su.Blocks = 50
			}
			if su.MaxTx == 0 {
				su.MaxTx = 12
			}
			su.Sess.M["borrowed-from"] = from
			return su
		}
	}
	su := &Setup{Knobs: SwarmKnobs(rng), Sess: gen.NewSession()}
	su.Gens = allGens(rng)
	su.Blocks = nBlocks
	su.MaxTx = 12
	return su
}

// chainPlan runs two per-block hooks one after the other (either may be nil).
func chainPlan(a, b func(e *core.Engine, rng *rand.Rand, st *core.Step, gc *gen.Ctx)) func(e *core.Engine, rng *rand.Rand, st *core.Step, gc *gen.Ctx) {
	if a == nil {
		return b
	}
	if b == nil {
		return a
	}
	return func(e *core.Engine, rng *rand.Rand, st *core.Step, gc *gen.Ctx) {
		a(e, rng, st, gc)
		b(e, rng, st, gc)
	}
}

func allGens(rng *rand.Rand) []gen.Generator {
	all := gen.All()
	// swarm: each generator enabled with probability 0.7, at least two. The adversarial clients that
	// rewrite other clients' transactions are added by the profiles that want them.
	var out []gen.Generator
	for _, g := range all {
		if g.Name() == "hostile-values" || g.Name() == "impersonator" || g.Name() == "garbage" {
			continue
		}
		if rng.Intn(10) < 7 {
			out = append(out, g)
		}
	}
	if len(out) < 2 {
		out = all
	}
	return out
}

func init() {
	Register(&ClusterProp{
		Id: "C01",
		RuleText: "each run: a cluster of 3-6 real replicas with different identities/roles (validator or not, ETH witness or not, " +
			"witness-init before/after genesis, different chain-state rotation, CheckTx noise, crash/restart on non-reference replicas) is fed the same " +
			"PRNG-built block history (swarm subset of all transaction generators, absent signers, clock jumps); transcripts (InitChain validators, " +
			"Commit hash, EndBlock updates, DeliverTx code/data/gas) must be equal at every block. Non-trivial: >=5 block attempts compared and >=3 successful transactions; " +
			"distinct = distinct fingerprints (sequence of fault classes + multiset of tx kind/result counts).",
		MakeSetup: func(rng *rand.Rand, tier string, seed uint64) *Setup {
			nb := 15 + rng.Intn(30)
			if tier == "thorough" {
				nb = 20 + rng.Intn(60)
			}
			su := drawWorkload(rng, tier, seed, 3, nb)
			su.Knobs.MaxGas = drawMaxGas(rng)
			if rng.Intn(2) == 0 {
				su.Sess.M["olvm-blockhash"] = true // every replica has the same block store: BLOCKHASH is comparable
			}
			k := su.Knobs
			nrep := 3 + rng.Intn(3)
			if tier == "thorough" {
				nrep = 3 + rng.Intn(4)
			}
			for i := 0; i < nrep; i++ {
				rc := core.ReplicaConf{}
				switch {
				case i == 0:
					rc.Identity = "x0" // reference: plain node
					rc.Quiet = true
					rc.Recent, rc.Every, rc.Cycles = 10, 100, 10
					rc.WitnessInitEarly = true
				default:
					switch rng.Intn(3) {
					case 0:
						rc.Identity = fmt.Sprintf("v%d", rng.Intn(k.NumValidators))
					case 1:
						rc.Identity = fmt.Sprintf("c%d", rng.Intn(4))
					default:
						rc.Identity = fmt.Sprintf("x%d", i)
					}
					rc.Recent, rc.Every, rc.Cycles = drawRotation(rng)
					rc.WitnessInitEarly = rng.Intn(2) == 0
					rc.Quiet = rng.Intn(3) == 0
				}
				su.Replicas = append(su.Replicas, rc)
			}
			su.Policy = &NoisePolicy{Rng: rng, Sess: su.Sess, CheckRate: 0.05, CrashRate: 0.004, ReplayCrashRate: 0.01, MaxCrashes: 4}
			su.Between = RestartAndJoinBetween(0.5, 0.04, nrep+2, k.NumValidators)
			su.PlanHook = chainPlan(su.PlanHook, EvidenceHook(0.03, AbsentHook(0.08)))
			return su
		},
		MakeOracle: func(e *core.Engine, tr *core.Trace) Oracle {
			return &c01Oracle{tr: NewTranscriptOracle("C01", "transcript-equality")}
		},
	})
}

func (o *c01Oracle) OnDeath(e *core.Engine, idx int, st *core.Step, deaths []string) []core.Violation {
	return ReplicaDeath("C01", "transcript-equality", e, st, deaths)
}

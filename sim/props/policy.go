package props

import (
	"fmt"
	"math/rand"

	"olsim/core"
	"olsim/gen"
)

// NoisePolicy is the generation-mode site policy: CheckTx interleaving and crashes on
// non-reference replicas.
type NoisePolicy struct {
	Rng             *rand.Rand
	Sess            *gen.Session
	CheckRate       float64 // probability of injecting CheckTx calls at a site (non-quiet replicas)
	CrashRate       float64 // probability of crashing at a site
	ReplayCrashRate float64 // probability of crashing at a site during handshake replay
	MaxCrashes      int
	crashes         int
	Extra           func() [][]byte // extra CheckTx material (state-writing kinds)
	CrashOK         func(r *core.Replica, s core.Site) bool
}

func (p *NoisePolicy) Decide(e *core.Engine, r *core.Replica, s core.Site) (checks [][]byte, crash bool) {
	if r.Spec.Index == 0 {
		return nil, false
	}
	// A real node finishes the handshake (InitChain and block replay) before its mempool and RPC
	// start, so CheckTx cannot reach the application before InitChain returned nor during replay.
	mempoolUp := !s.Handshake && r.Tr.InitDone
	if mempoolUp && !r.Spec.Quiet && p.CheckRate > 0 && p.Rng.Float64() < p.CheckRate {
		n := 1 + p.Rng.Intn(3)
		for i := 0; i < n; i++ {
			var pool []gen.Tx
			if p.Sess != nil {
				pool = p.Sess.Sent
			}
			if p.Extra != nil && p.Rng.Intn(3) == 0 {
				if ex := p.Extra(); len(ex) > 0 {
					checks = append(checks, ex[p.Rng.Intn(len(ex))])
					continue
				}
			}
			if len(pool) == 0 {
				continue
			}
			// bias to recent transactions (the block being executed and its neighbours)
			lo := 0
			if len(pool) > 24 && p.Rng.Intn(4) != 0 {
				lo = len(pool) - 24
			}
			checks = append(checks, pool[lo+p.Rng.Intn(len(pool)-lo)].Bytes)
		}
	}
	rate := p.CrashRate
	if s.Handshake {
		rate = p.ReplayCrashRate
	}
	if rate > 0 && (p.MaxCrashes == 0 || p.crashes < p.MaxCrashes) && p.Rng.Float64() < rate {
		if p.CrashOK == nil || p.CrashOK(r, s) {
			crash = true
			p.crashes++
		}
	}
	return
}

// RestartBetween revives crashed replicas between blocks with the given probability.
func RestartBetween(prob float64) func(e *core.Engine, rng *rand.Rand, blockNo int) []*core.Step {
	return func(e *core.Engine, rng *rand.Rand, blockNo int) []*core.Step {
		var out []*core.Step
		for i, r := range e.C.Replicas {
			if i > 0 && !r.Up && rng.Float64() < prob {
				out = append(out, &core.Step{Kind: "restart", Replica: i})
			}
		}
		return out
	}
}

// AbsentHook draws absent signers for the previous block's commit.
func AbsentHook(prob float64) func(e *core.Engine, rng *rand.Rand, st *core.Step, gc *gen.Ctx) {
	return func(e *core.Engine, rng *rand.Rand, st *core.Step, gc *gen.Ctx) {
		if e.C.Height() == 0 {
			return
		}
		vals := e.C.Ref().State.LastValidators
		if vals == nil {
			return
		}
		for _, v := range vals.Validators {
			if rng.Float64() < prob {
				st.Absent = append(st.Absent, v.Address.String())
			}
		}
	}
}

// RestartAndJoinBetween revives crashed replicas and, rarely, adds a late joiner that syncs from genesis.
func RestartAndJoinBetween(restartProb, joinProb float64, maxReplicas int, numValidators int) func(e *core.Engine, rng *rand.Rand, blockNo int) []*core.Step {
	rb := RestartBetween(restartProb)
	return func(e *core.Engine, rng *rand.Rand, blockNo int) []*core.Step {
		out := rb(e, rng, blockNo)
		if blockNo > 2 && len(e.C.Replicas) < maxReplicas && rng.Float64() < joinProb {
			rc := &core.ReplicaConf{WitnessInitEarly: rng.Intn(2) == 0, Quiet: rng.Intn(2) == 0}
			switch rng.Intn(3) {
			case 0:
				rc.Identity = fmt.Sprintf("v%d", rng.Intn(numValidators))
			case 1:
				rc.Identity = fmt.Sprintf("c%d", rng.Intn(4))
			default:
				rc.Identity = fmt.Sprintf("x%d", 20+len(e.C.Replicas))
			}
			rc.Recent, rc.Every, rc.Cycles = drawRotation(rng)
			out = append(out, &core.Step{Kind: "join", Join: rc})
		}
		return out
	}
}

// EvidenceHook adds, with the given probability, duplicate-vote evidence against a current validator.
func EvidenceHook(prob float64, next func(e *core.Engine, rng *rand.Rand, st *core.Step, gc *gen.Ctx)) func(e *core.Engine, rng *rand.Rand, st *core.Step, gc *gen.Ctx) {
	return func(e *core.Engine, rng *rand.Rand, st *core.Step, gc *gen.Ctx) {
		if next != nil {
			next(e, rng, st, gc)
		}
		h := e.C.Height()
		if h < 2 || rng.Float64() >= prob {
			return
		}
		vals := e.C.Ref().State.LastValidators
		if vals == nil || len(vals.Validators) < 2 {
			return
		}
		v := vals.Validators[rng.Intn(len(vals.Validators))]
		st.Evidence = append(st.Evidence, core.EvidenceSpec{Validator: v.Address.String(), Height: h - int64(rng.Intn(2))})
	}
}

// RefNoisePolicy injects mempool CheckTx calls on the replica the oracle observes (index 0), before and after its
// consensus calls, drawn from the transactions the run's clients have emitted so far (the block in execution and
// its neighbours preferred). It never crashes anything. A check whose oracle reads one replica uses it in a share
// of its runs: validation of a transaction must not change what the node then computes for the block.
type RefNoisePolicy struct {
	Rng       *rand.Rand
	Sess      *gen.Session
	CheckRate float64
	// Held: transactions the clients emitted that the driver keeps out of the blocks (one in ten): they sit in the
	// mempool, are validated there - by a node on which they would succeed - and are never delivered
	Held [][]byte
}

func (p *RefNoisePolicy) Decide(e *core.Engine, r *core.Replica, s core.Site) (checks [][]byte, crash bool) {
	if r.Spec.Index != 0 || s.Handshake || !r.Tr.InitDone || p.Sess == nil || len(p.Sess.Sent) == 0 {
		return nil, false
	}
	if p.Rng.Float64() >= p.CheckRate {
		return nil, false
	}
	pool := p.Sess.Sent
	for i, n := 0, 1+p.Rng.Intn(3); i < n; i++ {
		if len(p.Held) > 0 && p.Rng.Intn(2) == 0 {
			lo := 0
			if len(p.Held) > 12 {
				lo = len(p.Held) - 12
			}
			checks = append(checks, p.Held[lo+p.Rng.Intn(len(p.Held)-lo)])
			continue
		}
		lo := 0
		if len(pool) > 24 && p.Rng.Intn(4) != 0 {
			lo = len(pool) - 24
		}
		checks = append(checks, pool[lo+p.Rng.Intn(len(pool)-lo)].Bytes)
	}
	return checks, false
}

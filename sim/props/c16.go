package props

import (
	"encoding/hex"
	"encoding/json"
	"fmt"
	"math/big"
	"math/rand"
	"os"
	"sort"
	"strings"

	ethcmn "github.com/ethereum/go-ethereum/common"
	ethcrypto "github.com/ethereum/go-ethereum/crypto"

	"olsim/core"
	"olsim/gen"
)

// C16 The chain's EVM state adapter (vm.CommitStateDB) behaves like go-ethereum's own state.
//
// Differential simulation at the state-interface seam.
//   System A: vm.CommitStateDB over evm.ContractStore / balance.NesterAccountKeeper / balance.Store over
//             storage.State (with gas store, tx sessions) over storage.ChainState (IAVL on MemDB), wired as
//             app/context.go does; one singleton adapter, re-aimed with WithState.
//   System B: go-ethereum core/state.StateDB over an in-memory database, same starting accounts.
// Both receive the same calls; after every call (dense cases) or at every transaction end (sparse cases)
// everything observable through the interface is compared for every address and slot that ever passed the
// interface (a recording wrapper around B collects them).
//
// Operation alphabet:
//   interface ops  create(=CreateAccount+SetNonce 1, as evm.create) touchcreate(=Exist?/CreateAccount/AddBalance, as evm.Call) addbal subbal getbal setnonce getnonce setcode getcode sstore sload cload(committed)
//                  addref subref getref log aladdr alslot inal inalslot prepal suicide(=credit beneficiary+Suicide)
//                  hassuicided exist empty snap revert(n-th snapshot from the top) badrevert(dead snapshot id: both must refuse)
//                  finalise finalise0 prepare foreach
//   system ops     begin / commitS / discardS (tx session on the deliver State; discard = controller.go's
//                  DiscardTxSession + stateDB.DiscardTx, B returns to its copy from session begin), reset (adapter
//                  Reset), commitB (State.Commit + fresh deliver State; B Commit + reopen), readapter (new adapter
//                  object over the same State), restart (uncommitted block lost; B reopened at the last root),
//                  checkread (singleton aimed at a second State over the committed tree and back),
//                  ncredit / ndebit (native balance-store change between transactions, mirrored on B)
//   msg            one EVM message through the repository's own transition code on both systems:
//                  A: Prepare, BeginTxSession, vm.NewEVMTransaction(...).Apply(), Commit/DiscardTxSession
//                  B: vm.ApplyMessage on a go-ethereum EVM built from the SAME block/tx context, chain config
//                     and vm config (taken from EVMTransaction.NewEVM()) with B's StateDB, then Finalise(true).
// Ops that are only legal at a transaction boundary (system ops, msg) first end the transaction in flight on
// both systems (Finalise(true)), so every sub-sequence of a trace is a legal history (the minimiser deletes steps).
//
// Oracles:
//   differential     return values of every call; per address: HasSuicided, Exist, nonce, balance, code hash,
//                    code, code size, storage + committed storage + access-list membership of every seen slot,
//                    Empty, access-list membership; refund counter; logs of the current transaction (address,
//                    topics, data); for messages: panic, consensus error, vm error, return data, created address,
//                    used gas, logs. A panic out of the adapter where the reference returns normally is a violation.
//   store-footprint  at finalisation the adapter must not create/change/delete the stored account record of an
//                    address on which no un-reverted state-changing call exists in the transaction (own journal
//                    model in the recorder: calls are dropped from it on RevertToSnapshot).
//   final-scan       after the final block commit the raw stores are enumerated: number of storage entries per
//                    address vs the reference's storage trie, account records vs existence in the reference.
//
// Don't care: state roots / trie hashes, preimages, log BlockHash/TxHash/TxIndex/Index, order of logs across
// transactions, logs and access list of a dropped transaction (until the next Prepare), the adapter's internal
// caches, texts of adapter panics, gas refund quotient (same transition code on both sides), BLOCKHASH/BASEFEE
// (never generated: they depend on the block store / a nil base fee, not on the adapter).
// Outside the interface contract, hence never executed (the op is a no-op on both sides): SubBalance below zero,
// SubRefund below zero, SetState / SetCode / SubBalance(0) on an account that does not exist (the EVM stores into
// and debits existing accounts only; go-ethereum leaves an undirtied object in its cache there whose fate depends
// on cache history), a bare CreateAccount (always followed by SetNonce(1) as in evm.create), native debits down to
// exactly zero (no analogue in B), ForEachStorage on uncommitted state (compared right after a block commit only).
// Accepted difference: Exist (and the code hash derived from it) of an EMPTY account that exists only as a
// never-written object in go-ethereum's cache (adapter: absent, reference: present, reference copy after Commit:
// absent); unobservable under EIP-158. The opposite direction (adapter says an absent account exists) is a violation.

type c16Conf struct {
	Mode  string `json:"mode"`  // iface | prog | mixed
	Dense bool   `json:"dense"` // full comparison after every interface call (otherwise only at transaction ends)
}

type c16Op struct {
	Op   string `json:"o"`
	A    string `json:"a,omitempty"` // address
	B    string `json:"b,omitempty"` // second address (beneficiary, recipient)
	K    string `json:"k,omitempty"` // slot
	V    string `json:"v,omitempty"` // amount / value (decimal), code (hex), log data
	N    uint64 `json:"n,omitempty"` // nonce, refund, snapshot index, topic count
	Data string `json:"d,omitempty"` // msg: calldata (hex)
	Gas  uint64 `json:"g,omitempty"`
	P    string `json:"p,omitempty"` // msg: gas price
	Fail bool   `json:"f,omitempty"` // msg: the transaction fails after Apply (fee handling) => session discarded
	Note string `json:"note,omitempty"`
}

func (o c16Op) enc() string {
	b, _ := json.Marshal(o)
	return string(b)
}

func c16Dec(s string) c16Op {
	var o c16Op
	if json.Unmarshal([]byte(s), &o) != nil {
		return c16Op{Op: "nop"}
	}
	return o
}

// c16RunCase executes one case. next yields the ops (generated on the fly or decoded from a trace).
func c16RunCase(conf c16Conf, next func(x *c16Exec) (c16Op, bool)) (ops []c16Op, x *c16Exec, harness string) {
	x = &c16Exec{conf: conf}
	defer func() {
		if rec := recover(); rec != nil {
			if he, ok := rec.(core.HarnessError); ok {
				harness = he.Error()
			} else {
				harness = fmt.Sprintf("panic in C16 harness: %v", rec)
			}
		}
	}()
	if err := x.boot(); err != nil {
		return nil, x, "C16 boot: " + err.Error()
	}
	x.op = c16Op{Op: "boot"}
	x.cmpState("after boot")
	for i := 0; x.viol == nil && !x.bothPanic; i++ {
		op, ok := next(x)
		if !ok {
			break
		}
		ops = append(ops, op)
		x.exec(i, op)
	}
	if x.viol == nil && !x.bothPanic {
		x.step, x.op = len(ops), c16Op{Op: "end"}
		x.settle(true)
		if x.viol == nil {
			x.commitBlock()
			x.prepare()
			x.finalScan()
		}
	}
	return ops, x, ""
}

type c16Prop struct{}

func (c16Prop) ID() string { return "C16" }
func (c16Prop) Rule() string {
	return "each run = a batch of seeded cases against vm.CommitStateDB (real contract store / account keeper / balance store / storage.State with tx sessions / ChainState on MemDB) and go-ethereum's state.StateDB with the same starting accounts " +
		"(2 natively funded legacy EOAs, 2 EOAs written through the adapter, 11 pre-deployed contracts of the 8 OLVM generator kinds + a multi-call kind, fresh addresses, precompiles). " +
		"Case kinds: iface (sequences of StateDB interface calls with snapshots nested to depth 6, finalisation, tx sessions committed/discarded, adapter Reset, block commits, adapter re-creation, restart, check-state reads, native balance changes), " +
		"prog (EVM messages - creations, calls into store/proxy/reverter/logger/env/factory/killable/echo/multi contracts incl. nested calls, CREATE/CREATE2, SELFDESTRUCT, reverts, out-of-gas - run through the repository's own ApplyMessage on both states, interleaved with block commits, restarts, native balance changes), mixed. " +
		"80% short (<=10 ops), 20% long (<=200 ops / <=12 messages); swarm: every case disables a random subset of op families; half of the cases compare after every call, half only at transaction ends. " +
		"Oracles: differential (return values, per-address state, refund, logs, message results), store-footprint, final-scan. " +
		"Non-trivial case: >=1 reverted snapshot with >=1 state-changing call inside, or >=1 committed message that created or called a contract; distinct = hash of op kinds + addresses + selectors."
}

func (p c16Prop) Run(seed uint64, tier string, tr *core.Trace) *RunOut {
	out := &RunOut{Stats: core.NewStats()}
	if tr != nil {
		var conf c16Conf
		if err := json.Unmarshal(tr.Extra, &conf); err != nil {
			out.HarnessErr = "bad C16 trace header"
			return out
		}
		var ops []c16Op
		for _, st := range tr.Steps[1:] {
			ops = append(ops, c16Dec(st.Note))
		}
		i := 0
		_, x, h := c16RunCase(conf, func(*c16Exec) (c16Op, bool) {
			if i >= len(ops) {
				return c16Op{}, false
			}
			i++
			return ops[i-1], true
		})
		out.Trace, out.HarnessErr = tr, h
		out.NonTrivial = x.ntReverts > 0 || x.ntMsgs > 0
		if x.known != nil {
			out.Violations = append(out.Violations, *x.known)
		}
		if x.viol != nil {
			out.Violations = append(out.Violations, *x.viol)
		}
		return out
	}
	rng := rand.New(rand.NewSource(int64(seed)))
	batch := 25
	type found struct {
		t *core.Trace
		v core.Violation
	}
	byClass := map[string]found{}
	var knownFound *found
	mk := func(conf c16Conf, ops []c16Op) *core.Trace {
		extra, _ := json.Marshal(conf)
		t := &core.Trace{Property: "C16", Seed: seed, Extra: extra, Steps: []*core.Step{{Kind: "boot"}}}
		for _, o := range ops {
			t.Steps = append(t.Steps, &core.Step{Kind: "op", Note: o.enc()})
		}
		return t
	}
	for b := 0; b < batch; b++ {
		g := newC16Gen(rng)
		ops, x, h := c16RunCase(g.conf, g.next)
		out.SubEvals++
		if h != "" {
			out.HarnessErr = h
			out.Trace = mk(g.conf, ops)
			return out
		}
		nt := x.ntReverts > 0 || x.ntMsgs > 0
		out.Stats.Probes["case_"+g.conf.Mode]++
		if g.long {
			out.Stats.Probes["case_long"]++
		}
		if g.conf.Dense {
			out.Stats.Probes["case_dense"]++
		}
		if nt {
			out.Stats.Probes["case_nontrivial"]++
		}
		if x.ntReverts > 0 {
			out.Stats.Probes["case_with_nontrivial_revert"]++
		}
		if x.ntMsgs > 0 {
			out.Stats.Probes["case_with_contract_message"]++
		}
		out.Stats.Probes["messages"] += x.msgs
		out.Stats.Probes["messages_contract_committed"] += x.ntMsgs
		out.Stats.Probes["reverts_nontrivial"] += x.ntReverts
		for _, o := range ops {
			out.Stats.Txs["op:"+o.Op]++
			switch o.Op {
			case "discardS", "restart", "readapter", "reset":
				out.Stats.Faults[o.Op]++
			}
		}
		if nt {
			out.SubFP = append(out.SubFP, fnvStr(g.conf.Mode+c16SigOps(ops)))
		}
		if b == 0 && out.Trace == nil {
			out.Trace = mk(g.conf, ops)
		}
		if x.known != nil {
			out.Stats.Probes["case_known_finding"]++
			if knownFound == nil {
				knownFound = &found{t: mk(g.conf, ops), v: *x.known}
			}
		}
		if x.viol != nil {
			out.Stats.Probes["case_violating"]++
			out.Stats.Probes["viol_"+x.viol.Oracle+"/"+x.viol.Sig]++
		}
		if x.viol != nil && c16Skip(x.viol.Sig) {
			x.viol = nil
		}
		if x.viol != nil {
			cl := x.viol.Oracle + "/" + x.viol.Sig // class and level (iface / msg)
			if _, ok := byClass[cl]; !ok {
				byClass[cl] = found{t: mk(g.conf, ops), v: *x.viol}
			}
		}
	}
	if len(byClass) > 0 {
		// one trace per run: choose among the distinct classes found in this batch by the seed, so that a
		// frequent class does not hide the rarer ones across the sweep
		var cls []string
		for c := range byClass {
			cls = append(cls, c)
		}
		sort.Strings(cls)
		// message-level reproductions are rarer and worth more: every second run looks at them first
		if (seed>>8)&1 == 0 {
			var m []string
			for _, c := range cls {
				if strings.HasSuffix(c, ":msg") {
					m = append(m, c)
				}
			}
			if len(m) > 0 {
				cls = m
			}
		}
		f := byClass[cls[int(seed%uint64(len(cls)))]]
		out.Trace = f.t
		out.Violations = append(out.Violations, f.v)
		return out
	}
	out.NonTrivial = len(out.SubFP) > 0
	if knownFound != nil {
		out.Trace = knownFound.t
		out.Violations = append(out.Violations, knownFound.v)
	}
	return out
}

// c16Skip: exploration aid (never set by the harness): OLSIM_C16_SKIP=class,class drops violations of the
// listed classes during generation, so that rarer classes behind them become visible.
func c16Skip(sig string) bool {
	skip := os.Getenv("OLSIM_C16_SKIP")
	if skip == "" {
		return false
	}
	class := sig
	if i := indexByte(sig, ':'); i >= 0 {
		class = sig[:i]
	}
	for _, c := range strings.Split(skip, ",") {
		if c == class || c == sig {
			return true
		}
	}
	return false
}

func indexByte(s string, c byte) int {
	for i := 0; i < len(s); i++ {
		if s[i] == c {
			return i
		}
	}
	return -1
}

func init() { Register(c16Prop{}) }

// ---------------------------------------------------------------------------------------------
// generator
// ---------------------------------------------------------------------------------------------

type c16Gen struct {
	rng   *rand.Rand
	conf  c16Conf
	long  bool
	max   int
	maxM  int
	n     int
	msgs  int
	off   map[string]bool // disabled op families (swarm)
	queue []c16Op
	depth int
	sess  bool
	bad   bool
	hot   []ethcmn.Address
	hotK  []int64
	kinds map[ethcmn.Address]string
	ctrs  []ethcmn.Address
}

var c16Families = []string{"suicide", "create", "code", "storage", "refund", "log", "accesslist", "native", "session", "block", "restart", "readapter", "checkread", "nonce", "revertidiom", "killidiom", "multi", "factory", "proxy", "failflag"}

func newC16Gen(rng *rand.Rand) *c16Gen {
	g := &c16Gen{rng: rng, off: map[string]bool{}, kinds: map[ethcmn.Address]string{}}
	switch x := rng.Intn(20); {
	case x < 9:
		g.conf.Mode = "iface"
	case x < 18:
		g.conf.Mode = "prog"
	default:
		g.conf.Mode = "mixed"
	}
	g.conf.Dense = rng.Intn(2) == 0
	g.long = rng.Intn(5) == 0
	if g.long {
		g.max = 20 + rng.Intn(180)
		g.maxM = 4 + rng.Intn(9)
	} else {
		g.max = 2 + rng.Intn(9)
		g.maxM = 1 + rng.Intn(4)
	}
	for _, f := range c16Families {
		if rng.Intn(10) < 3 {
			g.off[f] = true
		}
	}
	// rarely enabled families
	g.off["finalise0"] = rng.Intn(10) < 7
	g.off["foreach"] = rng.Intn(10) < 8
	g.off["ripemd"] = rng.Intn(10) < 5
	p := c16Pool
	for a, k := range p.KindOf {
		g.kinds[a] = k
	}
	for _, k := range c16Kinds {
		g.ctrs = append(g.ctrs, p.Contract[k])
	}
	g.ctrs = append(g.ctrs, p.Extra...)
	// hot set for interface ops
	cands := []ethcmn.Address{p.Contract["store"], p.Contract["kill"], p.Extra[0], p.Extra[1], p.Contract["proxy"], p.Legacy[0], p.Legacy[1], p.Eoa[0], p.Eoa[1], p.Fresh[0], p.Fresh[1], p.Fresh[2]}
	if !g.off["ripemd"] {
		cands = append(cands, p.Pre[1])
	}
	rng.Shuffle(len(cands), func(i, j int) { cands[i], cands[j] = cands[j], cands[i] })
	g.hot = cands[:2+rng.Intn(4)]
	ks := []int64{0, 1, 2, 3, 0xff}
	rng.Shuffle(len(ks), func(i, j int) { ks[i], ks[j] = ks[j], ks[i] })
	g.hotK = ks[:1+rng.Intn(3)]
	return g
}

func c16H(a ethcmn.Address) string { return a.Hex() }

func (g *c16Gen) addr() ethcmn.Address {
	if g.rng.Intn(100) < 85 {
		return g.hot[g.rng.Intn(len(g.hot))]
	}
	return c16Pool.All[g.rng.Intn(len(c16Pool.All))]
}

func (g *c16Gen) anyAddr() ethcmn.Address {
	switch x := g.rng.Intn(10); {
	case x < 4:
		return g.ctrs[g.rng.Intn(len(g.ctrs))]
	case x < 7:
		return g.hot[g.rng.Intn(len(g.hot))]
	default:
		return c16Pool.All[g.rng.Intn(len(c16Pool.All))]
	}
}

func (g *c16Gen) slot() string {
	k := g.hotK[g.rng.Intn(len(g.hotK))]
	if g.rng.Intn(10) == 0 {
		k = []int64{0, 1, 2, 3, 0xff}[g.rng.Intn(5)]
	}
	return fmt.Sprintf("0x%x", k)
}

func (g *c16Gen) amount() string {
	return []string{"0", "1", "5", "1000", "1000000000000000000", "1"}[g.rng.Intn(6)]
}

func (g *c16Gen) word() string {
	return []string{"0", "0", "1", "2", "17", "115792089237316195423570985008687907853269984665640564039457584007913129639935"}[g.rng.Intn(6)]
}

type c16W struct {
	w   int
	fam string
	f   func() []c16Op
}

func (g *c16Gen) next(x *c16Exec) (c16Op, bool) {
	if len(g.queue) == 0 {
		if g.n >= g.max {
			if !g.bad && g.conf.Mode != "prog" && g.rng.Intn(25) == 0 {
				g.bad = true
				return c16Op{Op: "badrevert"}, true
			}
			return c16Op{}, false
		}
		switch g.conf.Mode {
		case "iface":
			g.queue = g.ifaceOps()
		case "prog":
			g.queue = g.progOps(x)
		default:
			if g.rng.Intn(3) == 0 {
				g.queue = g.progOps(x)
			} else {
				g.queue = g.ifaceOps()
			}
		}
		if len(g.queue) == 0 {
			g.queue = []c16Op{{Op: "getref"}}
		}
	}
	op := g.queue[0]
	g.queue = g.queue[1:]
	g.n++
	switch op.Op {
	case "snap":
		g.depth++
	case "revert":
		g.depth -= int(op.N) + 1
		if g.depth < 0 {
			g.depth = 0
		}
	case "finalise", "finalise0", "begin", "commitS", "discardS", "reset", "commitB", "readapter", "restart", "checkread", "ncredit", "ndebit", "msg", "foreach":
		g.depth = 0
	}
	switch op.Op {
	case "begin":
		g.sess = true
	case "commitS", "discardS", "commitB", "restart", "msg":
		g.sess = false
	}
	return op, true
}

func (g *c16Gen) mutator() c16Op {
	for {
		a := g.addr()
		switch x := g.rng.Intn(100); {
		case x < 22:
			return c16Op{Op: "addbal", A: c16H(a), V: g.amount()}
		case x < 34:
			return c16Op{Op: "subbal", A: c16H(a), V: g.amount()}
		case x < 44:
			if !g.off["nonce"] {
				return c16Op{Op: "setnonce", A: c16H(a), N: uint64(g.rng.Intn(4))}
			}
		case x < 50:
			if !g.off["code"] {
				code := [][]byte{{}, {0x00}, gen.OlvmRuntime("echo"), gen.OlvmRuntime("kill")}[g.rng.Intn(4)]
				return c16Op{Op: "setcode", A: c16H(a), V: hex.EncodeToString(code)}
			}
		case x < 75:
			if !g.off["storage"] {
				return c16Op{Op: "sstore", A: c16H(a), K: g.slot(), V: g.word()}
			}
		case x < 82:
			if !g.off["create"] {
				if g.rng.Intn(3) == 0 {
					return c16Op{Op: "touchcreate", A: c16H(a), V: g.amount()}
				}
				return c16Op{Op: "create", A: c16H(a)}
			}
		case x < 88:
			if !g.off["suicide"] {
				return c16Op{Op: "suicide", A: c16H(a), B: c16H(g.addr())}
			}
		case x < 92:
			if !g.off["refund"] {
				if g.rng.Intn(3) == 0 {
					return c16Op{Op: "subref", N: uint64(1 + g.rng.Intn(4800))}
				}
				return c16Op{Op: "addref", N: uint64(1 + g.rng.Intn(4800))}
			}
		case x < 95:
			if !g.off["log"] {
				return c16Op{Op: "log", A: c16H(a), N: uint64(g.rng.Intn(5)), V: fmt.Sprintf("d%d", g.rng.Intn(100))}
			}
		default:
			if !g.off["accesslist"] {
				switch g.rng.Intn(3) {
				case 0:
					return c16Op{Op: "aladdr", A: c16H(a)}
				case 1:
					return c16Op{Op: "alslot", A: c16H(a), K: g.slot()}
				default:
					return c16Op{Op: "prepal", A: c16H(a), B: c16H(g.addr()), K: g.slot()}
				}
			}
		}
	}
}

func (g *c16Gen) getter() c16Op {
	a := g.addr()
	switch g.rng.Intn(12) {
	case 0, 1:
		return c16Op{Op: "getbal", A: c16H(a)}
	case 2:
		return c16Op{Op: "getnonce", A: c16H(a)}
	case 3:
		return c16Op{Op: "getcode", A: c16H(a)}
	case 4, 5:
		return c16Op{Op: "sload", A: c16H(a), K: g.slot()}
	case 6:
		return c16Op{Op: "cload", A: c16H(a), K: g.slot()}
	case 7:
		return c16Op{Op: "getref"}
	case 8:
		if g.rng.Intn(2) == 0 {
			return c16Op{Op: "inal", A: c16H(a)}
		}
		return c16Op{Op: "inalslot", A: c16H(a), K: g.slot()}
	case 9:
		return c16Op{Op: "hassuicided", A: c16H(a)}
	case 10:
		return c16Op{Op: "exist", A: c16H(a)}
	default:
		return c16Op{Op: "empty", A: c16H(a)}
	}
}

func (g *c16Gen) system() []c16Op {
	for try := 0; try < 8; try++ {
		a := g.addr()
		switch x := g.rng.Intn(22); {
		case x < 4:
			if !g.off["session"] {
				return []c16Op{{Op: "begin"}}
			}
		case x < 7:
			if !g.off["session"] && g.sess {
				return []c16Op{{Op: "commitS"}}
			}
		case x < 10:
			if !g.off["session"] && g.sess {
				return []c16Op{{Op: "discardS"}}
			}
		case x < 14:
			if !g.off["block"] {
				if g.rng.Intn(100) < 85 {
					return []c16Op{{Op: "reset"}, {Op: "commitB"}}
				}
				return []c16Op{{Op: "commitB"}}
			}
		case x < 15:
			return []c16Op{{Op: "reset"}}
		case x < 16:
			if !g.off["readapter"] {
				return []c16Op{{Op: "readapter"}}
			}
		case x < 17:
			if !g.off["restart"] {
				return []c16Op{{Op: "restart"}}
			}
		case x < 18:
			if !g.off["checkread"] {
				return []c16Op{{Op: "checkread"}}
			}
		case x < 21:
			if !g.off["native"] {
				if g.rng.Intn(3) == 0 {
					return []c16Op{{Op: "ndebit", A: c16H(a), V: g.amount()}}
				}
				return []c16Op{{Op: "ncredit", A: c16H(a), V: g.amount()}}
			}
		default:
			if !g.off["foreach"] {
				return []c16Op{{Op: "foreach", A: c16H(a)}}
			}
		}
	}
	return nil
}

func (g *c16Gen) ifaceOps() []c16Op {
	if !g.off["session"] && !g.sess && g.rng.Intn(100) < 10 {
		// one transaction as controller.go frames it: session, calls, finalisation, commit or discard
		ops := []c16Op{{Op: "begin"}}
		for i, n := 0, 1+g.rng.Intn(5); i < n; i++ {
			switch g.rng.Intn(6) {
			case 0:
				ops = append(ops, g.getter())
			case 1:
				ops = append(ops, c16Op{Op: "snap"}, g.mutator(), c16Op{Op: "revert"})
			default:
				ops = append(ops, g.mutator())
			}
		}
		if g.rng.Intn(4) > 0 {
			ops = append(ops, c16Op{Op: "finalise"})
		}
		if g.rng.Intn(5) < 2 {
			ops = append(ops, c16Op{Op: "discardS"})
		} else {
			ops = append(ops, c16Op{Op: "commitS"})
		}
		if g.rng.Intn(2) == 0 {
			ops = append(ops, g.getter())
		}
		return ops
	}
	switch x := g.rng.Intn(100); {
	case x < 26:
		return []c16Op{g.mutator()}
	case x < 38:
		return []c16Op{g.getter()}
	case x < 46:
		if g.depth < 6 {
			return []c16Op{{Op: "snap"}}
		}
		return []c16Op{{Op: "revert", N: uint64(g.rng.Intn(g.depth))}}
	case x < 60:
		if g.depth > 0 {
			return []c16Op{{Op: "revert", N: uint64(g.rng.Intn(g.depth))}}
		}
		return []c16Op{{Op: "snap"}, g.mutator(), g.mutator(), {Op: "revert"}}
	case x < 68:
		if !g.off["finalise0"] && g.rng.Intn(4) == 0 {
			return []c16Op{{Op: "finalise0"}}
		}
		return []c16Op{{Op: "finalise"}}
	case x < 70:
		return []c16Op{{Op: "prepare"}}
	case x < 80:
		return g.system()
	case x < 88:
		// a reverted block of changes
		if g.off["revertidiom"] || g.depth >= 6 {
			return []c16Op{g.mutator()}
		}
		ops := []c16Op{{Op: "snap"}}
		for i, n := 0, 1+g.rng.Intn(4); i < n; i++ {
			ops = append(ops, g.mutator())
		}
		ops = append(ops, c16Op{Op: "revert"})
		if g.rng.Intn(2) == 0 {
			ops = append(ops, g.mutator())
		}
		if g.rng.Intn(2) == 0 {
			ops = append(ops, c16Op{Op: "finalise"})
		}
		return ops
	case x < 93:
		// what evm.create does
		if g.off["create"] || g.off["code"] {
			return []c16Op{g.mutator()}
		}
		a, s := g.addr(), g.addr()
		v := g.amount()
		ops := []c16Op{{Op: "snap"}, {Op: "create", A: c16H(a)}, {Op: "subbal", A: c16H(s), V: v}, {Op: "addbal", A: c16H(a), V: v}}
		if g.rng.Intn(3) > 0 {
			ops = append(ops, c16Op{Op: "sstore", A: c16H(a), K: g.slot(), V: g.word()})
		}
		if g.rng.Intn(4) == 0 {
			ops = append(ops, c16Op{Op: "revert"})
		} else {
			ops = append(ops, c16Op{Op: "setcode", A: c16H(a), V: hex.EncodeToString(gen.OlvmRuntime("echo"))})
		}
		return ops
	default:
		// destroy, end the transaction, come back to the same address
		if g.off["killidiom"] || g.off["suicide"] {
			return []c16Op{g.mutator()}
		}
		a := g.addr()
		ops := []c16Op{{Op: "suicide", A: c16H(a), B: c16H(g.addr())}, {Op: "finalise"}}
		switch g.rng.Intn(3) {
		case 0:
			ops = append(ops, c16Op{Op: "create", A: c16H(a)})
		case 1:
			ops = append(ops, c16Op{Op: "setnonce", A: c16H(a), N: 1})
		default:
			ops = append(ops, c16Op{Op: "addbal", A: c16H(a), V: "5"})
		}
		ops = append(ops, c16Op{Op: "sload", A: c16H(a), K: g.slot()})
		return ops
	}
}

// ---- messages

func (g *c16Gen) progOps(x *c16Exec) []c16Op {
	if g.msgs >= g.maxM || g.rng.Intn(100) < 18 {
		if g.msgs >= g.maxM && g.rng.Intn(3) == 0 {
			g.n = g.max // enough
		}
		for try := 0; try < 6; try++ {
			ops := g.system()
			ok := len(ops) > 0
			for _, o := range ops {
				if o.Op == "begin" || o.Op == "commitS" || o.Op == "discardS" {
					ok = false
				}
			}
			if ok {
				return ops
			}
		}
		return nil
	}
	g.msgs++
	return []c16Op{g.message(x)}
}

func (g *c16Gen) pickContract(x *c16Exec) ethcmn.Address {
	// contracts created by earlier messages are preferred once they exist
	var made []ethcmn.Address
	for _, a := range x.created {
		if _, ok := g.kinds[a]; ok {
			made = append(made, a)
		}
	}
	if len(made) > 0 && g.rng.Intn(3) == 0 {
		return made[g.rng.Intn(len(made))]
	}
	for try := 0; try < 20; try++ {
		a := g.ctrs[g.rng.Intn(len(g.ctrs))]
		k := g.kinds[a]
		if g.off[k] || (k == "kill" && g.off["suicide"]) {
			continue
		}
		return a
	}
	return c16Pool.Contract["store"]
}

func (g *c16Gen) small() *big.Int {
	return big.NewInt([]int64{0, 0, 0, 1, 5, 1000}[g.rng.Intn(6)])
}

func (g *c16Gen) initCode(kind string) []byte {
	switch kind {
	case "bad-revert":
		return []byte{0x60, 0x00, 0x60, 0x00, 0xfd}
	case "bad-invalid":
		return []byte{0xfe}
	case "bad-empty":
		return []byte{0x00}
	case "bad-ef":
		return gen.OlvmDeploy(nil, []byte{0xef, 0x00}) // London: code starting with 0xEF is rejected
	}
	return gen.OlvmInit(kind)
}

func (g *c16Gen) childKind() string {
	if g.rng.Intn(8) == 0 {
		return []string{"bad-revert", "bad-invalid", "bad-empty", "bad-ef"}[g.rng.Intn(4)]
	}
	ks := []string{"kill", "kill", "store", "echo", "store", "log"}
	if !g.off["multi"] {
		ks = append(ks, "multi")
	}
	return ks[g.rng.Intn(len(ks))]
}

// callData builds calldata for a contract of the given kind (nested targets are drawn from all known addresses).
func (g *c16Gen) callData(x *c16Exec, self ethcmn.Address, kind string, depth int) []byte {
	r := g.rng
	w := func(v int64) []byte { return gen.OlvmWord(uint64(v)) }
	slot := func() []byte { return w(g.hotK[r.Intn(len(g.hotK))]) }
	val := func() []byte { return w([]int64{0, 0, 1, 2, 0x77}[r.Intn(5)]) }
	switch kind {
	case "store":
		switch sel := byte(1 + r.Intn(7)); sel {
		case 2:
			return gen.OlvmData(sel, slot(), val(), val())
		case 4:
			return gen.OlvmData(sel, slot())
		case 6:
			return gen.OlvmData(sel, slot(), val(), w(int64(r.Intn(4))))
		case 7:
			return gen.OlvmData(sel, slot(), slot())
		default:
			return gen.OlvmData(sel, slot(), val())
		}
	case "rev":
		return gen.OlvmData([]byte{1, 2, 3, 5, 6, 7, 8, 9, 9, 4}[r.Intn(10)], w(int64(r.Intn(100))))
	case "log":
		return gen.OlvmData(byte(r.Intn(7)), w(int64(r.Intn(100))))
	case "env":
		return gen.OlvmData([]byte{1, 2, 5, 6}[r.Intn(4)], gen.OlvmAddrWord(g.anyAddr()))
	case "kill":
		ben := g.anyAddr()
		if r.Intn(6) == 0 {
			ben = self
		}
		return gen.OlvmData(byte(1+r.Intn(5)), gen.OlvmAddrWord(ben), val())
	case "proxy":
		if depth >= 3 {
			return nil
		}
		t, k := g.target(x)
		mode := byte(1 + r.Intn(7))
		v := g.small()
		if mode == 5 {
			v = big.NewInt([]int64{0, 700, 2300, 30000, 100000}[r.Intn(5)])
		}
		return gen.OlvmProxyData(mode, t, v, g.callData(x, t, k, depth+1))
	case "factory":
		ck := g.childKind()
		init := g.initCode(ck)
		salt := []byte{byte(r.Intn(3))}
		mode := byte(1 + r.Intn(7))
		// remember where children will live
		if len(ck) < 4 || ck[:4] != "bad-" {
			s32 := ethcmn.LeftPadBytes(salt, 32)
			var sh [32]byte
			copy(sh[:], s32)
			c2 := ethcrypto.CreateAddress2(self, sh, ethcrypto.Keccak256(init))
			c1 := ethcrypto.CreateAddress(self, x.B.GetNonce(self))
			for _, c := range []ethcmn.Address{c1, c2} {
				if _, ok := g.kinds[c]; !ok {
					g.kinds[c] = ck
					g.ctrs = append(g.ctrs, c)
				}
			}
		}
		return gen.OlvmFactoryData(mode, salt, g.small(), init)
	case "multi":
		if depth >= 3 {
			return []byte{0}
		}
		var recs []gen.OlvmMultiRec
		for i, n := 0, 1+r.Intn(4); i < n; i++ {
			t, k := g.target(x)
			recs = append(recs, gen.OlvmMultiRec{Target: t, Value: g.small(), Data: g.callData(x, t, k, depth+1)})
		}
		return gen.OlvmMultiData(r.Intn(3) == 0, recs...)
	case "echo":
		b := make([]byte, r.Intn(40))
		r.Read(b)
		return b
	}
	if r.Intn(2) == 0 {
		return nil
	}
	return []byte{byte(r.Intn(256))}
}

// target draws a call target: mostly contracts, sometimes plain accounts, fresh addresses, precompiles.
func (g *c16Gen) target(x *c16Exec) (ethcmn.Address, string) {
	if g.rng.Intn(100) < 75 {
		a := g.pickContract(x)
		return a, g.kinds[a]
	}
	a := c16Pool.All[g.rng.Intn(len(c16Pool.All))]
	return a, g.kinds[a]
}

func (g *c16Gen) message(x *c16Exec) c16Op {
	r := g.rng
	p := c16Pool
	senders := []ethcmn.Address{p.Legacy[0], p.Legacy[1], p.Eoa[0], p.Eoa[1]}
	from := senders[r.Intn(len(senders))]
	switch r.Intn(40) {
	case 0:
		from = p.Fresh[r.Intn(len(p.Fresh))] // no funds
	case 1:
		from = p.Contract["echo"] // not an EOA
	}
	nonce := x.B.GetNonce(from)
	switch r.Intn(20) {
	case 0:
		if nonce > 0 {
			nonce--
		}
	case 1:
		nonce += 2
	}
	op := c16Op{Op: "msg", A: c16H(from), N: nonce, V: g.small().String()}
	switch v := r.Intn(20); {
	case v < 14:
		op.Gas = 1000000
	case v < 16:
		op.Gas = 3000000
	case v < 18:
		op.Gas = uint64(21000 + r.Intn(60000))
	case v < 19:
		op.Gas = 20000
	default:
		op.Gas = 150000
	}
	switch r.Intn(10) {
	case 0:
		op.P = "1"
	case 1:
		op.P = "0"
	default:
		op.P = "1000000000"
	}
	if r.Intn(40) == 0 {
		op.V = "2000000000000000000000000" // more than anybody holds
	}
	if !g.off["failflag"] && r.Intn(20) == 0 {
		op.Fail = true
	}
	if r.Intn(100) < 18 && !g.off["create"] {
		kind := c16Kinds[r.Intn(len(c16Kinds))]
		if r.Intn(8) == 0 {
			kind = []string{"bad-revert", "bad-invalid", "bad-empty", "bad-ef"}[r.Intn(4)]
		}
		op.Data = hex.EncodeToString(g.initCode(kind))
		op.Note = "create " + kind
		if len(kind) < 4 || kind[:4] != "bad-" {
			c := ethcrypto.CreateAddress(from, x.B.GetNonce(from))
			if _, ok := g.kinds[c]; !ok {
				g.kinds[c] = kind
				g.ctrs = append(g.ctrs, c)
			}
		}
		return op
	}
	t, k := g.target(x)
	op.B = c16H(t)
	op.Data = hex.EncodeToString(g.callData(x, t, k, 0))
	op.Note = "call " + k
	return op
}

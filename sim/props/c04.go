package props

import (
	"bytes"
	"encoding/hex"
	"encoding/json"
	"fmt"
	"math/big"
	"math/rand"
	"sort"

	"github.com/Oneledger/protocol/action"
	"github.com/Oneledger/protocol/action/olvm"
	"github.com/Oneledger/protocol/data/balance"
	"github.com/Oneledger/protocol/data/keys"
	"github.com/Oneledger/protocol/serialize"

	"olsim/core"
	"olsim/gen"
)

// C04 Only authentically signed, untampered transactions are admitted or executed.
//
// Honest blocks build state. Every few blocks a "mutant block" follows: the generators produce fresh
// transactions for the current state; those that pass CheckTx (so the original is valid here) are not
// delivered — single-field mutants of them are. Each mutant must be rejected by CheckTx and, delivered
// directly (byzantine proposer), must return a non-zero code; the mutant block must leave the state
// exactly as an empty block does (shadow twin that receives the same BeginBlock and no transactions).

type c04Oracle struct {
	shadow    *core.Replica
	mutants   int
	originals int
	blocks    int
	kinds     map[string]bool
}

func encodeSigned(stx *action.SignedTx) []byte {
	b, err := serialize.GetSerializer(serialize.NETWORK).Serialize(stx)
	if err != nil {
		return nil
	}
	return b
}

type mutant struct {
	Bytes []byte
	Label string
}

// c04Mutants derives single-field mutants of a valid signed transaction.
func c04Mutants(rng *rand.Rand, w *core.World, orig []byte, other []byte) []mutant {
	base := core.DecodeTx(orig)
	if base == nil {
		return nil
	}
	kind := base.Type.String()
	var out []mutant
	add := func(label string, f func(t *action.SignedTx) bool) {
		t := core.DecodeTx(orig)
		if t == nil || !f(t) {
			return
		}
		b := encodeSigned(t)
		if b == nil || bytes.Equal(b, orig) {
			return
		}
		// a mutant counts only if the signed content or the signer set differs
		t2 := core.DecodeTx(b)
		if t2 == nil {
			return
		}
		if bytes.Equal(t2.RawBytes(), base.RawBytes()) && sigSetEqual(t2, base) {
			return
		}
		if base.Type == action.OLVM && t2.Type == action.OLVM && olvmSameContent(t2, base) {
			// OLVM signs the Ethereum transaction fields, not the JSON bytes: a different encoding of the
			// same fields (key renamed to an ignored one, reordered keys) is unsigned content (C05's subject)
			return
		}
		out = append(out, mutant{Bytes: b, Label: kind + "/tamper:" + label})
	}
	// payload: change one leaf of the JSON payload
	add("payload-field", func(t *action.SignedTx) bool {
		var v interface{}
		if json.Unmarshal(t.Data, &v) != nil {
			return false
		}
		if !mutateLeaf(rng, v) {
			return false
		}
		d, err := json.Marshal(v)
		if err != nil {
			return false
		}
		t.Data = d
		return true
	})
	add("payload-byte", func(t *action.SignedTx) bool {
		if len(t.Data) == 0 {
			return false
		}
		d := append([]byte{}, t.Data...)
		// flip a digit or letter inside the payload so that it stays parseable most of the time
		idx := rng.Intn(len(d))
		for tries := 0; tries < 50; tries++ {
			c := d[idx]
			if c >= '0' && c <= '8' {
				d[idx] = c + 1
				t.Data = d
				return true
			}
			if c >= 'a' && c <= 'e' {
				d[idx] = c + 1
				t.Data = d
				return true
			}
			idx = rng.Intn(len(d))
		}
		return false
	})
	add("fee-price", func(t *action.SignedTx) bool {
		t.Fee.Price.Value = *balance.NewAmountFromBigInt(new(big.Int).Add(t.Fee.Price.Value.BigInt(), big.NewInt(1+rng.Int63n(1000))))
		return true
	})
	add("fee-currency", func(t *action.SignedTx) bool {
		// the currency the fee is named in: another registered one, another spelling, none
		for _, c := range []string{"VT", "ETH", "BTC", "olt", "", "XYZ"}[rng.Intn(6):] {
			if c != t.Fee.Price.Currency {
				t.Fee.Price.Currency = c
				return true
			}
		}
		return false
	})
	add("fee-gas", func(t *action.SignedTx) bool { t.Fee.Gas += 1 + rng.Int63n(100000); return true })
	add("fee-gas-lower", func(t *action.SignedTx) bool {
		if t.Fee.Gas < 2 {
			return false
		}
		t.Fee.Gas = t.Fee.Gas / 2
		return true
	})
	add("memo", func(t *action.SignedTx) bool { t.Memo = t.Memo + "x"; return true })
	add("memo-empty", func(t *action.SignedTx) bool {
		if t.Memo == "" {
			return false
		}
		t.Memo = ""
		return true
	})
	add("type", func(t *action.SignedTx) bool {
		types := []action.Type{action.SEND, action.SENDPOOL, action.STAKE, action.UNSTAKE, action.WITHDRAW, action.ADD_NETWORK_DELEGATE,
			action.NETWORK_UNDELEGATE, action.REWARDS_WITHDRAW_NETWORK_DELEGATE, action.PROPOSAL_FUND, action.PROPOSAL_WITHDRAW_FUNDS,
			action.DOMAIN_SEND, action.WITHDRAW_REWARD, action.EXPIRE_VOTES, action.PROPOSAL_FINALIZE, action.OLVM}
		nt := types[rng.Intn(len(types))]
		if nt == t.Type {
			return false
		}
		t.Type = nt
		return true
	})
	// signer public key replaced by another account's key (signature bytes kept)
	// (OLVM authenticates with the Ethereum signature itself: the sender is recovered from it and the
	// Signer field of the envelope is unused, unsigned content - re-encodings of it are C05's subject.)
	add("signer-key-other", func(t *action.SignedTx) bool {
		if len(t.Signatures) == 0 || len(w.Users) == 0 || t.Type == action.OLVM {
			return false
		}
		i := rng.Intn(len(t.Signatures))
		o := w.Users[rng.Intn(len(w.Users))]
		if o.Pub.Equal(t.Signatures[i].Signer) {
			return false
		}
		t.Signatures[i].Signer = o.Pub
		return true
	})
	// signed by another key entirely (valid signature of a stranger over the same raw bytes)
	add("signed-by-stranger", func(t *action.SignedTx) bool {
		if len(t.Signatures) == 0 || t.Type == action.OLVM {
			return false
		}
		i := rng.Intn(len(t.Signatures))
		o := core.NewEdAccount(w.Seed, "stranger")
		t.Signatures[i] = action.Signature{Signer: o.Pub, Signed: o.Sign(t.RawBytes())}
		return true
	})
	add("key-algorithm", func(t *action.SignedTx) bool {
		if len(t.Signatures) == 0 || t.Type == action.OLVM {
			return false
		}
		i := rng.Intn(len(t.Signatures))
		algos := []keys.Algorithm{keys.ED25519, keys.SECP256K1, keys.ETHSECP, keys.BTCECSECP}
		na := algos[rng.Intn(len(algos))]
		if na == t.Signatures[i].Signer.KeyType {
			return false
		}
		t.Signatures[i].Signer.KeyType = na
		return true
	})
	// signer public key with bytes appended (a decoder that only checks a minimum length truncates it back)
	add("signer-key-extended", func(t *action.SignedTx) bool {
		if len(t.Signatures) == 0 || t.Type == action.OLVM {
			return false
		}
		i := rng.Intn(len(t.Signatures))
		ext := make([]byte, 1+rng.Intn(3))
		rng.Read(ext)
		t.Signatures[i].Signer.Data = append(append([]byte{}, t.Signatures[i].Signer.Data...), ext...)
		return true
	})
	add("sig-extended", func(t *action.SignedTx) bool {
		if len(t.Signatures) == 0 || t.Type == action.OLVM {
			return false
		}
		i := rng.Intn(len(t.Signatures))
		t.Signatures[i].Signed = append(append([]byte{}, t.Signatures[i].Signed...), byte(rng.Intn(256)))
		return true
	})
	// one signer's signature copied into another signer's slot (same count, every signature verifies for somebody)
	add("sig-slot-copied", func(t *action.SignedTx) bool {
		if len(t.Signatures) < 2 || t.Signatures[0].Signer.Equal(t.Signatures[1].Signer) {
			return false
		}
		i := rng.Intn(2)
		t.Signatures[1-i] = t.Signatures[i]
		return true
	})
	// OLVM: the chain id field of the payload set to null (the Ethereum signature binds the chain id itself)
	add("olvm-chainid-null", func(t *action.SignedTx) bool {
		if t.Type != action.OLVM {
			return false
		}
		i := bytes.Index(t.Data, []byte(`"chainID":`))
		if i < 0 {
			return false
		}
		j := i + len(`"chainID":`)
		k := j
		for k < len(t.Data) && t.Data[k] >= '0' && t.Data[k] <= '9' {
			k++
		}
		if k == j {
			return false
		}
		t.Data = append(append(append([]byte{}, t.Data[:j]...), []byte("null")...), t.Data[k:]...)
		return true
	})
	// hardware-wallet signature: another hash named in the tag (the signature was made over a different digest)
	add("prehash-tag-other", func(t *action.SignedTx) bool {
		for i := range t.Signatures {
			sg := t.Signatures[i].Signed
			if len(sg) == 70 && bytes.HasPrefix(sg, []byte("SHA")) {
				n := append([]byte{}, sg...)
				for _, tag := range []string{"SHA256", "SHA512", "SHA384", "SHA224"} {
					if string(sg[:6]) != tag {
						copy(n, tag)
						break
					}
				}
				t.Signatures[i].Signed = n
				return true
			}
		}
		return false
	})
	// hardware-wallet signature with the tag stripped (verified as a plain signature over the message)
	add("prehash-tag-stripped", func(t *action.SignedTx) bool {
		for i := range t.Signatures {
			sg := t.Signatures[i].Signed
			if len(sg) == 70 && bytes.HasPrefix(sg, []byte("SHA")) {
				t.Signatures[i].Signed = append([]byte{}, sg[6:]...)
				return true
			}
		}
		return false
	})
	add("sig-flip", func(t *action.SignedTx) bool {
		if len(t.Signatures) == 0 || len(t.Signatures[0].Signed) == 0 {
			return false
		}
		i := rng.Intn(len(t.Signatures))
		s := append([]byte{}, t.Signatures[i].Signed...)
		s[rng.Intn(len(s))] ^= byte(1 << uint(rng.Intn(8)))
		t.Signatures[i].Signed = s
		return true
	})
	add("sig-truncate", func(t *action.SignedTx) bool {
		if len(t.Signatures) == 0 || len(t.Signatures[0].Signed) < 2 {
			return false
		}
		t.Signatures[0].Signed = t.Signatures[0].Signed[:len(t.Signatures[0].Signed)/2]
		return true
	})
	add("sig-empty", func(t *action.SignedTx) bool {
		if len(t.Signatures) == 0 {
			return false
		}
		t.Signatures[0].Signed = nil
		return true
	})
	add("sig-from-other-message", func(t *action.SignedTx) bool {
		o := core.DecodeTx(other)
		if o == nil || len(o.Signatures) == 0 || len(t.Signatures) == 0 || bytes.Equal(other, orig) {
			return false
		}
		t.Signatures[0].Signed = o.Signatures[0].Signed
		return true
	})
	add("sigs-dropped", func(t *action.SignedTx) bool {
		if len(t.Signatures) == 0 {
			return false
		}
		t.Signatures = nil
		return true
	})
	add("sigs-drop-one", func(t *action.SignedTx) bool {
		if len(t.Signatures) < 2 {
			return false
		}
		t.Signatures = t.Signatures[:len(t.Signatures)-1]
		return true
	})
	add("sigs-duplicated", func(t *action.SignedTx) bool {
		if len(t.Signatures) == 0 {
			return false
		}
		t.Signatures = append(t.Signatures, t.Signatures[0])
		return true
	})
	add("sigs-reordered", func(t *action.SignedTx) bool {
		if len(t.Signatures) < 2 || t.Signatures[0].Signer.Equal(t.Signatures[1].Signer) {
			return false
		}
		t.Signatures[0], t.Signatures[1] = t.Signatures[1], t.Signatures[0]
		return true
	})
	add("sig-extra", func(t *action.SignedTx) bool {
		if t.Type == action.OLVM {
			return false
		}
		o := core.NewEdAccount(w.Seed, "stranger")
		t.Signatures = append(t.Signatures, action.Signature{Signer: o.Pub, Signed: o.Sign(t.RawBytes())})
		return true
	})
	return out
}

// olvmSameContent: same decoded OLVM fields, fee, memo and signature bytes.
func olvmSameContent(a, b *action.SignedTx) bool {
	ta, tb := &olvm.Transaction{}, &olvm.Transaction{}
	if ta.Unmarshal(a.Data) != nil || tb.Unmarshal(b.Data) != nil {
		return false
	}
	ja, _ := json.Marshal(ta)
	jb, _ := json.Marshal(tb)
	fa, _ := json.Marshal(a.Fee)
	fb, _ := json.Marshal(b.Fee)
	if !bytes.Equal(ja, jb) || !bytes.Equal(fa, fb) || a.Memo != b.Memo || len(a.Signatures) != len(b.Signatures) {
		return false
	}
	for i := range a.Signatures {
		if !bytes.Equal(a.Signatures[i].Signed, b.Signatures[i].Signed) {
			return false
		}
	}
	return true
}

func sigSetEqual(a, b *action.SignedTx) bool {
	if len(a.Signatures) != len(b.Signatures) {
		return false
	}
	for i := range a.Signatures {
		if !a.Signatures[i].Signer.Equal(b.Signatures[i].Signer) || !bytes.Equal(a.Signatures[i].Signed, b.Signatures[i].Signed) {
			return false
		}
	}
	return true
}

// mutateLeaf changes one leaf value of a decoded JSON document in place.
func mutateLeaf(rng *rand.Rand, v interface{}) bool {
	type leaf struct {
		set func(x interface{})
		cur interface{}
	}
	var leaves []leaf
	var walk func(v interface{})
	walk = func(v interface{}) {
		switch x := v.(type) {
		case map[string]interface{}:
			ks := make([]string, 0, len(x))
			for k := range x {
				ks = append(ks, k)
			}
			sort.Strings(ks)
			for _, k := range ks {
				k := k
				switch x[k].(type) {
				case map[string]interface{}, []interface{}:
					walk(x[k])
				default:
					leaves = append(leaves, leaf{func(n interface{}) { x[k] = n }, x[k]})
				}
			}
		case []interface{}:
			for i := range x {
				i := i
				switch x[i].(type) {
				case map[string]interface{}, []interface{}:
					walk(x[i])
				default:
					leaves = append(leaves, leaf{func(n interface{}) { x[i] = n }, x[i]})
				}
			}
		}
	}
	walk(v)
	if len(leaves) == 0 {
		return false
	}
	for tries := 0; tries < 10; tries++ {
		l := leaves[rng.Intn(len(leaves))]
		switch c := l.cur.(type) {
		case string:
			if len(c) == 0 {
				l.set("x")
				return true
			}
			b := []byte(c)
			i := rng.Intn(len(b))
			switch {
			case b[i] >= '0' && b[i] <= '8':
				b[i]++
			case b[i] == '9':
				b[i] = '1'
			case b[i] >= 'a' && b[i] <= 'e':
				b[i]++
			case b[i] == 'f':
				b[i] = 'a'
			default:
				b[i] = 'b'
			}
			if string(b) == c {
				continue
			}
			l.set(string(b))
			return true
		case float64:
			l.set(c + 1)
			return true
		case bool:
			l.set(!c)
			return true
		case nil:
			continue
		}
	}
	return false
}

func (o *c04Oracle) AfterStep(e *core.Engine, idx int, st *core.Step, stepErr error) []core.Violation {
	if st.Kind == "boot" {
		ref := e.C.Ref()
		sh, err := e.C.NewShadow(core.ReplicaSpec{Keys: ref.Spec.Keys, Rotation: ref.Spec.Rotation, WitnessInitEarly: ref.Spec.WitnessInitEarly, Quiet: true}, 91)
		if err != nil {
			panic(core.HarnessError{Msg: "shadow boot: " + err.Error()})
		}
		o.shadow = sh
		o.kinds = map[string]bool{}
		return nil
	}
	if st.Kind != "block" || stepErr != nil {
		return nil
	}
	h := e.C.Height()
	ref := e.C.Ref()
	ra := ref.Tr.Committed(h)
	if ra == nil {
		return nil
	}
	cb := e.C.Blocks[h-1]
	if st.Note != "mutants" {
		// honest block: the twin executes it in full
		o.shadow.RawBlock(cb, *ra.Begin, ra.TxBytes)
		return nil
	}
	o.blocks++
	var vs []core.Violation
	// CheckTx path: results were recorded by the "checks" step that precedes this block (same txs)
	// Delivery path:
	for i, r := range ra.Txs {
		o.mutants++
		label := "?"
		if i < len(st.Labels) {
			label = st.Labels[i]
		}
		if tx := core.DecodeTx(ra.TxBytes[i]); tx != nil {
			o.kinds[tx.Type.String()] = true
		}
		if r.Code == 0 {
			vs = append(vs, core.Violation{Property: "C04", Oracle: "tampered-delivery-rejected", Sig: "mutant-executed:" + label,
				Msg: fmt.Sprintf("block %d tx #%d: tampered transaction (%s) delivered in a block returned code 0 (gasUsed=%d); tx=%s", h, i, label, r.GasUsed, clipS(string(ra.TxBytes[i]), 300))})
			return vs
		}
	}
	sa := o.shadow.RawBlock(cb, *ra.Begin, nil)
	if !bytes.Equal(sa.AppHash, ra.AppHash) {
		ks := core.DiffDumps(ref.DumpMap(), o.shadow.DumpMap(), 10)
		vs = append(vs, core.Violation{Property: "C04", Oracle: "tampered-delivery-no-effect", Sig: "mutant-block-changed-state:" + labelsSig(st.Labels),
			Msg: fmt.Sprintf("block %d containing only rejected tampered transactions differs from an empty block: main=%x empty-twin=%x; keys: %q", h, ra.AppHash, sa.AppHash, ks)})
	}
	return vs
}

func labelsSig(ls []string) string {
	m := map[string]bool{}
	for _, l := range ls {
		m[l] = true
	}
	ks := make([]string, 0, len(m))
	for k := range m {
		ks = append(ks, k)
	}
	sort.Strings(ks)
	if len(ks) > 4 {
		ks = append(ks[:4], "more")
	}
	out := ""
	for i, k := range ks {
		if i > 0 {
			out += "+"
		}
		out += k
	}
	return out
}

func (o *c04Oracle) Inputs() int                            { return o.mutants }
func (o *c04Oracle) Finish(e *core.Engine) []core.Violation { return nil }
func (o *c04Oracle) NonTrivial(e *core.Engine) bool         { return o.mutants >= 5 && o.blocks >= 1 }

// CheckTx-path oracle: evaluated on "checks" steps flagged as mutants.
type c04Full struct {
	c04Oracle
	checkSeen int
}

func (o *c04Full) AfterStep(e *core.Engine, idx int, st *core.Step, stepErr error) []core.Violation {
	if st.Kind == "checks" && st.Note == "mutants" {
		ref := e.C.Replicas[st.Replica]
		recs := ref.Tr.Checks
		n := len(st.Txs)
		if len(recs) < n {
			return nil
		}
		for i, c := range recs[len(recs)-n:] {
			label := "?"
			if i < len(st.Labels) {
				label = st.Labels[i]
			}
			if c.Code == 0 {
				return []core.Violation{{Property: "C04", Oracle: "tampered-checktx-rejected", Sig: "mutant-admitted:" + label,
					Msg: fmt.Sprintf("CheckTx admitted a tampered transaction (%s) with code 0 at height %d; tx=%s", label, c.AtHeight, clipS(string(c.Tx), 300))}}
			}
		}
		return nil
	}
	return o.c04Oracle.AfterStep(e, idx, st, stepErr)
}

func init() {
	Register(&ClusterProp{
		Id: "C04",
		RuleText: "each run: honest blocks (swarm subset of all generators) build state; every 2-4 blocks the generators produce fresh transactions for the current state, those that pass CheckTx (original valid here) are withheld and " +
			"single-field mutants of them are derived: payload leaf / payload byte, fee price, fee currency, fee gas up/down, memo, type, signer key replaced, signed by a stranger, key algorithm, signature bit flip / truncate / empty / taken from another message, " +
			"signatures dropped / one dropped / duplicated / reordered / extra. Each mutant (kept only if the re-serialised signed content or the signature list differs from the original) goes through CheckTx on the node and is then delivered in a block of mutants only (byzantine proposer). " +
			"Oracles: CheckTx code != 0; DeliverTx code != 0; the mutant block's app hash equals that of a twin that received the same BeginBlock and no transactions. Non-trivial: >=5 mutants delivered; distinct = distinct fingerprints; `inputs` = mutants evaluated.",
		MakeSetup: func(rng *rand.Rand, tier string, seed uint64) *Setup {
			k := SwarmKnobs(rng)
			k.MaxGas = -1
			su := &Setup{Knobs: k, Sess: gen.NewSession()}
			su.Replicas = append(su.Replicas, core.ReplicaConf{Identity: "x0", Quiet: true, Recent: 10, Every: 100, Cycles: 10, WitnessInitEarly: true})
			// replica 1 is the mempool probe: validity sampling of originals and CheckTx of mutants run there,
			// so that nothing but blocks ever reaches the reference replica
			su.Replicas = append(su.Replicas, core.ReplicaConf{Identity: "x1", Recent: 10, Every: 100, Cycles: 10, WitnessInitEarly: true})
			su.Gens = allGens(rng)
			su.Blocks = 12 + rng.Intn(20)
			if tier == "thorough" {
				su.Blocks = 15 + rng.Intn(40)
			}
			su.MaxTx = 10
			gens := su.Gens
			sess := su.Sess
			next := 1 + rng.Intn(3)
			// Between: instead of a normal block, sometimes emit [checks(mutants), block(mutants only)]
			su.Between = func(e *core.Engine, rng *rand.Rand, blockNo int) []*core.Step {
				if blockNo < next {
					return nil
				}
				next = blockNo + 2 + rng.Intn(3)
				gc := &gen.Ctx{E: e, W: e.W, Rng: rng, Ref: e.C.Ref(), H: e.C.Height() + 1, S: sess}
				var cands []gen.Tx
				for _, g := range gens {
					cands = append(cands, g.Gen(gc)...)
				}
				rng.Shuffle(len(cands), func(i, j int) { cands[i], cands[j] = cands[j], cands[i] })
				var muts []mutant
				for _, c := range cands {
					if len(muts) >= 14 {
						break
					}
					// the original must be valid in this state (sanity; else the sample is discarded)
					res := e.C.Replicas[1].CheckTx(c.Bytes)
					if res.Code != 0 {
						e.Stats.Probes["invalid_original"]++
						continue
					}
					e.Stats.Probes["valid_original"]++
					other := c.Bytes
					if len(sess.Sent) > 0 {
						other = sess.Sent[rng.Intn(len(sess.Sent))].Bytes
					}
					ms := c04Mutants(rng, e.W, c.Bytes, other)
					rng.Shuffle(len(ms), func(i, j int) { ms[i], ms[j] = ms[j], ms[i] })
					if len(ms) > 5 {
						ms = ms[:5]
					}
					muts = append(muts, ms...)
				}
				if len(muts) == 0 {
					return nil
				}
				chk := &core.Step{Kind: "checks", Replica: 1, Note: "mutants"}
				blk := &core.Step{Kind: "block", Note: "mutants", DtMs: 5000}
				for _, m := range muts {
					hx := hex.EncodeToString(m.Bytes)
					chk.Txs = append(chk.Txs, hx)
					chk.Labels = append(chk.Labels, m.Label)
					blk.Txs = append(blk.Txs, hx)
					blk.Labels = append(blk.Labels, m.Label)
					e.Stats.Faults["tx_tamper"]++
				}
				e.Stats.Faults["byzantine_block"]++
				return []*core.Step{chk, blk}
			}
			return su
		},
		MakeOracle: func(e *core.Engine, tr *core.Trace) Oracle { return &c04Full{} },
	})
}

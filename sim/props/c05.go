package props

import (
	"bytes"
	"encoding/base64"
	"encoding/hex"
	"encoding/json"
	"fmt"
	"math/rand"
	"os"
	"strings"

	"github.com/Oneledger/protocol/action"
	"github.com/Oneledger/protocol/action/olvm"

	"olsim/core"
	"olsim/gen"
)

// C05 At-most-once: a signed transaction never takes effect twice.
//
// Honest blocks execute transactions. Every few blocks the replayer picks transactions that were
// executed earlier (any kind, any result, any age) and resubmits them byte-identical and re-encoded so
// that the signature still verifies. Each resubmission goes through CheckTx on a probe node and is then
// delivered in a block of resubmissions only; that block must leave the state exactly as an empty block
// does (raw-mode twin with the same BeginBlock and no transactions).

// reencodings returns re-encodings of a signed transaction that decode to the same signed content.
func reencodings(rng *rand.Rand, orig []byte) []mutant {
	base := core.DecodeTx(orig)
	if base == nil {
		return nil
	}
	kind := base.Type.String()
	var out []mutant
	add := func(label string, b []byte) {
		if b == nil || bytes.Equal(b, orig) {
			return
		}
		t := core.DecodeTx(b)
		if t == nil {
			return
		}
		// must still be the same signed content with the same signatures
		if !bytes.Equal(t.RawBytes(), base.RawBytes()) || !sigSetEqualLoose(t, base) {
			if !(base.Type == action.OLVM && t.Type == action.OLVM && olvmSameContent(t, base)) {
				return
			}
		}
		out = append(out, mutant{Bytes: b, Label: kind + "/replay:" + label})
	}
	var env map[string]json.RawMessage
	if json.Unmarshal(orig, &env) != nil {
		return nil
	}
	// key order: Go marshals maps with sorted keys, the envelope struct has its own order
	if b, err := json.Marshal(env); err == nil {
		add("key-order", b)
	}
	// whitespace
	var ind bytes.Buffer
	if json.Indent(&ind, orig, "", "  ") == nil {
		add("whitespace", ind.Bytes())
	}
	add("trailing-space", append(append([]byte{}, orig...), ' ', '\n'))
	// unknown extra field
	{
		e2 := map[string]json.RawMessage{}
		for k, v := range env {
			e2[k] = v
		}
		e2["zz_extra"] = json.RawMessage(fmt.Sprintf("%d", rng.Intn(1000000)))
		if b, err := json.Marshal(e2); err == nil {
			add("extra-field", b)
		}
	}
	// duplicate key: the decoder keeps the last occurrence
	if i := bytes.Index(orig, []byte(`"memo":`)); i >= 0 {
		b := append([]byte{}, orig[:i]...)
		b = append(b, []byte(`"memo":"shadowed",`)...)
		b = append(b, orig[i:]...)
		add("duplicate-key", b)
	}
	// \u escape inside the memo string
	if i := bytes.Index(orig, []byte(`"memo":"`)); i >= 0 {
		j := i + len(`"memo":"`)
		if j < len(orig) && orig[j] != '"' && orig[j] != '\\' && orig[j] < 0x80 {
			b := append([]byte{}, orig[:j]...)
			b = append(b, []byte(fmt.Sprintf("\\u%04x", orig[j]))...)
			b = append(b, orig[j+1:]...)
			add("unicode-escape", b)
		}
	}
	// key case: Go's decoder matches keys case-insensitively
	if i := bytes.Index(orig, []byte(`"memo":`)); i >= 0 {
		b := append([]byte{}, orig...)
		copy(b[i:], []byte(`"MEMO":`))
		add("key-case", b)
	}
	// decoder type errors: Go's JSON decoder reports the error and still fills every other field, so a
	// duplicate key of the wrong type, or a wrong type in place of a zero value, leaves the signed content intact
	addRaw := func(label string, b []byte) {
		t := &action.SignedTx{}
		_ = json.Unmarshal(b, t) // error expected
		if bytes.Equal(t.RawBytes(), base.RawBytes()) && sigSetEqualLoose(t, base) {
			out = append(out, mutant{Bytes: b, Label: kind + "/replay:" + label})
		}
	}
	if i := bytes.LastIndexByte(orig, '}'); i > 0 {
		b := append([]byte{}, orig[:i]...)
		b = append(b, []byte(`,"memo":5}`)...)
		b = append(b, orig[i+1:]...)
		addRaw("type-error-duplicate-key", b)
	}
	if i := bytes.Index(orig, []byte(`"memo":""`)); i >= 0 {
		b := append([]byte{}, orig[:i]...)
		b = append(b, []byte(`"memo":5`)...)
		b = append(b, orig[i+len(`"memo":""`):]...)
		addRaw("type-error-zero-value", b)
	}
	// hardware-wallet signatures carry a 6-byte hash tag in front: the same signature under another spelling of the tag
	if base.Type != action.OLVM {
		if t := core.DecodeTx(orig); t != nil {
			ch := false
			for i := range t.Signatures {
				sg := t.Signatures[i].Signed
				if len(sg) == 70 && bytes.HasPrefix(sg, []byte("SHA")) {
					n := append([]byte{}, sg...)
					copy(n, bytes.ToLower(sg[:3]))
					if rng.Intn(2) == 0 {
						n[0] = 's'
						n[1], n[2] = 'H', 'A'
					}
					t.Signatures[i].Signed = n
					ch = true
				}
			}
			if ch {
				if b := encodeSigned(t); b != nil {
					out = append(out, mutant{Bytes: b, Label: kind + "/replay:prehash-tag-case"})
				}
			}
		}
		// the signer key with bytes appended (a decoder that only checks a minimum length reads the same key)
		if t := core.DecodeTx(orig); t != nil && len(t.Signatures) > 0 {
			i := rng.Intn(len(t.Signatures))
			t.Signatures[i].Signer.Data = append(append([]byte{}, t.Signatures[i].Signer.Data...), byte(rng.Intn(256)))
			if b := encodeSigned(t); b != nil {
				out = append(out, mutant{Bytes: b, Label: kind + "/replay:signer-key-extended"})
			}
		}
		// a signature with a byte appended (a verifier that strips or ignores surplus signature bytes accepts
		// the same signature under 256 further encodings)
		if t := core.DecodeTx(orig); t != nil && len(t.Signatures) > 0 {
			i := rng.Intn(len(t.Signatures))
			t.Signatures[i].Signed = append(append([]byte{}, t.Signatures[i].Signed...), byte(rng.Intn(256)))
			if b := encodeSigned(t); b != nil {
				out = append(out, mutant{Bytes: b, Label: kind + "/replay:signature-extended"})
			}
		}
	}
	// surplus signature: the signature list itself is not signed; the required signatures stay in front
	if base.Type != action.OLVM {
		t := core.DecodeTx(orig)
		if t != nil && len(t.Signatures) > 0 {
			junk := make([]byte, 64)
			rng.Read(junk)
			extra := action.Signature{Signer: t.Signatures[0].Signer, Signed: junk}
			if rng.Intn(2) == 0 {
				st := core.NewEdAccount(1, "surplus-signer")
				extra = action.Signature{Signer: st.Pub, Signed: st.Sign(t.RawBytes())}
			}
			t.Signatures = append(t.Signatures, extra)
			if b := encodeSigned(t); b != nil {
				out = append(out, mutant{Bytes: b, Label: kind + "/replay:surplus-signature"})
			}
		}
	}
	// OLVM: the memo is not covered by the Ethereum signature, it only has to parse to the nonce
	if base.Type == action.OLVM && base.Memo != "" {
		for _, m := range []string{"0" + base.Memo, "00" + base.Memo} {
			t := core.DecodeTx(orig)
			if t == nil {
				break
			}
			t.Memo = m
			if b := encodeSigned(t); b != nil && !bytes.Equal(b, orig) {
				out = append(out, mutant{Bytes: b, Label: kind + "/replay:olvm-memo-leading-zero"})
				break
			}
		}
	}
	// OLVM: null / empty flips inside the payload (a decoder keeps null and "" or [] apart, each round-trips to itself)
	if base.Type == action.OLVM {
		for _, fl := range [][2]string{{`"data":""`, `"data":null`}, {`"data":null`, `"data":""`}, {`"accessList":null`, `"accessList":[]`}} {
			if !bytes.Contains(base.Data, []byte(fl[0])) {
				continue
			}
			t := core.DecodeTx(orig)
			if t == nil {
				break
			}
			t.Data = bytes.Replace(base.Data, []byte(fl[0]), []byte(fl[1]), 1)
			if b := encodeSigned(t); b != nil && !bytes.Equal(b, orig) {
				out = append(out, mutant{Bytes: b, Label: kind + "/replay:olvm-null-empty-flip"})
			}
		}
	}
	// OLVM: the chain id field of the payload as null (the signature binds the chain id by itself)
	if base.Type == action.OLVM {
		if i := bytes.Index(base.Data, []byte(`"chainID":`)); i >= 0 {
			j := i + len(`"chainID":`)
			k := j
			for k < len(base.Data) && base.Data[k] >= '0' && base.Data[k] <= '9' {
				k++
			}
			if t := core.DecodeTx(orig); t != nil && k > j {
				t.Data = append(append(append([]byte{}, base.Data[:j]...), []byte("null")...), base.Data[k:]...)
				if b := encodeSigned(t); b != nil {
					out = append(out, mutant{Bytes: b, Label: kind + "/replay:olvm-chainid-null"})
				}
			}
		}
	}
	// OLVM: the signer key field of the envelope is not what authenticates the transaction (the sender is
	// recovered from the Ethereum signature)
	if base.Type == action.OLVM {
		if t := core.DecodeTx(orig); t != nil && len(t.Signatures) == 1 {
			other := core.NewEthAccount(1, "envelope-signer")
			if rng.Intn(2) == 0 {
				other = core.NewEdAccount(1, "envelope-signer")
			}
			t.Signatures[0].Signer = other.Pub
			if b := encodeSigned(t); b != nil && !bytes.Equal(b, orig) {
				out = append(out, mutant{Bytes: b, Label: kind + "/replay:olvm-signer-field"})
			}
		}
	}
	// OLVM: the envelope's Signer is unused; the inner payload may be re-encoded as long as the fields agree
	if base.Type == action.OLVM {
		var inner map[string]json.RawMessage
		if json.Unmarshal(base.Data, &inner) == nil {
			if ib, err := json.Marshal(inner); err == nil && !bytes.Equal(ib, base.Data) {
				e2 := map[string]json.RawMessage{}
				for k, v := range env {
					e2[k] = v
				}
				e2["data"] = json.RawMessage(`"` + base64.StdEncoding.EncodeToString(ib) + `"`)
				if b, err := json.Marshal(e2); err == nil {
					add("olvm-inner-key-order", b)
				}
			}
		}
	}
	return out
}

func sigSetEqualLoose(a, b *action.SignedTx) bool {
	if len(a.Signatures) != len(b.Signatures) {
		return false
	}
	for i := range a.Signatures {
		if !bytes.Equal(a.Signatures[i].Signed, b.Signatures[i].Signed) || !a.Signatures[i].Signer.Equal(b.Signatures[i].Signer) {
			return false
		}
	}
	return true
}

// contentKey identifies the signed content of a transaction whatever its encoding (lenient decoding: a
// decoder type error still fills the other fields).
func contentKey(b []byte) string {
	t := &action.SignedTx{}
	_ = json.Unmarshal(b, t)
	if len(t.Signatures) == 0 {
		return ""
	}
	if t.Type == action.OLVM {
		// signed content = the Ethereum transaction fields (payload fields, fee) and the signature itself
		in := &olvm.Transaction{}
		if in.Unmarshal(t.Data) != nil {
			return ""
		}
		if len(in.Data) == 0 {
			in.Data = nil // null and "" are the same (empty) call data
		}
		if in.AccessList != nil && len(*in.AccessList) == 0 {
			in.AccessList = nil
		}
		in.ChainID = nil // bound by the signature itself, the field is a copy
		j, _ := json.Marshal(in)
		f, _ := json.Marshal(t.Fee)
		return "O|" + string(j) + "|" + string(f) + "|" + string(t.Signatures[0].Signed)
	}
	// signed content = type, payload, fee, memo (whoever else signed behind the required signers)
	return "N|" + string(t.RawBytes())
}

type c05Oracle struct {
	executed map[string]bool // signed content of every transaction delivered in an honest block so far
	shadow   *core.Replica
	resubs   int
	blocks   int
	okOrig   int
}

func (o *c05Oracle) Inputs() int { return o.resubs }

func (o *c05Oracle) AfterStep(e *core.Engine, idx int, st *core.Step, stepErr error) []core.Violation {
	if st.Kind == "boot" {
		ref := e.C.Ref()
		sh, err := e.C.NewShadow(core.ReplicaSpec{Keys: ref.Spec.Keys, Rotation: ref.Spec.Rotation, WitnessInitEarly: ref.Spec.WitnessInitEarly, Quiet: true}, 92)
		if err != nil {
			panic(core.HarnessError{Msg: "shadow boot: " + err.Error()})
		}
		o.shadow = sh
		return nil
	}
	if st.Kind == "checks" && st.Note == "replays" {
		r := e.C.Replicas[st.Replica]
		recs := r.Tr.Checks
		n := len(st.Txs)
		if len(recs) < n {
			return nil
		}
		for i, c := range recs[len(recs)-n:] {
			label := "?"
			if i < len(st.Labels) {
				label = st.Labels[i]
			}
			if k := contentKey(c.Tx); k == "" || !o.executed[k] {
				continue // not a resubmission in this history (e.g. the minimiser removed the original's block)
			}
			if c.Code == 0 {
				return []core.Violation{{Property: "C05", Oracle: "resubmission-rejected-by-checktx", Sig: "replay-admitted:" + label,
					Msg: fmt.Sprintf("CheckTx admitted (code 0) a resubmission (%s) of a transaction that was already executed in a block; at height %d; tx=%s", label, c.AtHeight, clipS(string(c.Tx), 300))}}
			}
		}
		return nil
	}
	if st.Kind != "block" || stepErr != nil {
		return nil
	}
	h := e.C.Height()
	ref := e.C.Ref()
	ra := ref.Tr.Committed(h)
	if ra == nil {
		return nil
	}
	cb := e.C.Blocks[h-1]
	if st.Note != "replays" {
		o.shadow.RawBlock(cb, *ra.Begin, ra.TxBytes)
		for i, r := range ra.Txs {
			if r.Code == 0 {
				o.okOrig++
			}
			if k := contentKey(ra.TxBytes[i]); k != "" && r.Code == 0 {
				// executed = delivered with code 0 (a transaction that failed took no effect and may be sent again)
				o.executed[k] = true
			}
		}
		return nil
	}
	for _, tb := range ra.TxBytes {
		if k := contentKey(tb); k == "" || !o.executed[k] {
			// the block holds a transaction that was not executed before in this history (the minimiser
			// removed the original's block): it is an ordinary block, the twin follows it
			o.shadow.RawBlock(cb, *ra.Begin, ra.TxBytes)
			for i := range ra.Txs {
				if k := contentKey(ra.TxBytes[i]); k != "" && ra.Txs[i].Code == 0 {
					o.executed[k] = true
				}
			}
			return nil
		}
	}
	o.blocks++
	o.resubs += len(ra.Txs)
	sa := o.shadow.RawBlock(cb, *ra.Begin, nil)
	if !bytes.Equal(sa.AppHash, ra.AppHash) {
		ks := core.DiffDumps(ref.DumpMap(), o.shadow.DumpMap(), 10)
		return []core.Violation{{Property: "C05", Oracle: "resubmission-changes-nothing", Sig: "replay-took-effect:" + labelsSig(st.Labels),
			Msg: fmt.Sprintf("block %d containing only resubmissions of already executed transactions differs from an empty block: main=%x empty-twin=%x; changed keys: %q; resubmissions: %v", h, ra.AppHash, sa.AppHash, ks, st.Labels)}}
	}
	return nil
}

func (o *c05Oracle) Finish(e *core.Engine) []core.Violation { return nil }
func (o *c05Oracle) NonTrivial(e *core.Engine) bool {
	return o.resubs >= 3 && o.blocks >= 1 && o.okOrig >= 3
}

func init() {
	Register(&ClusterProp{
		Id: "C05",
		RuleText: "each run: honest blocks (swarm subset of all generators) execute transactions; every 2-4 blocks the replayer picks transactions executed earlier (all kinds, delivered with code 0, same block age .. whole run) and resubmits them " +
			"byte-identical and re-encoded with the signed content unchanged (key order, whitespace, trailing space, unknown extra field, shadowed duplicate key, \\u escape, key case, decoder type errors that leave the content intact, a surplus signature behind the required ones, another spelling of a hardware-wallet hash tag, signer key bytes extended, OLVM memo with leading zeros, OLVM signer key field, OLVM payload null/empty flips, OLVM inner payload key order). Every resubmission goes through CheckTx on a probe node " +
			"and is delivered in a block of resubmissions only (byzantine proposer). Oracles: CheckTx code != 0; the resubmission block's app hash equals that of a twin that received the same BeginBlock and no transactions. " +
			"Assumes the node's tx index is complete for every applied block. Non-trivial: >=3 resubmissions delivered and >=3 successful originals; distinct = distinct fingerprints; `inputs` = resubmissions delivered.",
		MakeSetup: func(rng *rand.Rand, tier string, seed uint64) *Setup {
			k := SwarmKnobs(rng)
			k.MaxGas = -1
			su := &Setup{Knobs: k, Sess: gen.NewSession()}
			su.Replicas = append(su.Replicas, core.ReplicaConf{Identity: "x0", Quiet: true, Recent: 10, Every: 100, Cycles: 10, WitnessInitEarly: true})
			su.Replicas = append(su.Replicas, core.ReplicaConf{Identity: "x1", Recent: 10, Every: 100, Cycles: 10, WitnessInitEarly: true})
			su.Gens = allGens(rng)
			su.Blocks = 12 + rng.Intn(20)
			if tier == "thorough" {
				su.Blocks = 15 + rng.Intn(40)
			}
			su.MaxTx = 10
			next := 2 + rng.Intn(3)
			su.Between = func(e *core.Engine, rng *rand.Rand, blockNo int) []*core.Step {
				if blockNo < next {
					return nil
				}
				next = blockNo + 2 + rng.Intn(3)
				// executed transactions so far, from the reference transcript
				var pool [][]byte
				for _, a := range e.C.Ref().Tr.Attempts {
					if a.Committed {
						for i, tb := range a.TxBytes {
							if i < len(a.Txs) && a.Txs[i].Code == 0 {
								pool = append(pool, tb) // executed = delivered with code 0
							}
						}
					}
				}
				if len(pool) == 0 {
					return nil
				}
				var rs []mutant
				for n := 0; n < 4 && len(rs) < 12; n++ {
					// bias to recent ones half of the time
					lo := 0
					if len(pool) > 10 && rng.Intn(2) == 0 {
						lo = len(pool) - 10
					}
					orig := pool[lo+rng.Intn(len(pool)-lo)]
					kind := "UNPARSEABLE"
					if tx := core.DecodeTx(orig); tx != nil {
						kind = tx.Type.String()
					}
					if strings.Contains(kind, "UNPARSEABLE") {
						continue
					}
					if rng.Intn(3) == 0 {
						rs = append(rs, mutant{Bytes: orig, Label: kind + "/replay:identical"})
					}
					re := reencodings(rng, orig)
					if only := os.Getenv("OLSIM_C05_ONLY"); only != "" {
						// exploration aid (never set by the harness): keep one family of re-encodings
						var f []mutant
						for _, m := range re {
							if strings.HasSuffix(m.Label, only) {
								f = append(f, m)
							}
						}
						re = f
					}
					rng.Shuffle(len(re), func(i, j int) { re[i], re[j] = re[j], re[i] })
					if len(re) > 2 {
						re = re[:2]
					}
					rs = append(rs, re...)
				}
				if len(rs) == 0 {
					return nil
				}
				chk := &core.Step{Kind: "checks", Replica: 1, Note: "replays"}
				blk := &core.Step{Kind: "block", Note: "replays", DtMs: 5000}
				for _, m := range rs {
					hx := hex.EncodeToString(m.Bytes)
					chk.Txs = append(chk.Txs, hx)
					chk.Labels = append(chk.Labels, m.Label)
					blk.Txs = append(blk.Txs, hx)
					blk.Labels = append(blk.Labels, m.Label)
					if strings.HasSuffix(m.Label, "identical") {
						e.Stats.Faults["tx_duplicate"]++
					} else {
						e.Stats.Faults["tx_reencode"]++
					}
				}
				e.Stats.Faults["byzantine_block"]++
				return []*core.Step{chk, blk}
			}
			return su
		},
		MakeOracle: func(e *core.Engine, tr *core.Trace) Oracle { return &c05Oracle{executed: map[string]bool{}} },
	})
}

package props

import (
	"bytes"
	"encoding/hex"
	"fmt"
	"io"
	"math"
	"math/big"
	"runtime/debug"
	"sort"
	"strings"
	"time"

	ethcmn "github.com/ethereum/go-ethereum/common"
	ethcore "github.com/ethereum/go-ethereum/core"
	"github.com/ethereum/go-ethereum/core/rawdb"
	ethstate "github.com/ethereum/go-ethereum/core/state"
	ethtypes "github.com/ethereum/go-ethereum/core/types"
	ethvm "github.com/ethereum/go-ethereum/core/vm"
	ethcrypto "github.com/ethereum/go-ethereum/crypto"
	ethtrie "github.com/ethereum/go-ethereum/trie"
	abci "github.com/tendermint/tendermint/abci/types"
	dbm "github.com/tendermint/tm-db"

	"github.com/Oneledger/protocol/data/balance"
	"github.com/Oneledger/protocol/data/chain"
	"github.com/Oneledger/protocol/data/evm"
	"github.com/Oneledger/protocol/data/keys"
	"github.com/Oneledger/protocol/log"
	"github.com/Oneledger/protocol/storage"
	"github.com/Oneledger/protocol/vm"

	"olsim/core"
	"olsim/gen"
)

// ---------------------------------------------------------------------------------------------
// address pool (fixed; every case starts from the same accounts)
// ---------------------------------------------------------------------------------------------

var c16Kinds = []string{"store", "proxy", "rev", "log", "env", "factory", "kill", "echo", "multi"}

func c16A(tag byte, i int) ethcmn.Address {
	var a ethcmn.Address
	a[0], a[1], a[18], a[19] = 0xc1, 0x6e, tag, byte(i+1)
	return a
}

type c16PoolT struct {
	Legacy   []ethcmn.Address // funded natively: balance record, no keeper record
	Eoa      []ethcmn.Address // E0: nonce 3 + balance, E1: balance only (both written through the adapter)
	Fresh    []ethcmn.Address // never touched
	Pre      []ethcmn.Address // precompiles 1, 3 (ripemd), 4
	Contract map[string]ethcmn.Address
	Extra    []ethcmn.Address // store2, kill2
	All      []ethcmn.Address
	KindOf   map[ethcmn.Address]string
}

var c16Pool = func() *c16PoolT {
	p := &c16PoolT{Contract: map[string]ethcmn.Address{}, KindOf: map[ethcmn.Address]string{}}
	for i := 0; i < 2; i++ {
		p.Legacy = append(p.Legacy, c16A(0x1e, i))
		p.Eoa = append(p.Eoa, c16A(0xe0, i))
	}
	for i := 0; i < 3; i++ {
		p.Fresh = append(p.Fresh, c16A(0xf0, i))
	}
	p.Pre = []ethcmn.Address{ethcmn.BytesToAddress([]byte{1}), ethcmn.BytesToAddress([]byte{3}), ethcmn.BytesToAddress([]byte{4})}
	for i, k := range c16Kinds {
		a := c16A(0xc0, i)
		p.Contract[k] = a
		p.KindOf[a] = k
	}
	p.Extra = []ethcmn.Address{c16A(0xc0, 20), c16A(0xc0, 21)}
	p.KindOf[p.Extra[0]] = "store"
	p.KindOf[p.Extra[1]] = "kill"
	p.All = append(p.All, p.Legacy...)
	p.All = append(p.All, p.Eoa...)
	p.All = append(p.All, p.Fresh...)
	p.All = append(p.All, p.Pre...)
	for _, k := range c16Kinds {
		p.All = append(p.All, p.Contract[k])
	}
	p.All = append(p.All, p.Extra...)
	return p
}()

func c16Big(s string) *big.Int {
	v, ok := new(big.Int).SetString(s, 10)
	if !ok || v.Sign() < 0 {
		return new(big.Int)
	}
	return v
}

var c16Fund = c16Big("1000000000000000000000000") // 1e24

// ---------------------------------------------------------------------------------------------
// recorder: wraps system B, records every address and slot that passes the state interface and
// keeps its own log of un-reverted mutating calls per address (for the store-footprint oracle)
// ---------------------------------------------------------------------------------------------

type c16Rec struct {
	in    *ethstate.StateDB
	x     *c16Exec
	mut   []ethcmn.Address // mutating calls of the transaction in flight, truncated on revert
	marks map[int]int      // snapshot id -> len(mut)
}

func (r *c16Rec) t(a ethcmn.Address) { r.x.touch(a) }
func (r *c16Rec) ts(a ethcmn.Address, k ethcmn.Hash) {
	r.x.touch(a)
	m := r.x.slots[a]
	if m == nil {
		m = map[ethcmn.Hash]bool{}
		r.x.slots[a] = m
	}
	m[k] = true
}
func (r *c16Rec) m(a ethcmn.Address) { r.mut = append(r.mut, a) }
func (r *c16Rec) mutated(a ethcmn.Address) bool {
	for _, b := range r.mut {
		if a == b {
			return true
		}
	}
	return false
}
func (r *c16Rec) clear() { r.mut, r.marks = nil, map[int]int{} }

func (r *c16Rec) CreateAccount(a ethcmn.Address)           { r.t(a); r.m(a); r.in.CreateAccount(a) }
func (r *c16Rec) SubBalance(a ethcmn.Address, v *big.Int)  { r.t(a); r.m(a); r.in.SubBalance(a, v) }
func (r *c16Rec) AddBalance(a ethcmn.Address, v *big.Int)  { r.t(a); r.m(a); r.in.AddBalance(a, v) }
func (r *c16Rec) GetBalance(a ethcmn.Address) *big.Int     { r.t(a); return r.in.GetBalance(a) }
func (r *c16Rec) GetNonce(a ethcmn.Address) uint64         { r.t(a); return r.in.GetNonce(a) }
func (r *c16Rec) SetNonce(a ethcmn.Address, n uint64)      { r.t(a); r.m(a); r.in.SetNonce(a, n) }
func (r *c16Rec) GetCodeHash(a ethcmn.Address) ethcmn.Hash { r.t(a); return r.in.GetCodeHash(a) }
func (r *c16Rec) GetCode(a ethcmn.Address) []byte          { r.t(a); return r.in.GetCode(a) }
func (r *c16Rec) SetCode(a ethcmn.Address, c []byte)       { r.t(a); r.m(a); r.in.SetCode(a, c) }
func (r *c16Rec) GetCodeSize(a ethcmn.Address) int         { r.t(a); return r.in.GetCodeSize(a) }
func (r *c16Rec) AddRefund(g uint64)                       { r.in.AddRefund(g) }
func (r *c16Rec) SubRefund(g uint64)                       { r.in.SubRefund(g) }
func (r *c16Rec) GetRefund() uint64                        { return r.in.GetRefund() }
func (r *c16Rec) Suicide(a ethcmn.Address) bool            { r.t(a); r.m(a); return r.in.Suicide(a) }
func (r *c16Rec) HasSuicided(a ethcmn.Address) bool        { r.t(a); return r.in.HasSuicided(a) }
func (r *c16Rec) Exist(a ethcmn.Address) bool              { r.t(a); return r.in.Exist(a) }
func (r *c16Rec) Empty(a ethcmn.Address) bool              { r.t(a); return r.in.Empty(a) }
func (r *c16Rec) AddressInAccessList(a ethcmn.Address) bool {
	r.t(a)
	return r.in.AddressInAccessList(a)
}
func (r *c16Rec) AddAddressToAccessList(a ethcmn.Address) { r.t(a); r.in.AddAddressToAccessList(a) }
func (r *c16Rec) AddLog(l *ethtypes.Log)                  { r.in.AddLog(l) }
func (r *c16Rec) AddPreimage(h ethcmn.Hash, p []byte)     { r.in.AddPreimage(h, p) }
func (r *c16Rec) GetCommittedState(a ethcmn.Address, k ethcmn.Hash) ethcmn.Hash {
	r.ts(a, k)
	return r.in.GetCommittedState(a, k)
}
func (r *c16Rec) GetState(a ethcmn.Address, k ethcmn.Hash) ethcmn.Hash {
	r.ts(a, k)
	return r.in.GetState(a, k)
}
func (r *c16Rec) SetState(a ethcmn.Address, k, v ethcmn.Hash) {
	r.ts(a, k)
	r.m(a)
	r.in.SetState(a, k, v)
}
func (r *c16Rec) PrepareAccessList(s ethcmn.Address, d *ethcmn.Address, pre []ethcmn.Address, l ethtypes.AccessList) {
	r.t(s)
	if d != nil {
		r.t(*d)
	}
	for _, e := range l {
		r.t(e.Address)
		for _, k := range e.StorageKeys {
			r.ts(e.Address, k)
		}
	}
	r.in.PrepareAccessList(s, d, pre, l)
}
func (r *c16Rec) SlotInAccessList(a ethcmn.Address, k ethcmn.Hash) (bool, bool) {
	r.ts(a, k)
	return r.in.SlotInAccessList(a, k)
}
func (r *c16Rec) AddSlotToAccessList(a ethcmn.Address, k ethcmn.Hash) {
	r.ts(a, k)
	r.in.AddSlotToAccessList(a, k)
}
func (r *c16Rec) RevertToSnapshot(id int) {
	if n, ok := r.marks[id]; ok && n <= len(r.mut) {
		r.mut = r.mut[:n]
	}
	r.x.reverts = true
	r.in.RevertToSnapshot(id)
}
func (r *c16Rec) Snapshot() int {
	id := r.in.Snapshot()
	r.marks[id] = len(r.mut)
	return id
}
func (r *c16Rec) ForEachStorage(a ethcmn.Address, cb func(ethcmn.Hash, ethcmn.Hash) bool) error {
	r.t(a)
	return r.in.ForEachStorage(a, cb)
}

var _ ethvm.StateDB = (*c16Rec)(nil)

// ---------------------------------------------------------------------------------------------
// the two systems
// ---------------------------------------------------------------------------------------------

type c16Snap struct {
	a, b int
	mut  int
}

type c16Exec struct {
	conf c16Conf

	// system A
	db        dbm.DB
	cs        *storage.ChainState
	deliver   *storage.State
	bal       *balance.Store
	curs      *balance.CurrencySet
	olt       balance.Currency
	contracts *evm.ContractStore
	keeper    balance.AccountKeeper
	A         *vm.CommitStateDB
	logger    *log.Logger

	// system B
	edb      ethstate.Database
	B        *ethstate.StateDB
	rec      *c16Rec
	bSess    *ethstate.StateDB // copy taken at session begin
	lastRoot ethcmn.Hash

	inSess    bool
	txn       int
	thash     ethcmn.Hash
	height    int64
	snaps     []c16Snap
	mutCnt    int
	addrs     map[ethcmn.Address]bool
	slots     map[ethcmn.Address]map[ethcmn.Hash]bool
	gone      map[ethcmn.Address]bool // B removed the account at some finalisation (self-destruct or empty)
	goneS     map[ethcmn.Address]bool // copy at session begin
	recreated map[ethcmn.Address]bool // CreateAccount was called on the address by an interface op
	goneC     map[ethcmn.Address]bool // copy at the last block commit
	rawA      map[ethcmn.Address]string
	reverts   bool // a RevertToSnapshot happened in the transaction in flight
	lastOp    string
	created   []ethcmn.Address // contract addresses reported by successful creation messages (generator use)

	viol  *core.Violation
	known *core.Violation // first violation explained by an open known finding (does not end the case)
	step  int
	op    c16Op

	// measurements
	ntReverts int // reverted snapshots with >=1 state-changing op inside
	ntMsgs    int // messages that created or called a contract
	msgs      int
	sawMsg    bool
	inMsg     bool // executing a message (after the preceding transaction was ended)
	bothPanic bool // adapter and reference panicked on the same call: same outcome, the case ends
	panicA    string
}

func (x *c16Exec) touch(a ethcmn.Address) { x.addrs[a] = true }

func (x *c16Exec) fail(oracle, class, msg string) {
	if x.viol != nil {
		return
	}
	label := "iface"
	if x.inMsg || (x.conf.Mode == "prog" && x.op.Op != "foreach") {
		label = "msg"
	}
	v := &core.Violation{Property: "C16", Oracle: oracle, Sig: class + ":" + label,
		Msg: fmt.Sprintf("op #%d %s: %s", x.step, x.op.enc(), msg), Step: x.step + 1}
	if IsKnownOpen(*v) {
		// a listed finding does not end the case: it is kept (the first one) and the case goes on
		if x.known == nil {
			x.known = v
		}
		return
	}
	x.viol = v
}

func c16Key(a ethcmn.Address) keys.Address { return keys.Address(append([]byte{}, a.Bytes()...)) }

func (x *c16Exec) coin(v *big.Int) balance.Coin {
	return x.olt.NewCoinFromAmount(*balance.NewAmountFromBigInt(new(big.Int).Set(v)))
}

func (x *c16Exec) newDeliver() {
	x.deliver = storage.NewState(x.cs).WithGas(storage.NewGasCalculator(storage.Gas(math.MaxInt64)))
}

// newAdapter builds the adapter exactly as app/context.go does: contract store, nested account keeper
// over the balance store, CommitStateDB; then aims everything at the deliver state (context.Action).
func (x *c16Exec) newAdapter() {
	x.bal = balance.NewStore("b", storage.NewState(x.cs))
	x.contracts = evm.NewContractStore(storage.NewState(x.cs))
	x.keeper = balance.NewNesterAccountKeeper(storage.NewState(x.cs), x.bal, x.curs)
	x.A = vm.NewCommitStateDB(x.contracts, x.keeper, x.logger)
	x.A.SetBlockHash(ethcmn.BytesToHash([]byte("c16-block")))
	x.aim(x.deliver)
}

func (x *c16Exec) aim(st *storage.State) {
	x.bal.WithState(st)
	x.A.WithState(st)
}

func (x *c16Exec) openB(root ethcmn.Hash) error {
	b, err := ethstate.New(root, x.edb, nil)
	if err != nil {
		return err
	}
	x.B = b
	x.rec.in = b
	return nil
}

func (x *c16Exec) boot() (err error) {
	defer func() {
		if r := recover(); r != nil {
			err = fmt.Errorf("boot panic: %v", r)
		}
	}()
	x.addrs = map[ethcmn.Address]bool{}
	x.slots = map[ethcmn.Address]map[ethcmn.Hash]bool{}
	x.gone = map[ethcmn.Address]bool{}
	x.recreated = map[ethcmn.Address]bool{}
	x.rawA = map[ethcmn.Address]string{}
	x.height = 2
	x.logger = log.NewLoggerWithPrefix(io.Discard, "c16").WithLevel(log.Error)
	x.db = dbm.NewMemDB()
	x.cs = storage.NewChainState("c16", x.db)
	x.curs = balance.NewCurrencySet()
	x.olt = balance.Currency{Id: 0, Name: "OLT", Chain: chain.ONELEDGER, Decimal: 18, Unit: "nue"}
	if err := x.curs.Register(x.olt); err != nil {
		return err
	}
	x.newDeliver()
	x.newAdapter()
	x.edb = ethstate.NewDatabase(rawdb.NewMemoryDatabase())
	x.rec = &c16Rec{x: x, marks: map[int]int{}}
	if err := x.openB(ethcmn.Hash{}); err != nil {
		return err
	}
	p := c16Pool
	for _, a := range p.All {
		x.touch(a)
	}
	// legacy accounts: native balance only
	for _, a := range p.Legacy {
		if err := x.bal.AddToAddress(c16Key(a), x.coin(c16Fund)); err != nil {
			return err
		}
		x.B.AddBalance(a, c16Fund)
	}
	both := func(f func(s ethvm.StateDB)) { f(x.A); f(x.B) }
	both(func(s ethvm.StateDB) {
		s.AddBalance(p.Eoa[0], c16Fund)
		s.SetNonce(p.Eoa[0], 3)
		s.AddBalance(p.Eoa[1], c16Fund)
		deploy := func(a ethcmn.Address, kind string) {
			s.SetNonce(a, 1)
			s.SetCode(a, gen.OlvmRuntime(kind))
		}
		for _, k := range c16Kinds {
			deploy(p.Contract[k], k)
		}
		deploy(p.Extra[0], "store")
		deploy(p.Extra[1], "kill")
		for _, k := range []string{"proxy", "factory", "kill", "multi"} {
			s.AddBalance(p.Contract[k], big.NewInt(1000000))
		}
		s.AddBalance(p.Extra[1], big.NewInt(777))
		s.SetState(p.Contract["store"], ethcmn.BigToHash(big.NewInt(1)), ethcmn.BigToHash(big.NewInt(0x11)))
		s.SetState(p.Contract["store"], ethcmn.BigToHash(big.NewInt(2)), ethcmn.BigToHash(big.NewInt(0x22)))
		s.SetState(p.Contract["kill"], ethcmn.BigToHash(big.NewInt(0)), ethcmn.BigToHash(big.NewInt(5)))
		s.SetState(p.Contract["kill"], ethcmn.BigToHash(big.NewInt(1)), ethcmn.BigToHash(big.NewInt(1)))
		s.SetState(p.Extra[1], ethcmn.BigToHash(big.NewInt(1)), ethcmn.BigToHash(big.NewInt(1)))
	})
	for _, a := range []ethcmn.Address{p.Contract["store"], p.Contract["kill"], p.Extra[0], p.Extra[1], p.Contract["proxy"], p.Contract["factory"], p.Contract["multi"]} {
		for _, s := range []int64{0, 1, 2, 3, 0xff} {
			x.rec.ts(a, ethcmn.BigToHash(big.NewInt(s)))
		}
	}
	if err := x.A.Finalise(true); err != nil {
		return err
	}
	x.B.Finalise(true)
	x.commitBlock()
	x.prepare()
	x.refreshRaw()
	return nil
}

func (x *c16Exec) header() *abci.Header {
	return &abci.Header{ChainID: "olsim-c16", Height: x.height, Time: time.Unix(1700000000+x.height*5, 0).UTC(),
		ProposerAddress: bytes.Repeat([]byte{0xab}, 20)}
}

// prepare starts a new transaction on both systems (app/controller.go: stateDB.Prepare(txhash)).
func (x *c16Exec) prepare() {
	x.txn++
	x.thash = ethcrypto.Keccak256Hash([]byte(fmt.Sprintf("c16-tx-%d", x.txn)))
	x.A.Prepare(x.thash)
	x.B.Prepare(x.thash, x.txn)
}

// commitBlock: State.Commit under the adapter, a fresh deliver state (BeginBlock), B committed and reopened.
func (x *c16Exec) commitBlock() {
	if x.inSess {
		x.deliver.CommitTxSession()
		x.inSess = false
	}
	x.deliver.Commit()
	x.newDeliver()
	x.aim(x.deliver)
	root, err := x.B.Commit(true)
	if err != nil {
		panic(core.HarnessError{Msg: "C16: reference state commit: " + err.Error()})
	}
	x.lastRoot = root
	x.goneC = c16CopySet(x.gone)
	if err := x.openB(root); err != nil {
		panic(core.HarnessError{Msg: "C16: reference state reopen: " + err.Error()})
	}
	x.height++
}

// rawRecord returns the keeper record of an address as seen through the deliver state ("" = none).
func (x *c16Exec) rawRecord(a ethcmn.Address) string {
	k := append(storage.Prefix("keeper"), a.Bytes()...)
	d, _ := x.deliver.Get(storage.StoreKey(k))
	return string(d)
}

func (x *c16Exec) refreshRaw() {
	for a := range x.addrs {
		x.rawA[a] = x.rawRecord(a)
	}
}

func (x *c16Exec) sortedAddrs() []ethcmn.Address {
	out := make([]ethcmn.Address, 0, len(x.addrs))
	for a := range x.addrs {
		out = append(out, a)
	}
	sort.Slice(out, func(i, j int) bool { return bytes.Compare(out[i][:], out[j][:]) < 0 })
	return out
}

func (x *c16Exec) sortedSlots(a ethcmn.Address) []ethcmn.Hash {
	var out []ethcmn.Hash
	for k := range x.slots[a] {
		out = append(out, k)
	}
	sort.Slice(out, func(i, j int) bool { return bytes.Compare(out[i][:], out[j][:]) < 0 })
	return out
}

// callA runs a call on the adapter; a panic out of the adapter is a violation (the reference did not
// panic on the same call: the caller checks that by running B unprotected).
func (x *c16Exec) callA(what string, f func()) (ok bool) {
	defer func() {
		if r := recover(); r != nil {
			ok = false
			x.panicA = fmt.Sprint(r)
			x.fail("differential", "adapter-panics", fmt.Sprintf("%s panicked in the adapter: %v at %s (the reference executed the same call normally)", what, clipS(fmt.Sprint(r), 200), c16PanicSite()))
		}
	}()
	f()
	return true
}

// c16PanicSite names the innermost frames of the repository in the stack of the panic being recovered.
func c16PanicSite() string {
	var out []string
	for _, l := range strings.Split(string(debug.Stack()), "\n") {
		l = strings.TrimSpace(l)
		if strings.HasPrefix(l, "/repo/") {
			if i := strings.Index(l, " "); i > 0 {
				l = l[:i]
			}
			out = append(out, l)
			if len(out) == 3 {
				break
			}
		}
	}
	return strings.Join(out, " < ")
}

// settle = the end of a transaction on both sides: Finalise(true) (EVMTransaction.Apply does this
// after every message), followed by the store-footprint check and a full comparison.
func (x *c16Exec) settle(del bool) {
	if x.viol != nil {
		return
	}
	pre := x.existB()
	var ferr error
	if !x.callA("Finalise", func() { ferr = x.A.Finalise(del) }) {
		return
	}
	x.B.Finalise(del)
	x.markGone(pre)
	if ferr != nil {
		x.fail("differential", "finalise-error", "adapter Finalise returned "+ferr.Error())
		return
	}
	x.snaps = nil
	// store footprint: the adapter (re)wrote or deleted the account record of an address although no
	// un-reverted mutating call on it exists in this transaction
	for _, a := range x.sortedAddrs() {
		now := x.rawRecord(a)
		before, known := x.rawA[a]
		if known && now != before && !x.rec.mutated(a) && pre[a] == x.B.Exist(a) {
			// (pre[a] != Exist: the reference removed or created the account in this finalisation too, e.g.
			// go-ethereum keeps a reverted touch of the RIPEMD-160 precompile 0x03 dirty on purpose and then
			// deletes the empty account; the adapter copies that and the differential oracle compares the result)
			class := "untouched-account-written"
			if x.reverts {
				class = "revert-dirties-account"
			}
			x.fail("store-footprint", class, fmt.Sprintf("finalisation changed the stored account record of %s from %q to %q although every state-changing call on that address in this transaction was reverted (or there was none); the reference leaves the account untouched", a.Hex(), before, now))
		}
		x.rawA[a] = now
	}
	x.rec.clear()
	x.reverts = false
	x.cmpState("after finalisation")
	// the comparison loaded clean objects into the adapter's cache; a transaction starts with an empty one
	if x.viol == nil {
		x.callA("Finalise", func() { x.A.Finalise(true) })
	}
}

// existB / markGone: which accounts the reference removed (self-destruct or empty-account deletion)
// c16Ripemd: go-ethereum keeps a reverted touch of this precompile dirty on purpose (a mainnet consensus quirk the
// adapter copies), so an empty account there is removed although "everything was reverted".
var c16Ripemd = ethcmn.BytesToAddress([]byte{3})

func (x *c16Exec) existB() map[ethcmn.Address]bool {
	m := map[ethcmn.Address]bool{}
	for a := range x.addrs {
		m[a] = x.B.Exist(a)
	}
	return m
}

func (x *c16Exec) markGone(pre map[ethcmn.Address]bool) {
	for a := range x.addrs {
		if pre[a] && !x.B.Exist(a) {
			x.gone[a] = true
		}
	}
}

func c16CopySet(m map[ethcmn.Address]bool) map[ethcmn.Address]bool {
	o := map[ethcmn.Address]bool{}
	for k, v := range m {
		o[k] = v
	}
	return o
}

func c16Hex(b []byte) string {
	if len(b) > 40 {
		return fmt.Sprintf("%x..(%d bytes)", b[:40], len(b))
	}
	return fmt.Sprintf("%x", b)
}

// cmpState compares everything observable through the interface for all addresses and slots seen so far.
func (x *c16Exec) cmpState(when string) {
	if x.viol != nil {
		return
	}
	x.callA("state read", func() {
		for _, a := range x.sortedAddrs() {
			if x.cmpAddr(a, when) {
				return
			}
		}
		if ra, rb := x.A.GetRefund(), x.B.GetRefund(); ra != rb {
			x.fail("differential", "refund-mismatch", fmt.Sprintf("%s: refund counter adapter=%d reference=%d", when, ra, rb))
			return
		}
		if d := c16LogDiff(x.A.GetTxLogs(), x.B.GetLogs(x.thash, ethcmn.Hash{})); d != "" {
			x.fail("differential", "logs-mismatch", when+": logs of the current transaction: "+d)
		}
	})
}

func (x *c16Exec) cmpAddr(a ethcmn.Address, when string) bool {
	A, B := x.A, x.B
	bad := func(class, field string, va, vb interface{}) bool {
		x.fail("differential", class, fmt.Sprintf("%s: %s of %s: adapter=%v reference=%v", when, field, a.Hex(), va, vb))
		return true
	}
	goneB := x.gone[a]
	if va, vb := A.HasSuicided(a), B.HasSuicided(a); va != vb {
		return bad("suicided-mismatch", "HasSuicided", va, vb)
	}
	artefact := false
	if va, vb := A.Exist(a), B.Exist(a); va != vb {
		// go-ethereum answers Exist from its object cache: an account removed earlier in the block and then
		// re-created by a call that changes nothing (SubBalance 0, a bare CreateAccount) stays in the cache
		// as an empty object that is never written. Whether such an empty object "exists" is not observable
		// under EIP-158 and is not state: accepted iff the object does not survive a commit of the reference.
		if !va && vb && B.Empty(a) && !x.persistsInB(a) {
			artefact = true
		} else {
			return bad("exist-mismatch", "Exist", va, vb)
		}
	}
	if va, vb := A.GetNonce(a), B.GetNonce(a); va != vb {
		return bad("nonce-mismatch", "nonce", va, vb)
	}
	if va, vb := A.GetBalance(a), B.GetBalance(a); va.Cmp(vb) != 0 {
		return bad("balance-mismatch", "balance", va, vb)
	}
	if va, vb := A.GetCodeHash(a), B.GetCodeHash(a); va != vb && !artefact {
		return bad("code-mismatch", "code hash", va.Hex(), vb.Hex())
	}
	if va, vb := A.GetCode(a), B.GetCode(a); !bytes.Equal(va, vb) {
		return bad("code-mismatch", "code", c16Hex(va), c16Hex(vb))
	}
	if va, vb := A.GetCodeSize(a), B.GetCodeSize(a); va != vb {
		return bad("code-mismatch", "code size", va, vb)
	}
	for _, k := range x.sortedSlots(a) {
		if va, vb := A.GetState(a, k), B.GetState(a, k); va != vb {
			class := "storage-mismatch"
			if goneB && vb == (ethcmn.Hash{}) {
				class = "storage-survives-selfdestruct"
			} else if x.recreated[a] && vb == (ethcmn.Hash{}) {
				class = "createaccount-keeps-storage"
			}
			return bad(class, "storage slot "+k.Hex(), va.Hex(), vb.Hex())
		}
		if va, vb := A.GetCommittedState(a, k), B.GetCommittedState(a, k); va != vb {
			class := "committed-storage-mismatch"
			if goneB && vb == (ethcmn.Hash{}) {
				class = "storage-survives-selfdestruct"
			} else if x.recreated[a] && vb == (ethcmn.Hash{}) {
				class = "createaccount-keeps-storage"
			}
			return bad(class, "committed storage slot "+k.Hex(), va.Hex(), vb.Hex())
		}
		aa, as := A.SlotInAccessList(a, k)
		ba, bs := B.SlotInAccessList(a, k)
		if aa != ba || as != bs {
			return bad("accesslist-mismatch", "access-list membership of slot "+k.Hex(), fmt.Sprint(aa, as), fmt.Sprint(ba, bs))
		}
	}
	if va, vb := A.Empty(a), B.Empty(a); va != vb {
		return bad("empty-mismatch", "Empty", va, vb)
	}
	if va, vb := A.AddressInAccessList(a), B.AddressInAccessList(a); va != vb {
		return bad("accesslist-mismatch", "access-list membership", va, vb)
	}
	return false
}

// artefact: see cmpAddr (an empty, never-written object in go-ethereum's cache).
func (x *c16Exec) artefact(a ethcmn.Address) bool {
	ok := false
	x.callA("Exist", func() { ok = !x.A.Exist(a) && x.B.Exist(a) && x.B.Empty(a) && !x.persistsInB(a) })
	return ok
}

// persistsInB: does the account exist in the reference once its pending changes are committed?
func (x *c16Exec) persistsInB(a ethcmn.Address) bool {
	cp := x.B.Copy()
	root, err := cp.Commit(true)
	if err != nil {
		panic(core.HarnessError{Msg: "C16: commit of reference copy: " + err.Error()})
	}
	st, err := ethstate.New(root, x.edb, nil)
	if err != nil {
		panic(core.HarnessError{Msg: "C16: open reference copy: " + err.Error()})
	}
	return st.Exist(a)
}

func c16LogDiff(la, lb []*ethtypes.Log) string {
	if len(la) != len(lb) {
		return fmt.Sprintf("adapter has %d, reference %d", len(la), len(lb))
	}
	for i := range la {
		a, b := la[i], lb[i]
		if a.Address != b.Address || !bytes.Equal(a.Data, b.Data) || len(a.Topics) != len(b.Topics) {
			return fmt.Sprintf("log %d: adapter {%s %d topics data %s} reference {%s %d topics data %s}", i, a.Address.Hex(), len(a.Topics), c16Hex(a.Data), b.Address.Hex(), len(b.Topics), c16Hex(b.Data))
		}
		for j := range a.Topics {
			if a.Topics[j] != b.Topics[j] {
				return fmt.Sprintf("log %d topic %d: adapter %s reference %s", i, j, a.Topics[j].Hex(), b.Topics[j].Hex())
			}
		}
	}
	return ""
}

// finalScan: after the last block commit compare the raw contents of the adapter's stores with the
// reference: which addresses have an account, and how many storage entries each address holds.
func (x *c16Exec) finalScan() {
	if x.viol != nil {
		return
	}
	kp, cp := storage.Prefix("keeper"), append(storage.Prefix("contracts"), evm.KeyPrefixStorage...)
	recs := map[ethcmn.Address]bool{}
	stor := map[ethcmn.Address]int{}
	x.cs.Iterate(func(k, v []byte) bool {
		switch {
		case bytes.HasPrefix(k, kp) && len(k) == len(kp)+20:
			recs[ethcmn.BytesToAddress(k[len(kp):])] = true
		case bytes.HasPrefix(k, cp) && len(k) == len(cp)+20+32:
			stor[ethcmn.BytesToAddress(k[len(cp):len(cp)+20])]++
		}
		return false
	})
	for a := range recs {
		x.touch(a)
	}
	for a := range stor {
		x.touch(a)
	}
	for _, a := range x.sortedAddrs() {
		nb := 0
		if t := x.B.StorageTrie(a); t != nil {
			it := ethtrie.NewIterator(t.NodeIterator(nil))
			for it.Next() {
				nb++
			}
		}
		if stor[a] != nb {
			class := "storage-count-mismatch"
			if !x.B.Exist(a) || x.gone[a] {
				class = "storage-survives-selfdestruct"
			}
			x.fail("final-scan", class, fmt.Sprintf("after the final block commit the contract store holds %d storage entries for %s, the reference holds %d (account exists in reference: %v, removed earlier: %v)", stor[a], a.Hex(), nb, x.B.Exist(a), x.gone[a]))
			return
		}
		if recs[a] && !x.B.Exist(a) {
			x.fail("final-scan", "account-record-survives", fmt.Sprintf("after the final block commit the keeper still holds an account record for %s, which does not exist in the reference", a.Hex()))
			return
		}
	}
	x.cmpState("after the final block commit")
}

// ---------------------------------------------------------------------------------------------
// op execution
// ---------------------------------------------------------------------------------------------

func c16AddrOf(s string) ethcmn.Address { return ethcmn.HexToAddress(s) }
func c16Slot(s string) ethcmn.Hash      { return ethcmn.HexToHash(s) }

var c16Mutating = map[string]bool{"create": true, "touchcreate": true, "addbal": true, "subbal": true, "setnonce": true, "setcode": true, "sstore": true,
	"suicide": true, "addref": true, "subref": true, "log": true, "aladdr": true, "alslot": true, "prepal": true}

// exec runs one op on both systems. The adapter's calls are protected one by one (callA); the reference
// runs unprotected: if it panics right after the adapter panicked on the same call, both refuse the call
// (a use outside the interface contract): no verdict, the case ends there.
func (x *c16Exec) exec(i int, op c16Op) {
	x.step, x.op = i, op
	x.panicA = ""
	defer func() {
		if r := recover(); r != nil {
			if _, ok := r.(core.HarnessError); ok {
				panic(r)
			}
			if x.panicA != "" && x.viol != nil && strings.HasPrefix(x.viol.Sig, "adapter-panics") {
				x.viol = nil
				x.bothPanic = true
				return
			}
			panic(core.HarnessError{Msg: fmt.Sprintf("C16: the reference state panicked on op %s: %v", op.enc(), r)})
		}
	}()
	x.exec1(op)
}

func (x *c16Exec) exec1(op c16Op) {
	A, R := x.A, x.rec
	a, b := c16AddrOf(op.A), c16AddrOf(op.B)
	k := c16Slot(op.K)
	if op.A != "" {
		x.touch(a)
	}
	if op.B != "" {
		x.touch(b)
	}
	if c16Mutating[op.Op] {
		x.mutCnt++
	}
	ret := func(what string, va, vb interface{}) {
		if fmt.Sprint(va) != fmt.Sprint(vb) {
			x.fail("differential", "return-"+op.Op, fmt.Sprintf("%s returned %v on the adapter and %v on the reference", what, va, vb))
		}
	}
	dense := true
	switch op.Op {
	case "create":
		// what evm.create does under EIP-158: CreateAccount, then SetNonce(1). A bare CreateAccount on an
		// existing account journals a resetObjectChange that marks nothing dirty in either implementation,
		// so its outcome is decided by go-ethereum's object cache, not by the interface contract.
		x.callA("CreateAccount", func() { A.CreateAccount(a); A.SetNonce(a, 1) })
		R.CreateAccount(a)
		R.SetNonce(a, 1)
		x.recreated[a] = true
	case "touchcreate":
		// what evm.Call does for a value transfer to a new account
		v := c16Big(op.V)
		if v.Sign() == 0 {
			v = big.NewInt(1)
		}
		x.callA("Exist/CreateAccount/AddBalance", func() {
			if !A.Exist(a) {
				A.CreateAccount(a)
			}
			A.AddBalance(a, v)
		})
		if !R.Exist(a) {
			R.CreateAccount(a)
		}
		R.AddBalance(a, v)
	case "addbal":
		v := c16Big(op.V)
		x.callA("AddBalance", func() { A.AddBalance(a, v) })
		R.AddBalance(a, v)
	case "subbal":
		v := c16Big(op.V)
		if cur := x.B.GetBalance(a); cur.Cmp(v) < 0 {
			v = new(big.Int).Set(cur) // the EVM never overdraws (CanTransfer)
		}
		if v.Sign() == 0 && !x.B.Exist(a) {
			return // the EVM debits senders and callers, which exist (see sstore)
		}
		x.callA("SubBalance", func() { A.SubBalance(a, v) })
		R.SubBalance(a, v)
	case "getbal":
		var va *big.Int
		if x.callA("GetBalance", func() { va = A.GetBalance(a) }) {
			ret("GetBalance", va, R.GetBalance(a))
		}
	case "setnonce":
		x.callA("SetNonce", func() { A.SetNonce(a, op.N) })
		R.SetNonce(a, op.N)
	case "getnonce":
		var va uint64
		if x.callA("GetNonce", func() { va = A.GetNonce(a) }) {
			ret("GetNonce", va, R.GetNonce(a))
		}
	case "setcode":
		if !x.B.Exist(a) {
			return // see sstore
		}
		code, _ := hex.DecodeString(op.V)
		x.callA("SetCode", func() { A.SetCode(a, append([]byte{}, code...)) })
		R.SetCode(a, append([]byte{}, code...))
	case "getcode":
		var ca []byte
		var ha ethcmn.Hash
		var sa int
		if x.callA("GetCode", func() { ca, ha, sa = A.GetCode(a), A.GetCodeHash(a), A.GetCodeSize(a) }) {
			hb := R.GetCodeHash(a)
			if ha != hb && x.artefact(a) {
				hb = ha
			}
			ret("GetCode/GetCodeHash/GetCodeSize", fmt.Sprintf("%x %s %d", ca, ha.Hex(), sa), fmt.Sprintf("%x %s %d", R.GetCode(a), hb.Hex(), R.GetCodeSize(a)))
		}
	case "sstore":
		// The EVM stores only into the executing contract, which exists. On an absent account a store that
		// changes nothing leaves an undirtied object in go-ethereum's cache whose fate (written as an empty
		// account or not) depends on cache history, not on the interface contract: not generated.
		if !x.B.Exist(a) {
			return
		}
		v := ethcmn.BigToHash(c16Big(op.V))
		x.callA("SetState", func() { A.SetState(a, k, v) })
		R.SetState(a, k, v)
	case "sload":
		var va ethcmn.Hash
		if x.callA("GetState", func() { va = A.GetState(a, k) }) {
			x.retSlot("GetState", a, va, R.GetState(a, k))
		}
	case "cload":
		var va ethcmn.Hash
		if x.callA("GetCommittedState", func() { va = A.GetCommittedState(a, k) }) {
			x.retSlot("GetCommittedState", a, va, R.GetCommittedState(a, k))
		}
	case "addref":
		x.callA("AddRefund", func() { A.AddRefund(op.N) })
		R.AddRefund(op.N)
	case "subref":
		if op.N <= x.B.GetRefund() { // both implementations panic below zero by contract
			x.callA("SubRefund", func() { A.SubRefund(op.N) })
			R.SubRefund(op.N)
		}
	case "getref":
		var va uint64
		if x.callA("GetRefund", func() { va = A.GetRefund() }) {
			ret("GetRefund", va, R.GetRefund())
		}
	case "log":
		mk := func() *ethtypes.Log {
			l := &ethtypes.Log{Address: a, Data: []byte(op.V), BlockNumber: uint64(x.height)}
			for t := uint64(0); t < op.N%5; t++ {
				l.Topics = append(l.Topics, ethcmn.BigToHash(big.NewInt(int64(100+t))))
			}
			return l
		}
		x.callA("AddLog", func() { A.AddLog(mk()) })
		R.AddLog(mk())
	case "aladdr":
		x.callA("AddAddressToAccessList", func() { A.AddAddressToAccessList(a) })
		R.AddAddressToAccessList(a)
	case "alslot":
		x.callA("AddSlotToAccessList", func() { A.AddSlotToAccessList(a, k) })
		R.AddSlotToAccessList(a, k)
	case "inal":
		var va bool
		if x.callA("AddressInAccessList", func() { va = A.AddressInAccessList(a) }) {
			ret("AddressInAccessList", va, R.AddressInAccessList(a))
		}
	case "inalslot":
		var v1, v2 bool
		if x.callA("SlotInAccessList", func() { v1, v2 = A.SlotInAccessList(a, k) }) {
			w1, w2 := R.SlotInAccessList(a, k)
			ret("SlotInAccessList", fmt.Sprint(v1, v2), fmt.Sprint(w1, w2))
		}
	case "prepal":
		var dst *ethcmn.Address
		if op.B != "" {
			dst = &b
		}
		rules := vm.EthereumConfig("olsim-c16").Rules(big.NewInt(x.height))
		list := ethtypes.AccessList{{Address: a, StorageKeys: []ethcmn.Hash{k}}}
		x.callA("PrepareAccessList", func() { A.PrepareAccessList(a, dst, ethvm.ActivePrecompiles(rules), list) })
		R.PrepareAccessList(a, dst, ethvm.ActivePrecompiles(rules), list)
	case "suicide":
		// what opSuicide does: credit the beneficiary, then Suicide
		var ra bool
		x.callA("Suicide", func() {
			A.AddBalance(b, A.GetBalance(a))
			ra = A.Suicide(a)
		})
		R.AddBalance(b, R.GetBalance(a))
		rb := R.Suicide(a)
		if x.viol == nil {
			ret("Suicide", ra, rb)
		}
	case "hassuicided":
		var va bool
		if x.callA("HasSuicided", func() { va = A.HasSuicided(a) }) {
			ret("HasSuicided", va, R.HasSuicided(a))
		}
	case "exist":
		var va bool
		if x.callA("Exist", func() { va = A.Exist(a) }) {
			if vb := R.Exist(a); va != vb && !x.artefact(a) {
				ret("Exist", va, vb)
			}
		}
	case "empty":
		var va bool
		if x.callA("Empty", func() { va = A.Empty(a) }) {
			ret("Empty", va, R.Empty(a))
		}
	case "snap":
		var ia int
		x.callA("Snapshot", func() { ia = A.Snapshot() })
		x.snaps = append(x.snaps, c16Snap{a: ia, b: R.Snapshot(), mut: x.mutCnt})
	case "revert":
		if len(x.snaps) == 0 {
			return
		}
		idx := len(x.snaps) - 1 - int(op.N%uint64(len(x.snaps)))
		s := x.snaps[idx]
		x.snaps = x.snaps[:idx]
		if x.mutCnt > s.mut {
			x.ntReverts++
		}
		x.callA("RevertToSnapshot", func() { A.RevertToSnapshot(s.a) })
		R.RevertToSnapshot(s.b)
	case "badrevert":
		// contract of the interface: a snapshot id is dead once an outer snapshot was reverted; both
		// implementations must refuse it (they panic). The case ends here.
		var a1, a2 int
		x.callA("Snapshot", func() { a1 = A.Snapshot(); a2 = A.Snapshot(); A.RevertToSnapshot(a1) })
		b1 := R.Snapshot()
		b2 := R.Snapshot()
		R.RevertToSnapshot(b1)
		if x.viol != nil {
			return
		}
		refused := func(f func()) (p bool) {
			defer func() {
				if recover() != nil {
					p = true
				}
			}()
			f()
			return false
		}
		pa := refused(func() { A.RevertToSnapshot(a2) })
		pb := refused(func() { R.RevertToSnapshot(b2) })
		if pa != pb {
			x.fail("differential", "dead-snapshot-revert", fmt.Sprintf("RevertToSnapshot of a snapshot id that was invalidated by reverting an outer snapshot: adapter refused=%v, reference refused=%v", pa, pb))
		}
		x.bothPanic = true
		return
	case "finalise":
		x.settle(true)
		dense = false
	case "finalise0":
		x.settle(false)
		dense = false
	case "prepare":
		// a new transaction starts only after the previous one ended
		x.settle(true)
		if x.viol != nil {
			return
		}
		x.prepare()
	case "foreach":
		x.foreach(a)
	// ---- system ops
	case "begin":
		x.settle(true)
		if x.viol != nil {
			return
		}
		if x.inSess {
			x.deliver.CommitTxSession()
		}
		x.prepare()
		x.deliver.BeginTxSession()
		x.inSess = true
		x.bSess = x.B.Copy()
		x.goneS = c16CopySet(x.gone)
		dense = false
	case "commitS":
		if !x.inSess {
			return
		}
		x.settle(true)
		if x.viol != nil {
			return
		}
		x.deliver.CommitTxSession()
		x.inSess = false
		dense = false
	case "discardS":
		if !x.inSess {
			return
		}
		x.discard()
	case "reset":
		x.settle(true)
		if x.viol != nil {
			return
		}
		x.callA("Reset", func() { A.Reset() })
		x.prepare()
	case "commitB":
		x.settle(true)
		if x.viol != nil {
			return
		}
		x.commitBlock()
		x.prepare()
		x.refreshRaw()
	case "readapter":
		// a new adapter object over the same state: nothing may depend on the old object's memory
		x.settle(true)
		if x.viol != nil {
			return
		}
		x.newAdapter()
		x.prepare()
	case "restart":
		// the process dies: the uncommitted block is gone, everything is rebuilt over the committed tree
		x.inSess = false
		x.snaps = nil
		x.rec.clear()
		x.reverts = false
		x.newDeliver()
		x.newAdapter()
		if err := x.openB(x.lastRoot); err != nil {
			panic(core.HarnessError{Msg: "C16: reopen reference: " + err.Error()})
		}
		x.gone = c16CopySet(x.goneC)
		x.prepare()
		x.refreshRaw()
	case "checkread":
		x.checkRead()
		dense = false
	case "ncredit", "ndebit":
		x.native(op.Op == "ncredit", a, c16Big(op.V))
	case "msg":
		x.message(op)
		dense = false
	default:
		return // unknown op (hand-edited trace): nothing happens
	}
	x.lastOp = op.Op
	if dense && x.conf.Dense {
		x.cmpState("after the call")
	}
}

func (x *c16Exec) retSlot(what string, a ethcmn.Address, va, vb ethcmn.Hash) {
	if va == vb {
		return
	}
	class := "return-" + x.op.Op
	if vb == (ethcmn.Hash{}) && x.gone[a] {
		class = "storage-survives-selfdestruct"
	} else if vb == (ethcmn.Hash{}) && x.recreated[a] {
		class = "createaccount-keeps-storage"
	}
	x.fail("differential", class, fmt.Sprintf("%s returned %s on the adapter and %s on the reference (account removed earlier in the reference: %v)", what, va.Hex(), vb.Hex(), x.gone[a]))
}

// discard: the transaction in flight is dropped (controller.go: DiscardTxSession + stateDB.DiscardTx);
// the reference returns to its copy taken at session begin.
func (x *c16Exec) discard() {
	x.callA("DiscardTx", func() { x.A.DiscardTx() })
	x.deliver.DiscardTxSession()
	x.inSess = false
	x.B = x.bSess
	x.rec.in = x.B
	x.bSess = nil
	x.gone = c16CopySet(x.goneS)
	x.snaps = nil
	x.rec.clear()
	x.reverts = false
	x.prepare()
	x.refreshRaw()
}

// native: a native (non-EVM) balance change between transactions, as fee handling and native sends do.
func (x *c16Exec) native(credit bool, a ethcmn.Address, v *big.Int) {
	x.settle(true)
	if x.viol != nil || v.Sign() == 0 {
		return
	}
	if credit {
		if err := x.bal.AddToAddress(c16Key(a), x.coin(v)); err != nil {
			panic(core.HarnessError{Msg: "C16: native credit: " + err.Error()})
		}
		x.B.AddBalance(a, v)
	} else {
		cur := x.B.GetBalance(a)
		if cur.Cmp(v) <= 0 {
			v = new(big.Int).Rsh(cur, 1) // never down to zero: an emptied account has no native analogue in B
		}
		if v.Sign() == 0 {
			return
		}
		if err := x.bal.MinusFromAddress(c16Key(a), x.coin(v)); err != nil {
			panic(core.HarnessError{Msg: "C16: native debit: " + err.Error()})
		}
		x.B.SubBalance(a, v)
	}
	x.B.Finalise(true)
	x.refreshRaw()
}

// checkRead: the singleton is aimed at a second State over the committed tree (the CheckTx path), read,
// and aimed back. The reads must show the last committed block.
func (x *c16Exec) checkRead() {
	x.settle(true)
	if x.viol != nil || x.inSess {
		return
	}
	bc, err := ethstate.New(x.lastRoot, x.edb, nil)
	if err != nil {
		panic(core.HarnessError{Msg: "C16: open committed reference: " + err.Error()})
	}
	check := storage.NewState(x.cs)
	x.aim(check)
	x.callA("check-state read", func() {
		for _, a := range x.sortedAddrs() {
			if va, vb := x.keeper.GetNonce(c16Key(a)), bc.GetNonce(a); va != vb {
				x.fail("differential", "check-state-read", fmt.Sprintf("keeper nonce of %s through the check state = %d, committed reference = %d", a.Hex(), va, vb))
				return
			}
			if va, vb := x.keeper.GetBalance(c16Key(a)), bc.GetBalance(a); va.Cmp(vb) != 0 {
				x.fail("differential", "check-state-read", fmt.Sprintf("keeper balance of %s through the check state = %v, committed reference = %v", a.Hex(), va, vb))
				return
			}
			if va, vb := x.A.GetBalance(a), bc.GetBalance(a); va.Cmp(vb) != 0 {
				x.fail("differential", "check-state-read", fmt.Sprintf("adapter balance of %s through the check state = %v, committed reference = %v", a.Hex(), va, vb))
				return
			}
			if va, vb := x.A.GetCode(a), bc.GetCode(a); !bytes.Equal(va, vb) {
				x.fail("differential", "check-state-read", fmt.Sprintf("adapter code of %s through the check state = %s, committed reference = %s", a.Hex(), c16Hex(va), c16Hex(vb)))
				return
			}
			if x.gone[a] {
				continue // stale storage of removed accounts is reported by the deliver-side comparison
			}
			for _, k := range x.sortedSlots(a) {
				if va, vb := x.A.GetState(a, k), bc.GetState(a, k); va != vb {
					x.fail("differential", "check-state-read", fmt.Sprintf("adapter storage %s/%s through the check state = %s, committed reference = %s", a.Hex(), k.Hex(), va.Hex(), vb.Hex()))
					return
				}
			}
		}
	})
	// drop what the reads cached, aim back at the deliver state (context.Action at the next DeliverTx)
	x.callA("Finalise", func() { x.A.Finalise(true) })
	x.aim(x.deliver)
}

// foreach compares ForEachStorage right after a settle point on a committed account.
func (x *c16Exec) foreach(a ethcmn.Address) {
	x.settle(true)
	if x.viol != nil {
		return
	}
	x.commitBlock()
	x.prepare()
	x.refreshRaw()
	type kv struct{ k, v ethcmn.Hash }
	var la, lb []kv
	x.callA("ForEachStorage", func() {
		x.A.ForEachStorage(a, func(k, v ethcmn.Hash) bool { la = append(la, kv{k, v}); return true })
	})
	x.B.ForEachStorage(a, func(k, v ethcmn.Hash) bool { lb = append(lb, kv{k, v}); return true })
	if x.viol != nil {
		return
	}
	if len(la) != len(lb) {
		x.fail("differential", "foreachstorage-callback", fmt.Sprintf("ForEachStorage(%s) with a callback that always returns true (= continue) visited %d entries on the adapter and %d on the reference", a.Hex(), len(la), len(lb)))
		return
	}
	srt := func(l []kv, byKey bool) {
		sort.Slice(l, func(i, j int) bool {
			if byKey {
				return bytes.Compare(l[i].k[:], l[j].k[:]) < 0
			}
			return bytes.Compare(l[i].v[:], l[j].v[:]) < 0
		})
	}
	srt(la, false)
	srt(lb, false)
	for i := range la {
		if la[i].v != lb[i].v {
			x.fail("differential", "foreachstorage-values", fmt.Sprintf("ForEachStorage(%s): values differ: adapter %s reference %s", a.Hex(), la[i].v.Hex(), lb[i].v.Hex()))
			return
		}
	}
	srt(la, true)
	srt(lb, true)
	for i := range la {
		if la[i].k != lb[i].k {
			x.fail("differential", "foreachstorage-keys", fmt.Sprintf("ForEachStorage(%s): the adapter passes key %s to the callback, the reference passes slot key %s", a.Hex(), la[i].k.Hex(), lb[i].k.Hex()))
			return
		}
	}
}

// ---------------------------------------------------------------------------------------------
// messages: the repository's own transition code on both systems
// ---------------------------------------------------------------------------------------------

type c16Res struct {
	panicked string
	cerr     string // consensus error
	vmerr    string
	ret      []byte
	gas      uint64
	caddr    ethcmn.Address
	logs     []*ethtypes.Log
	ok       bool
}

func (r *c16Res) String() string {
	return fmt.Sprintf("{panic=%q consensus-error=%q vm-error=%q gas=%d ret=%s contract=%s logs=%d}", clipS(r.panicked, 120), clipS(r.cerr, 160), r.vmerr, r.gas, c16Hex(r.ret), r.caddr.Hex(), len(r.logs))
}

func c16Fill(r *c16Res, res *vm.ExecutionResult, err error) {
	if err != nil {
		r.cerr = err.Error()
	}
	if res != nil {
		r.ok = err == nil
		if res.Err != nil {
			r.vmerr = res.Err.Error()
		}
		r.ret, r.gas, r.caddr = res.ReturnData, res.UsedGas, res.ContractAddress
	}
}

func (x *c16Exec) message(op c16Op) {
	x.settle(true)
	if x.viol != nil {
		return
	}
	if x.inSess {
		x.deliver.CommitTxSession()
		x.inSess = false
	}
	from := c16AddrOf(op.A)
	var to *keys.Address
	var toE *ethcmn.Address
	if op.B != "" {
		t := c16Key(c16AddrOf(op.B))
		to = &t
		te := c16AddrOf(op.B)
		toE = &te
	}
	value, price := c16Big(op.V), c16Big(op.P)
	data, _ := hex.DecodeString(op.Data)
	hdr := x.header()
	x.msgs++
	x.sawMsg = true
	x.inMsg = true
	defer func() { x.inMsg = false }()
	calledCode := toE == nil || x.B.GetCodeSize(*toE) > 0

	// DeliverTx: Prepare, BeginTxSession, runOLVM (Apply), Commit/DiscardTxSession
	x.prepare()
	x.deliver.BeginTxSession()
	bCopy := x.B.Copy()
	goneCopy := c16CopySet(x.gone)
	pre := x.existB()
	avail := x.A.GetAvailableGas()

	ra, rb := &c16Res{}, &c16Res{}
	func() {
		defer func() {
			if r := recover(); r != nil {
				ra.panicked = fmt.Sprint(r) + " at " + c16PanicSite()
			}
		}()
		etx := vm.NewEVMTransaction(x.A, new(ethcore.GasPool).AddGas(avail), hdr, c16Key(from), to, op.N, value, data, nil, op.Gas, price, false)
		res, err := etx.Apply()
		c16Fill(ra, res, err)
		ra.logs = x.A.GetTxLogs()
	}()
	func() {
		defer func() {
			if r := recover(); r != nil {
				rb.panicked = fmt.Sprint(r)
			}
		}()
		gp := new(ethcore.GasPool).AddGas(avail)
		etx := vm.NewEVMTransaction(x.A, gp, hdr, c16Key(from), to, op.N, value, data, nil, op.Gas, price, false)
		tmpl := etx.NewEVM() // block context, tx context, chain config and vm config exactly as the repository builds them
		ev := ethvm.NewEVM(tmpl.Context, tmpl.TxContext, x.rec, tmpl.ChainConfig(), tmpl.Config)
		res, err := vm.ApplyMessage(ev, etx, gp)
		x.B.Finalise(true)
		c16Fill(rb, res, err)
		rb.logs = x.B.GetLogs(x.thash, ethcmn.Hash{})
	}()
	x.touch(from)
	if ra.caddr != (ethcmn.Address{}) {
		x.touch(ra.caddr)
	}
	if rb.caddr != (ethcmn.Address{}) {
		x.touch(rb.caddr)
	}
	if rb.panicked != "" && ra.panicked == "" {
		panic(core.HarnessError{Msg: "C16: the reference state panicked while the adapter did not: " + rb.panicked})
	}
	x.markGone(pre)
	// result comparison (kept aside: the state comparison below names a cause more precisely)
	switch {
	case ra.panicked != "" && rb.panicked == "":
		x.fail("differential", "adapter-panics", fmt.Sprintf("the message panicked on the adapter (%s); on the reference it gave %s", clipS(ra.panicked, 200), rb))
	case ra.panicked != "":
		// both panicked (e.g. an opcode the block context cannot serve): same outcome
	case ra.cerr != rb.cerr:
		x.fail("differential", "msg-consensus-error", fmt.Sprintf("adapter %s reference %s", ra, rb))
	case ra.vmerr != rb.vmerr:
		x.fail("differential", "msg-vm-error", fmt.Sprintf("adapter %s reference %s", ra, rb))
	case !bytes.Equal(ra.ret, rb.ret):
		x.fail("differential", "msg-return-data", fmt.Sprintf("adapter %s reference %s", ra, rb))
	case ra.caddr != rb.caddr:
		x.fail("differential", "msg-contract-address", fmt.Sprintf("adapter %s reference %s", ra, rb))
	case ra.gas != rb.gas:
		x.fail("differential", "msg-gas-used", fmt.Sprintf("adapter %s reference %s", ra, rb))
	default:
		if d := c16LogDiff(ra.logs, rb.logs); d != "" {
			x.fail("differential", "msg-logs", d)
		}
	}
	resultViol := x.viol
	x.viol = nil

	// end of DeliverTx (controller.go): panic => DiscardTxSession + DiscardTx; failure => DiscardTxSession
	commit := ra.panicked == "" && ra.ok && !op.Fail
	switch {
	case ra.panicked != "":
		x.deliver.DiscardTxSession()
		x.callA("DiscardTx", func() { x.A.DiscardTx() })
	case commit:
		x.deliver.CommitTxSession()
	default:
		x.deliver.DiscardTxSession()
	}
	if !commit {
		x.B = bCopy
		x.rec.in = x.B
		x.gone = goneCopy
		x.rec.clear()
		x.reverts = false
		x.refreshRaw()
		x.prepare() // logs and access list of a dropped transaction are nobody's state
	} else {
		if rb.caddr != (ethcmn.Address{}) {
			x.created = append(x.created, rb.caddr)
		}
		if calledCode {
			x.ntMsgs++
		}
	}
	x.afterMessage()
	if x.viol == nil {
		x.viol = resultViol
	}
}

func (x *c16Exec) afterMessage() {
	// store footprint of the message (Finalise already ran inside Apply)
	for _, a := range x.sortedAddrs() {
		now := x.rawRecord(a)
		before, known := x.rawA[a]
		if known && now != before && !x.rec.mutated(a) && a != c16Ripemd {
			class := "untouched-account-written"
			if x.reverts {
				class = "revert-dirties-account"
			}
			x.fail("store-footprint", class, fmt.Sprintf("the message changed the stored account record of %s from %q to %q although every state-changing call on that address was reverted (or there was none); the reference leaves the account untouched", a.Hex(), before, now))
		}
		x.rawA[a] = now
	}
	x.rec.clear()
	x.reverts = false
	x.snaps = nil
	x.cmpState("after the message")
	if x.viol == nil {
		x.callA("Finalise", func() { x.A.Finalise(true) })
	}
}

func c16SigOps(ops []c16Op) string {
	var sb strings.Builder
	for _, o := range ops {
		sb.WriteString(o.Op)
		if o.A != "" {
			sb.WriteString(o.A[len(o.A)-4:])
		}
		if o.Op == "msg" && len(o.Data) >= 2 {
			sb.WriteString(o.Data[:2])
			if o.B != "" {
				sb.WriteString(o.B[len(o.B)-4:])
			}
		}
		sb.WriteByte(',')
	}
	return sb.String()
}

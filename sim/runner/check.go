package runner

import (
	"bufio"
	"bytes"
	"encoding/json"
	"fmt"
	"hash/fnv"
	"io"
	"os"
	"os/exec"
	"path/filepath"
	"sort"
	"strconv"
	"strings"
	"sync"
	"time"

	"olsim/core"
	"olsim/props"
)

// Budget of one tier of one property.
type Budget struct {
	Runs    int
	WallCap time.Duration
}

var budgets = map[string]map[string]Budget{}

// SetBudget registers the run count / wall cap for a property tier.
func SetBudget(prop, tier string, runs int, wall time.Duration) {
	if budgets[prop] == nil {
		budgets[prop] = map[string]Budget{}
	}
	budgets[prop][tier] = Budget{runs, wall}
}

func budgetFor(prop, tier string) Budget {
	if b, ok := budgets[prop][tier]; ok {
		return b
	}
	if tier == "thorough" {
		return Budget{Runs: 3000, WallCap: 15 * time.Minute}
	}
	return Budget{Runs: 240, WallCap: 100 * time.Second}
}

func propTag(prop string) uint64 {
	h := fnv.New64a()
	h.Write([]byte(prop))
	return h.Sum64()
}

type knownFinding struct {
	Property  string `json:"property"`
	Signature string `json:"signature"`
	WhatFails string `json:"what_fails"`
	Status    string `json:"status"`
	Replay    string `json:"first_replay,omitempty"`
}

type knownFile struct {
	Findings []knownFinding `json:"findings"`
	Fixed    []string       `json:"fixed"`
}

func loadKnown(dir string) knownFile {
	var kf knownFile
	b, err := os.ReadFile(filepath.Join(dir, "known_findings.json"))
	if err != nil {
		return kf
	}
	_ = json.Unmarshal(b, &kf)
	return kf
}

type workerProc struct {
	cmd  *exec.Cmd
	in   io.WriteCloser
	out  *bufio.Reader
	busy uint64 // seed in flight (valid if has)
	has  bool
}

func spawnWorker(prop, tier string) (*workerProc, error) {
	cmd := exec.Command(os.Args[0], "worker", prop, tier)
	cmd.Env = append(os.Environ(), "GOMAXPROCS=2")
	in, err := cmd.StdinPipe()
	if err != nil {
		return nil, err
	}
	out, err := cmd.StdoutPipe()
	if err != nil {
		return nil, err
	}
	if os.Getenv("OLSIM_DEBUG") != "" {
		cmd.Stderr = os.Stderr
	}
	if err := cmd.Start(); err != nil {
		return nil, err
	}
	return &workerProc{cmd: cmd, in: in, out: bufio.NewReaderSize(out, 1<<20)}, nil
}

type sweepResult struct {
	reports []*RunReport
	deaths  []uint64 // seeds whose worker died
	wall    time.Duration
	capped  bool
}

// sweep runs seeds over W workers.
func sweep(prop, tier string, seeds []uint64, workers int, wallCap time.Duration, sampleEvery int) *sweepResult {
	res := &sweepResult{}
	var mu sync.Mutex
	next := 0
	t0 := time.Now()
	deadline := t0.Add(wallCap)
	take := func() (uint64, int, bool) {
		mu.Lock()
		defer mu.Unlock()
		if next >= len(seeds) || time.Now().After(deadline) {
			if next < len(seeds) {
				res.capped = true
			}
			return 0, 0, false
		}
		s := seeds[next]
		i := next
		next++
		return s, i, true
	}
	var wg sync.WaitGroup
	for w := 0; w < workers; w++ {
		wg.Add(1)
		go func() {
			defer wg.Done()
			var wp *workerProc
			defer func() {
				if wp != nil {
					wp.in.Close()
					wp.cmd.Wait()
				}
			}()
			for {
				seed, idx, ok := take()
				if !ok {
					return
				}
				if wp == nil {
					var err error
					wp, err = spawnWorker(prop, tier)
					if err != nil {
						mu.Lock()
						res.reports = append(res.reports, &RunReport{Seed: seed, HarnessErr: "spawn worker: " + err.Error()})
						mu.Unlock()
						return
					}
				}
				line := strconv.FormatUint(seed, 10)
				if sampleEvery > 0 && idx%sampleEvery == 0 {
					line += " trace"
				}
				if _, err := io.WriteString(wp.in, line+"\n"); err != nil {
					wp.cmd.Process.Kill()
					wp.cmd.Wait()
					wp = nil
					mu.Lock()
					res.deaths = append(res.deaths, seed)
					mu.Unlock()
					continue
				}
				var rep *RunReport
				// per-run watchdog
				type rd struct {
					b   []byte
					err error
				}
				ch := make(chan rd, 1)
				go func() {
					for {
						b, err := wp.out.ReadBytes('\n')
						if err != nil {
							ch <- rd{nil, err}
							return
						}
						if bytes.HasPrefix(b, []byte("START ")) {
							continue
						}
						ch <- rd{b, nil}
						return
					}
				}()
				select {
				case r := <-ch:
					if r.err != nil {
						wp.cmd.Wait()
						wp = nil
						mu.Lock()
						res.deaths = append(res.deaths, seed)
						mu.Unlock()
						continue
					}
					rep = &RunReport{}
					if err := json.Unmarshal(r.b, rep); err != nil {
						rep = &RunReport{Seed: seed, HarnessErr: "unparsable worker output: " + err.Error()}
					}
				case <-time.After(runWatchdog(tier)):
					wp.cmd.Process.Kill()
					wp.cmd.Wait()
					wp = nil
					rep = &RunReport{Seed: seed, HarnessErr: "watchdog: run exceeded time limit"}
				}
				mu.Lock()
				res.reports = append(res.reports, rep)
				mu.Unlock()
			}
		}()
	}
	wg.Wait()
	res.wall = time.Since(t0)
	sort.Slice(res.reports, func(i, j int) bool { return res.reports[i].Seed < res.reports[j].Seed })
	return res
}

func runWatchdog(tier string) time.Duration {
	if tier == "thorough" {
		return 10 * time.Minute
	}
	return 4 * time.Minute
}

// replayTrace runs a trace in a fresh process and returns its report.
func replayTrace(tr *core.Trace) (*RunReport, int) {
	b, _ := json.Marshal(tr)
	cmd := exec.Command(os.Args[0], "replay", "-", "--json")
	cmd.Env = append(os.Environ(), "GOMAXPROCS=2")
	cmd.Stdin = bytes.NewReader(b)
	var out bytes.Buffer
	cmd.Stdout = &out
	done := make(chan error, 1)
	if err := cmd.Start(); err != nil {
		return &RunReport{HarnessErr: err.Error()}, 2
	}
	go func() { done <- cmd.Wait() }()
	select {
	case <-done:
	case <-time.After(5 * time.Minute):
		cmd.Process.Kill()
		<-done
		return &RunReport{HarnessErr: "replay watchdog"}, 2
	}
	rep := &RunReport{}
	lines := strings.Split(strings.TrimSpace(out.String()), "\n")
	if len(lines) == 0 || json.Unmarshal([]byte(lines[len(lines)-1]), rep) != nil {
		// the process died without a report. For C18 that is the observation itself: the node process
		// exited (os.Exit / fatal) while executing the trace.
		if tr.Property == "C18" {
			v := deathViolation(tr)
			return &RunReport{Violations: []core.Violation{v}}, cmd.ProcessState.ExitCode()
		}
		return &RunReport{HarnessErr: "replay process died without report"}, cmd.ProcessState.ExitCode()
	}
	return rep, cmd.ProcessState.ExitCode()
}

// sigClass is the part of a signature before the first ':' (the rest are transaction labels, which
// minimisation is expected to reduce).
func sigClass(s string) string {
	if i := strings.Index(s, ":"); i >= 0 {
		return s[:i]
	}
	return s
}

// deathViolation describes "the worker process exited while executing this trace" (C18).
func deathViolation(tr *core.Trace) core.Violation {
	last := tr.Steps[len(tr.Steps)-1]
	var adv []string
	seen := map[string]bool{}
	for _, l := range last.Labels {
		if strings.Contains(l, "/") && !seen[l] {
			adv = append(adv, l)
			seen[l] = true
		}
	}
	if len(adv) == 0 {
		adv = last.Labels
	}
	sort.Strings(adv)
	if len(adv) > 4 {
		adv = append(adv[:4], "more")
	}
	return core.Violation{Property: "C18", Oracle: "process-alive", Sig: "process-exit:" + strings.Join(adv, "+"), Step: len(tr.Steps) - 1,
		Msg: fmt.Sprintf("the node process exited (os.Exit / fatal error) while executing step %d (%s) with inputs %v", len(tr.Steps)-1, last.Kind, last.Labels)}
}

// captureRun re-runs one seed in a fresh worker (different GOMAXPROCS) and returns its report with trace.
func captureRun(prop, tier string, seed uint64) *RunReport {
	cmd := exec.Command(os.Args[0], "worker", prop, tier)
	cmd.Env = append(os.Environ(), "GOMAXPROCS=4")
	cmd.Stdin = strings.NewReader(fmt.Sprintf("%d trace\n", seed))
	var out bytes.Buffer
	cmd.Stdout = &out
	done := make(chan error, 1)
	if err := cmd.Start(); err != nil {
		return nil
	}
	go func() { done <- cmd.Wait() }()
	select {
	case <-done:
	case <-time.After(5 * time.Minute):
		cmd.Process.Kill()
		<-done
		return nil
	}
	for _, l := range strings.Split(out.String(), "\n") {
		if strings.HasPrefix(l, "{") {
			rep := &RunReport{}
			if json.Unmarshal([]byte(l), rep) == nil {
				return rep
			}
		}
	}
	return nil
}

// captureDeath re-runs a seed whose worker died, with trace streaming, and returns the killing prefix.
func captureDeath(prop, tier string, seed uint64) *RunReport {
	path := filepath.Join(os.TempDir(), fmt.Sprintf("olsim-death-%d-%d.json", os.Getpid(), seed))
	if d := os.Getenv("OLSIM_TMP"); d != "" {
		path = filepath.Join(d, filepath.Base(path))
	} else if st, err := os.Stat("/dev/shm"); err == nil && st.IsDir() {
		os.MkdirAll("/dev/shm/olsim", 0755)
		path = filepath.Join("/dev/shm/olsim", filepath.Base(path))
	}
	defer os.Remove(path)
	cmd := exec.Command(os.Args[0], "worker", prop, tier)
	cmd.Env = append(os.Environ(), "GOMAXPROCS=2", "OLSIM_TRACE_STREAM="+path)
	cmd.Stdin = strings.NewReader(fmt.Sprintf("%d\n", seed))
	var out bytes.Buffer
	cmd.Stdout = &out
	done := make(chan error, 1)
	if err := cmd.Start(); err != nil {
		return nil
	}
	go func() { done <- cmd.Wait() }()
	select {
	case <-done:
	case <-time.After(5 * time.Minute):
		cmd.Process.Kill()
		<-done
		return nil
	}
	for _, l := range strings.Split(out.String(), "\n") {
		if strings.HasPrefix(l, "{") {
			return nil // it reported this time: not a reproducible death
		}
	}
	b, err := os.ReadFile(path)
	if err != nil {
		return nil
	}
	tr := &core.Trace{}
	if json.Unmarshal(b, tr) != nil || len(tr.Steps) == 0 {
		return nil
	}
	v := deathViolation(tr)
	return &RunReport{Seed: seed, Violations: []core.Violation{v}, Trace: tr, Steps: len(tr.Steps)}
}

func sameViolation(rep *RunReport, want core.Violation) bool {
	for _, v := range rep.Violations {
		if v.Property == want.Property && v.Oracle == want.Oracle && sigClass(v.Sig) == sigClass(want.Sig) {
			return true
		}
	}
	return false
}

func cloneTrace(t *core.Trace) *core.Trace {
	b, _ := json.Marshal(t)
	n := &core.Trace{}
	json.Unmarshal(b, n)
	return n
}

// minimise shrinks the trace while the same violation class fires: ddmin (halving chunks) over steps,
// then whole replicas, then site actions, then CheckTx calls inside actions, then transactions.
func minimise(tr *core.Trace, want core.Violation, maxReplays int, maxWall time.Duration) (*core.Trace, int) {
	t0 := time.Now()
	replays := 0
	try := func(c *core.Trace) bool {
		if replays >= maxReplays || time.Since(t0) > maxWall {
			return false
		}
		replays++
		rep, _ := replayTrace(c)
		return sameViolation(rep, want)
	}
	best := cloneTrace(tr)
	best.Violation = nil
	if want.Step > 0 && want.Step+1 < len(best.Steps) {
		c := cloneTrace(best)
		c.Steps = c.Steps[:want.Step+1]
		if try(c) {
			best = c
		}
	}
	// generic ddmin over a list of n atoms; remove(c, idxs) deletes the atoms with the given indexes
	// (ascending) from clone c.
	ddmin := func(count func(t *core.Trace) int, remove func(c *core.Trace, from, to int)) {
		n := count(best)
		for chunk := (n + 1) / 2; chunk >= 1; chunk /= 2 {
			for i := 0; i < count(best); {
				if replays >= maxReplays || time.Since(t0) > maxWall {
					return
				}
				to := i + chunk
				if to > count(best) {
					to = count(best)
				}
				c := cloneTrace(best)
				remove(c, i, to)
				if try(c) {
					best = c
				} else {
					i += chunk
				}
			}
			if chunk == 1 {
				break
			}
		}
	}
	// 1. steps (never step 0 = boot)
	ddmin(func(t *core.Trace) int { return len(t.Steps) - 1 },
		func(c *core.Trace, from, to int) { c.Steps = append(c.Steps[:from+1], c.Steps[to+1:]...) })
	// 2. trailing replicas
	for len(best.Replicas) > 1 {
		c := cloneTrace(best)
		last := len(c.Replicas) - 1
		c.Replicas = c.Replicas[:last]
		for _, st := range c.Steps {
			var keep []core.SiteAct
			for _, a := range st.Acts {
				if a.Key.R != last {
					keep = append(keep, a)
				}
			}
			st.Acts = keep
		}
		if try(c) {
			best = c
		} else {
			break
		}
	}
	// 3. site actions (flattened over all steps)
	type ref struct{ s, a int }
	flatActs := func(t *core.Trace) []ref {
		var out []ref
		for si, st := range t.Steps {
			for ai := range st.Acts {
				out = append(out, ref{si, ai})
			}
		}
		return out
	}
	ddmin(func(t *core.Trace) int { return len(flatActs(t)) },
		func(c *core.Trace, from, to int) {
			fl := flatActs(c)
			drop := map[ref]bool{}
			for _, r := range fl[from:to] {
				drop[r] = true
			}
			for si, st := range c.Steps {
				var keep []core.SiteAct
				for ai, a := range st.Acts {
					if !drop[ref{si, ai}] {
						keep = append(keep, a)
					}
				}
				st.Acts = keep
			}
		})
	// 4. CheckTx calls inside the remaining actions
	type ref3 struct{ s, a, c int }
	flatChecks := func(t *core.Trace) []ref3 {
		var out []ref3
		for si, st := range t.Steps {
			for ai, a := range st.Acts {
				for ci := range a.Checks {
					out = append(out, ref3{si, ai, ci})
				}
			}
		}
		return out
	}
	ddmin(func(t *core.Trace) int { return len(flatChecks(t)) },
		func(c *core.Trace, from, to int) {
			fl := flatChecks(c)
			drop := map[ref3]bool{}
			for _, r := range fl[from:to] {
				drop[r] = true
			}
			for si, st := range c.Steps {
				var keepA []core.SiteAct
				for ai, a := range st.Acts {
					var keep []string
					for ci, ch := range a.Checks {
						if !drop[ref3{si, ai, ci}] {
							keep = append(keep, ch)
						}
					}
					hadChecks := len(a.Checks) > 0
					a.Checks = keep
					if hadChecks && len(keep) == 0 && !a.Crash {
						continue
					}
					keepA = append(keepA, a)
				}
				st.Acts = keepA
			}
		})
	// 5. transactions, block by block (and "checks" steps)
	for si := range best.Steps {
		if len(best.Steps[si].Txs) == 0 {
			continue
		}
		isBlock := best.Steps[si].Kind == "block"
		ddmin(func(t *core.Trace) int { return len(t.Steps[si].Txs) },
			func(c *core.Trace, from, to int) {
				st := c.Steps[si]
				for k := to - 1; k >= from; k-- {
					st.Txs = append(st.Txs[:k], st.Txs[k+1:]...)
					if k < len(st.Labels) {
						st.Labels = append(st.Labels[:k], st.Labels[k+1:]...)
					}
					if isBlock {
						dropDeliverActs(st, k)
					}
				}
			})
	}
	return best, replays
}

// dropDeliverActs removes/renumbers the DeliverTx-site actions of the current block after tx ti was
// removed (ti < 0: all transactions removed).
func dropDeliverActs(st *core.Step, ti int) {
	var keep []core.SiteAct
	for _, a := range st.Acts {
		if a.Key.C == "DeliverTx" && a.Key.DH == 0 {
			if ti < 0 || a.Key.T == ti {
				continue
			}
			if a.Key.T > ti {
				a.Key.T--
			}
		}
		keep = append(keep, a)
	}
	st.Acts = keep
}

// Evidence is the evidence file.
type Evidence struct {
	PropertyID  string                 `json:"property_id"`
	Tier        string                 `json:"tier"`
	Seed        int64                  `json:"seed"`
	Level       string                 `json:"level"`
	Coverage    map[string]interface{} `json:"coverage"`
	Assumptions []string               `json:"assumptions"`
	WallS       float64                `json:"wall_s"`
	Violations  int                    `json:"violations"`
}

var componentsReal = []string{
	"OneLedger app.App: NewApp/newContext (goleveldb chain state, wallet, job store, routers, all stores and handlers, vm.CommitStateDB), InitChain, BeginBlock, CheckTx, DeliverTx, EndBlock, Commit, Info",
	"option-loading half of App.Prepare() (hook copy / generated from live source)",
	"IAVL v0.13.3, goleveldb on tmpfs, tm-db",
	"Tendermint v0.33.3 state.BlockExecutor.ApplyBlock (block + commit validation, LastCommitInfo, validator update validation, H+2 pipeline, SaveState), consensus.Handshaker (Info, InitChain, replay, app-hash assertions), store.BlockStore, state/txindex/kv, proxy.AppConns local client, types.ValidatorSet, ed25519 votes",
	"go-ethereum v1.10.8 EVM interpreter",
}
var componentsStub = []string{
	"Tendermint consensus reactor/p2p/WAL/mempool reactor -> seeded consensus driver producing only blocks the real ValidateBlock accepts",
	"IndexerService -> synchronous feed of the real kv indexer when the replica's Tendermint state reaches a height",
	"Ethereum/Bitcoin chains and job bus -> absent; witness reports are generated as signed transactions",
	"RPC/REST/web3 servers -> never started; consensus.NewNode -> not called",
}

// CheckMain is the parent: sweep, triage, minimise, evidence, verdict.
func CheckMain(prop, tier string) int {
	t0 := time.Now()
	if _, ok := props.Registry[prop]; !ok {
		fmt.Printf("unknown property %s\n", prop)
		return 2
	}
	dir, _ := os.Getwd()
	if d := os.Getenv("VERIF_DIR"); d != "" {
		dir = d
	}
	baseSeed := uint64(20260926)
	if tier == "thorough" {
		baseSeed = 77120260926
	}
	if s := os.Getenv("VERIF_SEED"); s != "" {
		if v, err := strconv.ParseInt(s, 10, 64); err == nil {
			baseSeed = uint64(v)
		}
	}
	workers := 16
	if s := os.Getenv("VERIF_WORKERS"); s != "" {
		if v, err := strconv.Atoi(s); err == nil && v > 0 {
			workers = v
		}
	}
	b := budgetFor(prop, tier)
	if s := os.Getenv("VERIF_RUNS"); s != "" {
		if v, err := strconv.Atoi(s); err == nil && v > 0 {
			b.Runs = v
		}
	}
	seeds := make([]uint64, b.Runs)
	for i := range seeds {
		seeds[i] = core.SplitMix64(baseSeed, propTag(prop), uint64(i)) >> 1 // keep it in int63 range
	}
	fmt.Printf("olsim check %s tier=%s VERIF_SEED=%d runs=%d workers=%d\n", prop, tier, baseSeed, len(seeds), workers)
	sampleEvery := len(seeds) / 3
	if sampleEvery == 0 {
		sampleEvery = 1
	}
	sr := sweep(prop, tier, seeds, workers, b.WallCap, sampleEvery)

	crossChecked, crossDiffer := 0, 0
	if prop == "C01" {
		// process-level nondeterminism (wall clock, UUIDs, address ordering): re-execute a sample of the
		// recorded traces in fresh processes and compare the digests of everything observable.
		step := len(sr.reports)/24 + 1
		for i := 0; i < len(sr.reports); i += step {
			r := sr.reports[i]
			if r.HarnessErr != "" || len(r.Violations) > 0 || r.Digest == "" {
				continue
			}
			rr := captureRun(prop, tier, r.Seed)
			if rr == nil || rr.Trace == nil || rr.HarnessErr != "" {
				continue
			}
			crossChecked++
			if rr.Digest == r.Digest {
				continue
			}
			// generation differed between processes: decide whether the application or the harness is the source
			a, _ := replayTrace(rr.Trace)
			b, _ := replayTrace(rr.Trace)
			if a.Digest != "" && a.Digest == b.Digest {
				sr.reports = append(sr.reports, &RunReport{Seed: r.Seed, HarnessErr: fmt.Sprintf("generation is not a pure function of the seed (digests %s vs %s) but replays agree", r.Digest, rr.Digest)})
				continue
			}
			crossDiffer++
			rr.Violations = []core.Violation{{Property: "C01", Oracle: "same-trace-fresh-processes", Sig: "cross-process-divergence",
				Msg: fmt.Sprintf("the same recorded history executed in two fresh processes gives different observable results (digests %s vs %s)", a.Digest, b.Digest), Step: len(rr.Trace.Steps) - 1}}
			sr.reports = append(sr.reports, rr)
		}
	}
	if prop == "C18" {
		// process death is an observation for this property: capture the killing prefix of up to 8 seeds
		for i, seed := range sr.deaths {
			if i >= 8 {
				break
			}
			if rep := captureDeath(prop, tier, seed); rep != nil {
				sr.reports = append(sr.reports, rep)
			}
		}
	}
	// aggregate
	agg := core.NewStats()
	fps := map[string]bool{}
	nontrivFps := map[string]bool{}
	var harnessErrs []string
	foreign := map[string]int{}
	bySig := map[string]*RunReport{}
	var sigOrder []string
	inputs := 0
	subEvals := 0
	var samples []interface{}
	simMs := int64(0)
	for _, r := range sr.reports {
		if r.HarnessErr != "" {
			harnessErrs = append(harnessErrs, fmt.Sprintf("seed %d: %s", r.Seed, r.HarnessErr))
			continue
		}
		inputs += r.Inputs
		if r.Stats != nil {
			for k, v := range r.Stats.Faults {
				agg.Faults[k] += v
			}
			for k, v := range r.Stats.Probes {
				agg.Probes[k] += v
			}
			for k, v := range r.Stats.Txs {
				agg.Txs[k] += v
			}
			agg.Blocks += r.Stats.Blocks
			simMs += r.Stats.SimMillis
		}
		if r.SubEvals > 0 {
			subEvals += r.SubEvals
			for _, f := range r.SubFP {
				fps[f] = true
				nontrivFps[f] = true
			}
		} else {
			fps[r.Fingerprint] = true
			if r.NonTrivial {
				nontrivFps[r.Fingerprint] = true
			}
		}
		for _, f := range r.Foreign {
			foreign[clipS(f, 100)]++
		}
		for _, v := range r.Violations {
			key := v.Property + "/" + v.Oracle + "/" + v.Sig
			if bySig[key] == nil {
				bySig[key] = r
				sigOrder = append(sigOrder, key)
			}
		}
		if r.Trace != nil && len(r.Violations) == 0 && len(samples) < 3 {
			samples = append(samples, sampleOf(r))
		}
	}
	for i, s := range sr.deaths {
		foreign["worker process died"]++
		if i < 4 {
			fmt.Printf("note: worker process died while running seed %d (run it alone: echo %d | OLSIM_DEBUG=1 olsim worker %s %s)\n", s, s, prop, tier)
		}
	}

	known := loadKnown(dir)
	findKnown := func(property, sig string) *knownFinding {
		for i := range known.Findings {
			k := &known.Findings[i]
			if k.Property == property && k.Signature == sig && k.Status == "open" {
				return k
			}
		}
		return nil
	}
	// A signature is "<oracle>/<class>" or "<oracle>/<class>:<label>+<label>...". A violation whose
	// labels are each individually listed for the same oracle and class is explained by known findings.
	isKnown := func(v core.Violation) []*knownFinding {
		full := v.Oracle + "/" + v.Sig
		if k := findKnown(v.Property, full); k != nil {
			return []*knownFinding{k}
		}
		i := strings.Index(v.Sig, ":")
		if i < 0 {
			return nil
		}
		class, labels := v.Sig[:i], strings.Split(v.Sig[i+1:], "+")
		var out []*knownFinding
		for _, l := range labels {
			k := findKnown(v.Property, v.Oracle+"/"+class+":"+l)
			if k == nil {
				return nil
			}
			out = append(out, k)
		}
		return out
	}

	exit := 0
	nviol := 0
	knownMatched := map[string]int{}
	reported := map[string]bool{}
	os.MkdirAll(filepath.Join(dir, "replays"), 0755)
	for _, key := range sigOrder {
		if os.Getenv("OLSIM_FAST_TRIAGE") != "" && nviol >= 3 {
			break // triage aid: three confirmed reports are enough to call a seeded change detected
		}
		r := bySig[key]
		var v core.Violation
		for _, vv := range r.Violations {
			if vv.Property+"/"+vv.Oracle+"/"+vv.Sig == key {
				v = vv
				break
			}
		}
		if v.Property != prop {
			foreign["violation of "+v.Property+": "+v.Sig]++
			continue
		}
		if ks := isKnown(v); ks != nil {
			for _, k := range ks {
				if knownMatched[k.Signature] == 0 {
					fmt.Printf("KNOWN-FINDING: property=%s %s\n", prop, k.WhatFails)
				}
				knownMatched[k.Signature]++
			}
			continue
		}
		if v.Sig == "cross-process-divergence" {
			// already confirmed by two fresh-process replays that disagree with each other
			tcopy := cloneTrace(r.Trace)
			tcopy.Violation = &v
			path := filepath.Join(dir, "replays", fmt.Sprintf("%s-%d-%s.json", prop, r.Seed, sanitize(v.Sig)))
			tb, _ := json.MarshalIndent(tcopy, "", " ")
			os.WriteFile(path, tb, 0644)
			fmt.Printf("violation: %s\n  (replay the file twice with `olsim replay <file> --json` and compare the digest fields)\n", v.String())
			fmt.Printf("VIOLATION property=%s replay=%s\n", prop, path)
			nviol++
			exit = 1
			continue
		}
		// confirm + minimise in fresh processes
		rep0, _ := replayTrace(r.Trace)
		if !sameViolation(rep0, v) {
			// The only uncontrolled nondeterminism source inside the system under test is Go's map
			// iteration order (DESIGN 2.11): replay the file repeatedly and report the observed rate.
			hits, tries := 0, 0
			for tries < 24 {
				tries++
				if rp, _ := replayTrace(r.Trace); sameViolation(rp, v) {
					hits++
					if hits >= 2 {
						break
					}
				}
			}
			if hits == 0 {
				harnessErrs = append(harnessErrs, fmt.Sprintf("seed %d: violation %s did not reproduce in %d replays (harness suspect): %s", r.Seed, key, tries+1, v.Msg))
				continue
			}
			short := cloneTrace(r.Trace)
			if v.Step > 0 && v.Step+1 < len(short.Steps) {
				short.Steps = short.Steps[:v.Step+1]
			}
			v.Msg += fmt.Sprintf(" [nondeterministic under the same schedule: reproduced in %d of %d fresh-process replays; Go map iteration order inside the application is the suspect]", hits, tries+1)
			short.Violation = &v
			path := filepath.Join(dir, "replays", fmt.Sprintf("%s-%d-%s.json", prop, r.Seed, sanitize(v.Sig)))
			tb, _ := json.MarshalIndent(short, "", " ")
			os.WriteFile(path, tb, 0644)
			fmt.Printf("violation: %s\n", v.String())
			fmt.Printf("VIOLATION property=%s replay=%s\n", prop, path)
			nviol++
			exit = 1
			continue
		}
		maxReplays, maxWall := 400, 240*time.Second
		if os.Getenv("OLSIM_FAST_TRIAGE") != "" {
			// triage aid (testing the checks against seeded changes): report fast, minimise little
			maxReplays, maxWall = 12, 20*time.Second
		}
		min, n := minimise(r.Trace, v, maxReplays, maxWall)
		repM, _ := replayTrace(min)
		if !sameViolation(repM, v) {
			min = r.Trace
			repM = rep0
		}
		for _, vv := range repM.Violations {
			if vv.Property == v.Property && vv.Oracle == v.Oracle && sigClass(vv.Sig) == sigClass(v.Sig) {
				v = vv
				break
			}
		}
		// the minimised form may turn out to be a listed finding
		if ks := isKnown(v); ks != nil {
			for _, k := range ks {
				if knownMatched[k.Signature] == 0 {
					fmt.Printf("KNOWN-FINDING: property=%s %s\n", prop, k.WhatFails)
				}
				knownMatched[k.Signature]++
			}
			continue
		}
		if reported[v.Oracle+"/"+v.Sig] {
			continue // same minimal violation already reported from another seed
		}
		reported[v.Oracle+"/"+v.Sig] = true
		min.Violation = &v
		path := filepath.Join(dir, "replays", fmt.Sprintf("%s-%d-%s.json", prop, r.Seed, sanitize(v.Sig)))
		tb, _ := json.MarshalIndent(min, "", " ")
		os.WriteFile(path, tb, 0644)
		fmt.Printf("violation: %s\n  (seed %d, minimised from %d to %d steps in %d replays)\n", v.String(), r.Seed, len(r.Trace.Steps), len(min.Steps), n)
		fmt.Printf("VIOLATION property=%s replay=%s\n", prop, path)
		nviol++
		exit = 1
	}

	// evidence
	cov := map[string]interface{}{
		"evaluations":            len(sr.reports) - len(harnessErrs),
		"distinct_nontrivial":    len(nontrivFps),
		"rule":                   props.Registry[prop].Rule(),
		"samples":                samples,
		"distinct_fingerprints":  len(fps),
		"runs_per_hour":          int(float64(len(sr.reports)) / sr.wall.Hours()),
		"seeds":                  map[string]interface{}{"base": baseSeed, "count": len(seeds), "executed": len(sr.reports), "first": seeds[0], "last": seeds[len(seeds)-1], "derivation": "splitmix64(VERIF_SEED, fnv64(property), i)>>1"},
		"simulated_time_s":       simMs / 1000,
		"blocks":                 agg.Blocks,
		"txs_by_kind_and_result": agg.Txs,
		"faults_fired":           agg.Faults,
		"probes":                 agg.Probes,
		"components_real":        componentsReal,
		"components_stub":        componentsStub,
		"foreign_signals":        foreign,
		"known_findings_matched": knownMatched,
		"harness_errors":         harnessErrs,
		"worker_deaths":          len(sr.deaths),
		"wall_capped":            sr.capped,
		"workers":                workers,
	}
	if prop == "C01" {
		cov["cross_process_reexecutions"] = crossChecked
		cov["cross_process_divergences"] = crossDiffer
	}
	if inputs > 0 {
		cov["inputs"] = inputs
	}
	if subEvals > 0 {
		cov["evaluations"] = subEvals
		cov["batches"] = len(sr.reports) - len(harnessErrs)
	}
	if len(samples) == 0 {
		cov["samples"] = []interface{}{"no clean sample trace captured in this run"}
	}
	ev := Evidence{PropertyID: prop, Tier: tier, Seed: int64(baseSeed), Level: "exploration", Coverage: cov,
		Assumptions: []string{
			"the node's tx index is complete for every block its Tendermint state has applied (zero indexing lag)",
			"process death loses nothing the OS accepted (no power-loss / torn-write model)",
			"consensus itself is correct: the driver produces only blocks the real ValidateBlock accepts",
		},
		WallS: time.Since(t0).Seconds(), Violations: nviol}
	os.MkdirAll(filepath.Join(dir, "evidence"), 0755)
	eb, _ := json.MarshalIndent(ev, "", " ")
	if err := os.WriteFile(filepath.Join(dir, "evidence", prop+".json"), eb, 0644); err != nil {
		fmt.Println("cannot write evidence:", err)
		return 2
	}
	fmt.Printf("%s %s: %d runs (%d distinct non-trivial), %d blocks, wall %.1fs, violations=%d, known=%d, harness_errors=%d, worker_deaths=%d\n",
		prop, tier, len(sr.reports), len(nontrivFps), agg.Blocks, time.Since(t0).Seconds(), nviol, len(knownMatched), len(harnessErrs), len(sr.deaths))
	if len(harnessErrs) > 0 {
		for i, h := range harnessErrs {
			if i < 5 {
				fmt.Println("HARNESS:", h)
			}
		}
		if exit == 0 && len(harnessErrs)*10 > len(sr.reports) {
			return 2
		}
		// a violation seen in a run that no fresh-process replay reproduces is never a verdict, but it is not
		// "held" either: the check says so instead of passing silently
		if exit == 0 {
			for _, h := range harnessErrs {
				if strings.Contains(h, "did not reproduce") {
					fmt.Println("HARNESS: a violation was observed that does not reproduce from its replay file; not a verdict (exit 2)")
					return 2
				}
			}
		}
	}
	if exit == 0 && len(nontrivFps) < 2 {
		fmt.Println("HARNESS: fewer than 2 distinct non-trivial runs; the check explored nothing meaningful")
		return 2
	}
	return exit
}

func sanitize(s string) string {
	var b strings.Builder
	for _, c := range s {
		if (c >= 'a' && c <= 'z') || (c >= 'A' && c <= 'Z') || (c >= '0' && c <= '9') || c == '-' {
			b.WriteRune(c)
		} else {
			b.WriteByte('_')
		}
	}
	if b.Len() > 40 {
		return b.String()[:40]
	}
	return b.String()
}

func clipS(s string, n int) string {
	if len(s) > n {
		return s[:n]
	}
	return s
}

// sampleOf renders a compact, human-readable sample of a run (not the full trace).
func sampleOf(r *RunReport) interface{} {
	tr := r.Trace
	type stepS struct {
		Kind   string   `json:"kind"`
		Txs    []string `json:"txs,omitempty"`
		DtMs   int64    `json:"dt_ms,omitempty"`
		Absent int      `json:"absent,omitempty"`
		Acts   []string `json:"acts,omitempty"`
		R      int      `json:"replica,omitempty"`
	}
	var steps []stepS
	for i, st := range tr.Steps {
		if i > 14 {
			break
		}
		s := stepS{Kind: st.Kind, DtMs: st.DtMs, Absent: len(st.Absent), R: st.Replica}
		for _, h := range st.Txs {
			kind := "?"
			if b, err := hexDecode(h); err == nil {
				if tx := core.DecodeTx(b); tx != nil {
					kind = tx.Type.String()
				}
			}
			s.Txs = append(s.Txs, kind)
		}
		for _, a := range st.Acts {
			d := fmt.Sprintf("r%d@%s#%d", a.Key.R, a.Key.C, a.Key.T)
			if a.Key.A {
				d += "+"
			}
			if len(a.Checks) > 0 {
				d += fmt.Sprintf(" checktx×%d", len(a.Checks))
			}
			if a.Crash {
				d += " CRASH"
			}
			s.Acts = append(s.Acts, d)
		}
		steps = append(steps, s)
	}
	return map[string]interface{}{"seed": r.Seed, "replicas": tr.Replicas, "total_steps": len(tr.Steps), "first_steps": steps, "fingerprint": r.Fingerprint}
}

func hexDecode(s string) ([]byte, error) {
	b := make([]byte, len(s)/2)
	for i := 0; i+1 < len(s); i += 2 {
		v, err := strconv.ParseUint(s[i:i+2], 16, 8)
		if err != nil {
			return nil, err
		}
		b[i/2] = byte(v)
	}
	return b, nil
}

package runner

import (
	"bufio"
	"bytes"
	"encoding/json"
	"fmt"
	"os"
	"os/exec"
	"strings"
	"sync"

	"olsim/core"
)

// SelfTestMain: determinism self-test. Runs n seeds of a property three times each, in fresh processes
// with GOMAXPROCS 1, 4 and 16, and compares the run digests (trace + all transcripts).
func SelfTestMain(prop string, n int) int {
	seeds := make([]uint64, n)
	for i := range seeds {
		seeds[i] = core.SplitMix64(424242, propTag(prop), uint64(i)) >> 1
	}
	type res struct{ d [3]string }
	out := make([]res, n)
	var wg sync.WaitGroup
	sem := make(chan struct{}, 12)
	for i, s := range seeds {
		for j, mp := range []string{"1", "4", "16"} {
			wg.Add(1)
			go func(i, j int, s uint64, mp string) {
				defer wg.Done()
				sem <- struct{}{}
				defer func() { <-sem }()
				cmd := exec.Command(os.Args[0], "worker", prop, "quick")
				cmd.Env = append(os.Environ(), "GOMAXPROCS="+mp)
				cmd.Stdin = strings.NewReader(fmt.Sprintf("%d\n", s))
				var b bytes.Buffer
				cmd.Stdout = &b
				cmd.Run()
				sc := bufio.NewScanner(&b)
				sc.Buffer(make([]byte, 1<<20), 1<<28)
				for sc.Scan() {
					if strings.HasPrefix(sc.Text(), "{") {
						var r RunReport
						if json.Unmarshal(sc.Bytes(), &r) == nil {
							out[i].d[j] = r.Digest + "/" + r.Fingerprint
							if r.HarnessErr != "" {
								out[i].d[j] = "HARNESS:" + r.HarnessErr
							}
						}
					}
				}
			}(i, j, s, mp)
		}
	}
	wg.Wait()
	bad := 0
	for i, r := range out {
		if r.d[0] == "" || r.d[0] != r.d[1] || r.d[1] != r.d[2] {
			bad++
			fmt.Printf("NONDETERMINISTIC seed %d: GOMAXPROCS1=%s 4=%s 16=%s\n", seeds[i], r.d[0], r.d[1], r.d[2])
		}
	}
	fmt.Printf("selftest %s: %d seeds x 3 processes (GOMAXPROCS 1/4/16), %d differing\n", prop, n, bad)
	if bad > 0 {
		return 1
	}
	return 0
}

// ReplayFidelityMain: the second half of the determinism self-test. For n seeds the run is generated in a fresh
// process (with its trace), the trace is re-executed by `replay` in another fresh process, and the two run digests
// (trace + all transcripts) are compared. Generation-vs-generation comparison (SelfTestMain) cannot see a replay
// that deviates from the run it was recorded from; this can (DESIGN 11.14).
func ReplayFidelityMain(prop string, n int) int {
	bad, done := 0, 0
	type job struct {
		seed uint64
		gen  string
		rep  string
		err  string
	}
	jobs := make([]job, n)
	var wg sync.WaitGroup
	sem := make(chan struct{}, 8)
	for i := range jobs {
		jobs[i].seed = core.SplitMix64(515151, propTag(prop), uint64(i)) >> 1
		wg.Add(1)
		go func(j *job) {
			defer wg.Done()
			sem <- struct{}{}
			defer func() { <-sem }()
			cmd := exec.Command(os.Args[0], "worker", prop, "quick")
			cmd.Stdin = strings.NewReader(fmt.Sprintf("%d trace\n", j.seed))
			var b bytes.Buffer
			cmd.Stdout = &b
			cmd.Run()
			var g RunReport
			ok := false
			sc := bufio.NewScanner(&b)
			sc.Buffer(make([]byte, 1<<20), 1<<30)
			for sc.Scan() {
				if strings.HasPrefix(sc.Text(), "{") && json.Unmarshal(sc.Bytes(), &g) == nil {
					ok = true
				}
			}
			if !ok || g.Trace == nil || g.HarnessErr != "" {
				j.err = "generation gave no trace: " + g.HarnessErr
				return
			}
			j.gen = g.Digest
			r, _ := replayTrace(g.Trace)
			if r == nil || r.HarnessErr != "" {
				j.err = "replay failed"
				if r != nil {
					j.err += ": " + r.HarnessErr
				}
				return
			}
			j.rep = r.Digest
		}(&jobs[i])
	}
	wg.Wait()
	for _, j := range jobs {
		if j.err != "" {
			fmt.Printf("SKIPPED seed %d: %s\n", j.seed, j.err)
			continue
		}
		done++
		if j.gen != j.rep {
			bad++
			fmt.Printf("REPLAY DEVIATES seed %d: generation digest %s, replay digest %s\n", j.seed, j.gen, j.rep)
		}
	}
	fmt.Printf("selftest-replay %s: %d seeds generated and replayed in fresh processes, %d replays deviating from their run\n", prop, done, bad)
	if bad > 0 || done == 0 {
		return 1
	}
	return 0
}

package runner

import (
	"bufio"
	"bytes"
	"encoding/json"
	"fmt"
	"os"
	"os/exec"
	"strings"
	"sync"

	"olsim/core"
)

// SelfTestMain: determinism self-test. Runs n seeds of a property three times each, in fresh processes
// with GOMAXPROCS 1, 4 and 16, and compares the run digests (trace + all transcripts).
func SelfTestMain(prop string, n int) int {
	seeds := make([]uint64, n)
	for i := range seeds {
		seeds[i] = core.SplitMix64(424242, propTag(prop), uint64(i)) >> 1
	}
	type res struct{ d [3]string }
	out := make([]res, n)
	var wg sync.WaitGroup
	sem := make(chan struct{}, 12)
	for i, s := range seeds {
		for j, mp := range []string{"1", "4", "16"} {
			wg.Add(1)
			go func(i, j int, s uint64, mp string) {
				defer wg.Done()
				sem <- struct{}{}
				defer func() { <-sem }()
				cmd := exec.Command(os.Args[0], "worker", prop, "quick")
				cmd.Env = append(os.Environ(), "GOMAXPROCS="+mp)
				cmd.Stdin = strings.NewReader(fmt.Sprintf("%d\n", s))
				var b bytes.Buffer
				cmd.Stdout = &b
				cmd.Run()
				sc := bufio.NewScanner(&b)
				sc.Buffer(make([]byte, 1<<20), 1<<28)
				for sc.Scan() {
					if strings.HasPrefix(sc.Text(), "{") {
						var r RunReport
						if json.Unmarshal(sc.Bytes(), &r) == nil {
							out[i].d[j] = r.Digest + "/" + r.Fingerprint
							if r.HarnessErr != "" {
								out[i].d[j] = "HARNESS:" + r.HarnessErr
							}
						}
					}
				}
			}(i, j, s, mp)
		}
	}
	wg.Wait()
	bad := 0
	for i, r := range out {
		if r.d[0] == "" || r.d[0] != r.d[1] || r.d[1] != r.d[2] {
			bad++
			fmt.Printf("NONDETERMINISTIC seed %d: GOMAXPROCS1=%s 4=%s 16=%s\n", seeds[i], r.d[0], r.d[1], r.d[2])
		}
	}
	fmt.Printf("selftest %s: %d seeds x 3 processes (GOMAXPROCS 1/4/16), %d differing\n", prop, n, bad)
	if bad > 0 {
		return 1
	}
	return 0
}

// Package runner: worker protocol, parallel seed sweep, minimisation, evidence.
package runner

import (
	"bufio"
	"encoding/json"
	"fmt"
	"io"
	"os"
	"strconv"
	"strings"
	"syscall"
	"time"

	"olsim/core"
	"olsim/props"
)

// RunReport is one line of worker output.
type RunReport struct {
	Seed        uint64           `json:"seed"`
	Violations  []core.Violation `json:"violations,omitempty"`
	Stats       *core.Stats      `json:"stats,omitempty"`
	NonTrivial  bool             `json:"nontrivial"`
	Fingerprint string           `json:"fp"`
	HarnessErr  string           `json:"harness_err,omitempty"`
	Foreign     []string         `json:"foreign,omitempty"`
	Trace       *core.Trace      `json:"trace,omitempty"`
	Inputs      int              `json:"inputs,omitempty"`
	SubEvals    int              `json:"sub_evals,omitempty"`
	SubFP       []string         `json:"sub_fp,omitempty"`
	Digest      string           `json:"digest,omitempty"`
	Steps       int              `json:"steps"`
	WallMs      int64            `json:"wall_ms"`
}

// SilenceStdout points fd 1 (and 2 unless OLSIM_DEBUG) at /dev/null and returns the real stdout.
func SilenceStdout() *os.File {
	realFd, err := syscall.Dup(1)
	if err != nil {
		panic(err)
	}
	devnull, err := os.OpenFile(os.DevNull, os.O_WRONLY, 0)
	if err != nil {
		panic(err)
	}
	if os.Getenv("OLSIM_DEBUG") == "" {
		syscall.Dup2(int(devnull.Fd()), 1)
		syscall.Dup2(int(devnull.Fd()), 2)
	} else {
		syscall.Dup2(2, 1)
	}
	return os.NewFile(uintptr(realFd), "realstdout")
}

func report(out *props.RunOut, seed uint64, wantTrace bool, t0 time.Time) *RunReport {
	rep := &RunReport{Seed: seed, Violations: out.Violations, Stats: out.Stats, NonTrivial: out.NonTrivial,
		HarnessErr: out.HarnessErr, Foreign: out.Foreign, Inputs: out.Inputs, SubEvals: out.SubEvals, SubFP: out.SubFP, Digest: out.Digest, WallMs: time.Since(t0).Milliseconds()}
	if out.Stats != nil {
		rep.Fingerprint = out.Stats.Fingerprint()
	}
	if out.Trace != nil {
		rep.Steps = len(out.Trace.Steps)
		if wantTrace || len(out.Violations) > 0 {
			rep.Trace = out.Trace
		}
	}
	return rep
}

// WorkerMain: reads "seed [trace]" lines from stdin, writes one RunReport JSON line per run.
func loadKnownOpen() {
	dir, _ := os.Getwd()
	if d := os.Getenv("VERIF_DIR"); d != "" {
		dir = d
	}
	props.LoadKnownOpen(dir)
}

func WorkerMain(propID, tier string) int {
	loadKnownOpen()
	out := SilenceStdout()
	p, ok := props.Registry[propID]
	if !ok {
		fmt.Fprintf(out, "{\"harness_err\":\"unknown property %s\"}\n", propID)
		return 2
	}
	w := bufio.NewWriter(out)
	sc := bufio.NewScanner(os.Stdin)
	sc.Buffer(make([]byte, 1<<20), 1<<28)
	for sc.Scan() {
		f := strings.Fields(sc.Text())
		if len(f) == 0 {
			continue
		}
		seed, err := strconv.ParseUint(f[0], 10, 64)
		if err != nil {
			continue
		}
		wantTrace := len(f) > 1 && f[1] == "trace"
		// announce the run before executing it so the parent can attribute a process death
		fmt.Fprintf(w, "START %d\n", seed)
		w.Flush()
		t0 := time.Now()
		ro := p.Run(seed, tier, nil)
		if os.Getenv("OLSIM_TIMING") != "" {
			fmt.Fprintf(os.Stderr, "TIMING seed=%d %v\n", seed, core.Timing)
		}
		b, _ := json.Marshal(report(ro, seed, wantTrace, t0))
		w.Write(b)
		w.WriteByte('\n')
		w.Flush()
	}
	return 0
}

// ReplayMain: replays one trace file ("-" = stdin); prints a RunReport; exit 1 if a violation fired.
func ReplayMain(path string, quiet bool) int {
	loadKnownOpen()
	var data []byte
	var err error
	if path == "-" {
		data, err = io.ReadAll(os.Stdin)
	} else {
		data, err = os.ReadFile(path)
	}
	if err != nil {
		fmt.Fprintln(os.Stderr, "read trace:", err)
		return 2
	}
	tr := &core.Trace{}
	if err := json.Unmarshal(data, tr); err != nil {
		fmt.Fprintln(os.Stderr, "parse trace:", err)
		return 2
	}
	out := SilenceStdout()
	p, ok := props.Registry[tr.Property]
	if !ok {
		fmt.Fprintf(out, "unknown property %q in trace\n", tr.Property)
		return 2
	}
	t0 := time.Now()
	ro := p.Run(tr.Seed, "replay", tr)
	rep := report(ro, tr.Seed, false, t0)
	rep.Trace = nil
	b, _ := json.Marshal(rep)
	if quiet {
		out.Write(b)
		out.Write([]byte("\n"))
	} else {
		if len(ro.Violations) > 0 {
			for _, v := range ro.Violations {
				fmt.Fprintf(out, "REPRODUCED %s\n", v.String())
			}
		} else if ro.HarnessErr != "" {
			fmt.Fprintf(out, "HARNESS ERROR %s\n", ro.HarnessErr)
		} else {
			fmt.Fprintf(out, "no violation on replay\n")
		}
	}
	if ro.HarnessErr != "" {
		return 2
	}
	if len(ro.Violations) > 0 {
		return 1
	}
	return 0
}

package runner

import "time"

// Run counts per tier, sized from measured throughput on 16 workers so that quick takes roughly
// 30-60 s and thorough 10-20 min; the wall caps only bound a slow machine (a capped sweep is
// reported as such in the evidence).
func init() {
	q := func(p string, runs int) { SetBudget(p, "quick", runs, 6*time.Minute) }
	t := func(p string, runs int) { SetBudget(p, "thorough", runs, 40*time.Minute) }
	q("C01", 600)
	t("C01", 14000)
	q("C02", 1200)
	t("C02", 30000)
	q("C03", 1200)
	t("C03", 30000)
	q("C04", 1200)
	t("C04", 30000)
	q("C05", 800)
	t("C05", 20000)
	q("C06", 800)
	t("C06", 20000)
	q("C07", 700)
	t("C07", 16000)
	q("C08", 700)
	t("C08", 16000)
	q("C09", 1000)
	t("C09", 30000)
	q("C18", 1200)
	t("C18", 30000)
	q("C10", 1500)
	t("C10", 30000)
	q("C11", 1200)
	t("C11", 24000)
	q("C12", 2000)
	t("C12", 40000)
	q("C13", 800)
	t("C13", 16000)
	q("C14", 900)
	t("C14", 18000)
	q("C15", 1500)
	t("C15", 30000)
	q("C16", 1500)
	t("C16", 30000)
	q("C17", 900)
	t("C17", 18000)
	q("C19", 1500)
	t("C19", 30000)
	q("C20", 1500)
	t("C20", 30000)
}

package gen

import (
	"sort"
	"strconv"

	"github.com/Oneledger/protocol/data/governance"
)

// MempoolOnlyProposals builds config-update proposals that are meant to be seen by CheckTx only and
// never delivered in a block: one per option category of the governance generator plus the whole
// range of feeOption.minFeeDecimal (values that would break default-fee clients if they passed are
// harmless here because the proposals never execute). Nothing is recorded in the session.
func MempoolOnlyProposals(c *Ctx) (out []Tx) {
	govSafe(func() {
		e := newGovEnv(c, &govSess{})
		if e == nil {
			return
		}
		cands := e.cfgCandidates()
		cands = append(cands, govCfg{Cat: "fee-any", Payload: "feeOption.minFeeDecimal:" + strconv.Itoa(c.Rng.Intn(19)), Valid: true})
		for _, cc := range cands {
			if !cc.Valid {
				continue
			}
			proposer := e.anyPayer()
			m := e.legitCreate(governance.ProposalTypeConfigUpdate, proposer, cc.Payload)
			if m == nil {
				continue
			}
			out = append(out, e.txCreate("PROPOSAL_CREATE/mempool-only-"+cc.Cat, m, proposer))
		}
		// finalisation of proposals that have passed and are waiting for the node's own end-of-block
		// finalisation: the public PROPOSAL_FINALIZE transaction, checked in the mempool only
		var ids []string
		e.ps.WithPrefixType(governance.ProposalStatePassed).Iterate(func(id governance.ProposalID, p *governance.Proposal) bool {
			ids = append(ids, string(id))
			return false
		})
		e.ps.WithPrefixType(governance.ProposalStateActive)
		sort.Strings(ids)
		for i, id := range ids {
			if i >= 3 {
				break
			}
			who := e.anyPayer()
			out = append(out, e.txFinalize("PROPOSAL_FINALIZE/mempool-only", id, who))
		}
	})
	return out
}

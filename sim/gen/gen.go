// Package gen holds the simulated clients: workload generators that look at the reference
// replica's committed state (through the repository's own stores — generators need no
// independence, only oracles do) and emit signed transactions.
package gen

import (
	"math/big"
	"math/rand"
	"sort"

	"olsim/core"
)

// Tx is a generated transaction with its intent label.
type Tx struct {
	Bytes []byte
	Kind  string // e.g. "SEND", "SEND/overdraw"
	Group string // transactions of one non-empty group keep their relative order when the block is shuffled
}

// KeepGroupOrder restores, after a shuffle, the original relative order of the members of every
// group (they stay at the positions the shuffle gave to the group). orig is the pre-shuffle order.
func KeepGroupOrder(orig, shuffled []Tx) {
	pos := map[string][]int{}
	for i, t := range shuffled {
		if t.Group != "" {
			pos[t.Group] = append(pos[t.Group], i)
		}
	}
	next := map[string]int{}
	for _, t := range orig {
		if t.Group == "" {
			continue
		}
		ps := pos[t.Group]
		shuffled[ps[next[t.Group]]] = t
		next[t.Group]++
	}
}

// Ctx is what a generator sees.
type Ctx struct {
	E   *core.Engine
	W   *core.World
	Rng *rand.Rand
	Ref *core.Replica
	H   int64 // height of the block being built
	S   *Session
}

// Session is generator-side memory that persists across blocks of one run.
type Session struct {
	M        map[string]interface{}
	Sent     []Tx              // every tx emitted so far (for replayers, CheckTx noise)
	EthNonce map[string]uint64 // next nonce the generator believes, per eth account label
	Staked   map[string]bool
}

func NewSession() *Session {
	return &Session{M: map[string]interface{}{}, EthNonce: map[string]uint64{}, Staked: map[string]bool{}}
}

// Generator proposes zero or more transactions for the next block.
type Generator interface {
	Name() string
	Gen(c *Ctx) []Tx
}

// Pick returns a uniformly chosen element index helper.
func pick(r *rand.Rand, n int) int {
	if n <= 0 {
		return 0
	}
	return r.Intn(n)
}

func bigRand(r *rand.Rand, max *big.Int) *big.Int {
	if max.Sign() <= 0 {
		return new(big.Int)
	}
	return new(big.Int).Rand(r, max)
}

var e18 = new(big.Int).Exp(big.NewInt(10), big.NewInt(18), nil)

func nueOf(olt int64) *big.Int { return new(big.Int).Mul(big.NewInt(olt), e18) }

var registry []Generator

// Register adds a generator to the swarm (call from init()).
func Register(g Generator) { registry = append(registry, g) }

// All returns every registered generator, sorted by name (deterministic order).
func All() []Generator {
	out := append([]Generator{}, registry...)
	sort.Slice(out, func(i, j int) bool { return out[i].Name() < out[j].Name() })
	return out
}

// ByName returns the named generators.
func ByName(names ...string) []Generator {
	var out []Generator
	for _, n := range names {
		for _, g := range registry {
			if g.Name() == n {
				out = append(out, g)
			}
		}
	}
	return out
}

// Lethal reports whether the run opted in to inputs that are known to kill the application or the
// process (only C18 does): c.S.M["lethal"] == true.
func Lethal(c *Ctx) bool {
	v, _ := c.S.M["lethal"].(bool)
	return v
}

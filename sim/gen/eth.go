package gen

// Generator "eth": Ethereum cross-chain LOCK / REDEEM trackers.
//
// There is no Ethereum chain in the simulator. This generator plays three roles:
//   - the user: crafts raw signed Ethereum transactions (lock(), redeem(uint256), ERC20 transfer(address,uint256),
//     redeem(uint256,address)) that the repository's own parsers accept, and wraps them in ETH_LOCK / ERC20_LOCK /
//     ETH_REDEEM / ERC20_REDEEM;
//   - the witnesses: for every ongoing tracker it knows, it sends ETH_REPORT_FINALITY_MINT votes signed by the
//     genesis witnesses' validator keys (VoteIndex = index in tracker.Witnesses, Locker = tracker.ProcessOwner);
//   - the attackers: a tuned minority of hostile variants, each with its own label.
//
// The "truth" about an Ethereum transaction (did it really confirm?) is drawn by the generator when the tracker
// is created; honest witnesses report the truth, liars report the opposite or redirect the Locker.
//
// Variants that make the application panic (handlePanic closes the app, the run stops) are only emitted when
// c.S.M["eth.crashers"] == true or the environment variable OLSIM_ETH_CRASHERS is set (see ethCrasherOn).

import (
	"fmt"
	"math/big"
	"os"
	"strings"

	"github.com/ethereum/go-ethereum/accounts/abi"
	ethcmn "github.com/ethereum/go-ethereum/common"
	ethtypes "github.com/ethereum/go-ethereum/core/types"
	"github.com/ethereum/go-ethereum/rlp"

	"github.com/Oneledger/protocol/action"
	ethact "github.com/Oneledger/protocol/action/eth"
	ethchain "github.com/Oneledger/protocol/chains/ethereum"
	ethdata "github.com/Oneledger/protocol/data/ethereum"
	"github.com/Oneledger/protocol/data/governance"
	"github.com/Oneledger/protocol/data/keys"

	"olsim/core"
)

type Eth struct{}

func (Eth) Name() string { return "eth" }

func init() { Register(Eth{}) }

const (
	ethKLock      = "ETH_LOCK"
	ethKErcLock   = "ERC20_LOCK"
	ethKRedeem    = "ETH_REDEEM"
	ethKErcRedeem = "ERC20_REDEEM"
	ethKReport    = "ETH_REPORT_FINALITY_MINT"
)

// ethTrk is one tracker the generator created (or believes it created).
type ethTrk struct {
	name      ethcmn.Hash
	kind      string // ethKLock ...
	owner     *core.Account
	raw       []byte
	amount    *big.Int
	born      int64
	truth     bool   // what an honest witness reports
	plan      string // "honest", "lie", "split", "stall"
	liars     int    // how many witnesses (by position in the shuffled order) lie
	lieLocker bool   // liars vote YES with Locker = attacker instead of flipping Success
	liarsLast bool   // liars vote after the honest ones (so that a liar casts the deciding vote)
	order     []int  // voting order (indices into tracker.Witnesses), drawn when first seen
	seen      bool
	done      bool
	outcome   string
	votesSent int
	lastVotes int
	lastSent  int
	idle      int
	cur       *ethdata.Tracker // refreshed every block; nil when not in the ongoing store
}

type ethSess struct {
	trk      []*ethTrk
	hist     []*ethTrk // finished ones (for replays), newest last
	ethNonce map[string]uint64
	abiSrc   map[string]*abi.ABI
	signers  []*core.Account
	pendTTC  *big.Int
	nOut     map[string]int
}

func ethSession(c *Ctx) *ethSess {
	if s, ok := c.S.M["eth"].(*ethSess); ok && s != nil {
		return s
	}
	s := &ethSess{ethNonce: map[string]uint64{}, abiSrc: map[string]*abi.ABI{}, nOut: map[string]int{}}
	for i := 0; i < 3; i++ {
		s.signers = append(s.signers, core.NewEthAccount(c.W.Seed, fmt.Sprintf("ethside%d", i)))
	}
	c.S.M["eth"] = s
	return s
}

func ethCrasherOn(c *Ctx, which string) bool {
	if Lethal(c) {
		return true
	}
	if v, ok := c.S.M["eth.crashers"].(bool); ok && v {
		return true
	}
	e := os.Getenv("OLSIM_ETH_CRASHERS")
	return e == "1" || e == "all" || (e != "" && e == which)
}

func ethDebugf(format string, a ...interface{}) {
	p := os.Getenv("OLSIM_ETH_DEBUG")
	if p == "" {
		return
	}
	f, err := os.OpenFile(p, os.O_APPEND|os.O_CREATE|os.O_WRONLY, 0644)
	if err != nil {
		return
	}
	fmt.Fprintf(f, format+"\n", a...)
	f.Close()
}

func (s *ethSess) abiOf(src string) *abi.ABI {
	if a, ok := s.abiSrc[src]; ok {
		return a
	}
	a, err := abi.JSON(strings.NewReader(src))
	if err != nil {
		s.abiSrc[src] = nil
		return nil
	}
	s.abiSrc[src] = &a
	return &a
}

// ethEnv is what one Gen call works with.
type ethEnv struct {
	c    *Ctx
	s    *ethSess
	opt  ethchain.ChainDriverOption
	ts   *ethdata.TrackerStore
	tok  *ethchain.ERC20Token
	wit  map[string]*core.ValidatorKeys // witness validator address -> keys
	pool []*core.Account                // lockers / redeemers
	out  []Tx
	max  int
}

func (e *ethEnv) room() bool { return len(e.out) < e.max }

func (e *ethEnv) emit(b []byte, kind string) {
	if b == nil {
		return
	}
	e.out = append(e.out, Tx{Bytes: b, Kind: kind})
}

func (e *ethEnv) supplyAddr() keys.Address { return keys.Address(e.opt.TotalSupplyAddr) }

func ethBig(s string) *big.Int {
	v, ok := new(big.Int).SetString(s, 10)
	if !ok {
		return new(big.Int)
	}
	return v
}

// ---- raw Ethereum transactions ----------------------------------------------------------------------

func (e *ethEnv) rawTx(to *ethcmn.Address, value *big.Int, data []byte, gasPrice *big.Int) []byte {
	c, s := e.c, e.s
	signer := s.signers[pick(c.Rng, len(s.signers))]
	if len(c.W.EthUsers) > 0 && c.Rng.Intn(3) == 0 {
		signer = c.W.EthUsers[pick(c.Rng, len(c.W.EthUsers))]
	}
	nonce := s.ethNonce[signer.Label]
	s.ethNonce[signer.Label] = nonce + 1
	if gasPrice == nil {
		gasPrice = new(big.Int).Mul(big.NewInt(1+c.Rng.Int63n(200)), big.NewInt(1000000000))
	}
	if value == nil {
		value = new(big.Int)
	}
	tx := ethtypes.NewTx(&ethtypes.LegacyTx{Nonce: nonce, To: to, Value: value, Gas: uint64(21000 + c.Rng.Intn(300000)), GasPrice: gasPrice, Data: data})
	var sg ethtypes.Signer = ethtypes.NewEIP155Signer(big.NewInt(int64(1 + c.Rng.Intn(5))))
	if c.Rng.Intn(6) == 0 {
		sg = ethtypes.HomesteadSigner{}
	}
	signed, err := ethtypes.SignTx(tx, sg, signer.ECDSA())
	if err != nil {
		return nil
	}
	raw, err := rlp.EncodeToBytes(signed)
	if err != nil {
		return nil
	}
	return raw
}

func (e *ethEnv) packLock() []byte {
	a := e.s.abiOf(e.opt.ContractABI)
	if a == nil {
		return nil
	}
	d, err := a.Pack("lock")
	if err != nil {
		return nil
	}
	return d
}

func (e *ethEnv) packRedeem(amount *big.Int) []byte {
	a := e.s.abiOf(e.opt.ContractABI)
	if a == nil {
		return nil
	}
	d, err := a.Pack("redeem", amount)
	if err != nil {
		return nil
	}
	return d
}

func (e *ethEnv) packTransfer(to ethcmn.Address, amount *big.Int) []byte {
	if e.tok == nil {
		return nil
	}
	a := e.s.abiOf(e.tok.TokAbi)
	if a == nil {
		return nil
	}
	d, err := a.Pack("transfer", to, amount)
	if err != nil {
		return nil
	}
	return d
}

func (e *ethEnv) packErcRedeem(amount *big.Int, token ethcmn.Address) []byte {
	a := e.s.abiOf(e.opt.ERCContractABI)
	if a == nil {
		return nil
	}
	d, err := a.Pack("redeem", amount, token)
	if err != nil {
		return nil
	}
	return d
}

// shadowGasPrice returns a gas price whose big-endian bytes are a complete call of `method` of the ABI `src`
// with the given arguments (selector followed by the packed arguments). The transaction stays a well-formed
// legacy transaction (RLP puts no limit on the length of an integer, the first selector byte is not zero), but
// in the raw bytes the selector now occurs BEFORE the real call data: a parser that looks for the selector in
// the hex of the whole transaction reads these arguments instead of the ones in the call data.
func (e *ethEnv) shadowGasPrice(src, method string, args ...interface{}) *big.Int {
	a := e.s.abiOf(src)
	if a == nil {
		return nil
	}
	d, err := a.Pack(method, args...)
	if err != nil || len(d) < 4 || d[0] == 0 {
		return nil
	}
	return new(big.Int).SetBytes(d)
}

// ethOtherAmount draws a positive amount different from amt: between 10% and 90% of amt or (when that is still
// at most max) between 110% and 190% of it (never an exact multiple: a credit of twice the amount reads as a second mint).
func ethOtherAmount(r interface{ Intn(int) int }, amt, max *big.Int) *big.Int {
	x := ethFrac(r, amt, 110, 190)
	if r.Intn(2) == 0 || x.Cmp(max) > 0 {
		x = ethFrac(r, amt, 10, 90)
	}
	if x.Sign() <= 0 || x.Cmp(amt) == 0 {
		x = new(big.Int).Add(amt, big.NewInt(1))
	}
	return x
}

func (e *ethEnv) garbage() []byte {
	b := make([]byte, 1+e.c.Rng.Intn(150))
	for i := range b {
		b[i] = byte(e.c.Rng.Intn(256))
	}
	return b
}

// ---- OneLedger transactions ---------------------------------------------------------------------------

func ethBigFee() action.Fee {
	f := core.DefaultFee()
	f.Gas = 600000
	return f
}

func (e *ethEnv) lockTx(kind string, locker keys.Address, raw []byte, signer *core.Account) []byte {
	if kind == ethKErcLock {
		return core.BuildTx(&ethact.ERC20Lock{Locker: locker, ETHTxn: raw}, ethBigFee(), memo(e.c), signer)
	}
	return core.BuildTx(&ethact.Lock{Locker: locker, ETHTxn: raw}, ethBigFee(), memo(e.c), signer)
}

func (e *ethEnv) redeemTx(kind string, owner keys.Address, raw []byte, signer *core.Account) []byte {
	to := ethcmn.BytesToAddress(e.s.signers[0].Addr.Bytes())
	if kind == ethKErcRedeem {
		return core.BuildTx(&ethact.ERC20Redeem{Owner: owner, To: to, ETHTxn: raw}, ethBigFee(), memo(e.c), signer)
	}
	return core.BuildTx(&ethact.Redeem{Owner: owner, To: to, ETHTxn: raw}, ethBigFee(), memo(e.c), signer)
}

func (e *ethEnv) voteTx(name ethcmn.Hash, locker, valAddr keys.Address, idx int64, success bool, signer *core.Account) []byte {
	fee := action.Fee{} // what the witness nodes really send
	if e.c.Rng.Intn(5) == 0 {
		fee = core.DefaultFee()
	}
	msg := &ethact.ReportFinality{TrackerName: name, Locker: locker, ValidatorAddress: valAddr, VoteIndex: idx, Success: success}
	return core.BuildTx(msg, fee, memo(e.c), signer)
}

// ---- tracking -----------------------------------------------------------------------------------------

func (e *ethEnv) track(kind string, owner *core.Account, raw []byte, amount *big.Int) *ethTrk {
	c := e.c
	t := &ethTrk{name: ethcmn.BytesToHash(raw), kind: kind, owner: owner, raw: raw, amount: amount, born: c.H, plan: "honest", truth: true}
	// truth: most Ethereum transactions really confirm
	if c.Rng.Intn(100) < 22 {
		t.truth = false
	}
	// lying witnesses are most interesting when a minority below one third exists (>= 4 witnesses)
	pLie := 8
	if len(e.wit) >= 4 {
		pLie = 32
	}
	switch r := c.Rng.Intn(100); {
	case r < 84-pLie:
	case r < 84:
		t.plan = "lie"
		t.lieLocker = c.Rng.Intn(2) == 0
		t.liarsLast = c.Rng.Intn(2) == 0
		t.liars = -1 // decided when the witness list is known
	case r < 90:
		t.plan = "split"
	default:
		t.plan = "stall"
	}
	e.s.trk = append(e.s.trk, t)
	return t
}

func (e *ethEnv) attacker(not keys.Address) *core.Account {
	us := e.c.W.Users
	for i := len(us) - 1; i >= 0; i-- {
		if !us[i].Addr.Equal(not) {
			return us[i]
		}
	}
	return core.NewEdAccount(e.c.W.Seed, "eth-attacker")
}

// refresh reads the state of every tracker we follow and retires finished ones.
func (e *ethEnv) refresh() {
	s := e.s
	var keep []*ethTrk
	e.s.pendTTC = new(big.Int)
	for _, t := range s.trk {
		t.cur = nil
		if e.ts.WithPrefixType(ethdata.PrefixOngoing).Exists(t.name) {
			tr, err := e.ts.WithPrefixType(ethdata.PrefixOngoing).Get(t.name)
			if err == nil && tr != nil && len(tr.FinalityVotes) == len(tr.Witnesses) {
				t.cur = tr
				t.seen = true
			}
		}
		if t.cur == nil && (t.seen || e.c.H-t.born >= 2) {
			t.done = true
			switch {
			case e.ts.WithPrefixType(ethdata.PrefixPassed).Exists(t.name) && t.seen:
				t.outcome = "passed"
			case e.ts.WithPrefixType(ethdata.PrefixFailed).Exists(t.name) && t.seen:
				t.outcome = "failed"
			default:
				t.outcome = "lost"
			}
			s.nOut[t.kind+"/"+t.outcome]++
			atk := e.attacker(t.owner.Addr).Addr
			ethDebugf("H=%d tracker %s %s plan=%s lieLocker=%v last=%v truth=%v amt=%s -> %s (owner ETH=%s TTC=%s; attacker ETH=%s TTC=%s)", e.c.H, t.kind, t.name.Hex()[:10], t.plan, t.lieLocker, t.liarsLast, t.truth, t.amount, t.outcome,
				e.c.Ref.BalanceOf(t.owner.Addr, "ETH"), e.c.Ref.BalanceOf(t.owner.Addr, "TTC"), e.c.Ref.BalanceOf(atk, "ETH"), e.c.Ref.BalanceOf(atk, "TTC"))
			if t.outcome != "lost" {
				s.hist = append(s.hist, t)
				if len(s.hist) > 12 {
					s.hist = s.hist[len(s.hist)-12:]
				}
			}
			continue
		}
		if t.cur != nil && t.kind == ethKErcLock && t.amount != nil {
			s.pendTTC.Add(s.pendTTC, t.amount)
		}
		// give up on trackers that can no longer move (stalled, split, stuck ERC failures): keep them in state
		// (they are iterated at every block end) but stop following them after a while
		if t.cur != nil {
			y, n := t.cur.GetVotes()
			ethDebugf("H=%d   %s %s born=%d state=%d votes=%v plan=%s", e.c.H, t.kind, t.name.Hex()[:10], t.born, t.cur.State, t.cur.FinalityVotes, t.plan)
			if y+n != t.lastVotes || t.votesSent == t.lastSent {
				t.idle = 0
			} else {
				t.idle++ // votes were sent but none was recorded
			}
			t.lastVotes, t.lastSent = y+n, t.votesSent
			if len(t.cur.Witnesses) > 0 && y+n == len(t.cur.Witnesses) {
				t.idle = 3 // everybody voted and nothing was decided: stuck for good
			}
		}
		if t.cur != nil && (t.idle >= 3 || t.votesSent > 3*len(t.cur.Witnesses)+3 || e.c.H-t.born > 40) {
			t.done = true
			t.outcome = "abandoned"
			s.nOut[t.kind+"/abandoned"]++
			ethDebugf("H=%d tracker %s %s plan=%s truth=%v abandoned state=%d votes=%v", e.c.H, t.kind, t.name.Hex()[:10], t.plan, t.truth, t.cur.State, t.cur.FinalityVotes)
			continue
		}
		keep = append(keep, t)
	}
	s.trk = keep
}

// witnessVotes sends the votes of the simulated witnesses for one tracker.
func (e *ethEnv) witnessVotes(t *ethTrk, early bool) {
	c := e.c
	tr := t.cur
	if tr == nil || t.plan == "stall" || len(tr.Witnesses) == 0 {
		return
	}
	n := len(tr.Witnesses)
	if t.order == nil {
		t.order = c.Rng.Perm(n)
		if t.plan == "lie" {
			// a minority below one third when possible, otherwise exactly one liar
			max := (n - 1) / 3
			t.liars = 1
			if max > 1 {
				t.liars = 1 + c.Rng.Intn(max)
			}
			if c.Rng.Intn(6) == 0 {
				t.liars = n/3 + 1 // a blocking / deciding coalition
			}
			if t.liars > n {
				t.liars = n
			}
		}
	}
	// real witnesses vote once the tracker left state New (their jobs are created by the block-end transitions)
	if tr.State == ethdata.New && !early {
		return
	}
	// position p in t.order lies iff p < liars; liarsLast: the liars sit just before the threshold, so that one
	// of them casts the deciding vote when everybody else says YES
	num := n*2/3 + 1
	lies := func(p int) bool {
		if t.plan != "lie" {
			return false
		}
		if t.liarsLast && num-t.liars >= 0 {
			return p >= num-t.liars && p < num
		}
		return p < t.liars
	}
	k := 1 + c.Rng.Intn(2)
	if c.Rng.Intn(4) == 0 {
		k = n // everybody at once: votes after the deciding one hit "already finalized"
	}
	for p, idx := range t.order {
		if k == 0 || !e.room() {
			break
		}
		if idx >= n || tr.FinalityVotes[idx] != 0 {
			continue
		}
		vk := e.wit[tr.Witnesses[idx].String()]
		if vk == nil {
			continue
		}
		success := t.truth
		locker := tr.ProcessOwner
		label := "/yes"
		if !success {
			label = "/no"
		}
		if t.plan == "split" && p%2 == 1 {
			success = !success
			label = "/split"
		}
		if lies(p) {
			minority := t.liars*3 < n
			if t.lieLocker {
				success = true
				locker = e.attacker(tr.ProcessOwner).Addr
				label = "/lie-locker"
			} else {
				success = !t.truth
				label = "/lie-flip"
			}
			if !minority {
				label += "-big"
			}
		}
		if early {
			label += "-early"
		}
		e.emit(e.voteTx(t.name, locker, vk.ValKey.Addr, int64(idx), success, vk.ValKey), ethKReport+label)
		t.votesSent++
		k--
	}
}

// hostileReport emits one malformed / unauthorised finality report.
func (e *ethEnv) hostileReport() {
	c := e.c
	var live []*ethTrk
	for _, t := range e.s.trk {
		if t.cur != nil && len(t.cur.Witnesses) > 0 {
			live = append(live, t)
		}
	}
	user := c.W.Users[pick(c.Rng, len(c.W.Users))]
	if len(live) == 0 {
		// nothing to attack: a vote for a tracker that does not exist (or is already archived)
		name := ethcmn.BytesToHash(e.garbage())
		label := "/unknown-tracker"
		if len(e.s.hist) > 0 && c.Rng.Intn(2) == 0 {
			name = e.s.hist[pick(c.Rng, len(e.s.hist))].name
			label = "/after-done"
		}
		for _, vk := range c.W.Validators {
			if vk.Witness {
				e.emit(e.voteTx(name, user.Addr, vk.ValKey.Addr, 0, true, vk.ValKey), ethKReport+label)
				return
			}
		}
		e.emit(e.voteTx(name, user.Addr, user.Addr, 0, true, user), ethKReport+label)
		return
	}
	t := live[pick(c.Rng, len(live))]
	tr := t.cur
	n := len(tr.Witnesses)
	wi := pick(c.Rng, n)
	vk := e.wit[tr.Witnesses[wi].String()]
	atk := e.attacker(tr.ProcessOwner)
	switch c.Rng.Intn(9) {
	case 0: // a validator that is not a witness
		for _, v := range c.W.Validators {
			if !v.Witness {
				e.emit(e.voteTx(t.name, tr.ProcessOwner, v.ValKey.Addr, int64(wi), true, v.ValKey), ethKReport+"/non-witness-validator")
				return
			}
		}
		fallthrough
	case 1: // a plain user
		e.emit(e.voteTx(t.name, atk.Addr, atk.Addr, int64(wi), true, atk), ethKReport+"/user")
	case 2: // names a witness as ValidatorAddress but is signed by a user (only Validate would notice)
		e.emit(e.voteTx(t.name, atk.Addr, tr.Witnesses[wi], int64(wi), true, atk), ethKReport+"/forged-signer")
	case 3: // right witness, somebody else's slot
		if vk != nil && n > 1 {
			e.emit(e.voteTx(t.name, tr.ProcessOwner, vk.ValKey.Addr, int64((wi+1)%n), t.truth, vk.ValKey), ethKReport+"/wrong-index")
		}
	case 4: // index beyond the witness list
		if vk != nil {
			e.emit(e.voteTx(t.name, tr.ProcessOwner, vk.ValKey.Addr, int64(n+c.Rng.Intn(3)), t.truth, vk.ValKey), ethKReport+"/index-oob")
		}
	case 5, 6: // second vote by a witness that already voted (flipped)
		for _, lt := range live {
			for i, v := range lt.cur.FinalityVotes {
				if v != 0 {
					if w := e.wit[lt.cur.Witnesses[i].String()]; w != nil {
						e.emit(e.voteTx(lt.name, lt.cur.ProcessOwner, w.ValKey.Addr, int64(i), v != 1, w.ValKey), ethKReport+"/second-vote")
						return
					}
				}
			}
		}
		// nobody voted yet: the same witness votes twice in this block
		if vk != nil {
			e.emit(e.voteTx(t.name, tr.ProcessOwner, vk.ValKey.Addr, int64(wi), t.truth, vk.ValKey), ethKReport+"/twice-same-block")
			e.emit(e.voteTx(t.name, tr.ProcessOwner, vk.ValKey.Addr, int64(wi), !t.truth, vk.ValKey), ethKReport+"/twice-same-block")
			t.votesSent++
		}
	case 7: // archived tracker
		if len(e.s.hist) > 0 && vk != nil {
			h := e.s.hist[pick(c.Rng, len(e.s.hist))]
			e.emit(e.voteTx(h.name, h.owner.Addr, vk.ValKey.Addr, int64(wi), true, vk.ValKey), ethKReport+"/after-done")
		}
	default:
		if ethCrasherOn(c, "report-neg-index") && vk != nil {
			// Validate rejects VoteIndex < 0 but DeliverTx never calls Validate: Witnesses[-1] panics
			e.emit(e.voteTx(t.name, tr.ProcessOwner, vk.ValKey.Addr, -1, true, vk.ValKey), ethKReport+"/neg-index-CRASH")
		} else if vk != nil {
			e.emit(e.voteTx(ethcmn.BytesToHash(e.garbage()), tr.ProcessOwner, vk.ValKey.Addr, int64(wi), true, vk.ValKey), ethKReport+"/unknown-tracker")
		}
	}
}

// ---- new locks ------------------------------------------------------------------------------------------

func (e *ethEnv) remainingETH() *big.Int {
	sup := e.c.Ref.BalanceOf(e.supplyAddr(), "ETH")
	return new(big.Int).Sub(ethBig(e.opt.TotalSupply), sup)
}

func (e *ethEnv) remainingTTC() *big.Int {
	if e.tok == nil {
		return new(big.Int)
	}
	sup := e.c.Ref.BalanceOf(e.supplyAddr(), e.tok.TokName)
	return new(big.Int).Sub(ethBig(e.tok.TokTotalSupply), sup)
}

func ethFrac(r interface{ Intn(int) int }, v *big.Int, loPct, hiPct int) *big.Int {
	p := loPct + r.Intn(hiPct-loPct+1)
	x := new(big.Int).Mul(v, big.NewInt(int64(p)))
	return x.Div(x, big.NewInt(100))
}

func (e *ethEnv) newEthLock() {
	c := e.c
	owner := e.pool[pick(c.Rng, len(e.pool))]
	contract := e.opt.ContractAddress
	data := e.packLock()
	if data == nil {
		return
	}
	rem := e.remainingETH()
	// 0.001 .. 60 ETH, at most a quarter of what is left under the cap
	amt := new(big.Int).Add(big.NewInt(1000000000000000), bigRand(c.Rng, nueOf(60)))
	if q := new(big.Int).Div(rem, big.NewInt(4)); amt.Cmp(q) > 0 {
		amt = q
	}
	if c.Rng.Intn(100) >= 26 {
		if amt.Sign() <= 0 {
			return
		}
		raw := e.rawTx(&contract, amt, data, nil)
		if raw == nil {
			return
		}
		e.emit(e.lockTx(ethKLock, owner.Addr, raw, owner), ethKLock)
		t := e.track(ethKLock, owner, raw, amt)
		e.maybeEarly(t)
		return
	}
	// hostile variants
	atk := e.attacker(owner.Addr)
	switch c.Rng.Intn(13) {
	case 0: // the same Ethereum transaction twice in one block
		raw := e.rawTx(&contract, amt, data, nil)
		e.emit(e.lockTx(ethKLock, owner.Addr, raw, owner), ethKLock+"/dup-same-block")
		e.emit(e.lockTx(ethKLock, owner.Addr, raw, owner), ethKLock+"/dup-same-block")
		e.track(ethKLock, owner, raw, amt)
	case 1: // front-running: somebody else submits the user's Ethereum transaction with himself as Locker
		raw := e.rawTx(&contract, amt, data, nil)
		e.emit(e.lockTx(ethKLock, atk.Addr, raw, atk), ethKLock+"/frontrun-thief")
		e.emit(e.lockTx(ethKLock, owner.Addr, raw, owner), ethKLock+"/frontrun-victim")
		t := e.track(ethKLock, owner, raw, amt)
		t.truth, t.plan = true, "honest"
	case 2, 3: // resubmission of an earlier Ethereum transaction (passed: must fail; failed: allowed again)
		var cands []*ethTrk
		for _, h := range e.s.hist {
			if h.kind == ethKLock {
				cands = append(cands, h)
			}
		}
		for _, h := range e.s.trk {
			if h.kind == ethKLock && h.cur != nil {
				cands = append(cands, h)
			}
		}
		if len(cands) == 0 {
			return
		}
		h := cands[pick(c.Rng, len(cands))]
		who := h.owner
		if c.Rng.Intn(3) == 0 {
			who = atk
		}
		label := "/replay-ongoing"
		switch h.outcome {
		case "passed":
			label = "/replay-passed"
		case "failed":
			label = "/replay-failed"
		}
		if c.Rng.Intn(4) == 0 {
			// the same signed Ethereum transaction followed by surplus bytes: not a second transaction, and the
			// tracker name is derived from the submitted bytes
			padded := append(append([]byte{}, h.raw...), e.garbage()...)
			for len(padded) < len(h.raw)+32 {
				padded = append(padded, byte(c.Rng.Intn(256)))
			}
			e.emit(e.lockTx(ethKLock, who.Addr, padded, who), ethKLock+"/replay-trailing-bytes")
			return
		}
		e.emit(e.lockTx(ethKLock, who.Addr, h.raw, who), ethKLock+label)
		if h.outcome == "failed" {
			t := e.track(ethKLock, who, h.raw, h.amount)
			t.truth, t.plan = true, "honest"
			// drop it from the history so that it is not replayed as "failed" again
			for i, x := range e.s.hist {
				if x == h {
					e.s.hist = append(e.s.hist[:i:i], e.s.hist[i+1:]...)
					break
				}
			}
		}
	case 4: // Locker is not the signer of the OneLedger transaction
		raw := e.rawTx(&contract, amt, data, nil)
		e.emit(e.lockTx(ethKLock, owner.Addr, raw, atk), ethKLock+"/locker-not-signer")
		e.track(ethKLock, owner, raw, amt)
	case 5: // above the supply cap
		over := new(big.Int).Add(rem, big.NewInt(1+c.Rng.Int63n(1000)))
		raw := e.rawTx(&contract, over, data, nil)
		e.emit(e.lockTx(ethKLock, owner.Addr, raw, owner), ethKLock+"/over-supply")
	case 6: // exactly the remaining supply, and a second lock racing for the same room in the same block
		if rem.Sign() <= 0 {
			return
		}
		half := ethFrac(c.Rng, rem, 55, 100)
		raw1 := e.rawTx(&contract, half, data, nil)
		raw2 := e.rawTx(&contract, half, data, nil)
		e.emit(e.lockTx(ethKLock, owner.Addr, raw1, owner), ethKLock+"/supply-race")
		e.emit(e.lockTx(ethKLock, atk.Addr, raw2, atk), ethKLock+"/supply-race")
		t1 := e.track(ethKLock, owner, raw1, half)
		t2 := e.track(ethKLock, atk, raw2, half)
		t1.truth, t1.plan, t2.truth, t2.plan = true, "honest", true, "honest"
	case 7:
		e.emit(e.lockTx(ethKLock, owner.Addr, e.garbage(), owner), ethKLock+"/garbage")
	case 8: // right call, wrong contract
		other := ethcmn.BytesToAddress(e.garbage())
		raw := e.rawTx(&other, amt, data, nil)
		e.emit(e.lockTx(ethKLock, owner.Addr, raw, owner), ethKLock+"/wrong-contract")
	case 9: // right contract, not the lock() call
		d := e.packRedeem(amt)
		if c.Rng.Intn(2) == 0 {
			d = nil
		}
		raw := e.rawTx(&contract, amt, d, nil)
		e.emit(e.lockTx(ethKLock, owner.Addr, raw, owner), ethKLock+"/wrong-call")
	case 10: // zero value
		raw := e.rawTx(&contract, new(big.Int), data, nil)
		e.emit(e.lockTx(ethKLock, owner.Addr, raw, owner), ethKLock+"/zero")
		e.track(ethKLock, owner, raw, new(big.Int))
	case 11: // an ERC20 transfer submitted as ETH_LOCK
		if e.tok != nil {
			tokAddr := e.tok.TokAddr
			raw := e.rawTx(&tokAddr, nil, e.packTransfer(e.opt.ERCContractAddress, big.NewInt(1000)), nil)
			e.emit(e.lockTx(ethKLock, owner.Addr, raw, owner), ethKLock+"/erc-raw")
		}
	default:
		if ethCrasherOn(c, "lock-nil-to") {
			// contract creation (to == nil) with the lock() selector as data: ethTx.To().Bytes() dereferences nil
			raw := e.rawTx(nil, amt, data, nil)
			e.emit(e.lockTx(ethKLock, owner.Addr, raw, owner), ethKLock+"/nil-to-CRASH")
		} else {
			// insufficient gas limit for the OneLedger fee step (handler wrote the tracker, fee fails)
			raw := e.rawTx(&contract, amt, data, nil)
			f := core.DefaultFee()
			f.Gas = 1000
			e.emit(core.BuildTx(&ethact.Lock{Locker: owner.Addr, ETHTxn: raw}, f, memo(c), owner), ethKLock+"/gas-too-low")
		}
	}
}

// maybeEarly makes the witnesses report in the very block that creates the tracker (before any block-end
// transition ran; the block's transactions are shuffled, so some of these arrive before the lock itself).
func (e *ethEnv) maybeEarly(t *ethTrk) {
	c := e.c
	if c.Rng.Intn(9) != 0 || t.plan == "stall" {
		return
	}
	var wl []keys.Address
	for _, vk := range c.W.Validators {
		if vk.Witness {
			wl = append(wl, vk.ValKey.Addr)
		}
	}
	if len(wl) == 0 {
		return
	}
	// the order of tracker.Witnesses is the store's iteration order: ascending by address
	for i := 1; i < len(wl); i++ {
		for j := i; j > 0 && strings.Compare(string(wl[j-1]), string(wl[j])) > 0; j-- {
			wl[j-1], wl[j] = wl[j], wl[j-1]
		}
	}
	fake := ethdata.NewTracker(ethdata.ProcessTypeLock, t.owner.Addr, t.raw, t.name, wl)
	t.cur = fake
	e.witnessVotes(t, true)
	t.cur = nil
	t.order = nil
}

func (e *ethEnv) newErcLock() {
	c := e.c
	if e.tok == nil {
		return
	}
	owner := e.pool[pick(c.Rng, len(e.pool))]
	tokAddr := e.tok.TokAddr
	ercContract := e.opt.ERCContractAddress
	rem := new(big.Int).Sub(e.remainingTTC(), e.s.pendTTC)
	amt := new(big.Int).Add(big.NewInt(1000), bigRand(c.Rng, ethFrac(c.Rng, ethBig(e.tok.TokTotalSupply), 5, 25)))
	if q := new(big.Int).Div(rem, big.NewInt(2)); amt.Cmp(q) > 0 {
		amt = q
	}
	if c.Rng.Intn(100) >= 26 {
		if amt.Sign() <= 0 {
			return
		}
		raw := e.rawTx(&tokAddr, nil, e.packTransfer(ercContract, amt), nil)
		if raw == nil {
			return
		}
		e.emit(e.lockTx(ethKErcLock, owner.Addr, raw, owner), ethKErcLock)
		t := e.track(ethKErcLock, owner, raw, amt)
		e.maybeEarly(t)
		return
	}
	atk := e.attacker(owner.Addr)
	if amt.Sign() <= 0 {
		amt = big.NewInt(1000)
	}
	switch c.Rng.Intn(12) {
	case 0:
		raw := e.rawTx(&tokAddr, nil, e.packTransfer(ercContract, amt), nil)
		e.emit(e.lockTx(ethKErcLock, owner.Addr, raw, owner), ethKErcLock+"/dup-same-block")
		e.emit(e.lockTx(ethKErcLock, owner.Addr, raw, owner), ethKErcLock+"/dup-same-block")
		e.track(ethKErcLock, owner, raw, amt)
	case 1, 2, 3: // replays: ERC20_LOCK has no "tracker exists" check at all
		var cands []*ethTrk
		for _, h := range e.s.hist {
			if h.kind == ethKErcLock {
				cands = append(cands, h)
			}
		}
		for _, h := range e.s.trk {
			if h.kind == ethKErcLock && h.cur != nil {
				cands = append(cands, h)
			}
		}
		if len(cands) == 0 {
			return
		}
		h := cands[pick(c.Rng, len(cands))]
		who := h.owner
		if c.Rng.Intn(3) == 0 {
			who = atk
		}
		label := "/replay-ongoing"
		switch h.outcome {
		case "passed":
			label = "/replay-passed"
		case "failed":
			label = "/replay-failed"
		}
		if c.Rng.Intn(4) == 0 {
			// the same signed Ethereum transaction followed by surplus bytes: not a second transaction, and the
			// tracker name is derived from the submitted bytes
			padded := append(append([]byte{}, h.raw...), e.garbage()...)
			for len(padded) < len(h.raw)+32 {
				padded = append(padded, byte(c.Rng.Intn(256)))
			}
			e.emit(e.lockTx(ethKErcLock, who.Addr, padded, who), ethKErcLock+"/replay-trailing-bytes")
			return
		}
		e.emit(e.lockTx(ethKErcLock, who.Addr, h.raw, who), ethKErcLock+label)
		if h.outcome != "" {
			// the witnesses see the very same confirmed Ethereum transaction again
			t := e.track(ethKErcLock, who, h.raw, h.amount)
			t.truth, t.plan = h.truth, "honest"
		}
	case 4:
		raw := e.rawTx(&tokAddr, nil, e.packTransfer(ercContract, amt), nil)
		e.emit(e.lockTx(ethKErcLock, owner.Addr, raw, atk), ethKErcLock+"/locker-not-signer")
		e.track(ethKErcLock, owner, raw, amt)
	case 5:
		over := new(big.Int).Add(e.remainingTTC(), big.NewInt(1+c.Rng.Int63n(1000)))
		raw := e.rawTx(&tokAddr, nil, e.packTransfer(ercContract, over), nil)
		e.emit(e.lockTx(ethKErcLock, owner.Addr, raw, owner), ethKErcLock+"/over-supply")
	case 6: // each below the cap, together above it (the cap only counts minted tokens, not pending locks)
		r := e.remainingTTC()
		if r.Sign() <= 0 {
			return
		}
		part := ethFrac(c.Rng, r, 55, 100)
		raw1 := e.rawTx(&tokAddr, nil, e.packTransfer(ercContract, part), nil)
		raw2 := e.rawTx(&tokAddr, nil, e.packTransfer(ercContract, part), nil)
		e.emit(e.lockTx(ethKErcLock, owner.Addr, raw1, owner), ethKErcLock+"/supply-race")
		e.emit(e.lockTx(ethKErcLock, atk.Addr, raw2, atk), ethKErcLock+"/supply-race")
		t1 := e.track(ethKErcLock, owner, raw1, part)
		t2 := e.track(ethKErcLock, atk, raw2, part)
		t1.truth, t1.plan, t2.truth, t2.plan = true, "honest", true, "honest"
	case 7:
		e.emit(e.lockTx(ethKErcLock, owner.Addr, e.garbage(), owner), ethKErcLock+"/garbage")
	case 8: // a token that is not in the list
		other := ethcmn.BytesToAddress(e.garbage())
		raw := e.rawTx(&other, nil, e.packTransfer(ercContract, amt), nil)
		e.emit(e.lockTx(ethKErcLock, owner.Addr, raw, owner), ethKErcLock+"/unknown-token")
	case 9: // tokens transferred to somebody else, not to the lock contract
		if ethCrasherOn(c, "erclock-wrong-receiver") {
			// ext_ERC20Lock.go:160 calls err.Error() on a nil error when the receiver does not match
			other := ethcmn.BytesToAddress(e.garbage())
			raw := e.rawTx(&tokAddr, nil, e.packTransfer(other, amt), nil)
			e.emit(e.lockTx(ethKErcLock, owner.Addr, raw, owner), ethKErcLock+"/wrong-receiver-CRASH")
		} else {
			// fee step fails after the handler wrote the tracker
			raw := e.rawTx(&tokAddr, nil, e.packTransfer(ercContract, amt), nil)
			f := core.DefaultFee()
			f.Gas = 1000
			e.emit(core.BuildTx(&ethact.ERC20Lock{Locker: owner.Addr, ETHTxn: raw}, f, memo(c), owner), ethKErcLock+"/gas-too-low")
		}
	case 10: // the transfer selector and a full set of other arguments also occur earlier in the raw bytes (inside
		// gasPrice): the hex-split parser takes receiver and amount from there. The shadow names the lock contract
		// as receiver too (else the lock is refused), only the amount differs from the one really transferred.
		room := rem // what the supply cap still admits, pending locks taken off
		if room.Cmp(amt) < 0 {
			room = amt
		}
		other := ethOtherAmount(c.Rng, amt, room)
		gp := e.shadowGasPrice(e.tok.TokAbi, "transfer", ercContract, other)
		if gp == nil {
			return
		}
		raw := e.rawTx(&tokAddr, nil, e.packTransfer(ercContract, amt), gp)
		if raw == nil {
			return
		}
		e.emit(e.lockTx(ethKErcLock, owner.Addr, raw, owner), ethKErcLock+"/selector-shadow")
		if other.Cmp(amt) < 0 {
			other = amt
		}
		t := e.track(ethKErcLock, owner, raw, other) // (the larger one: pendTTC stays on the safe side)
		t.truth, t.plan = true, "honest"
	default:
		switch {
		case ethCrasherOn(c, "erclock-nil-to"):
			raw := e.rawTx(nil, nil, e.packTransfer(ercContract, amt), nil)
			e.emit(e.lockTx(ethKErcLock, owner.Addr, raw, owner), ethKErcLock+"/nil-to-CRASH")
		case ethCrasherOn(c, "erclock-no-selector"):
			// to = token, but the data is not a transfer(): strings.Split finds no selector, ss[1] panics
			raw := e.rawTx(&tokAddr, nil, []byte{1, 2, 3, 4}, nil)
			e.emit(e.lockTx(ethKErcLock, owner.Addr, raw, owner), ethKErcLock+"/no-selector-CRASH")
		default:
			// an ETH lock() call submitted as ERC20_LOCK
			contract := e.opt.ContractAddress
			raw := e.rawTx(&contract, amt, e.packLock(), nil)
			e.emit(e.lockTx(ethKErcLock, owner.Addr, raw, owner), ethKErcLock+"/eth-raw")
		}
	}
}

// ---- redeems --------------------------------------------------------------------------------------------

// holder returns a pool account with a positive balance of cur (nil if none).
func (e *ethEnv) holder(cur string) (*core.Account, *big.Int) {
	c := e.c
	start := pick(c.Rng, len(e.pool))
	for i := range e.pool {
		a := e.pool[(start+i)%len(e.pool)]
		if b := c.Ref.BalanceOf(a.Addr, cur); b.Sign() > 0 {
			return a, b
		}
	}
	return nil, nil
}

func (e *ethEnv) newRedeem(kind string) bool {
	c := e.c
	cur := "ETH"
	if kind == ethKErcRedeem {
		if e.tok == nil {
			return false
		}
		cur = e.tok.TokName
	}
	pack := func(a *big.Int) []byte {
		if kind == ethKErcRedeem {
			return e.packErcRedeem(a, e.tok.TokAddr)
		}
		return e.packRedeem(a)
	}
	contract := e.opt.ContractAddress
	value := big.NewInt(10000000000000000) // the redeem fee the contract asks for
	okLabel := kind
	if kind == ethKErcRedeem {
		contract = e.opt.ERCContractAddress
		value = nil
		// burnERC20Tokens looks the token up by the `to` of the raw transaction, so a redeem really addressed to
		// the LockRedeemERC contract can never be finalised; one addressed to the token contract can.
		if c.Rng.Intn(100) < 60 {
			contract = e.tok.TokAddr
			okLabel = kind + "/to-token"
		}
	}
	owner, bal := e.holder(cur)
	hostile := c.Rng.Intn(100) < 26
	if owner == nil {
		if !hostile {
			return false
		}
		owner, bal = e.pool[pick(c.Rng, len(e.pool))], new(big.Int)
	}
	amt := ethFrac(c.Rng, bal, 10, 70)
	if c.Rng.Intn(8) == 0 {
		amt = new(big.Int).Set(bal) // everything
	}
	if !hostile {
		if amt.Sign() <= 0 {
			return false
		}
		raw := e.rawTx(&contract, value, pack(amt), nil)
		if raw == nil {
			return false
		}
		e.emit(e.redeemTx(kind, owner.Addr, raw, owner), okLabel)
		e.track(kind, owner, raw, amt)
		return true
	}
	atk := e.attacker(owner.Addr)
	switch c.Rng.Intn(10) {
	case 0, 1: // more than the balance
		over := new(big.Int).Add(bal, big.NewInt(1+c.Rng.Int63n(1000000)))
		raw := e.rawTx(&contract, value, pack(over), nil)
		e.emit(e.redeemTx(kind, owner.Addr, raw, owner), kind+"/overdraw")
	case 2: // the same redeem twice in one block
		if amt.Sign() <= 0 {
			return false
		}
		raw := e.rawTx(&contract, value, pack(amt), nil)
		e.emit(e.redeemTx(kind, owner.Addr, raw, owner), kind+"/dup-same-block")
		e.emit(e.redeemTx(kind, owner.Addr, raw, owner), kind+"/dup-same-block")
		e.track(kind, owner, raw, amt)
	case 3, 4: // an earlier redeem again
		var cands []*ethTrk
		for _, h := range e.s.hist {
			if h.kind == kind {
				cands = append(cands, h)
			}
		}
		for _, h := range e.s.trk {
			if h.kind == kind && h.cur != nil {
				cands = append(cands, h)
			}
		}
		if len(cands) == 0 {
			return false
		}
		h := cands[pick(c.Rng, len(cands))]
		label := "/replay-ongoing"
		switch h.outcome {
		case "passed":
			label = "/replay-passed"
		case "failed":
			label = "/replay-failed"
		}
		if c.Rng.Intn(4) == 0 {
			// the same signed Ethereum transaction followed by surplus bytes: not a second transaction, and the
			// tracker name is derived from the submitted bytes
			padded := append(append([]byte{}, h.raw...), e.garbage()...)
			for len(padded) < len(h.raw)+32 {
				padded = append(padded, byte(c.Rng.Intn(256)))
			}
			e.emit(e.redeemTx(kind, h.owner.Addr, padded, h.owner), kind+"/replay-trailing-bytes")
			return true
		}
		e.emit(e.redeemTx(kind, h.owner.Addr, h.raw, h.owner), kind+label)
	case 5: // Owner is somebody else's account (only Validate would notice the signer mismatch)
		if amt.Sign() <= 0 {
			return false
		}
		raw := e.rawTx(&contract, value, pack(amt), nil)
		e.emit(e.redeemTx(kind, owner.Addr, raw, atk), kind+"/owner-not-signer")
		e.track(kind, owner, raw, amt)
	case 6: // zero amount
		raw := e.rawTx(&contract, value, pack(new(big.Int)), nil)
		e.emit(e.redeemTx(kind, owner.Addr, raw, owner), kind+"/zero")
		e.track(kind, owner, raw, new(big.Int))
	case 7: // the redeem call is sent to some other Ethereum address (the `to` of a redeem is never looked at)
		if amt.Sign() <= 0 {
			return false
		}
		other := ethcmn.BytesToAddress(e.garbage())
		raw := e.rawTx(&other, value, pack(amt), nil)
		e.emit(e.redeemTx(kind, owner.Addr, raw, owner), kind+"/wrong-contract")
		e.track(kind, owner, raw, amt)
	case 8: // the selector also occurs earlier in the raw bytes (inside gasPrice): the hex-split parser reads another amount
		if amt.Sign() <= 0 {
			return false
		}
		gp := new(big.Int).Lsh(big.NewInt(0xdb006a75), 224) // db006a75 followed by 28 zero bytes
		if kind == ethKErcRedeem {
			// redeem(uint256,address) takes amount AND token from behind the first selector: the shadow is a
			// complete call with the same (listed) token and another amount the owner can still pay
			gp = e.shadowGasPrice(e.opt.ERCContractABI, "redeem", ethOtherAmount(c.Rng, amt, bal), e.tok.TokAddr)
			if gp == nil {
				return false
			}
		}
		raw := e.rawTx(&contract, value, pack(amt), gp)
		if raw == nil {
			return false
		}
		e.emit(e.redeemTx(kind, owner.Addr, raw, owner), kind+"/selector-shadow")
		e.track(kind, owner, raw, amt)
	default:
		switch {
		case ethCrasherOn(c, "redeem-garbage"):
			// no selector in the bytes: strings.Split returns one element and ss[1] panics
			e.emit(e.redeemTx(kind, owner.Addr, e.garbage(), owner), kind+"/garbage-CRASH")
		case ethCrasherOn(c, "redeem-nil"):
			e.emit(e.redeemTx(kind, owner.Addr, nil, owner), kind+"/nil-raw-CRASH")
		default:
			// selector present but fewer than 32 bytes after it
			b := append(e.garbage(), 0xdb, 0x00, 0x6a, 0x75, 1, 2, 3)
			if kind == ethKErcRedeem {
				return false
			}
			e.emit(e.redeemTx(kind, owner.Addr, b, owner), kind+"/short-data")
		}
	}
	return true
}

// ---- Gen ------------------------------------------------------------------------------------------------

func (Eth) Gen(c *Ctx) []Tx {
	if c == nil || c.W == nil || c.S == nil || c.Rng == nil || c.Ref == nil || c.Ref.App == nil || len(c.W.Users) == 0 {
		return nil
	}
	s := ethSession(c)
	st := c.Ref.ReadState()
	e := &ethEnv{c: c, s: s, opt: c.W.EthOpt, max: 3, wit: map[string]*core.ValidatorKeys{}}
	if opt, err := governance.NewStore("g", st).GetETHChainDriverOption(); err == nil && opt != nil && opt.ContractABI != "" {
		e.opt = *opt
	}
	if len(e.opt.TokenList) > 0 {
		e.tok = &e.opt.TokenList[0]
	}
	e.ts = ethdata.NewTrackerStore("etht", "ethfailed", "ethsuccess", st)
	for _, vk := range c.W.Validators {
		if vk.Witness {
			e.wit[vk.ValKey.Addr.String()] = vk
		}
	}
	// a small pool of lockers so that balances concentrate and redeems become possible
	for i, u := range c.W.Users {
		if i < 3 {
			e.pool = append(e.pool, u)
		}
	}
	// (ETHSECP accounts cannot sign native transactions: their Sign/VerifyBytes need a 32-byte digest)
	if c.Rng.Intn(4) == 0 {
		e.max = 4
	}

	e.refresh()
	if os.Getenv("OLSIM_ETH_DEBUG") != "" {
		if e.remainingETH().Sign() < 0 || e.remainingTTC().Sign() < 0 {
			ethDebugf("H=%d OVERSUPPLY remaining ETH=%s TTC=%s", c.H, e.remainingETH(), e.remainingTTC())
		}
	}

	// 1. witnesses report on ongoing trackers (random start so that nobody starves)
	if n := len(s.trk); n > 0 {
		start := pick(c.Rng, n)
		budget := 2
		for i := 0; i < n && budget > 0; i++ {
			t := s.trk[(start+i)%n]
			before := len(e.out)
			e.witnessVotes(t, false)
			if len(e.out) > before {
				budget--
			}
		}
	}

	// 2. hostile reports
	if e.room() && c.Rng.Intn(100) < 14 {
		e.hostileReport()
	}

	// 3. new trackers
	active := 0
	for _, t := range s.trk {
		if t.plan != "stall" {
			active++
		}
	}
	pNew := 55
	if active >= 4 {
		pNew = 20
	}
	if active >= 7 {
		pNew = 5
	}
	if e.room() && c.Rng.Intn(100) < pNew {
		switch r := c.Rng.Intn(100); {
		case r < 30:
			e.newEthLock()
		case r < 55:
			e.newErcLock()
		case r < 78:
			if !e.newRedeem(ethKRedeem) {
				e.newEthLock()
			}
		default:
			if !e.newRedeem(ethKErcRedeem) {
				e.newErcLock()
			}
		}
	}
	if len(e.out) > 4 {
		e.out = e.out[:4]
	}
	return e.out
}

package gen

// Generators "evidence" (ALLEGATION / ALLEGATION_VOTE / RELEASE plus the staking kinds a frozen or
// released validator sends) and "rewards" (WITHDRAW_REWARD, REWARDS_WITHDRAW_NETWORK_DELEGATE,
// REWARDS_REINVEST_NETWORK_DELEGATE plus a few ADD_NETWORK_DELEGATE so that it works alone).
//
// Both read the committed state of the reference replica through the repository's own stores and
// keep only a little session memory (what they planned for each allegation request).
//
// Variants that are known to KILL the application when they reach DeliverTx (nil dereference or
// logger.Fatal -> os.Exit) are emitted only when the harness opts in with
//     sess.M["lethal"] = true
// so that ordinary runs are not cut short; see evidLethal and the "lethal" labels below.

import (
	"fmt"
	"math"
	"math/big"
	"time"

	"github.com/Oneledger/protocol/action"
	evact "github.com/Oneledger/protocol/action/evidence"
	ndact "github.com/Oneledger/protocol/action/network_delegation"
	rwact "github.com/Oneledger/protocol/action/rewards"
	stact "github.com/Oneledger/protocol/action/staking"
	"github.com/Oneledger/protocol/data/balance"
	evdata "github.com/Oneledger/protocol/data/evidence"
	"github.com/Oneledger/protocol/data/governance"
	"github.com/Oneledger/protocol/data/keys"
	nddata "github.com/Oneledger/protocol/data/network_delegation"
	rwdata "github.com/Oneledger/protocol/data/rewards"
	"github.com/Oneledger/protocol/identity"

	"olsim/core"
)

func init() {
	Register(Evidence{})
	Register(Rewards{})
}

// evidLethal: has the harness allowed transactions that are expected to kill the application?
func evidLethal(c *Ctx) bool {
	v, _ := c.S.M["lethal"].(bool)
	return v
}

// =================================================================================================
// evidence
// =================================================================================================

type Evidence struct{}

func (Evidence) Name() string { return "evidence" }

// evidReq is what the generator planned for one allegation request it emitted.
type evidReq struct {
	ID       string
	Accused  keys.Address
	Reporter keys.Address
	Plan     string // "guilty" | "innocent" | "split"
	Pair     string // partner request that should be decided in the same block ("" = none)
	Born     int64  // height of the block the allegation was emitted for
	Hold     int64  // no votes before this height (request stays open for a while)
	Slow     bool   // at most one vote per block
	Ghost    bool   // the accused is not a validator at all
	Seen     bool   // observed open in committed state
}

type evidSess struct {
	Seq       int
	Reqs      map[string]*evidReq
	Order     []string // ids in emission order
	Closed    []string // ids that were open once and are gone now (decided)
	Ghosts    int
	Restaked  map[string]int64 // validator name -> height of the last top-up stake after a release
	CandStake map[string]int64 // candidate name -> height of the last growth stake
}

func evidSession(c *Ctx) *evidSess {
	if s, ok := c.S.M["evidence"].(*evidSess); ok && s != nil {
		return s
	}
	s := &evidSess{Reqs: map[string]*evidReq{}, Restaked: map[string]int64{}, CandStake: map[string]int64{}}
	if c.Rng.Intn(2) == 0 {
		s.Ghosts = 1 // no allegation against a non-validator in this run (such a request never closes)
	}
	c.S.M["evidence"] = s
	return s
}

// evidView is the committed state the generator looks at, read once per block.
type evidView struct {
	opt      *evdata.Options
	minStake int64
	all      []*core.ValidatorKeys
	active   []*core.ValidatorKeys
	frozen   []*core.ValidatorKeys
	idle     []*core.ValidatorKeys // known keys that are neither active nor frozen
	isActive map[string]bool       // by address string
	isFrozen map[string]bool
	stable   int // active validators that are past the "missed votes" check which hits new joiners
	lvh      map[string]*evdata.LastValidatorHistory
	val      map[string]*identity.Validator
	open     []*evdata.AllegationRequest // ascending by store key
	openID   map[string]*evdata.AllegationRequest
	openBy   map[string]*evdata.AllegationRequest // by accused address string
	now      time.Time                            // time of the last committed block
}

func evidRead(c *Ctx) (v *evidView) {
	defer func() {
		if rec := recover(); rec != nil {
			v = nil
		}
	}()
	if c.Ref == nil || c.Ref.App == nil {
		return nil
	}
	st := c.Ref.ReadState()
	es := evdata.NewEvidenceStore("es", st)
	gs := governance.NewStore("g", st)
	vs := identity.NewValidatorStore("v", "purged", st)
	v = &evidView{
		isActive: map[string]bool{}, isFrozen: map[string]bool{},
		lvh: map[string]*evdata.LastValidatorHistory{}, val: map[string]*identity.Validator{},
		openID: map[string]*evdata.AllegationRequest{}, openBy: map[string]*evdata.AllegationRequest{},
	}
	opt, err := gs.GetEvidenceOptions()
	if err != nil || opt == nil {
		o := c.W.AppState.Governance.EvidenceOptions
		opt = &o
	}
	v.opt = opt
	v.minStake = c.W.Knobs.MinSelfStake
	if so, err := gs.GetStakingOptions(); err == nil && so != nil {
		v.minStake = so.MinSelfDelegationAmount.BigInt().Int64()
	}
	if v.minStake < 4 {
		v.minStake = 4
	}
	v.all = c.W.AllValidatorKeys()
	for _, vk := range v.all {
		a := vk.ValKey.Addr
		k := a.String()
		if val, err := vs.Get(a); err == nil && val != nil {
			v.val[k] = val
		}
		if h, err := es.GetSuspiciousValidator(a, 0, 0); err == nil && h != nil && h.FrozenAt != nil {
			v.lvh[k] = h
			if h.IsFrozen() {
				v.isFrozen[k] = true
			}
		}
		if vst, err := es.GetValidatorStatus(a); err == nil && vst != nil && vst.IsActive {
			v.isActive[k] = true
			// a validator that (re)joins the set has few votes in the BlockVotesDiff window and is often frozen
			// for MISSED_REQUIRED_VOTES a few blocks later: do not rely on it for keeping the chain alive
			if !v.isFrozen[k] && (vst.Height <= 2 || c.H-vst.Height > opt.BlockVotesDiff+3) {
				v.stable++
			}
		}
		switch {
		case v.isFrozen[k]:
			v.frozen = append(v.frozen, vk)
		case v.isActive[k]:
			v.active = append(v.active, vk)
		default:
			v.idle = append(v.idle, vk)
		}
	}
	es.IterateRequests(func(ar *evdata.AllegationRequest) bool {
		v.open = append(v.open, ar)
		v.openID[ar.ID] = ar
		v.openBy[ar.MaliciousAddress.String()] = ar
		return false
	})
	v.now = c.W.GenTime
	if c.E != nil && c.E.C != nil {
		if n := len(c.E.C.Blocks); n > 0 && c.E.C.Blocks[n-1] != nil && c.E.C.Blocks[n-1].Block != nil {
			v.now = c.E.C.Blocks[n-1].Block.Time
		}
	}
	return v
}

// evidNeed mirrors ExecuteAllegationTracker: how many YES votes make a request GUILTY and how many
// NO votes make it INNOCENT when `active` validators are counted at block end.
func evidNeed(active int, opt *evdata.Options) (yes, no int) {
	const never = 1 << 20
	yes, no = never, never
	if active <= 0 || opt == nil || opt.ValidatorVoteDecimals == 0 || opt.AllegationDecimals == 0 {
		return
	}
	req := int(math.Ceil(float64(active) * float64(opt.ValidatorVotePercentage) / float64(opt.ValidatorVoteDecimals)))
	pct := float64(opt.AllegationPercentage) / float64(opt.AllegationDecimals)
	for k := 1; k <= active+2; k++ {
		p := float64(k) / float64(req)
		if yes == never && p > pct {
			yes = k
		}
		if no == never && p > 1-pct {
			no = k
		}
	}
	return
}

func (v *evidView) keyOf(a keys.Address) *core.ValidatorKeys {
	for _, vk := range v.all {
		if vk.ValKey.Addr.Equal(a) {
			return vk
		}
	}
	return nil
}

// releaseReady: would a RELEASE by this frozen validator pass ReleaseReady in the next block?
func (v *evidView) releaseReady(vk *core.ValidatorKeys) bool {
	h := v.lvh[vk.ValKey.Addr.String()]
	if h == nil || h.FrozenAt == nil {
		return false
	}
	switch h.Status {
	case evdata.MISSED_REQUIRED_VOTES:
		return true
	case evdata.BYZANTINE_FAULT:
		// the next block's time is later than the last block's time
		return !v.now.Before(h.FrozenAt.AddDate(0, 0, int(v.opt.ValidatorReleaseTime)))
	}
	return false
}

func evidAllegTx(c *Ctx, signer *core.Account, reporter, accused keys.Address, id string, height int64, kind string) Tx {
	msg := &evact.Allegation{RequestID: id, ValidatorAddress: reporter, MaliciousAddress: accused, BlockHeight: height, ProofMsg: "proof-" + memo(c)}
	return Tx{Bytes: core.BuildTx(msg, core.DefaultFee(), memo(c), signer), Kind: kind}
}

func evidVoteTx(c *Ctx, signer *core.Account, voter keys.Address, id string, choice int8, kind string) Tx {
	msg := &evact.AllegationVote{RequestID: id, Address: voter, Choice: choice}
	return Tx{Bytes: core.BuildTx(msg, core.DefaultFee(), memo(c), signer), Kind: kind}
}

func evidReleaseTx(c *Ctx, signer *core.Account, val keys.Address, kind string) Tx {
	msg := &evact.Release{ValidatorAddress: val}
	return Tx{Bytes: core.BuildTx(msg, core.DefaultFee(), memo(c), signer), Kind: kind}
}

func evidStakeTx(c *Ctx, vk *core.ValidatorKeys, amt int64, kind string) Tx {
	msg := &stact.Stake{ValidatorAddress: vk.ValKey.Addr, StakeAddress: vk.NodeKey.Addr, ValidatorPubKey: vk.ValKey.Pub,
		ValidatorECDSAPubKey: vk.EcPub, NodeName: vk.Name, Stake: core.OLTi(amt)}
	return Tx{Bytes: core.BuildTx(msg, core.DefaultFee(), memo(c), vk.NodeKey, vk.ValKey), Kind: kind}
}

func evidUnstakeTx(c *Ctx, vk *core.ValidatorKeys, amt int64, kind string) Tx {
	msg := &stact.Unstake{ValidatorAddress: vk.ValKey.Addr, StakeAddress: vk.NodeKey.Addr, Stake: core.OLTi(amt)}
	return Tx{Bytes: core.BuildTx(msg, core.DefaultFee(), memo(c), vk.NodeKey, vk.ValKey), Kind: kind}
}

func evidWithdrawTx(c *Ctx, vk *core.ValidatorKeys, amt int64, kind string) Tx {
	msg := &stact.Withdraw{ValidatorAddress: vk.ValKey.Addr, StakeAddress: vk.NodeKey.Addr, Stake: core.OLTi(amt)}
	return Tx{Bytes: core.BuildTx(msg, core.DefaultFee(), memo(c), vk.NodeKey, vk.ValKey), Kind: kind}
}

func (s *evidSess) newID(c *Ctx) string {
	s.Seq++
	return fmt.Sprintf("req-%d-%s", s.Seq, memo(c))
}

// sync reconciles the session with the committed state.
func (s *evidSess) sync(c *Ctx, v *evidView) {
	var keep []string
	for _, id := range s.Order {
		r := s.Reqs[id]
		if r == nil {
			continue
		}
		if v.openID[id] != nil {
			r.Seen = true
			keep = append(keep, id)
			continue
		}
		if r.Seen {
			// was open, is gone: decided (GUILTY or INNOCENT) and deleted
			s.Closed = append(s.Closed, id)
			if len(s.Closed) > 16 {
				s.Closed = s.Closed[len(s.Closed)-16:]
			}
			delete(s.Reqs, id)
			continue
		}
		if c.H-r.Born > 2 {
			delete(s.Reqs, id) // never made it into the state
			continue
		}
		keep = append(keep, id)
	}
	s.Order = keep
}

// votersFor lists active, not frozen validators that have not voted on ar yet (PRNG order);
// the accused is returned separately.
func (v *evidView) votersFor(c *Ctx, ar *evdata.AllegationRequest) (others []*core.ValidatorKeys, accused *core.ValidatorKeys) {
	voted := map[string]bool{}
	for _, vt := range ar.Votes {
		if vt != nil {
			voted[vt.Address.String()] = true
		}
	}
	for _, i := range c.Rng.Perm(len(v.active)) {
		vk := v.active[i]
		if voted[vk.ValKey.Addr.String()] {
			continue
		}
		if vk.ValKey.Addr.Equal(ar.MaliciousAddress) {
			accused = vk
			continue
		}
		others = append(others, vk)
	}
	return
}

func evidCount(ar *evdata.AllegationRequest) (yes, no int) {
	for _, vt := range ar.Votes {
		if vt == nil {
			continue
		}
		switch vt.Choice {
		case evdata.YES:
			yes++
		case evdata.NO:
			no++
		}
	}
	return
}

// planNeed: which choice the plan wants next and how many more of them cross the threshold.
func (v *evidView) planNeed(r *evidReq, ar *evdata.AllegationRequest) (choice int8, need int) {
	yesN, noN := evidNeed(len(v.active), v.opt)
	y, n := evidCount(ar)
	switch r.Plan {
	case "innocent":
		return evdata.NO, noN - n
	case "split":
		if y <= n {
			return evdata.YES, yesN - y
		}
		return evdata.NO, noN - n
	}
	return evdata.YES, yesN - y
}

func evidChoiceName(ch int8) string {
	if ch == evdata.YES {
		return "yes"
	}
	return "no"
}

func (Evidence) Gen(c *Ctx) (out []Tx) {
	defer func() {
		if rec := recover(); rec != nil {
			if _, ok := rec.(core.HarnessError); ok {
				panic(rec)
			}
			out = nil // never let a surprise in the state take the run down
		}
	}()
	if c.H < 3 || len(c.W.Users) == 0 {
		return nil // validator statuses are first written at the end of block 2
	}
	v := evidRead(c)
	if v == nil {
		return nil
	}
	s := evidSession(c)
	s.sync(c, v)

	var flow, extra []Tx

	// ---- 1. releases of frozen validators whose time has come -----------------------------------
	for _, vk := range v.frozen {
		if !v.releaseReady(vk) || v.val[vk.ValKey.Addr.String()] == nil {
			continue
		}
		if c.Rng.Intn(5) < 2 {
			flow = append(flow, evidReleaseTx(c, vk.ValKey, vk.ValKey.Addr, "RELEASE"))
			if c.Rng.Intn(6) == 0 {
				extra = append(extra, evidReleaseTx(c, vk.ValKey, vk.ValKey.Addr, "RELEASE/twice"))
			}
		}
	}

	// ---- 2. released validators that fell below the minimum stake top up ------------------------
	for _, vk := range v.idle {
		k := vk.ValKey.Addr.String()
		val := v.val[k]
		if val == nil || val.Power >= v.minStake {
			continue
		}
		kind := "STAKE/after-release"
		if v.lvh[k] == nil {
			// never frozen, fell out of the set by unstaking: only helped back when the set is nearly empty
			if len(v.active) > 2 {
				continue
			}
			kind = "STAKE/rescue"
		}
		if c.H-s.Restaked[vk.Name] < 4 || c.Rng.Intn(2) != 0 {
			continue
		}
		s.Restaked[vk.Name] = c.H
		amt := v.minStake - val.Power + c.Rng.Int63n(v.minStake/4+1)
		flow = append(flow, evidStakeTx(c, vk, amt, kind))
	}

	// ---- 3. votes on open requests, according to plan --------------------------------------------
	budget := 3
	done := map[string]bool{}
	emitVotes := func(r *evidReq, ar *evdata.AllegationRequest, n int, finalOK bool) {
		choice, need := v.planNeed(r, ar)
		if need <= 0 || n <= 0 {
			return
		}
		others, accused := v.votersFor(c, ar)
		// the reporter may vote as well; keep PRNG order
		for _, vk := range others {
			if n == 0 || budget == 0 {
				break
			}
			if need == 1 && !finalOK {
				break
			}
			kind := "ALLEGATION_VOTE/" + evidChoiceName(choice)
			if need == 1 {
				kind += "-final"
			}
			flow = append(flow, evidVoteTx(c, vk.ValKey, vk.ValKey.Addr, ar.ID, choice, kind))
			need--
			n--
			budget--
		}
		// the accused defends itself now and then (a NO that the guilty plan does not count on)
		if accused != nil && budget > 0 && c.Rng.Intn(4) == 0 {
			ch, kind := evdata.NO, "ALLEGATION_VOTE/accused-no"
			if c.Rng.Intn(6) == 0 {
				ch, kind = evdata.YES, "ALLEGATION_VOTE/accused-yes"
			}
			extra = append(extra, evidVoteTx(c, accused.ValKey, accused.ValKey.Addr, ar.ID, ch, kind))
		}
	}
	for _, id := range s.Order {
		r := s.Reqs[id]
		ar := v.openID[id]
		if r == nil || ar == nil || done[id] || c.H < r.Hold {
			continue
		}
		done[id] = true
		if r.Pair != "" && c.H-r.Born <= 8 {
			pr, par := s.Reqs[r.Pair], v.openID[r.Pair]
			if pr != nil && par != nil {
				// synchronised pair: bring both to one vote short, then cast both final votes together
				done[r.Pair] = true
				_, n1 := v.planNeed(r, ar)
				_, n2 := v.planNeed(pr, par)
				if n1 <= 1 && n2 <= 1 {
					if budget >= 2 {
						emitVotes(r, ar, 1, true)
						emitVotes(pr, par, 1, true)
					}
				} else {
					emitVotes(r, ar, n1-1, false)
					emitVotes(pr, par, n2-1, false)
				}
				continue
			}
		}
		if r.Slow {
			if c.Rng.Intn(5) < 3 {
				emitVotes(r, ar, 1, true)
			}
			continue
		}
		emitVotes(r, ar, budget, true)
	}

	// ---- 4. new allegations ------------------------------------------------------------------------
	openOnActive := 0
	for _, ar := range v.open {
		if v.isActive[ar.MaliciousAddress.String()] {
			openOnActive++
		}
	}
	rem := v.stable - openOnActive // established active validators nobody accuses at the moment (pessimistic)
	realOpen := 0                  // requests against known validator keys (a request against a non-validator never closes)
	for _, ar := range v.open {
		if v.keyOf(ar.MaliciousAddress) != nil {
			realOpen++
		}
	}
	pNew := 30
	if realOpen > 0 {
		pNew = 10
	}
	if realOpen >= 3 {
		pNew = 0
	}
	if len(v.active) >= 2 && c.Rng.Intn(100) < pNew {
		// accused candidates: active validators without an open request (mostly), sometimes an idle one
		var targets []*core.ValidatorKeys
		for _, vk := range v.active {
			if v.openBy[vk.ValKey.Addr.String()] == nil {
				targets = append(targets, vk)
			}
		}
		plan := "guilty"
		switch x := c.Rng.Intn(10); {
		case x < 3:
			plan = "innocent"
		case x < 4:
			plan = "split"
		}
		kind := "ALLEGATION"
		ok := false
		switch {
		case plan == "innocent" && rem >= 3:
			ok = true
		case plan != "innocent" && rem-1 >= 3:
			ok = true
		case rem-1 >= 1 && c.Rng.Intn(100) < 3:
			// the chain keeps at least one validator nobody accuses, but the set may get very small
			ok, kind, plan = true, "ALLEGATION/last-ones", "guilty"
		}
		if ok && len(targets) >= 1 {
			mk := func(plan, kind string, avoid keys.Address) *evidReq {
				var acc *core.ValidatorKeys
				for _, i := range c.Rng.Perm(len(targets)) {
					if avoid == nil || !targets[i].ValKey.Addr.Equal(avoid) {
						acc = targets[i]
						break
					}
				}
				if acc == nil {
					return nil
				}
				var rep *core.ValidatorKeys
				for _, i := range c.Rng.Perm(len(v.active)) {
					if !v.active[i].ValKey.Addr.Equal(acc.ValKey.Addr) {
						rep = v.active[i]
						break
					}
				}
				if rep == nil {
					return nil
				}
				r := &evidReq{ID: s.newID(c), Accused: acc.ValKey.Addr, Reporter: rep.ValKey.Addr, Plan: plan, Born: c.H}
				switch c.Rng.Intn(6) {
				case 0, 1:
					r.Hold = c.H + 2 + int64(c.Rng.Intn(5)) // stays open for a while
				case 2:
					r.Slow = true
				}
				h := c.H - int64(c.Rng.Intn(3))
				flow = append(flow, evidAllegTx(c, rep.ValKey, rep.ValKey.Addr, acc.ValKey.Addr, r.ID, h, kind))
				s.Reqs[r.ID] = r
				s.Order = append(s.Order, r.ID)
				return r
			}
			r1 := mk(plan, kind, nil)
			// a second allegation against another validator in the same block, to be decided together
			if r1 != nil && kind == "ALLEGATION" && len(targets) >= 2 && c.Rng.Intn(3) == 0 {
				plan2 := "innocent"
				if rem-2 >= 3 && c.Rng.Intn(2) == 0 {
					plan2 = "guilty"
				}
				if plan2 == "guilty" || rem-1 >= 3 || plan == "innocent" {
					if r2 := mk(plan2, "ALLEGATION/pair", r1.Accused); r2 != nil {
						r1.Pair, r2.Pair = r2.ID, r1.ID
						r1.Slow, r2.Slow = false, false
						r2.Hold = r1.Hold
					}
				}
			}
		}
	}

	// ---- 5. keep the validator set from getting tiny: candidates stake -----------------------------
	if len(v.active) < 5 && c.Rng.Intn(4) == 0 {
		for _, i := range c.Rng.Perm(len(c.W.Candidates)) {
			vk := c.W.Candidates[i]
			k := vk.ValKey.Addr.String()
			if v.isActive[k] || v.isFrozen[k] || v.lvh[k] != nil || c.H-s.CandStake[vk.Name] < 5 {
				continue
			}
			if val := v.val[k]; val != nil && val.Power >= v.minStake {
				continue
			}
			s.CandStake[vk.Name] = c.H
			amt := v.minStake + c.Rng.Int63n(v.minStake+1)
			flow = append(flow, evidStakeTx(c, vk, amt, "STAKE/candidate"))
			break
		}
	}

	// ---- 6. hostile / odd variants -------------------------------------------------------------------
	if c.Rng.Intn(100) < 35 {
		if tx, ok := evidHostile(c, v, s); ok {
			extra = append(extra, tx...)
		}
	}

	out = append(flow, extra...)
	if len(out) > 4 {
		out = out[:4]
	}
	return out
}

// evidHostile picks one applicable hostile variant.
func evidHostile(c *Ctx, v *evidView, s *evidSess) ([]Tx, bool) {
	user := c.W.Users[pick(c.Rng, len(c.W.Users))]
	pickOf := func(l []*core.ValidatorKeys) *core.ValidatorKeys {
		if len(l) == 0 {
			return nil
		}
		return l[pick(c.Rng, len(l))]
	}
	anyOpen := func() *evdata.AllegationRequest {
		if len(v.open) == 0 {
			return nil
		}
		var realOnes []*evdata.AllegationRequest
		for _, ar := range v.open {
			if v.keyOf(ar.MaliciousAddress) != nil {
				realOnes = append(realOnes, ar)
			}
		}
		if len(realOnes) > 0 && c.Rng.Intn(5) != 0 {
			return realOnes[pick(c.Rng, len(realOnes))]
		}
		return v.open[pick(c.Rng, len(v.open))]
	}
	// free target: an active validator without an open request, such that the chain keeps >= 3
	// active validators nobody accuses even if this hostile transaction unexpectedly succeeded
	freeTarget := func() *core.ValidatorKeys {
		openOnActive := 0
		for _, ar := range v.open {
			if v.isActive[ar.MaliciousAddress.String()] {
				openOnActive++
			}
		}
		if v.stable-openOnActive-1 < 3 {
			return nil
		}
		for _, i := range c.Rng.Perm(len(v.active)) {
			if v.openBy[v.active[i].ValKey.Addr.String()] == nil {
				return v.active[i]
			}
		}
		return nil
	}
	type variant func() ([]Tx, bool)
	one := func(t Tx) ([]Tx, bool) { return []Tx{t}, true }
	no := func() ([]Tx, bool) { return nil, false }
	vars := []variant{
		// --- allegations
		func() ([]Tx, bool) { // a plain user accuses an active validator
			acc := pickOf(v.active)
			if acc == nil {
				return no()
			}
			return one(evidAllegTx(c, user, user.Addr, acc.ValKey.Addr, s.newID(c), c.H-1, "ALLEGATION/by-user"))
		},
		func() ([]Tx, bool) { // a staked-but-inactive or unstaked candidate accuses
			rep, acc := pickOf(v.idle), pickOf(v.active)
			if rep == nil || acc == nil {
				return no()
			}
			return one(evidAllegTx(c, rep.ValKey, rep.ValKey.Addr, acc.ValKey.Addr, s.newID(c), c.H-1, "ALLEGATION/by-inactive"))
		},
		func() ([]Tx, bool) { // a frozen validator accuses
			rep, acc := pickOf(v.frozen), pickOf(v.active)
			if rep == nil || acc == nil {
				return no()
			}
			return one(evidAllegTx(c, rep.ValKey, rep.ValKey.Addr, acc.ValKey.Addr, s.newID(c), c.H-1, "ALLEGATION/by-frozen"))
		},
		func() ([]Tx, bool) { // accusing oneself
			rep := pickOf(v.active)
			if rep == nil {
				return no()
			}
			return one(evidAllegTx(c, rep.ValKey, rep.ValKey.Addr, rep.ValKey.Addr, s.newID(c), c.H-1, "ALLEGATION/self"))
		},
		func() ([]Tx, bool) { // accusing a frozen validator
			rep, acc := pickOf(v.active), pickOf(v.frozen)
			if rep == nil || acc == nil {
				return no()
			}
			return one(evidAllegTx(c, rep.ValKey, rep.ValKey.Addr, acc.ValKey.Addr, s.newID(c), c.H-1, "ALLEGATION/frozen-accused"))
		},
		func() ([]Tx, bool) { // evidence from the future
			rep, acc := pickOf(v.active), freeTarget()
			if rep == nil || acc == nil || rep == acc {
				return no()
			}
			return one(evidAllegTx(c, rep.ValKey, rep.ValKey.Addr, acc.ValKey.Addr, s.newID(c), c.H+1+int64(c.Rng.Intn(50)), "ALLEGATION/future-height"))
		},
		func() ([]Tx, bool) { // RequestID of a request that is still open
			rep, ar, acc := pickOf(v.active), anyOpen(), freeTarget()
			if rep == nil || ar == nil || acc == nil || rep == acc {
				return no()
			}
			return one(evidAllegTx(c, rep.ValKey, rep.ValKey.Addr, acc.ValKey.Addr, ar.ID, c.H-1, "ALLEGATION/dup-id"))
		},
		func() ([]Tx, bool) { // second request against a validator that already has an open one
			rep, ar := pickOf(v.active), anyOpen()
			if rep == nil || ar == nil || rep.ValKey.Addr.Equal(ar.MaliciousAddress) {
				return no()
			}
			return one(evidAllegTx(c, rep.ValKey, rep.ValKey.Addr, ar.MaliciousAddress, s.newID(c), c.H-1, "ALLEGATION/same-accused"))
		},
		func() ([]Tx, bool) { // RequestID of a decided (deleted) request is free again: becomes a planned, tracked request
			if len(s.Closed) == 0 || len(v.active) < 2 {
				return no()
			}
			acc := freeTarget()
			if acc == nil {
				return no()
			}
			var rep *core.ValidatorKeys
			for _, i := range c.Rng.Perm(len(v.active)) {
				if v.active[i] != acc {
					rep = v.active[i]
					break
				}
			}
			id := s.Closed[pick(c.Rng, len(s.Closed))]
			if rep == nil || s.Reqs[id] != nil || v.openID[id] != nil {
				return no()
			}
			r := &evidReq{ID: id, Accused: acc.ValKey.Addr, Reporter: rep.ValKey.Addr, Plan: "innocent", Born: c.H}
			s.Reqs[id] = r
			s.Order = append(s.Order, id)
			return one(evidAllegTx(c, rep.ValKey, rep.ValKey.Addr, acc.ValKey.Addr, id, c.H-1, "ALLEGATION/reuse-closed-id"))
		},
		func() ([]Tx, bool) { // two reporters race for the same accused in one block
			acc := freeTarget()
			if acc == nil || len(v.active) < 3 {
				return no()
			}
			var reps []*core.ValidatorKeys
			for _, i := range c.Rng.Perm(len(v.active)) {
				if v.active[i] != acc && len(reps) < 2 {
					reps = append(reps, v.active[i])
				}
			}
			if len(reps) < 2 {
				return no()
			}
			var txs []Tx
			for _, rep := range reps {
				r := &evidReq{ID: s.newID(c), Accused: acc.ValKey.Addr, Reporter: rep.ValKey.Addr, Plan: "innocent", Born: c.H}
				s.Reqs[r.ID] = r
				s.Order = append(s.Order, r.ID)
				txs = append(txs, evidAllegTx(c, rep.ValKey, rep.ValKey.Addr, acc.ValKey.Addr, r.ID, c.H-1, "ALLEGATION/race"))
			}
			return txs, true
		},
		func() ([]Tx, bool) { // the accused is not a validator at all (accepted by the handler; tracked and voted guilty)
			rep := pickOf(v.active)
			if rep == nil || s.Ghosts >= 1 {
				return no()
			}
			ghost := core.NewEdAccount(c.W.Seed, "evid-ghost")
			if c.Rng.Intn(2) == 0 {
				ghost = user
			}
			if v.openBy[ghost.Addr.String()] != nil {
				return no()
			}
			s.Ghosts++
			r := &evidReq{ID: s.newID(c), Accused: ghost.Addr, Reporter: rep.ValKey.Addr, Plan: "guilty", Born: c.H, Ghost: true, Slow: true}
			s.Reqs[r.ID] = r
			s.Order = append(s.Order, r.ID)
			return one(evidAllegTx(c, rep.ValKey, rep.ValKey.Addr, ghost.Addr, r.ID, c.H-1, "ALLEGATION/non-validator"))
		},
		// --- votes
		func() ([]Tx, bool) {
			ar := anyOpen()
			if ar == nil {
				return no()
			}
			return one(evidVoteTx(c, user, user.Addr, ar.ID, evdata.YES, "ALLEGATION_VOTE/by-user"))
		},
		func() ([]Tx, bool) {
			ar, vk := anyOpen(), pickOf(v.idle)
			if ar == nil || vk == nil {
				return no()
			}
			return one(evidVoteTx(c, vk.ValKey, vk.ValKey.Addr, ar.ID, evdata.YES, "ALLEGATION_VOTE/by-inactive"))
		},
		func() ([]Tx, bool) {
			ar, vk := anyOpen(), pickOf(v.frozen)
			if ar == nil || vk == nil {
				return no()
			}
			return one(evidVoteTx(c, vk.ValKey, vk.ValKey.Addr, ar.ID, evdata.YES, "ALLEGATION_VOTE/by-frozen"))
		},
		func() ([]Tx, bool) { // a validator that has voted votes again (same choice: the verdict plan is not disturbed if it slipped through)
			ar := anyOpen()
			if ar == nil || len(ar.Votes) == 0 {
				return no()
			}
			vt := ar.Votes[pick(c.Rng, len(ar.Votes))]
			if vt == nil {
				return no()
			}
			vk := v.keyOf(vt.Address)
			if vk == nil {
				return no()
			}
			return one(evidVoteTx(c, vk.ValKey, vk.ValKey.Addr, ar.ID, vt.Choice, "ALLEGATION_VOTE/double"))
		},
		func() ([]Tx, bool) {
			vk := pickOf(v.active)
			if vk == nil {
				return no()
			}
			return one(evidVoteTx(c, vk.ValKey, vk.ValKey.Addr, "no-such-"+memo(c), evdata.YES, "ALLEGATION_VOTE/unknown-request"))
		},
		func() ([]Tx, bool) { // vote on a request that has been decided (it is deleted at the verdict)
			vk := pickOf(v.active)
			if vk == nil || len(s.Closed) == 0 {
				return no()
			}
			id := s.Closed[pick(c.Rng, len(s.Closed))]
			if v.openID[id] != nil {
				return no()
			}
			return one(evidVoteTx(c, vk.ValKey, vk.ValKey.Addr, id, evdata.YES, "ALLEGATION_VOTE/after-verdict"))
		},
		func() ([]Tx, bool) { // neither YES nor NO
			ar := anyOpen()
			if ar == nil {
				return no()
			}
			others, _ := v.votersFor(c, ar)
			if len(others) == 0 {
				return no()
			}
			ch := []int8{0, 3, -1, 127}[c.Rng.Intn(4)]
			return one(evidVoteTx(c, others[0].ValKey, others[0].ValKey.Addr, ar.ID, ch, "ALLEGATION_VOTE/bad-choice"))
		},
		func() ([]Tx, bool) { // LETHAL: validator A signs a vote in the name of validator B -> nil error in StakingPayerFeeHandling
			ar := anyOpen()
			if ar == nil || !evidLethal(c) {
				return no()
			}
			others, _ := v.votersFor(c, ar)
			if len(others) < 2 {
				return no()
			}
			return one(evidVoteTx(c, others[0].ValKey, others[1].ValKey.Addr, ar.ID, evdata.NO, "ALLEGATION_VOTE/forged-validator-lethal"))
		},
		// --- releases
		func() ([]Tx, bool) {
			vk := pickOf(v.frozen)
			if vk == nil || v.releaseReady(vk) {
				return no()
			}
			return one(evidReleaseTx(c, vk.ValKey, vk.ValKey.Addr, "RELEASE/too-early"))
		},
		func() ([]Tx, bool) { // somebody else (a plain user) asks for the release
			vk := pickOf(v.frozen)
			if vk == nil {
				return no()
			}
			return one(evidReleaseTx(c, user, vk.ValKey.Addr, "RELEASE/by-user"))
		},
		func() ([]Tx, bool) { // never frozen, or released already
			vk := pickOf(append(append([]*core.ValidatorKeys{}, v.active...), v.idle...))
			if vk == nil {
				return no()
			}
			return one(evidReleaseTx(c, vk.ValKey, vk.ValKey.Addr, "RELEASE/not-frozen"))
		},
		func() ([]Tx, bool) { // LETHAL: another validator signs the release
			vk, other := pickOf(v.frozen), pickOf(v.active)
			if vk == nil || other == nil || !evidLethal(c) {
				return no()
			}
			return one(evidReleaseTx(c, other.ValKey, vk.ValKey.Addr, "RELEASE/by-other-validator-lethal"))
		},
		// --- staking kinds of a frozen / accused validator
		func() ([]Tx, bool) {
			vk := pickOf(v.frozen)
			if vk == nil {
				return no()
			}
			return one(evidStakeTx(c, vk, 1+c.Rng.Int63n(v.minStake), "STAKE/frozen"))
		},
		func() ([]Tx, bool) {
			vk := pickOf(v.frozen)
			if vk == nil {
				return no()
			}
			return one(evidUnstakeTx(c, vk, 1+c.Rng.Int63n(v.minStake/2+1), "UNSTAKE/frozen"))
		},
		func() ([]Tx, bool) {
			vk := pickOf(v.frozen)
			if vk == nil {
				return no()
			}
			return one(evidWithdrawTx(c, vk, 1+c.Rng.Int63n(v.minStake/2+1), "WITHDRAW/frozen"))
		},
		func() ([]Tx, bool) { // the same validator votes twice in ONE block (the plan's choice, so the first one is an ordinary vote)
			ar := anyOpen()
			if ar == nil {
				return no()
			}
			others, _ := v.votersFor(c, ar)
			if len(others) == 0 {
				return no()
			}
			ch := evdata.NO
			if r := s.Reqs[ar.ID]; r != nil {
				if c.H < r.Hold {
					return no()
				}
				ch, _ = v.planNeed(r, ar)
			}
			vk := others[0]
			return []Tx{evidVoteTx(c, vk.ValKey, vk.ValKey.Addr, ar.ID, ch, "ALLEGATION_VOTE/double-same-block"),
				evidVoteTx(c, vk.ValKey, vk.ValKey.Addr, ar.ID, ch, "ALLEGATION_VOTE/double-same-block")}, true
		},
		func() ([]Tx, bool) { // unstaking while an allegation against oneself is open
			ar := anyOpen()
			if ar == nil {
				return no()
			}
			vk := v.keyOf(ar.MaliciousAddress)
			if vk == nil {
				return no()
			}
			return one(evidUnstakeTx(c, vk, 1+c.Rng.Int63n(v.minStake/2+1), "UNSTAKE/accused"))
		},
	}
	// weights, same order as vars: variants that are always applicable are drawn less often than
	// those that need a particular state (open request, frozen validator, decided request ...)
	weights := []int{1, 2, 2, 1, 2, 2, 4, 4, 3, 2, 2 /*votes*/, 3, 3, 3, 5, 1, 2, 3, 2 /*releases*/, 3, 2, 1, 2 /*staking*/, 2, 2, 2 /*double-same-block*/, 3 /*unstake accused*/, 4}
	total := 0
	for i := range vars {
		w := 1
		if i < len(weights) {
			w = weights[i]
		}
		total += w
	}
	for try := 0; try < 8; try++ {
		x := c.Rng.Intn(total)
		idx := 0
		for i := range vars {
			w := 1
			if i < len(weights) {
				w = weights[i]
			}
			if x < w {
				idx = i
				break
			}
			x -= w
		}
		if txs, ok := vars[idx](); ok {
			return txs, true
		}
	}
	return nil, false
}

// =================================================================================================
// rewards
// =================================================================================================

type Rewards struct{}

func (Rewards) Name() string { return "rewards" }

type rwSess struct {
	LastDeleg map[string]int64 // user label -> height of the last ADD_NETWORK_DELEGATE we sent
}

func rwSession(c *Ctx) *rwSess {
	if s, ok := c.S.M["rewards"].(*rwSess); ok && s != nil {
		return s
	}
	s := &rwSess{LastDeleg: map[string]int64{}}
	c.S.M["rewards"] = s
	return s
}

type rwDelegator struct {
	u       *core.Account
	deleg   *big.Int // active network delegation (nue)
	rewards *big.Int // withdrawable delegation rewards balance (nue)
}

type rwValidator struct {
	vk      *core.ValidatorKeys
	val     *identity.Validator // nil when there is no validator record
	matured *big.Int            // matured, not yet withdrawn block rewards (nue)
}

type rwView struct {
	dels []rwDelegator
	vals []rwValidator
}

func rwRead(c *Ctx) (v *rwView) {
	defer func() {
		if rec := recover(); rec != nil {
			v = nil
		}
	}()
	if c.Ref == nil || c.Ref.App == nil {
		return nil
	}
	st := c.Ref.ReadState()
	ms := nddata.NewMasterStore("deleg", "delegRwz", st)
	rcm := rwdata.NewRewardCumulativeStore("rwcum", st)
	vs := identity.NewValidatorStore("v", "purged", st)
	v = &rwView{}
	for _, u := range c.W.Users {
		d := rwDelegator{u: u, deleg: new(big.Int), rewards: new(big.Int)}
		if coin, err := ms.Deleg.WithPrefix(nddata.ActiveType).Get(u.Addr); err == nil && coin != nil && coin.Amount != nil {
			d.deleg.Set(coin.Amount.BigInt())
		}
		if a, err := ms.Rewards.GetRewardsBalance(u.Addr); err == nil && a != nil {
			d.rewards.Set(a.BigInt())
		}
		v.dels = append(v.dels, d)
	}
	for _, vk := range c.W.AllValidatorKeys() {
		r := rwValidator{vk: vk, matured: new(big.Int)}
		if val, err := vs.Get(vk.ValKey.Addr); err == nil && val != nil {
			r.val = val
		}
		if a, err := rcm.GetMaturedBalance(vk.ValKey.Addr); err == nil && a != nil {
			r.matured.Set(a.BigInt())
		}
		v.vals = append(v.vals, r)
	}
	return v
}

func rwAmount(cur string, x *big.Int) action.Amount {
	return action.Amount{Currency: cur, Value: *balance.NewAmountFromBigInt(new(big.Int).Set(x))}
}

func rwFrac(c *Ctx, x *big.Int, loPct, hiPct int) *big.Int {
	p := int64(loPct + c.Rng.Intn(hiPct-loPct+1))
	r := new(big.Int).Mul(x, big.NewInt(p))
	r.Div(r, big.NewInt(100))
	if r.Sign() == 0 && x.Sign() > 0 {
		r.SetInt64(1)
	}
	return r
}

func rwDelegTx(c *Ctx, u *core.Account, nue *big.Int, kind string) Tx {
	msg := &ndact.AddNetworkDelegation{DelegationAddress: u.Addr, Amount: core.OLT(nue)}
	return Tx{Bytes: core.BuildTx(msg, core.DefaultFee(), memo(c), u), Kind: kind}
}

func rwNdWithdrawTx(c *Ctx, signer *core.Account, delegator keys.Address, amt action.Amount, kind string) Tx {
	msg := &ndact.Withdraw{Delegator: delegator, Amount: amt}
	return Tx{Bytes: core.BuildTx(msg, core.DefaultFee(), memo(c), signer), Kind: kind}
}

func rwNdReinvestTx(c *Ctx, signer *core.Account, delegator keys.Address, amt action.Amount, kind string) Tx {
	msg := &ndact.Reinvest{Delegator: delegator, Amount: amt}
	return Tx{Bytes: core.BuildTx(msg, core.DefaultFee(), memo(c), signer), Kind: kind}
}

// rwValWithdrawTx: WithdrawAmount is in WHOLE OLT (the handler uses ToCoinWithBase).
func rwValWithdrawTx(c *Ctx, signer *core.Account, validator, signerAddr keys.Address, cur string, olt int64, kind string) Tx {
	msg := &rwact.Withdraw{ValidatorAddress: validator, SignerAddress: signerAddr, WithdrawAmount: action.Amount{Currency: cur, Value: *balance.NewAmount(olt)}}
	return Tx{Bytes: core.BuildTx(msg, core.DefaultFee(), memo(c), signer), Kind: kind}
}

func (Rewards) Gen(c *Ctx) (out []Tx) {
	defer func() {
		if rec := recover(); rec != nil {
			if _, ok := rec.(core.HarnessError); ok {
				panic(rec)
			}
			out = nil
		}
	}()
	if len(c.W.Users) == 0 {
		return nil
	}
	v := rwRead(c)
	if v == nil {
		return nil
	}
	s := rwSession(c)

	// ---- 1. a few designated delegators get (and sometimes raise) a network delegation -----------
	nDes := 3
	if nDes > len(v.dels) {
		nDes = len(v.dels)
	}
	for i := 0; i < nDes; i++ {
		d := v.dels[i]
		need := d.deleg.Sign() <= 0 && c.H-s.LastDeleg[d.u.Label] > 2 && (c.H <= 10 || c.Rng.Intn(4) == 0)
		topUp := d.deleg.Sign() > 0 && c.Rng.Intn(40) == 0
		if !need && !topUp {
			continue
		}
		s.LastDeleg[d.u.Label] = c.H
		amt := new(big.Int).Add(nueOf(5000), bigRand(c.Rng, nueOf(400000)))
		out = append(out, rwDelegTx(c, d.u, amt, "ADD_NETWORK_DELEGATE"))
		break
	}

	// ---- 2. delegation rewards --------------------------------------------------------------------
	if c.Rng.Intn(100) < 60 {
		out = append(out, rwDelegatorOp(c, v)...)
	}
	// ---- 3. validator block rewards --------------------------------------------------------------
	if c.Rng.Intn(100) < 50 {
		out = append(out, rwValidatorOp(c, v)...)
	}
	if len(out) > 4 {
		out = out[:4]
	}
	return out
}

func rwDelegatorOp(c *Ctx, v *rwView) []Tx {
	var rich, poor []rwDelegator
	for _, d := range v.dels {
		if d.rewards.Sign() > 0 {
			rich = append(rich, d)
		} else {
			poor = append(poor, d)
		}
	}
	stranger := c.W.Users[pick(c.Rng, len(c.W.Users))]
	if len(rich) == 0 {
		// nothing accrued yet: only the "no rewards" variants make sense, at a low rate
		if len(poor) == 0 || c.Rng.Intn(4) != 0 {
			return nil
		}
		d := poor[pick(c.Rng, len(poor))]
		amt := core.OLT(new(big.Int).Add(big.NewInt(1), bigRand(c.Rng, nueOf(1))))
		if c.Rng.Intn(2) == 0 {
			return []Tx{rwNdWithdrawTx(c, d.u, d.u.Addr, amt, "REWARDS_WITHDRAW_NETWORK_DELEGATE/no-rewards")}
		}
		return []Tx{rwNdReinvestTx(c, d.u, d.u.Addr, amt, "REWARDS_REINVEST_NETWORK_DELEGATE/no-rewards")}
	}
	d := rich[pick(c.Rng, len(rich))]
	bal := d.rewards
	over := new(big.Int).Add(new(big.Int).Mul(bal, big.NewInt(3)), nueOf(1)) // more than balance + this block's accrual
	W := "REWARDS_WITHDRAW_NETWORK_DELEGATE"
	R := "REWARDS_REINVEST_NETWORK_DELEGATE"
	switch x := c.Rng.Intn(100); {
	case x < 20:
		return []Tx{rwNdWithdrawTx(c, d.u, d.u.Addr, core.OLT(rwFrac(c, bal, 1, 90)), W)}
	case x < 27:
		return []Tx{rwNdWithdrawTx(c, d.u, d.u.Addr, core.OLT(bal), W+"/all")}
	case x < 34: // twice in one block, both fit
		return []Tx{rwNdWithdrawTx(c, d.u, d.u.Addr, core.OLT(rwFrac(c, bal, 10, 45)), W+"/repeat"),
			rwNdWithdrawTx(c, d.u, d.u.Addr, core.OLT(rwFrac(c, bal, 10, 45)), W+"/repeat")}
	case x < 39: // twice in one block, the second one cannot fit
		return []Tx{rwNdWithdrawTx(c, d.u, d.u.Addr, core.OLT(bal), W+"/all-twice"),
			rwNdWithdrawTx(c, d.u, d.u.Addr, core.OLT(bal), W+"/all-twice")}
	case x < 55:
		return []Tx{rwNdReinvestTx(c, d.u, d.u.Addr, core.OLT(rwFrac(c, bal, 1, 90)), R)}
	case x < 61:
		return []Tx{rwNdReinvestTx(c, d.u, d.u.Addr, core.OLT(bal), R+"/all")}
	case x < 66: // reinvest twice in one block
		return []Tx{rwNdReinvestTx(c, d.u, d.u.Addr, core.OLT(rwFrac(c, bal, 10, 45)), R+"/repeat"),
			rwNdReinvestTx(c, d.u, d.u.Addr, core.OLT(rwFrac(c, bal, 10, 45)), R+"/repeat")}
	case x < 71: // withdraw everything and reinvest everything race in one block
		return []Tx{rwNdWithdrawTx(c, d.u, d.u.Addr, core.OLT(bal), W+"/race-reinvest"),
			rwNdReinvestTx(c, d.u, d.u.Addr, core.OLT(bal), R+"/race-withdraw")}
	case x < 75:
		return []Tx{rwNdWithdrawTx(c, d.u, d.u.Addr, core.OLT(over), W+"/too-much")}
	case x < 79:
		return []Tx{rwNdReinvestTx(c, d.u, d.u.Addr, core.OLT(over), R+"/too-much")}
	case x < 82:
		return []Tx{rwNdWithdrawTx(c, d.u, d.u.Addr, core.OLT(new(big.Int)), W+"/zero")}
	case x < 84:
		return []Tx{rwNdReinvestTx(c, d.u, d.u.Addr, core.OLT(new(big.Int)), R+"/zero")}
	case x < 86: // negative amount: Amount.Minus(negative) RAISES the rewards balance
		neg := new(big.Int).Neg(rwFrac(c, bal, 10, 200))
		return []Tx{rwNdWithdrawTx(c, d.u, d.u.Addr, core.OLT(neg), W+"/negative")}
	case x < 88: // negative reinvest: turns delegation back into withdrawable rewards (capped by the delegation)
		n := rwFrac(c, bal, 10, 200)
		if d.deleg.Sign() > 0 && n.Cmp(d.deleg) > 0 {
			n = rwFrac(c, d.deleg, 1, 50)
		}
		if d.deleg.Sign() > 0 && c.Rng.Intn(4) == 0 {
			// more than the whole delegation: delegation (and maybe the pool) go negative, rewards balance is inflated
			n = new(big.Int).Add(d.deleg, rwFrac(c, d.deleg, 1, 100))
			return []Tx{rwNdReinvestTx(c, d.u, d.u.Addr, core.OLT(new(big.Int).Neg(n)), R+"/negative-huge")}
		}
		return []Tx{rwNdReinvestTx(c, d.u, d.u.Addr, core.OLT(new(big.Int).Neg(n)), R+"/negative")}
	case x < 91: // somebody else signs, naming the victim as delegator (DeliverTx does not verify signers)
		if stranger == d.u {
			return nil
		}
		return []Tx{rwNdWithdrawTx(c, stranger, d.u.Addr, core.OLT(rwFrac(c, bal, 1, 90)), W+"/forged-signer")}
	case x < 94:
		if stranger == d.u {
			return nil
		}
		return []Tx{rwNdReinvestTx(c, stranger, d.u.Addr, core.OLT(rwFrac(c, bal, 1, 90)), R+"/forged-signer")}
	case x < 96: // a user without rewards
		if len(poor) == 0 {
			return nil
		}
		p := poor[pick(c.Rng, len(poor))]
		return []Tx{rwNdWithdrawTx(c, p.u, p.u.Addr, core.OLT(rwFrac(c, bal, 1, 90)), W+"/no-rewards")}
	case x < 98: // a registered currency that is not OLT: the handler never looks at the currency
		cur := []string{"ETH", "BTC", "VT", "TTC"}[c.Rng.Intn(4)]
		return []Tx{rwNdWithdrawTx(c, d.u, d.u.Addr, rwAmount(cur, rwFrac(c, bal, 1, 50)), W+"/other-currency")}
	default:
		switch c.Rng.Intn(3) {
		case 0: // LETHAL: unknown currency -> Coin{} with nil Amount -> nil dereference
			if !evidLethal(c) {
				return nil
			}
			return []Tx{rwNdWithdrawTx(c, d.u, d.u.Addr, rwAmount("XYZ", rwFrac(c, bal, 1, 50)), W+"/unknown-currency-lethal")}
		case 1:
			if !evidLethal(c) {
				return nil
			}
			return []Tx{rwNdReinvestTx(c, d.u, d.u.Addr, rwAmount("XYZ", rwFrac(c, bal, 1, 50)), R+"/unknown-currency-lethal")}
		default: // LETHAL: Coin.Plus of mismatching currencies -> logger.Fatal -> os.Exit
			if !evidLethal(c) {
				return nil
			}
			return []Tx{rwNdReinvestTx(c, d.u, d.u.Addr, rwAmount("ETH", rwFrac(c, bal, 1, 50)), R+"/other-currency-lethal")}
		}
	}
}

func rwValidatorOp(c *Ctx, v *rwView) []Tx {
	var rich, staked []rwValidator
	for _, r := range v.vals {
		if r.val == nil {
			continue
		}
		staked = append(staked, r)
		if r.matured.Cmp(e18) >= 0 {
			rich = append(rich, r)
		}
	}
	K := "WITHDRAW_REWARD"
	stranger := c.W.Users[pick(c.Rng, len(c.W.Users))]
	// matured rewards of a validator whose record is gone (power fell to 0): the handler lets ANYBODY take them
	for _, r := range v.vals {
		if r.val == nil && r.matured.Cmp(e18) >= 0 && c.Rng.Intn(3) == 0 {
			whole := new(big.Int).Div(r.matured, e18).Int64()
			return []Tx{rwValWithdrawTx(c, stranger, r.vk.ValKey.Addr, stranger.Addr, "OLT", 1+c.Rng.Int63n(whole), K+"/stranger-orphan")}
		}
	}
	if len(staked) == 0 {
		return nil
	}
	if len(rich) == 0 && c.Rng.Intn(100) < 55 {
		return nil // only hostile variants are possible: keep them a minority of the traffic
	}
	x := c.Rng.Intn(100)
	if len(rich) > 0 && x < 62 {
		r := rich[pick(c.Rng, len(rich))]
		whole := new(big.Int).Div(r.matured, e18).Int64()
		sa := r.val.StakeAddress
		signer := r.vk.NodeKey
		if !sa.Equal(signer.Addr) {
			return nil // stake address was moved to a key we do not know
		}
		switch {
		case x < 30:
			return []Tx{rwValWithdrawTx(c, signer, r.vk.ValKey.Addr, sa, "OLT", 1+c.Rng.Int63n(whole), K)}
		case x < 42:
			return []Tx{rwValWithdrawTx(c, signer, r.vk.ValKey.Addr, sa, "OLT", whole, K+"/all")}
		case x < 52: // repeated withdrawals in one block, both fit (needs >= 2 OLT)
			if whole < 2 {
				return []Tx{rwValWithdrawTx(c, signer, r.vk.ValKey.Addr, sa, "OLT", 1, K)}
			}
			a := 1 + c.Rng.Int63n(whole/2)
			return []Tx{rwValWithdrawTx(c, signer, r.vk.ValKey.Addr, sa, "OLT", a, K+"/repeat"),
				rwValWithdrawTx(c, signer, r.vk.ValKey.Addr, sa, "OLT", 1+c.Rng.Int63n(whole-a), K+"/repeat")}
		default: // everything twice: the second one must fail
			return []Tx{rwValWithdrawTx(c, signer, r.vk.ValKey.Addr, sa, "OLT", whole, K+"/all-twice"),
				rwValWithdrawTx(c, signer, r.vk.ValKey.Addr, sa, "OLT", whole, K+"/all-twice")}
		}
	}
	r := staked[pick(c.Rng, len(staked))]
	if len(rich) > 0 && c.Rng.Intn(2) == 0 {
		r = rich[pick(c.Rng, len(rich))]
	}
	whole := new(big.Int).Div(r.matured, e18).Int64()
	sa := r.val.StakeAddress
	signer := r.vk.NodeKey
	if !sa.Equal(signer.Addr) {
		return nil
	}
	switch y := c.Rng.Intn(100); {
	case y < 22: // more than the matured balance (1 OLT is already too much on most chains)
		return []Tx{rwValWithdrawTx(c, signer, r.vk.ValKey.Addr, sa, "OLT", whole+1+c.Rng.Int63n(1000), K+"/too-much")}
	case y < 32: // zero: passes every check, moves nothing
		return []Tx{rwValWithdrawTx(c, signer, r.vk.ValKey.Addr, sa, "OLT", 0, K+"/zero")}
	case y < 37: // negative: Amount.Minus(negative) RAISES the matured balance, the signer pays the pool
		return []Tx{rwValWithdrawTx(c, signer, r.vk.ValKey.Addr, sa, "OLT", -(1 + c.Rng.Int63n(5)), K+"/negative")}
	case y < 55: // a stranger names the victim's validator and wants the money for himself
		amt := whole
		if amt > 0 {
			amt = 1 + c.Rng.Int63n(whole)
		} else if c.Rng.Intn(2) == 0 {
			amt = 1
		}
		return []Tx{rwValWithdrawTx(c, stranger, r.vk.ValKey.Addr, stranger.Addr, "OLT", amt, K+"/stranger")}
	case y < 70: // a stranger signs a withdrawal that names the victim's own stake address as signer
		amt := whole
		if amt > 0 {
			amt = 1 + c.Rng.Int63n(whole)
		}
		return []Tx{rwValWithdrawTx(c, stranger, r.vk.ValKey.Addr, sa, "OLT", amt, K+"/forged-signer")}
	case y < 82: // an address that is no validator: the stake-address check is skipped for it
		ghost := core.NewEdAccount(c.W.Seed, "rw-ghost").Addr
		if c.Rng.Intn(2) == 0 {
			ghost = stranger.Addr
		}
		return []Tx{rwValWithdrawTx(c, stranger, ghost, stranger.Addr, "OLT", int64(c.Rng.Intn(2)), K+"/unknown-validator")}
	case y < 95: // a registered currency that is not OLT (Validate would refuse, DeliverTx does not validate)
		cur := []string{"ETH", "BTC", "VT", "TTC"}[c.Rng.Intn(4)]
		amt := int64(0)
		if whole > 0 && c.Rng.Intn(2) == 0 {
			amt = 1 + c.Rng.Int63n(whole)
		}
		return []Tx{rwValWithdrawTx(c, signer, r.vk.ValKey.Addr, sa, cur, amt, K+"/other-currency")}
	default: // LETHAL: unknown currency -> nil Amount -> nil dereference in WithdrawRewards
		if !evidLethal(c) {
			return nil
		}
		return []Tx{rwValWithdrawTx(c, signer, r.vk.ValKey.Addr, sa, "XYZ", 1, K+"/unknown-currency-lethal")}
	}
}

package gen

// Governance workload generator ("gov"): proposal life cycles (create / fund / vote / cancel /
// withdraw) plus the two internal kinds that are also reachable through the public router
// (EXPIRE_VOTES, PROPOSAL_FINALIZE), with a tuned minority of hostile variants.
//
// Everything is state driven: each block the generator looks at the committed state of the
// proposals it created (through the repository's own stores) and emits the next step of each
// proposal's plan, so dropped / failed / hijacked transactions do not derail it.

import (
	"encoding/hex"
	"fmt"
	"math/big"
	"os"
	"sort"
	"strconv"

	"github.com/Oneledger/protocol/action"
	govact "github.com/Oneledger/protocol/action/governance"
	"github.com/Oneledger/protocol/data/balance"
	"github.com/Oneledger/protocol/data/governance"
	"github.com/Oneledger/protocol/data/keys"
	"github.com/Oneledger/protocol/storage"

	"olsim/core"
)

// GovLethal enables variants that make the unchanged application panic inside DeliverTx
// (nil dereference / index out of range => handlePanic => app.Close()). They end the run, so they
// are off by default; they are on when this variable is set or when the run opted in through the
// session (c.S.M["lethal"] == true, the same switch gen.Lethal(c) reads).
//
//	PROPOSAL_FUND/unknown-currency, PROPOSAL_VOTE/bad-opinion, PROPOSAL_CREATE/nil-goal
var GovLethal = false

// OLSIM_GOVDEBUG=<file>: append a line per observed proposal state change (diagnostics only).
var govDebug = os.Getenv("OLSIM_GOVDEBUG") != ""

func govShort(id string) string {
	if len(id) > 6 {
		return id[:6]
	}
	return id
}

// govLogResults (diagnostics): outcome of last block's transactions next to their intent labels.
func govLogResults(c *Ctx) {
	govSafe(func() {
		att := c.Ref.Tr.Committed(c.H - 1)
		if att == nil {
			return
		}
		lo := len(c.S.Sent) - 40
		if lo < 0 {
			lo = 0
		}
		for j, tb := range att.TxBytes {
			kind := "?"
			for _, t := range c.S.Sent[lo:] {
				if string(t.Bytes) == string(tb) {
					kind = t.Kind
				}
			}
			if j < len(att.Txs) {
				govLogf("gov h=%d result %s code=%d %.150s", c.H-1, kind, att.Txs[j].Code, att.Txs[j].Log)
			}
		}
	})
}

func govLogf(format string, a ...interface{}) {
	f, err := os.OpenFile(os.Getenv("OLSIM_GOVDEBUG"), os.O_APPEND|os.O_CREATE|os.O_WRONLY, 0644)
	if err != nil {
		return
	}
	fmt.Fprintf(f, format+"\n", a...)
	f.Close()
}

type Gov struct{}

func (Gov) Name() string { return "gov" }

func init() { Register(Gov{}) }

// ---- session ------------------------------------------------------------------------------

type govProp struct {
	ID       string
	Type     governance.ProposalType
	Proposer *core.Account
	Plan     string // pass | fail | expire | starve | cancel | idle
	Cfg      string
	Born     int64
	CancelAt int64
	Funders  []*core.Account
	Emit     map[string]int
	Done     bool
	Last     string
}

type govSess struct {
	Props []*govProp
	N     int
	// stakingOptions.maturityTime can only be set to >= 109200 blocks, which freezes every later
	// unstake for the rest of a short run; so only some runs do it, and not over and over
	MaturityBudget int
}

func govSession(c *Ctx) *govSess {
	if s, ok := c.S.M["gov"].(*govSess); ok && s != nil {
		return s
	}
	s := &govSess{}
	if c.Rng.Intn(100) < 60 {
		s.MaturityBudget = 1 + c.Rng.Intn(2)
	}
	c.S.M["gov"] = s
	return s
}

func (p *govProp) addFunder(a *core.Account) {
	if a == nil {
		return
	}
	for _, f := range p.Funders {
		if f.Label == a.Label {
			return
		}
	}
	p.Funders = append(p.Funders, a)
}

// unlisted: id-unlisted variant; the flow leaves expiry/finalisation of these to the application alone
func (p *govProp) unlisted() bool { return len(p.ID) > 0 && p.ID[0] == '~' }

func (p *govProp) involved(a *core.Account) bool {
	if p.Proposer != nil && p.Proposer.Label == a.Label {
		return true
	}
	for _, f := range p.Funders {
		if f.Label == a.Label {
			return true
		}
	}
	return false
}

// ---- environment: read-only view of the committed state -------------------------------------

type govView struct {
	Exists bool
	P      *governance.Proposal
	State  governance.ProposalState
	Funds  *big.Int
	Votes  []*governance.ProposalVote
}

type govEnv struct {
	c     *Ctx
	s     *govSess
	st    *storage.State
	ps    *governance.ProposalStore
	fs    *governance.ProposalFundStore
	vs    *governance.ProposalVoteStore
	gs    *governance.Store
	opts  *governance.ProposalOptionSet
	views map[string]*govView
	valBy map[string]*core.ValidatorKeys // validator address string -> keys
}

func govSafe(f func()) (ok bool) {
	defer func() {
		if r := recover(); r != nil {
			ok = false
			if govDebug {
				govLogf("gov: recovered: %v", r)
			}
		}
	}()
	f()
	return true
}

func newGovEnv(c *Ctx, s *govSess) *govEnv {
	e := &govEnv{c: c, s: s, views: map[string]*govView{}, valBy: map[string]*core.ValidatorKeys{}}
	ok := govSafe(func() {
		e.st = c.Ref.ReadState()
		e.ps = governance.NewProposalStore("propActive", "propPassed", "propFailed", "propFinalized", "propFinalizeFailed", e.st)
		e.fs = governance.NewProposalFundStore("propFunds", e.st)
		e.vs = governance.NewProposalVoteStore("propVotes", e.st)
		e.gs = governance.NewStore("g", e.st)
	})
	if !ok || e.st == nil {
		return nil
	}
	govSafe(func() {
		if o, err := e.gs.GetProposalOptions(); err == nil && o != nil {
			e.opts = o
		}
	})
	if e.opts == nil && c.W.AppState != nil {
		o := c.W.AppState.Governance.PropOptions
		e.opts = &o
	}
	if e.opts == nil {
		return nil
	}
	for _, vk := range c.W.AllValidatorKeys() {
		if vk != nil && vk.ValKey != nil {
			e.valBy[vk.ValKey.Addr.String()] = vk
		}
	}
	return e
}

func (e *govEnv) lethal() bool {
	v, _ := e.c.S.M["lethal"].(bool)
	return v || GovLethal
}

func (e *govEnv) optFor(t governance.ProposalType) *governance.ProposalOption {
	var o *governance.ProposalOption
	switch t {
	case governance.ProposalTypeCodeChange:
		o = &e.opts.CodeChange
	case governance.ProposalTypeGeneral:
		o = &e.opts.General
	default:
		o = &e.opts.ConfigUpdate
	}
	if o.InitialFunding == nil || o.FundingGoal == nil {
		return nil
	}
	return o
}

func (e *govEnv) view(id string) *govView {
	if v, ok := e.views[id]; ok {
		return v
	}
	v := &govView{}
	govSafe(func() {
		p, state, err := e.ps.QueryAllStores(governance.ProposalID(id))
		if err != nil || p == nil {
			return
		}
		v.P, v.State = p, state
		if f := e.fs.GetCurrentFundsForProposal(p.ProposalID); f != nil {
			v.Funds = new(big.Int).Set(f.BigInt())
		}
		if p.Status != governance.ProposalStatusFunding {
			if _, votes, err := e.vs.GetVotesByID(p.ProposalID); err == nil {
				v.Votes = votes
			}
		}
		v.Exists = true
	})
	if v.Funds == nil {
		v.Funds = new(big.Int)
	}
	if v.Exists && v.P.FundingGoal == nil {
		v.P.FundingGoal = balance.NewAmount(0)
	}
	e.views[id] = v
	return v
}

func (e *govEnv) contribution(id string, a keys.Address) *big.Int {
	out := new(big.Int)
	govSafe(func() {
		if f := e.fs.GetFundsForProposalByFunder(governance.ProposalID(id), a); f != nil {
			out.Set(f.BigInt())
		}
	})
	return out
}

func (v *govView) desc() string {
	if !v.Exists {
		return "absent"
	}
	return fmt.Sprintf("%s/%s/%s funds=%s votes=%d", v.State, v.P.Status, v.P.Outcome, v.Funds, len(v.Votes))
}

func (v *govView) funding() bool {
	return v.Exists && v.State == governance.ProposalStateActive && v.P.Status == governance.ProposalStatusFunding
}
func (v *govView) voting() bool {
	return v.Exists && v.State == governance.ProposalStateActive && v.P.Status == governance.ProposalStatusVoting
}
func (v *govView) decided() bool {
	return v.Exists && (v.State == governance.ProposalStatePassed ||
		(v.State == governance.ProposalStateFailed && v.P.Outcome == governance.ProposalOutcomeCompletedNo))
}
func (v *govView) refundable() bool {
	return v.Exists && v.State == governance.ProposalStateFailed &&
		(v.P.Outcome == governance.ProposalOutcomeCancelled || v.P.Outcome == governance.ProposalOutcomeInsufficientFunds)
}
func (v *govView) expired() bool {
	return v.Exists && v.State == governance.ProposalStateFailed && v.P.Outcome == governance.ProposalOutcomeInsufficientVotes
}
func (v *govView) finalized() bool {
	return v.Exists && (v.State == governance.ProposalStateFinalized || v.State == governance.ProposalStateFinalizeFailed)
}

// ---- accounts ---------------------------------------------------------------------------------

// payers: every funded ed25519 account (users, node keys of validators and candidates).
func (e *govEnv) payers() []*core.Account {
	out := append([]*core.Account{}, e.c.W.Users...)
	for _, vk := range e.c.W.AllValidatorKeys() {
		if vk != nil && vk.NodeKey != nil {
			out = append(out, vk.NodeKey)
		}
	}
	return out
}

func (e *govEnv) anyUser() *core.Account { return e.c.W.Users[pick(e.c.Rng, len(e.c.W.Users))] }

func (e *govEnv) anyPayer() *core.Account {
	if e.c.Rng.Intn(4) != 0 {
		return e.anyUser()
	}
	ps := e.payers()
	return ps[pick(e.c.Rng, len(ps))]
}

// stranger: a funded account that has nothing to do with p.
func (e *govEnv) stranger(p *govProp) *core.Account {
	ps := e.payers()
	off := pick(e.c.Rng, len(ps))
	for i := range ps {
		a := ps[(off+i)%len(ps)]
		if p == nil || !p.involved(a) {
			return a
		}
	}
	return ps[off]
}

// freshAccount: deterministic unfunded account.
func (e *govEnv) freshAccount() *core.Account {
	return core.NewEdAccount(e.c.W.Seed, fmt.Sprintf("gov-x%d", e.c.Rng.Intn(3)))
}

func (e *govEnv) anyValidator() *core.ValidatorKeys {
	if len(e.c.W.Validators) == 0 {
		return nil
	}
	return e.c.W.Validators[pick(e.c.Rng, len(e.c.W.Validators))]
}

func (e *govEnv) newID() string {
	b := make([]byte, 32)
	for i := range b {
		b[i] = byte(e.c.Rng.Intn(256))
	}
	return hex.EncodeToString(b)
}

// ---- transaction builders ---------------------------------------------------------------------

func govAmt(cur string, v *big.Int) action.Amount {
	return action.Amount{Currency: cur, Value: *balance.NewAmountFromBigInt(new(big.Int).Set(v))}
}

func (e *govEnv) txFund(kind, id string, funder keys.Address, cur string, v *big.Int, signer *core.Account) Tx {
	msg := &govact.FundProposal{ProposalId: governance.ProposalID(id), FunderAddress: funder, FundValue: govAmt(cur, v)}
	return Tx{Bytes: core.BuildTx(msg, core.DefaultFee(), memo(e.c), signer), Kind: kind}
}

func (e *govEnv) txWithdraw(kind, id string, funder keys.Address, v *big.Int, benef keys.Address, signer *core.Account) Tx {
	msg := &govact.WithdrawFunds{ProposalID: governance.ProposalID(id), Funder: funder, WithdrawValue: govAmt("OLT", v), Beneficiary: benef}
	return Tx{Bytes: core.BuildTx(msg, core.DefaultFee(), memo(e.c), signer), Kind: kind}
}

func (e *govEnv) txCancel(kind, id string, proposer keys.Address, signer *core.Account) Tx {
	reasons := []string{"", "changed my mind", "duplicate", "x"}
	msg := &govact.CancelProposal{ProposalId: governance.ProposalID(id), Proposer: proposer, Reason: reasons[pick(e.c.Rng, len(reasons))]}
	return Tx{Bytes: core.BuildTx(msg, core.DefaultFee(), memo(e.c), signer), Kind: kind}
}

func (e *govEnv) txVote(kind, id string, voter, validator keys.Address, op governance.VoteOpinion, s1, s2 *core.Account) Tx {
	msg := &govact.VoteProposal{ProposalID: governance.ProposalID(id), Address: voter.Bytes(), ValidatorAddress: validator.Bytes(), Opinion: op}
	return Tx{Bytes: core.BuildTx(msg, core.DefaultFee(), memo(e.c), s1, s2), Kind: kind}
}

func (e *govEnv) txExpire(kind, id string, who *core.Account) Tx {
	msg := &govact.ExpireVotes{ProposalID: governance.ProposalID(id), ValidatorAddress: who.Addr.Bytes()}
	return Tx{Bytes: core.BuildTx(msg, core.DefaultFee(), memo(e.c), who), Kind: kind}
}

func (e *govEnv) txFinalize(kind, id string, who *core.Account) Tx {
	msg := &govact.FinalizeProposal{ProposalID: governance.ProposalID(id), ValidatorAddress: who.Addr.Bytes()}
	return Tx{Bytes: core.BuildTx(msg, core.DefaultFee(), memo(e.c), who), Kind: kind}
}

// legitCreate fills a message that is valid against the current options at height c.H.
func (e *govEnv) legitCreate(t governance.ProposalType, proposer *core.Account, cfg string) *govact.CreateProposal {
	o := e.optFor(t)
	if o == nil {
		return nil
	}
	init := new(big.Int).Set(o.InitialFunding.BigInt())
	goal := o.FundingGoal.BigInt()
	// sometimes more than the minimum, but always below the goal
	if room := new(big.Int).Sub(goal, init); room.Cmp(big.NewInt(2)) > 0 && e.c.Rng.Intn(3) == 0 {
		init.Add(init, bigRand(e.c.Rng, new(big.Int).Div(room, big.NewInt(2))))
	}
	fd := e.c.H + o.FundingDeadline
	if fd <= e.c.H {
		fd = e.c.H + 1
	}
	return &govact.CreateProposal{
		ProposalID:      governance.ProposalID(e.newID()),
		ProposalType:    t,
		Headline:        "headline " + strconv.Itoa(e.s.N),
		Description:     "description " + memo(e.c),
		Proposer:        proposer.Addr,
		InitialFunding:  govAmt("OLT", init),
		FundingDeadline: fd,
		FundingGoal:     balance.NewAmountFromBigInt(new(big.Int).Set(goal)),
		VotingDeadline:  fd + o.VotingDeadline,
		PassPercentage:  o.PassPercentage,
		ConfigUpdate:    cfg,
	}
}

func (e *govEnv) txCreate(kind string, m *govact.CreateProposal, signer *core.Account) Tx {
	return Tx{Bytes: core.BuildTx(m, core.DefaultFee(), memo(e.c), signer), Kind: kind}
}

func (e *govEnv) track(m *govact.CreateProposal, proposer *core.Account, plan string) *govProp {
	p := &govProp{ID: string(m.ProposalID), Type: m.ProposalType, Proposer: proposer, Plan: plan, Cfg: m.ConfigUpdate,
		Born: e.c.H, Emit: map[string]int{}}
	span := m.FundingDeadline - e.c.H
	if span < 2 {
		span = 2
	}
	if span > 12 {
		span = 12
	}
	p.CancelAt = e.c.H + 1 + e.c.Rng.Int63n(span-1)
	p.addFunder(proposer)
	e.s.Props = append(e.s.Props, p)
	e.s.N++
	return p
}

// ---- config update payloads ------------------------------------------------------------------

type govCfg struct {
	Cat     string // label fragment
	Payload string // "key:value"
	Valid   bool   // predicted with the repository's own Validate* over the committed options
}

func govBigStr(x *big.Int) string { return x.String() }

// cfgCandidates proposes one payload per category, predicting validity against current options.
func (e *govEnv) cfgCandidates() []govCfg {
	r := e.c.Rng
	var out []govCfg
	add := func(cat, key, val string, valid bool) {
		out = append(out, govCfg{Cat: cat, Payload: key + ":" + val, Valid: valid})
	}
	i64 := func(v int64) string { return strconv.FormatInt(v, 10) }

	// fee: only ever lower the minimum (decimal >= 9) so that default-fee clients keep working
	govSafe(func() {
		o, err := e.gs.GetFeeOption()
		if err != nil || o == nil {
			return
		}
		v := int64(9 + r.Intn(10))
		if v == o.MinFeeDecimal {
			v = 9 + (v-9+1)%10
		}
		o.MinFeeDecimal = v
		ok, err := e.gs.ValidateFee(o)
		add("fee", "feeOption.minFeeDecimal", i64(v), ok && err == nil)
	})
	// ons
	govSafe(func() {
		o, err := e.gs.GetONSOptions()
		if err != nil || o == nil {
			return
		}
		cur := new(big.Int).Set(o.PerBlockFees.BigInt())
		var v *big.Int
		switch r.Intn(4) {
		case 0:
			v = new(big.Int).Mul(cur, big.NewInt(2))
		case 1:
			v = new(big.Int).Div(cur, big.NewInt(2))
		case 2:
			v = big.NewInt(1)
		default:
			v = new(big.Int).Add(big.NewInt(1000000000000), bigRand(r, big.NewInt(1000000000000000)))
		}
		if v.Sign() <= 0 || v.Cmp(cur) == 0 {
			v = new(big.Int).Add(cur, big.NewInt(1))
		}
		o.PerBlockFees = *balance.NewAmountFromBigInt(v)
		ok, err := e.gs.ValidateONS(o)
		add("ons-perblock", "onsOptions.perBlockFees", govBigStr(v), ok && err == nil)
	})
	govSafe(func() {
		o, err := e.gs.GetONSOptions()
		if err != nil || o == nil {
			return
		}
		cur := new(big.Int).Set(o.BaseDomainPrice.BigInt())
		var v *big.Int
		switch r.Intn(4) {
		case 0:
			v = new(big.Int).Mul(cur, big.NewInt(2))
		case 1:
			v = new(big.Int).Div(cur, big.NewInt(2))
		case 2:
			v = new(big.Int)
		default:
			v = nueOf(int64(100 + r.Intn(3000)))
		}
		if v.Cmp(cur) == 0 {
			v = new(big.Int).Add(cur, e18)
		}
		o.BaseDomainPrice = *balance.NewAmountFromBigInt(v)
		ok, err := e.gs.ValidateONS(o)
		add("ons-base", "onsOptions.baseDomainPrice", govBigStr(v), ok && err == nil)
	})
	// staking (the whole option struct is validated, so these only pass when the other fields are in range too)
	govSafe(func() {
		o, err := e.gs.GetStakingOptions()
		if err != nil || o == nil {
			return
		}
		{
			c := *o
			v := int64(8 + r.Intn(6))
			if r.Intn(4) == 0 {
				v = int64(8 + r.Intn(57))
			}
			if v == c.TopValidatorCount {
				v = 8 + (v-8+1)%57
			}
			c.TopValidatorCount = v
			ok, err := e.gs.ValidateStaking(&c)
			add("staking-top", "stakingOptions.topValidatorCount", i64(v), ok && err == nil)
		}
		{
			c := *o
			// A value above every validator's self stake is valid for the repository but ejects the
			// whole validator set (Tendermint then refuses the empty update and the chain halts), so
			// stay at or below the largest genesis stake unless GovLethal.
			maxStake := e.c.W.Knobs.MinSelfStake * int64(len(e.c.W.Validators)) // genesis: stake of v_i = MinSelfStake*(i+1)
			if len(e.c.W.Knobs.ValidatorStakes) == len(e.c.W.Validators) {
				maxStake = 0
				for _, st := range e.c.W.Knobs.ValidatorStakes {
					if st > maxStake {
						maxStake = st
					}
				}
			}
			if e.lethal() && r.Intn(4) == 0 {
				maxStake = 10000000
			}
			vals := []int64{500000, 500001, 550000, 600000, 750000, 1000000, 1500000, 2000000, 3000000, 10000000}
			var okVals []int64
			for _, x := range vals {
				if x <= maxStake && big.NewInt(x).Cmp(c.MinSelfDelegationAmount.BigInt()) != 0 {
					okVals = append(okVals, x)
				}
			}
			if len(okVals) > 0 {
				v := okVals[r.Intn(len(okVals))]
				c.MinSelfDelegationAmount = *balance.NewAmount(v)
				ok, err := e.gs.ValidateStaking(&c)
				add("staking-minself", "stakingOptions.minSelfDelegationAmount", i64(v), ok && err == nil)
			}
		}
		{
			c := *o
			v := int64(109200 + r.Intn(468000-109200+1))
			if v == c.MaturityTime {
				v = 109200 + (v-109200+1)%1000
			}
			c.MaturityTime = v
			ok, err := e.gs.ValidateStaking(&c)
			add("staking-maturity", "stakingOptions.maturityTime", i64(v), ok && err == nil)
		}
	})
	// evidence
	govSafe(func() {
		o, err := e.gs.GetEvidenceOptions()
		if err != nil || o == nil {
			return
		}
		{
			c := *o
			lo := 70 * (c.BlockVotesDiff / 100)
			hi := c.BlockVotesDiff
			v := lo
			if hi > lo {
				v = lo + r.Int63n(hi-lo+1)
			}
			if v == c.MinVotesRequired {
				if v < hi {
					v++
				} else if v > lo {
					v--
				}
			}
			c.MinVotesRequired = v
			ok, err := e.gs.ValidateEvidence(&c)
			add("evidence-minvotes", "evidenceOptions.minVotesRequired", i64(v), ok && err == nil)
		}
		{
			c := *o
			lo := c.MinVotesRequired
			if lo < 1000 {
				lo = 1000
			}
			hi := (c.MinVotesRequired/70+1)*100 - 1
			if hi > 100000 {
				hi = 100000
			}
			v := lo
			if hi > lo {
				v = lo + r.Int63n(hi-lo+1)
			}
			if v == c.BlockVotesDiff {
				v++
			}
			c.BlockVotesDiff = v
			ok, err := e.gs.ValidateEvidence(&c)
			add("evidence-blockvotesdiff", "evidenceOptions.blockVotesDiff", i64(v), ok && err == nil)
		}
		{
			c := *o
			unit := c.PenaltyBaseDecimals / 100
			if unit <= 0 {
				unit = 1
			}
			v := int64(10+r.Intn(31)) * unit
			if v == c.PenaltyBasePercentage {
				v = int64(10+(r.Intn(30)+int(v/unit)-10+1)%31) * unit
			}
			c.PenaltyBasePercentage = v
			ok := false
			var err error
			if c.PenaltyBaseDecimals >= 100 && c.ValidatorVoteDecimals >= 100 {
				ok, err = e.gs.ValidateEvidence(&c)
			}
			add("evidence-penalty", "evidenceOptions.penaltyBasePercentage", i64(v), ok && err == nil)
		}
	})
	// proposal options: one random (type, field)
	govSafe(func() {
		o, err := e.gs.GetProposalOptions()
		if err != nil || o == nil {
			return
		}
		tn := []string{"configUpdate", "codeChange", "general"}[r.Intn(3)]
		var po *governance.ProposalOption
		switch tn {
		case "configUpdate":
			po = &o.ConfigUpdate
		case "codeChange":
			po = &o.CodeChange
		default:
			po = &o.General
		}
		if po.InitialFunding == nil || po.FundingGoal == nil {
			return
		}
		var field, val string
		switch r.Intn(5) {
		case 0:
			field = "initialFunding"
			v := new(big.Int).Div(po.FundingGoal.BigInt(), big.NewInt(int64(3+r.Intn(4))))
			if v.Cmp(big.NewInt(10000)) < 0 {
				v = big.NewInt(10000)
			}
			if v.Cmp(po.InitialFunding.BigInt()) == 0 {
				v.Sub(v, big.NewInt(1))
			}
			po.InitialFunding = balance.NewAmountFromBigInt(v)
			val = v.String()
		case 1:
			field = "fundingGoal"
			v := new(big.Int).Mul(po.InitialFunding.BigInt(), big.NewInt(int64(3+r.Intn(10))))
			if v.Cmp(po.FundingGoal.BigInt()) == 0 {
				v.Add(v, big.NewInt(1))
			}
			po.FundingGoal = balance.NewAmountFromBigInt(v)
			val = v.String()
		case 2:
			field = "votingDeadline"
			v := int64(150000 + r.Intn(1000))
			if tn == "configUpdate" {
				v = int64(10000 + r.Intn(1000))
			}
			po.VotingDeadline = v
			val = i64(v)
		case 3:
			field = "fundingDeadline"
			v := int64(75000 + r.Intn(1000))
			if tn != "general" {
				v = int64(10000 + r.Intn(1000))
			}
			po.FundingDeadline = v
			val = i64(v)
		default:
			field = "passPercentage"
			v := 51 + r.Intn(30)
			if v == po.PassPercentage {
				v = 51 + (v-51+1)%30
			}
			po.PassPercentage = v
			val = strconv.Itoa(v)
		}
		ok, err := e.gs.ValidateProposal(o)
		add("prop-"+field, "propOptions."+tn+"."+field, val, ok && err == nil)
	})
	return out
}

// cfgHostile: payloads that must be rejected whatever the options are.
func (e *govEnv) cfgHostile() govCfg {
	bad := []govCfg{
		{Cat: "notallowed-rewards", Payload: "rewardOptions.rewardInterval:" + strconv.Itoa(2+e.c.Rng.Intn(9))},
		{Cat: "notallowed-deleg", Payload: "delegOptions.rewardsMaturityTime:5"},
		{Cat: "notallowed-eth", Payload: "ethchaindriverOption.blockConfirmation:3"},
		{Cat: "notallowed-currency", Payload: "feeOption.feeCurrency:VT"},
		{Cat: "malformed-nocolon", Payload: "feeOption.minFeeDecimal"},
		{Cat: "malformed-twocolons", Payload: "feeOption.minFeeDecimal:9:9"},
		{Cat: "malformed-empty", Payload: ""},
		{Cat: "badvalue-text", Payload: "feeOption.minFeeDecimal:abc"},
		{Cat: "badvalue-range", Payload: "feeOption.minFeeDecimal:19"},
		{Cat: "badvalue-negative", Payload: "onsOptions.perBlockFees:-5"},
		{Cat: "badvalue-zero", Payload: "onsOptions.perBlockFees:0"},
		{Cat: "badvalue-range", Payload: "stakingOptions.topValidatorCount:3"},
		{Cat: "badvalue-range", Payload: "propOptions.general.passPercentage:50"},
		{Cat: "badvalue-empty", Payload: "stakingOptions.maturityTime:"},
	}
	return bad[pick(e.c.Rng, len(bad))]
}

// pickCfg: mostly a payload that is predicted to pass (uniform over the passing categories),
// otherwise one predicted to fail validation or a malformed one.
func (e *govEnv) pickCfg() govCfg {
	cands := e.cfgCandidates()
	var good, badc []govCfg
	for _, c := range cands {
		if c.Cat == "staking-maturity" && c.Valid && e.s.MaturityBudget <= 0 {
			continue
		}
		if c.Valid {
			good = append(good, c)
		} else {
			badc = append(badc, c)
		}
	}
	x := e.c.Rng.Intn(100)
	// the staking family only opens up once maturityTime is in range: give it weight when it is possible
	var stk []govCfg
	for _, c := range good {
		if len(c.Cat) > 8 && c.Cat[:8] == "staking-" {
			stk = append(stk, c)
		}
	}
	if len(stk) > 0 && x < 78 && e.c.Rng.Intn(100) < 40 {
		good = stk
	}
	switch {
	case len(good) > 0 && x < 78:
		g := good[pick(e.c.Rng, len(good))]
		if g.Cat == "staking-maturity" {
			e.s.MaturityBudget--
		}
		return g
	case len(badc) > 0 && x < 90:
		c := badc[pick(e.c.Rng, len(badc))]
		c.Cat += "-invalid"
		return c
	default:
		c := e.cfgHostile()
		c.Valid = false
		return c
	}
}

// ---- the life cycle of one tracked proposal ------------------------------------------------

type govCand struct {
	tx     Tx
	urgent bool
	sel    func() // called when the candidate makes it into the block
}

func govPct(x *big.Int, pct int64) *big.Int {
	v := new(big.Int).Mul(x, big.NewInt(pct))
	return v.Div(v, big.NewInt(100))
}

// tally of a vote snapshot the way ResultSoFar computes it.
type govTally struct{ all, yes, no, giveup int64 }

func govTallyOf(votes []*governance.ProposalVote) govTally {
	var t govTally
	for _, v := range votes {
		t.all += v.Power
		switch v.Opinion {
		case governance.OPIN_POSITIVE:
			t.yes += v.Power
		case governance.OPIN_NEGATIVE:
			t.no += v.Power
		case governance.OPIN_GIVEUP:
			t.giveup += v.Power
		}
	}
	return t
}

func (t govTally) result(passPercent int) governance.VoteResult {
	total := t.all - t.giveup
	yp, np := 0.0, 0.0
	pp := float64(passPercent) / 100.0
	if total > 0 {
		yp = float64(t.yes) / float64(total)
		np = float64(t.no) / float64(total)
	}
	if yp >= pp {
		return governance.VOTE_RESULT_PASSED
	}
	if (1.0 - np) < pp {
		return governance.VOTE_RESULT_FAILED
	}
	return governance.VOTE_RESULT_TBD
}

func (t *govTally) apply(power int64, old, op governance.VoteOpinion) {
	switch old {
	case governance.OPIN_POSITIVE:
		t.yes -= power
	case governance.OPIN_NEGATIVE:
		t.no -= power
	case governance.OPIN_GIVEUP:
		t.giveup -= power
	}
	switch op {
	case governance.OPIN_POSITIVE:
		t.yes += power
	case governance.OPIN_NEGATIVE:
		t.no += power
	case governance.OPIN_GIVEUP:
		t.giveup += power
	}
}

// step looks at the committed state of p and proposes the next transactions of its plan.
func (e *govEnv) step(p *govProp) (cands []govCand, alive bool) {
	c, r := e.c, e.c.Rng
	v := e.view(p.ID)
	if govDebug {
		if d := v.desc(); d != p.Last {
			govLogf("gov h=%d %s plan=%s type=%x cfg=%q: %s -> %s", c.H, govShort(p.ID), p.Plan, int(p.Type), p.Cfg, p.Last, d)
			p.Last = d
		}
	}
	if !v.Exists {
		if c.H > p.Born+2 {
			p.Done = true // creation failed or was never included
		}
		return nil, !p.Done
	}
	id := p.ID
	switch {
	case v.funding() && c.H <= v.P.FundingDeadline:
		goal := v.P.FundingGoal.BigInt()
		remaining := new(big.Int).Sub(goal, v.Funds)
		if remaining.Sign() <= 0 {
			remaining = big.NewInt(1)
		}
		left := v.P.FundingDeadline - c.H
		switch p.Plan {
		case "pass", "fail", "expire":
			f := e.anyPayer()
			if left <= 1 || r.Intn(2) == 0 {
				amt := new(big.Int).Set(remaining)
				if r.Intn(4) == 0 { // over-fund a little
					amt.Add(amt, bigRand(r, new(big.Int).Add(govPct(goal, 10), big.NewInt(1))))
				}
				p.addFunder(f)
				cands = append(cands, govCand{e.txFund("PROPOSAL_FUND/goal", id, f.Addr, "OLT", amt, f), left <= 1, nil})
			} else {
				amt := govPct(remaining, int64(25+r.Intn(50)))
				if amt.Sign() <= 0 {
					amt = big.NewInt(1)
				}
				p.addFunder(f)
				cands = append(cands, govCand{e.txFund("PROPOSAL_FUND/partial", id, f.Addr, "OLT", amt, f), false, nil})
			}
		case "starve", "cancel", "idle":
			max := 2
			if p.Plan == "idle" {
				max = 1
			}
			if p.Emit["fund"] < max && r.Intn(2) == 0 && remaining.Cmp(big.NewInt(4)) > 0 {
				f := e.anyPayer()
				amt := govPct(remaining, int64(5+r.Intn(30)))
				if amt.Sign() <= 0 {
					amt = big.NewInt(1)
				}
				p.addFunder(f)
				cands = append(cands, govCand{e.txFund("PROPOSAL_FUND/partial", id, f.Addr, "OLT", amt, f), false, func() { p.Emit["fund"]++ }})
			}
			if p.Plan == "cancel" && (c.H >= p.CancelAt || left <= 1) && p.Emit["cancel"] < 3 {
				cands = append(cands, govCand{e.txCancel("PROPOSAL_CANCEL", id, p.Proposer.Addr, p.Proposer), left <= 1, func() { p.Emit["cancel"]++ }})
			}
		}
		return cands, true

	case v.funding() || v.refundable():
		// funding deadline passed with the goal missed, or cancelled: funders take their money back
		if v.funding() && p.Plan == "idle" && r.Intn(3) != 0 {
			return nil, true // leave it lying around for a while
		}
		n, any := 0, false
		off := pick(r, len(p.Funders))
		for i := range p.Funders {
			f := p.Funders[(off+i)%len(p.Funders)]
			have := e.contribution(id, f.Addr)
			if have.Sign() <= 0 {
				continue
			}
			any = true
			if n >= 2 {
				break
			}
			amt := new(big.Int).Set(have)
			kind := "PROPOSAL_WITHDRAW_FUNDS"
			if v.Funds.Cmp(have) < 0 {
				// somebody pushed the total below the individual records (negative funding): the
				// deduction from the total fails, the money is stuck; only probe it now and then
				if r.Intn(5) != 0 {
					continue
				}
				kind = "PROPOSAL_WITHDRAW_FUNDS/total-underflow"
				cands = append(cands, govCand{e.txWithdraw(kind, id, f.Addr, amt, f.Addr, f), false, func() { p.Emit["wd"]++ }})
				n++
				continue
			}
			n++
			if r.Intn(4) == 0 && have.Cmp(big.NewInt(2)) > 0 {
				amt = govPct(have, int64(20+r.Intn(60)))
				if amt.Sign() <= 0 {
					amt = big.NewInt(1)
				}
				kind = "PROPOSAL_WITHDRAW_FUNDS/part"
			}
			benef := f.Addr
			if r.Intn(5) == 0 {
				benef = e.stranger(p).Addr
				kind = "PROPOSAL_WITHDRAW_FUNDS/other-beneficiary"
			}
			cands = append(cands, govCand{e.txWithdraw(kind, id, f.Addr, amt, benef, f), false, func() { p.Emit["wd"]++ }})
		}
		if !any && v.refundable() {
			p.Done = true
		}
		if p.Emit["wd"] > 3*len(p.Funders)+6 {
			p.Done = true // withdrawals keep failing (e.g. id-underscore breaks the funder lookup): give up
		}
		if !any && v.funding() && c.H > v.P.FundingDeadline+6 {
			p.Done = true // nobody we know can move it any more
		}
		return cands, !p.Done

	case v.voting() && c.H <= v.P.VotingDeadline:
		pass := v.P.PassPercentage
		if o := e.optFor(v.P.Type); o != nil {
			pass = o.PassPercentage // runVote uses the option, not the proposal's own copy
		}
		t := govTallyOf(v.Votes)
		if t.result(pass) != governance.VOTE_RESULT_TBD {
			return nil, true
		}
		order := r.Perm(len(v.Votes))
		if p.Plan != "expire" && r.Intn(10) < 7 { // mostly heavy validators first, so that few votes decide
			sort.SliceStable(order, func(a, b int) bool { return v.Votes[order[a]].Power > v.Votes[order[b]].Power })
		}
		emitted := 0
		for _, i := range order {
			if emitted >= 2 {
				break
			}
			pv := v.Votes[i]
			vk := e.valBy[pv.Validator.String()]
			if vk == nil {
				continue
			}
			var op governance.VoteOpinion
			kind := ""
			unvoted := pv.Opinion == governance.OPIN_UNKNOWN
			x := r.Intn(100)
			switch p.Plan {
			case "pass":
				if unvoted {
					op, kind = governance.OPIN_POSITIVE, "PROPOSAL_VOTE/yes"
					if x < 8 {
						op, kind = governance.OPIN_GIVEUP, "PROPOSAL_VOTE/giveup"
					} else if x < 14 {
						op, kind = governance.OPIN_NEGATIVE, "PROPOSAL_VOTE/no"
					}
				} else if pv.Opinion != governance.OPIN_POSITIVE && x < 50 {
					op, kind = governance.OPIN_POSITIVE, "PROPOSAL_VOTE/revote-yes"
				}
			case "fail":
				if unvoted {
					op, kind = governance.OPIN_NEGATIVE, "PROPOSAL_VOTE/no"
					if x < 8 {
						op, kind = governance.OPIN_GIVEUP, "PROPOSAL_VOTE/giveup"
					} else if x < 14 {
						op, kind = governance.OPIN_POSITIVE, "PROPOSAL_VOTE/yes"
					}
				} else if pv.Opinion != governance.OPIN_NEGATIVE && x < 50 {
					op, kind = governance.OPIN_NEGATIVE, "PROPOSAL_VOTE/revote-no"
				}
			case "expire":
				// only votes that leave the result open
				if unvoted && x < 30 {
					op, kind = governance.OPIN_POSITIVE, "PROPOSAL_VOTE/yes"
					if x < 12 {
						op, kind = governance.OPIN_NEGATIVE, "PROPOSAL_VOTE/no"
					}
					tt := t
					tt.apply(pv.Power, pv.Opinion, op)
					if tt.result(pass) != governance.VOTE_RESULT_TBD {
						kind = ""
					}
				}
			}
			if kind == "" {
				continue
			}
			t.apply(pv.Power, pv.Opinion, op)
			voter := vk.NodeKey
			cands = append(cands, govCand{e.txVote(kind, id, voter.Addr, vk.ValKey.Addr, op, voter, vk.ValKey), v.P.VotingDeadline-c.H <= 1 && p.Plan != "expire", nil})
			emitted++
			if t.result(pass) != governance.VOTE_RESULT_TBD {
				// decisive vote: sometimes race a public finalize into the same block
				if r.Intn(6) == 0 && !p.unlisted() {
					if w := e.anyValidator(); w != nil {
						cands = append(cands, govCand{e.txFinalize("PROPOSAL_FINALIZE/same-block-as-vote", id, w.ValKey), false, nil})
					}
				}
				break
			}
		}
		return cands, true

	case v.voting():
		// voting deadline passed: the application expires it at the end of this very block;
		// a validator sending the same thing through the public router is the "legitimate moment"
		if p.Emit["expire"] == 0 && r.Intn(3) != 0 && !p.unlisted() {
			if w := e.anyValidator(); w != nil {
				cands = append(cands, govCand{e.txExpire("EXPIRE_VOTES/legit-race", id, w.ValKey), true, func() { p.Emit["expire"]++ }})
			}
		}
		return cands, true

	case v.decided():
		// the application finalises at the end of this block; race it from the public side
		if p.Emit["finalize"] == 0 && r.Intn(2) == 0 && !p.unlisted() {
			mark := func() { p.Emit["finalize"]++ }
			if r.Intn(3) == 0 {
				cands = append(cands, govCand{e.txFinalize("PROPOSAL_FINALIZE/stranger-race", id, e.freshAccount()), true, mark})
			} else if w := e.anyValidator(); w != nil {
				cands = append(cands, govCand{e.txFinalize("PROPOSAL_FINALIZE/legit-race", id, w.ValKey), true, mark})
			}
		}
		if c.H > p.Born+200 {
			p.Done = true
		}
		return cands, true

	default: // expired, finalized, finalize-failed
		p.Done = true
		return nil, false
	}
}

// ---- creation -----------------------------------------------------------------------------

func (e *govEnv) create() []Tx {
	r := e.c.Rng
	t := governance.ProposalTypeConfigUpdate
	switch x := r.Intn(100); {
	case x < 55:
	case x < 78:
		t = governance.ProposalTypeGeneral
	default:
		t = governance.ProposalTypeCodeChange
	}
	proposer := e.anyPayer()
	cfg, kind := "", "PROPOSAL_CREATE/general"
	valid := true
	switch t {
	case governance.ProposalTypeCodeChange:
		kind = "PROPOSAL_CREATE/codechange"
		if r.Intn(3) == 0 {
			cfg = "ignored:for this type"
		}
	case governance.ProposalTypeConfigUpdate:
		cc := e.pickCfg()
		cfg, valid = cc.Payload, cc.Valid
		kind = "PROPOSAL_CREATE/config-" + cc.Cat
	}
	m := e.legitCreate(t, proposer, cfg)
	if m == nil {
		return nil
	}
	if valid {
		plan := "pass"
		x := r.Intn(100)
		if t == governance.ProposalTypeConfigUpdate {
			switch {
			case x < 62:
			case x < 72:
				plan = "fail"
			case x < 80:
				plan = "expire"
			case x < 88:
				plan = "starve"
			case x < 96:
				plan = "cancel"
			default:
				plan = "idle"
			}
		} else {
			switch {
			case x < 30:
			case x < 48:
				plan = "fail"
			case x < 63:
				plan = "expire"
			case x < 78:
				plan = "starve"
			case x < 93:
				plan = "cancel"
			default:
				plan = "idle"
			}
		}
		if len(cfg) > 15 && cfg[:15] == "stakingOptions." && r.Intn(10) != 0 {
			plan = "pass" // rare opportunity (needs maturityTime in range first): do not waste it
		}
		e.track(m, proposer, plan)
	}
	return []Tx{e.txCreate(kind, m, proposer)}
}

// ---- hostile variants -----------------------------------------------------------------------

// victim picks a tracked proposal whose committed state satisfies want; proposals with plan "idle"
// are preferred so that destructive variants do not kill all the deep flows.
func (e *govEnv) victim(want func(v *govView) bool, includeDone bool) (*govProp, *govView) {
	var idle, other []*govProp
	n := len(e.s.Props)
	lo := 0
	if n > 40 {
		lo = n - 40
	}
	for _, p := range e.s.Props[lo:] {
		if p.Done && !includeDone {
			continue
		}
		v := e.view(p.ID)
		if !want(v) {
			continue
		}
		if p.Plan == "idle" {
			idle = append(idle, p)
		} else {
			other = append(other, p)
		}
	}
	var p *govProp
	switch {
	case len(idle) > 0 && (len(other) == 0 || e.c.Rng.Intn(10) < 7):
		p = idle[pick(e.c.Rng, len(idle))]
	case len(other) > 0:
		p = other[pick(e.c.Rng, len(other))]
	default:
		return nil, nil
	}
	return p, e.view(p.ID)
}

func (e *govEnv) hostileCreate() []Tx {
	r := e.c.Rng
	t := governance.ProposalTypeGeneral // general / code change: no payload needed
	if r.Intn(2) == 0 {
		t = governance.ProposalTypeCodeChange
	}
	proposer := e.anyUser()
	m := e.legitCreate(t, proposer, "")
	if m == nil {
		return nil
	}
	o := e.optFor(t)
	signer := proposer
	kind := ""
	trackPlan := ""
	n := 19
	if e.lethal() {
		n = 20
	}
	switch r.Intn(n) {
	case 0:
		p, _ := e.victim(func(v *govView) bool { return v.Exists }, true)
		if p == nil {
			return nil
		}
		m.ProposalID = governance.ProposalID(p.ID)
		kind = "PROPOSAL_CREATE/dup-id"
	case 1:
		m.FundingDeadline = e.c.H - int64(r.Intn(3))
		m.VotingDeadline = m.FundingDeadline + o.VotingDeadline
		kind = "PROPOSAL_CREATE/past-funding-deadline"
	case 2:
		// the option's funding deadline is never compared with the message
		m.FundingDeadline = e.c.H + o.FundingDeadline*3 + int64(1+r.Intn(50))
		if r.Intn(2) == 0 {
			m.FundingDeadline = e.c.H + 1
		}
		m.VotingDeadline = m.FundingDeadline + o.VotingDeadline
		kind, trackPlan = "PROPOSAL_CREATE/funding-deadline-not-option", "pass"
	case 3:
		d := int64(1 + r.Intn(5))
		if r.Intn(2) == 0 {
			d = -d
		}
		m.VotingDeadline += d
		kind = "PROPOSAL_CREATE/bad-voting-deadline"
	case 4:
		pp := []int{0, 1, 50, 100, o.PassPercentage + 1, o.PassPercentage - 1, -5}
		m.PassPercentage = pp[r.Intn(len(pp))]
		kind = "PROPOSAL_CREATE/bad-pass-percentage"
	case 5:
		g := new(big.Int).Set(o.FundingGoal.BigInt())
		if r.Intn(2) == 0 {
			g.Sub(g, big.NewInt(1))
		} else {
			g.Mul(g, big.NewInt(2))
		}
		m.FundingGoal = balance.NewAmountFromBigInt(g)
		kind = "PROPOSAL_CREATE/bad-goal"
	case 6:
		m.InitialFunding = govAmt("OLT", new(big.Int).Sub(o.InitialFunding.BigInt(), big.NewInt(1)))
		kind = "PROPOSAL_CREATE/low-initial"
	case 7:
		m.InitialFunding = govAmt("OLT", new(big.Int))
		kind = "PROPOSAL_CREATE/zero-initial"
	case 8:
		m.InitialFunding = govAmt("OLT", new(big.Int).Neg(o.InitialFunding.BigInt()))
		kind = "PROPOSAL_CREATE/negative-initial"
	case 9:
		g := new(big.Int).Set(o.FundingGoal.BigInt())
		if r.Intn(2) == 0 {
			g.Add(g, bigRand(r, g))
		}
		m.InitialFunding = govAmt("OLT", g)
		kind = "PROPOSAL_CREATE/initial-ge-goal"
	case 10:
		signer = e.freshAccount()
		m.Proposer = signer.Addr
		kind = "PROPOSAL_CREATE/broke-proposer"
		if r.Intn(2) == 0 {
			// a config update that would RAISE the minimal fee above what every client pays: harmless, because a
			// proposer without funds cannot create it (and it would still have to pass)
			m.ProposalType = governance.ProposalTypeConfigUpdate
			m.ConfigUpdate = "feeOption.minFeeDecimal:" + strconv.Itoa(r.Intn(9))
			if oc := e.optFor(governance.ProposalTypeConfigUpdate); oc != nil {
				m.InitialFunding = govAmt("OLT", new(big.Int).Set(oc.InitialFunding.BigInt()))
				m.FundingGoal = balance.NewAmountFromBigInt(new(big.Int).Set(oc.FundingGoal.BigInt()))
				m.FundingDeadline = e.c.H + oc.FundingDeadline
				m.VotingDeadline = m.FundingDeadline + oc.VotingDeadline
				m.PassPercentage = oc.PassPercentage
			}
			kind = "PROPOSAL_CREATE/broke-proposer-fee-raise"
		}
	case 11:
		bt := []governance.ProposalType{0, 0x23, governance.ProposalTypeInvalid, 0x1f}
		m.ProposalType = bt[r.Intn(len(bt))]
		kind = "PROPOSAL_CREATE/bad-type"
	case 12:
		m.Description = ""
		kind, trackPlan = "PROPOSAL_CREATE/empty-description", "cancel"
	case 13:
		m.InitialFunding.Currency = []string{"VT", "BTC", "ETH"}[r.Intn(3)]
		kind = "PROPOSAL_CREATE/other-currency"
	case 14:
		// the message names a rich account, somebody else signs
		signer = e.stranger(&govProp{Proposer: proposer})
		kind, trackPlan = "PROPOSAL_CREATE/badsig", "idle"
	case 15:
		// ids starting at '~' are outside every store iteration range (Rangefix uses "~")
		m.ProposalID = governance.ProposalID("~" + string(m.ProposalID)[1:])
		kind, trackPlan = "PROPOSAL_CREATE/id-unlisted", "pass"
		if r.Intn(3) == 0 {
			trackPlan = "expire"
		}
	case 16:
		s := string(m.ProposalID)
		m.ProposalID = governance.ProposalID(s[:20] + "_" + s[21:40] + "_" + s[41:])
		kind, trackPlan = "PROPOSAL_CREATE/id-underscore", "starve"
		if r.Intn(2) == 0 {
			trackPlan = "pass"
		}
	case 17:
		m.ProposalID = m.ProposalID[:1+r.Intn(12)]
		kind, trackPlan = "PROPOSAL_CREATE/bad-id-length", "cancel"
	case 18:
		// two creations of the same fresh id in one block
		m2 := *m
		m2.Description = "twin " + memo(e.c)
		other := e.stranger(&govProp{Proposer: proposer})
		m2.Proposer = other.Addr
		e.track(m, proposer, "idle")
		return []Tx{e.txCreate("PROPOSAL_CREATE/same-id-same-block", m, proposer), e.txCreate("PROPOSAL_CREATE/same-id-same-block", &m2, other)}
	case 19:
		m.FundingGoal = nil
		kind = "PROPOSAL_CREATE/nil-goal" // lethal
	}
	if kind == "" {
		return nil
	}
	if trackPlan != "" {
		e.track(m, proposer, trackPlan)
	}
	return []Tx{e.txCreate(kind, m, signer)}
}

func (e *govEnv) hostileFund() []Tx {
	r := e.c.Rng
	k := r.Intn(14)
	open := func(v *govView) bool { return v.funding() && e.c.H <= v.P.FundingDeadline }
	switch k {
	case 0, 1, 2, 3, 4, 5, 9, 10, 11, 13:
		p, v := e.victim(open, false)
		if p == nil {
			return nil
		}
		f := e.anyPayer()
		goal := v.P.FundingGoal.BigInt()
		remaining := new(big.Int).Sub(goal, v.Funds)
		switch k {
		case 0:
			return []Tx{e.txFund("PROPOSAL_FUND/zero", p.ID, f.Addr, "OLT", new(big.Int), f)}
		case 1:
			// smaller than what the funder already put in when possible
			have := e.contribution(p.ID, p.Proposer.Addr)
			if have.Sign() > 0 && r.Intn(2) == 0 {
				f = p.Proposer
			}
			amt := new(big.Int).Add(big.NewInt(1), bigRand(r, govPct(goal, 5)))
			p.addFunder(f)
			return []Tx{e.txFund("PROPOSAL_FUND/negative", p.ID, f.Addr, "OLT", amt.Neg(amt), f)}
		case 2:
			amt := new(big.Int).Add(v.Funds, bigRand(r, goal))
			amt.Add(amt, big.NewInt(1))
			p.addFunder(f)
			return []Tx{e.txFund("PROPOSAL_FUND/negative-below-zero", p.ID, f.Addr, "OLT", amt.Neg(amt), f)}
		case 3:
			amt := new(big.Int).Add(e.c.Ref.BalanceOf(f.Addr, "OLT"), big.NewInt(1))
			if r.Intn(2) == 0 {
				amt = new(big.Int).Exp(big.NewInt(10), big.NewInt(60), nil)
			}
			return []Tx{e.txFund("PROPOSAL_FUND/huge", p.ID, f.Addr, "OLT", amt, f)}
		case 4:
			cur := []string{"VT", "BTC", "ETH", "TTC"}[r.Intn(4)]
			return []Tx{e.txFund("PROPOSAL_FUND/other-currency", p.ID, f.Addr, cur, big.NewInt(1000), f)}
		case 5:
			// funder field names a rich account, a stranger signs
			signer := e.stranger(&govProp{Proposer: f})
			p.addFunder(f)
			amt := govPct(goal, int64(1+r.Intn(20)))
			return []Tx{e.txFund("PROPOSAL_FUND/badsig", p.ID, f.Addr, "OLT", amt, signer)}
		case 9:
			if remaining.Sign() <= 0 {
				return nil
			}
			g := e.stranger(&govProp{Proposer: f})
			p.addFunder(f)
			p.addFunder(g)
			return []Tx{e.txFund("PROPOSAL_FUND/race-goal", p.ID, f.Addr, "OLT", remaining, f),
				e.txFund("PROPOSAL_FUND/race-goal", p.ID, g.Addr, "OLT", remaining, g)}
		case 10:
			x := e.freshAccount()
			return []Tx{e.txFund("PROPOSAL_FUND/broke-funder", p.ID, x.Addr, "OLT", big.NewInt(1000), x)}
		case 11:
			if remaining.Sign() <= 0 {
				return nil
			}
			// the proposer cancels while somebody completes the goal in the same block
			p.addFunder(f)
			return []Tx{e.txFund("PROPOSAL_FUND/race-cancel", p.ID, f.Addr, "OLT", remaining, f),
				e.txCancel("PROPOSAL_CANCEL/race-fund", p.ID, p.Proposer.Addr, p.Proposer)}
		default:
			// rejected by Validate; when Validate is not run on delivery (older trees) the nil coin used to
			// panic inside balance.Coin.Minus
			return []Tx{e.txFund("PROPOSAL_FUND/unknown-currency", p.ID, f.Addr, "XYZ", big.NewInt(1000), f)}
		}
	case 6:
		p, _ := e.victim(func(v *govView) bool { return v.funding() && e.c.H > v.P.FundingDeadline }, true)
		if p == nil {
			return nil
		}
		f := e.anyPayer()
		if e.c.Rng.Intn(2) == 0 {
			// the late contribution would complete the goal
			if v := e.view(p.ID); v != nil && v.P != nil {
				if rem := new(big.Int).Sub(v.P.FundingGoal.BigInt(), v.Funds); rem.Sign() > 0 {
					return []Tx{e.txFund("PROPOSAL_FUND/after-deadline-goal", p.ID, f.Addr, "OLT", rem, f)}
				}
			}
		}
		return []Tx{e.txFund("PROPOSAL_FUND/after-deadline", p.ID, f.Addr, "OLT", big.NewInt(1000000), f)}
	case 7:
		f := e.anyPayer()
		return []Tx{e.txFund("PROPOSAL_FUND/unknown-id", e.newID(), f.Addr, "OLT", big.NewInt(1000000), f)}
	case 8:
		p, _ := e.victim(func(v *govView) bool { return v.voting() }, false)
		if p == nil {
			return nil
		}
		f := e.anyPayer()
		return []Tx{e.txFund("PROPOSAL_FUND/on-voting", p.ID, f.Addr, "OLT", big.NewInt(1000000), f)}
	default: // 12
		p, _ := e.victim(func(v *govView) bool { return v.Exists && v.State != governance.ProposalStateActive }, true)
		if p == nil {
			return nil
		}
		f := e.anyPayer()
		return []Tx{e.txFund("PROPOSAL_FUND/on-finished", p.ID, f.Addr, "OLT", big.NewInt(1000000), f)}
	}
}

func (e *govEnv) hostileWithdraw() []Tx {
	r := e.c.Rng
	withdrawable := func(v *govView) bool { return v.refundable() || (v.funding() && e.c.H > v.P.FundingDeadline) }
	// a funder of p that still has something in
	funderOf := func(p *govProp) (*core.Account, *big.Int) {
		off := pick(r, len(p.Funders))
		for i := range p.Funders {
			f := p.Funders[(off+i)%len(p.Funders)]
			if have := e.contribution(p.ID, f.Addr); have.Sign() > 0 {
				return f, have
			}
		}
		return nil, nil
	}
	k := r.Intn(12)
	switch k {
	case 0, 1, 2, 3, 4, 5, 6:
		p, _ := e.victim(withdrawable, true)
		if p == nil {
			return nil
		}
		if k == 1 {
			x := e.stranger(p)
			return []Tx{e.txWithdraw("PROPOSAL_WITHDRAW_FUNDS/non-funder", p.ID, x.Addr, big.NewInt(1000), x.Addr, x)}
		}
		f, have := funderOf(p)
		if f == nil {
			return nil
		}
		switch k {
		case 0:
			amt := new(big.Int).Add(have, big.NewInt(1))
			if r.Intn(3) == 0 {
				amt.Mul(have, big.NewInt(1000))
			}
			return []Tx{e.txWithdraw("PROPOSAL_WITHDRAW_FUNDS/too-much", p.ID, f.Addr, amt, f.Addr, f)}
		case 2:
			// negative amount: the beneficiary is debited, the funder's record grows
			victim := e.stranger(p)
			amt := new(big.Int).Add(big.NewInt(1), bigRand(r, have))
			return []Tx{e.txWithdraw("PROPOSAL_WITHDRAW_FUNDS/negative", p.ID, f.Addr, amt.Neg(amt), victim.Addr, f)}
		case 3:
			if r.Intn(2) == 0 {
				// the refund asked for in another registered currency (contributions are OLT)
				cur := []string{"ETH", "TTC", "BTC", "VT"}[r.Intn(4)]
				amt := new(big.Int).Add(big.NewInt(1), bigRand(r, have))
				msg := &govact.WithdrawFunds{ProposalID: governance.ProposalID(p.ID), Funder: f.Addr, WithdrawValue: govAmt(cur, amt), Beneficiary: f.Addr}
				return []Tx{{Bytes: core.BuildTx(msg, core.DefaultFee(), memo(e.c), f), Kind: "PROPOSAL_WITHDRAW_FUNDS/other-currency"}}
			}
			return []Tx{e.txWithdraw("PROPOSAL_WITHDRAW_FUNDS/zero", p.ID, f.Addr, new(big.Int), f.Addr, f)}
		case 4:
			return []Tx{e.txWithdraw("PROPOSAL_WITHDRAW_FUNDS/double", p.ID, f.Addr, have, f.Addr, f),
				e.txWithdraw("PROPOSAL_WITHDRAW_FUNDS/double", p.ID, f.Addr, have, f.Addr, f)}
		case 5:
			// funder field names the real funder, a stranger signs and is the beneficiary
			x := e.stranger(p)
			return []Tx{e.txWithdraw("PROPOSAL_WITHDRAW_FUNDS/badsig-steal", p.ID, f.Addr, have, x.Addr, x)}
		default:
			x := e.freshAccount()
			return []Tx{e.txWithdraw("PROPOSAL_WITHDRAW_FUNDS/fresh-beneficiary", p.ID, f.Addr, have, x.Addr, f)}
		}
	case 7:
		p, _ := e.victim(func(v *govView) bool { return v.funding() && e.c.H <= v.P.FundingDeadline }, false)
		if p == nil {
			return nil
		}
		f, have := funderOf(p)
		if f == nil {
			return nil
		}
		return []Tx{e.txWithdraw("PROPOSAL_WITHDRAW_FUNDS/early", p.ID, f.Addr, have, f.Addr, f)}
	case 8:
		p, _ := e.victim(func(v *govView) bool { return v.voting() || v.decided() }, false)
		if p == nil {
			return nil
		}
		f, have := funderOf(p)
		if f == nil {
			return nil
		}
		return []Tx{e.txWithdraw("PROPOSAL_WITHDRAW_FUNDS/goal-met", p.ID, f.Addr, have, f.Addr, f)}
	case 9:
		p, _ := e.victim(func(v *govView) bool { return v.finalized() }, true)
		if p == nil {
			return nil
		}
		f := p.Funders[pick(r, len(p.Funders))]
		return []Tx{e.txWithdraw("PROPOSAL_WITHDRAW_FUNDS/on-finalized", p.ID, f.Addr, big.NewInt(1000), f.Addr, f)}
	case 10:
		p, _ := e.victim(func(v *govView) bool { return v.expired() }, true)
		if p == nil {
			return nil
		}
		f, have := funderOf(p)
		if f == nil {
			return nil
		}
		return []Tx{e.txWithdraw("PROPOSAL_WITHDRAW_FUNDS/on-expired", p.ID, f.Addr, have, f.Addr, f)}
	default:
		f := e.anyPayer()
		return []Tx{e.txWithdraw("PROPOSAL_WITHDRAW_FUNDS/unknown-id", e.newID(), f.Addr, big.NewInt(1000), f.Addr, f)}
	}
}

func (e *govEnv) hostileVote() []Tx {
	r := e.c.Rng
	ops := []governance.VoteOpinion{governance.OPIN_POSITIVE, governance.OPIN_NEGATIVE, governance.OPIN_GIVEUP}
	op := ops[r.Intn(3)]
	n := 12
	if e.lethal() {
		n = 13
	}
	k := r.Intn(n)
	inVoting := func(v *govView) bool { return v.voting() && e.c.H <= v.P.VotingDeadline }
	snapshotVal := func(v *govView, voted bool) (*core.ValidatorKeys, *governance.ProposalVote) {
		for _, i := range r.Perm(len(v.Votes)) {
			pv := v.Votes[i]
			if (pv.Opinion != governance.OPIN_UNKNOWN) != voted {
				continue
			}
			if vk := e.valBy[pv.Validator.String()]; vk != nil {
				return vk, pv
			}
		}
		return nil, nil
	}
	switch k {
	case 0, 1, 2, 3, 4, 5, 6, 12:
		p, v := e.victim(inVoting, false)
		if p == nil {
			return nil
		}
		switch k {
		case 0:
			u := e.anyUser()
			return []Tx{e.txVote("PROPOSAL_VOTE/non-validator", p.ID, u.Addr, u.Addr, op, u, u)}
		case 1:
			if len(e.c.W.Candidates) == 0 {
				return nil
			}
			vk := e.c.W.Candidates[pick(r, len(e.c.W.Candidates))]
			return []Tx{e.txVote("PROPOSAL_VOTE/candidate", p.ID, vk.NodeKey.Addr, vk.ValKey.Addr, op, vk.NodeKey, vk.ValKey)}
		case 2:
			vk, pv := snapshotVal(v, true)
			if vk == nil {
				return nil
			}
			nop := governance.OPIN_POSITIVE
			if pv.Opinion == governance.OPIN_POSITIVE {
				nop = governance.OPIN_NEGATIVE
			}
			return []Tx{e.txVote("PROPOSAL_VOTE/twice", p.ID, vk.NodeKey.Addr, vk.ValKey.Addr, nop, vk.NodeKey, vk.ValKey)}
		case 3:
			// opinion 0 is accepted and erases a vote
			vk, _ := snapshotVal(v, r.Intn(2) == 0)
			if vk == nil {
				return nil
			}
			return []Tx{e.txVote("PROPOSAL_VOTE/unknown-opinion", p.ID, vk.NodeKey.Addr, vk.ValKey.Addr, governance.OPIN_UNKNOWN, vk.NodeKey, vk.ValKey)}
		case 4:
			// the "voter" address is not the validator's stake address (nothing ties them together)
			vk, _ := snapshotVal(v, false)
			if vk == nil {
				return nil
			}
			u := e.anyUser()
			return []Tx{e.txVote("PROPOSAL_VOTE/foreign-voter-address", p.ID, u.Addr, vk.ValKey.Addr, op, u, vk.ValKey)}
		case 5:
			// validator named in the message, two strangers sign
			vk, _ := snapshotVal(v, false)
			if vk == nil {
				return nil
			}
			u, w := e.anyUser(), e.anyUser()
			return []Tx{e.txVote("PROPOSAL_VOTE/badsig", p.ID, vk.NodeKey.Addr, vk.ValKey.Addr, op, u, w)}
		case 6:
			vk, _ := snapshotVal(v, false)
			if vk == nil {
				return nil
			}
			return []Tx{e.txVote("PROPOSAL_VOTE/same-block-twice", p.ID, vk.NodeKey.Addr, vk.ValKey.Addr, governance.OPIN_POSITIVE, vk.NodeKey, vk.ValKey),
				e.txVote("PROPOSAL_VOTE/same-block-twice", p.ID, vk.NodeKey.Addr, vk.ValKey.Addr, governance.OPIN_NEGATIVE, vk.NodeKey, vk.ValKey)}
		default:
			vk, _ := snapshotVal(v, false)
			if vk == nil {
				return nil
			}
			bad := governance.VoteOpinion(4 + r.Intn(200))
			return []Tx{e.txVote("PROPOSAL_VOTE/bad-opinion", p.ID, vk.NodeKey.Addr, vk.ValKey.Addr, bad, vk.NodeKey, vk.ValKey)} // lethal
		}
	case 7:
		p, v := e.victim(func(v *govView) bool { return v.voting() && e.c.H > v.P.VotingDeadline }, true)
		if p == nil {
			return nil
		}
		vk, _ := snapshotVal(v, false)
		if vk == nil {
			return nil
		}
		return []Tx{e.txVote("PROPOSAL_VOTE/after-deadline", p.ID, vk.NodeKey.Addr, vk.ValKey.Addr, op, vk.NodeKey, vk.ValKey)}
	case 8, 9:
		p, _ := e.victim(func(v *govView) bool { return v.funding() }, false)
		vk := e.anyValidator()
		if p == nil || vk == nil {
			return nil
		}
		return []Tx{e.txVote("PROPOSAL_VOTE/on-funding", p.ID, vk.NodeKey.Addr, vk.ValKey.Addr, op, vk.NodeKey, vk.ValKey)}
	case 10:
		p, _ := e.victim(func(v *govView) bool { return v.Exists && v.State != governance.ProposalStateActive }, true)
		vk := e.anyValidator()
		if p == nil || vk == nil {
			return nil
		}
		return []Tx{e.txVote("PROPOSAL_VOTE/on-finished", p.ID, vk.NodeKey.Addr, vk.ValKey.Addr, op, vk.NodeKey, vk.ValKey)}
	default:
		vk := e.anyValidator()
		if vk == nil {
			return nil
		}
		return []Tx{e.txVote("PROPOSAL_VOTE/unknown-id", e.newID(), vk.NodeKey.Addr, vk.ValKey.Addr, op, vk.NodeKey, vk.ValKey)}
	}
}

func (e *govEnv) hostileCancel() []Tx {
	r := e.c.Rng
	switch r.Intn(7) {
	case 0, 1:
		p, _ := e.victim(func(v *govView) bool { return v.funding() && e.c.H <= v.P.FundingDeadline }, false)
		if p == nil {
			return nil
		}
		x := e.stranger(p)
		return []Tx{e.txCancel("PROPOSAL_CANCEL/stranger", p.ID, x.Addr, x)}
	case 2:
		p, _ := e.victim(func(v *govView) bool { return v.funding() && e.c.H <= v.P.FundingDeadline }, false)
		if p == nil {
			return nil
		}
		x := e.stranger(p)
		return []Tx{e.txCancel("PROPOSAL_CANCEL/badsig", p.ID, p.Proposer.Addr, x)}
	case 3:
		p, _ := e.victim(func(v *govView) bool { return v.voting() || v.decided() }, false)
		if p == nil {
			return nil
		}
		return []Tx{e.txCancel("PROPOSAL_CANCEL/after-goal", p.ID, p.Proposer.Addr, p.Proposer)}
	case 4:
		p, _ := e.victim(func(v *govView) bool { return v.funding() && e.c.H > v.P.FundingDeadline }, true)
		if p == nil {
			return nil
		}
		return []Tx{e.txCancel("PROPOSAL_CANCEL/after-deadline", p.ID, p.Proposer.Addr, p.Proposer)}
	case 5:
		p, _ := e.victim(func(v *govView) bool { return v.refundable() || v.finalized() || v.expired() }, true)
		if p == nil {
			return nil
		}
		return []Tx{e.txCancel("PROPOSAL_CANCEL/on-finished", p.ID, p.Proposer.Addr, p.Proposer)}
	default:
		u := e.anyUser()
		return []Tx{e.txCancel("PROPOSAL_CANCEL/unknown-id", e.newID(), u.Addr, u)}
	}
}

// who sends an internal kind through the public router: a validator key, a funded user, or an unfunded nobody
func (e *govEnv) internalSender() (*core.Account, string) {
	switch e.c.Rng.Intn(3) {
	case 0:
		if w := e.anyValidator(); w != nil {
			return w.ValKey, "validator"
		}
	case 1:
		return e.anyUser(), "stranger"
	}
	return e.freshAccount(), "stranger"
}

func (e *govEnv) hostileExpire() []Tx {
	who, role := e.internalSender()
	switch e.c.Rng.Intn(6) {
	case 0, 1:
		p, _ := e.victim(func(v *govView) bool { return v.voting() && e.c.H <= v.P.VotingDeadline }, false)
		if p == nil {
			return nil
		}
		return []Tx{e.txExpire("EXPIRE_VOTES/"+role+"-early", p.ID, who)}
	case 2, 3:
		p, _ := e.victim(func(v *govView) bool { return v.funding() }, false)
		if p == nil {
			return nil
		}
		return []Tx{e.txExpire("EXPIRE_VOTES/"+role+"-on-funding", p.ID, who)}
	case 4:
		p, _ := e.victim(func(v *govView) bool { return v.Exists && v.State != governance.ProposalStateActive }, true)
		if p == nil {
			return nil
		}
		return []Tx{e.txExpire("EXPIRE_VOTES/on-finished", p.ID, who)}
	default:
		return []Tx{e.txExpire("EXPIRE_VOTES/unknown-id", e.newID(), who)}
	}
}

func (e *govEnv) hostileFinalize() []Tx {
	who, role := e.internalSender()
	switch e.c.Rng.Intn(7) {
	case 0, 1:
		p, _ := e.victim(func(v *govView) bool { return v.Exists && v.State == governance.ProposalStateActive }, false)
		if p == nil {
			return nil
		}
		return []Tx{e.txFinalize("PROPOSAL_FINALIZE/"+role+"-early", p.ID, who)}
	case 2:
		p, _ := e.victim(func(v *govView) bool { return v.refundable() }, true)
		if p == nil {
			return nil
		}
		return []Tx{e.txFinalize("PROPOSAL_FINALIZE/on-refundable", p.ID, who)}
	case 3:
		p, _ := e.victim(func(v *govView) bool { return v.expired() }, true)
		if p == nil {
			return nil
		}
		return []Tx{e.txFinalize("PROPOSAL_FINALIZE/on-expired", p.ID, who)}
	case 4, 5:
		p, _ := e.victim(func(v *govView) bool { return v.finalized() }, true)
		if p == nil {
			return nil
		}
		return []Tx{e.txFinalize("PROPOSAL_FINALIZE/again", p.ID, who)}
	default:
		return []Tx{e.txFinalize("PROPOSAL_FINALIZE/unknown-id", e.newID(), who)}
	}
}

func (e *govEnv) hostile() []Tx {
	for try := 0; try < 6; try++ {
		var txs []Tx
		switch x := e.c.Rng.Intn(100); {
		case x < 18:
			txs = e.hostileCreate()
		case x < 38:
			txs = e.hostileFund()
		case x < 56:
			txs = e.hostileWithdraw()
		case x < 72:
			txs = e.hostileVote()
		case x < 82:
			txs = e.hostileCancel()
		case x < 91:
			txs = e.hostileExpire()
		default:
			txs = e.hostileFinalize()
		}
		if len(txs) > 0 {
			return txs
		}
	}
	return nil
}

// ---- Gen ---------------------------------------------------------------------------------------

func (Gov) Gen(c *Ctx) (out []Tx) {
	defer func() {
		if r := recover(); r != nil {
			if govDebug {
				govLogf("gov: Gen recovered: %v", r)
			}
			if _, harness := r.(core.HarnessError); harness {
				out = nil
			}
		}
	}()
	if c == nil || c.Ref == nil || c.W == nil || c.Rng == nil || c.S == nil || len(c.W.Users) == 0 {
		return nil
	}
	s := govSession(c)
	e := newGovEnv(c, s)
	if e == nil {
		return nil
	}
	r := c.Rng
	if govDebug {
		govLogResults(c)
	}

	var cands []govCand
	live := 0
	for _, p := range s.Props {
		if p.Done {
			continue
		}
		cs, alive := e.step(p)
		cands = append(cands, cs...)
		if alive {
			live++
		}
	}

	budget := []int{0, 1, 1, 1, 2, 2, 2, 2, 3, 3, 4}[r.Intn(11)]
	if budget == 0 {
		return nil
	}
	// hostile minority
	if r.Intn(100) < 32 {
		h := e.hostile()
		if len(h) > budget {
			budget = len(h)
		}
		out = append(out, h...)
	}
	// a new proposal when few are in flight
	if len(out) < budget && (live < 2 || (live < 5 && r.Intn(100) < 30)) {
		out = append(out, e.create()...)
	}
	// the plans: urgent steps first, the rest in random order
	r.Shuffle(len(cands), func(i, j int) { cands[i], cands[j] = cands[j], cands[i] })
	for pass := 0; pass < 2; pass++ {
		for _, cd := range cands {
			if len(out) >= budget {
				break
			}
			if cd.urgent == (pass == 0) {
				out = append(out, cd.tx)
				if cd.sel != nil {
					cd.sel()
				}
			}
		}
	}
	if len(out) > 4 {
		out = out[:4]
	}
	if govDebug {
		for _, t := range out {
			govLogf("gov h=%d emit %s", c.H, t.Kind)
		}
	}
	return out
}

package gen

import (
	"encoding/json"
	"strings"

	"olsim/core"
)

// Garbage is the garbage client: arbitrary bytes, truncated / type-confused / deeply nested JSON, valid
// envelopes with missing or null parts.
type Garbage struct{}

func (Garbage) Name() string { return "garbage" }

func (Garbage) Gen(c *Ctx) []Tx {
	if c.Rng.Intn(10) >= 6 {
		return nil
	}
	var out []Tx
	n := 1 + c.Rng.Intn(3)
	for i := 0; i < n; i++ {
		out = append(out, garbageOne(c))
	}
	return out
}

func garbageOne(c *Ctx) Tx {
	var base []byte
	if len(c.S.Sent) > 0 {
		base = c.S.Sent[c.Rng.Intn(len(c.S.Sent))].Bytes
	}
	switch c.Rng.Intn(14) {
	case 0:
		b := make([]byte, c.Rng.Intn(200))
		c.Rng.Read(b)
		return Tx{Bytes: b, Kind: "GARBAGE/random-bytes"}
	case 1:
		return Tx{Bytes: []byte{}, Kind: "GARBAGE/empty"}
	case 2:
		if len(base) > 2 {
			return Tx{Bytes: base[:c.Rng.Intn(len(base))], Kind: "GARBAGE/truncated"}
		}
	case 3:
		return Tx{Bytes: []byte(`null`), Kind: "GARBAGE/json-null"}
	case 4:
		return Tx{Bytes: []byte(`[]`), Kind: "GARBAGE/json-array"}
	case 5:
		return Tx{Bytes: []byte(`{"type":"send","data":5,"fee":[],"memo":{},"signatures":"x"}`), Kind: "GARBAGE/wrong-types"}
	case 6:
		return Tx{Bytes: []byte(strings.Repeat("[", 5000) + strings.Repeat("]", 5000)), Kind: "GARBAGE/deep-array"}
	case 7:
		return Tx{Bytes: []byte(strings.Repeat(`{"a":`, 3000) + "1" + strings.Repeat("}", 3000)), Kind: "GARBAGE/deep-object"}
	case 8:
		if base != nil {
			var env map[string]interface{}
			if json.Unmarshal(base, &env) == nil && env != nil {
				ks := []string{"data", "fee", "memo", "signatures", "type"}
				k := ks[c.Rng.Intn(len(ks))]
				if c.Rng.Intn(2) == 0 {
					delete(env, k)
				} else {
					env[k] = nil
				}
				if b, err := json.Marshal(env); err == nil {
					return Tx{Bytes: b, Kind: "GARBAGE/envelope-missing:" + k}
				}
			}
		}
	case 9:
		if base != nil {
			var env map[string]interface{}
			if json.Unmarshal(base, &env) == nil && env != nil {
				env["signatures"] = []interface{}{}
				if b, err := json.Marshal(env); err == nil {
					return Tx{Bytes: b, Kind: "GARBAGE/no-signatures"}
				}
			}
		}
	case 10:
		if base != nil {
			var env map[string]interface{}
			if json.Unmarshal(base, &env) == nil && env != nil {
				env["signatures"] = []interface{}{map[string]interface{}{"Signer": nil, "Signed": nil}}
				if b, err := json.Marshal(env); err == nil {
					return Tx{Bytes: b, Kind: "GARBAGE/null-signer"}
				}
			}
		}
	case 11:
		if base != nil {
			var env map[string]interface{}
			if json.Unmarshal(base, &env) == nil && env != nil {
				env["data"] = "bm90IGpzb24=" // base64("not json")
				if b, err := json.Marshal(env); err == nil {
					return Tx{Bytes: b, Kind: "GARBAGE/payload-not-json"}
				}
			}
		}
	case 12:
		// correctly signed envelope around an empty / null payload of a random kind
		if tx := core.DecodeTx(base); tx != nil {
			u := c.W.Users[c.Rng.Intn(len(c.W.Users))]
			raw := tx.RawTx
			raw.Data = []byte([]string{"{}", "null", "[]", `""`, "0"}[c.Rng.Intn(5)])
			raw.Memo = memo(c)
			return Tx{Bytes: core.SignRaw(raw, u), Kind: tx.Type.String() + "/garbage:empty-payload"}
		}
	case 13:
		// signed envelope with an unknown transaction type
		if tx := core.DecodeTx(base); tx != nil {
			u := c.W.Users[c.Rng.Intn(len(c.W.Users))]
			raw := tx.RawTx
			raw.Type = 0x7777
			raw.Memo = memo(c)
			return Tx{Bytes: core.SignRaw(raw, u), Kind: "GARBAGE/unknown-type"}
		}
	}
	return Tx{Bytes: []byte(`{"type":1}`), Kind: "GARBAGE/minimal"}
}

func init() { Register(Garbage{}) }

package gen

import (
	"encoding/json"
	"math/big"
	"sort"
	"strings"

	"github.com/Oneledger/protocol/action"

	"olsim/core"
)

// HostileValues is the hostile-value client: it takes a transaction another client produced recently,
// rewrites amount-like fields of the payload to semantically hostile values (negative, zero, > 2^63,
// > 2^256, unknown currency, other currency) and re-signs it correctly with the original signers' keys.
type HostileValues struct{}

func (HostileValues) Name() string { return "hostile-values" }

var hostileNumbers = []string{"-1", "-1000000000000000000000", "0", "9223372036854775808", "18446744073709551616",
	"340282366920938463463374607431768211456", "115792089237316195423570985008687907853269984665640564039457584007913129639936",
	"231584178474632390847141970017375815706539969331281128078915168015826259279872"}
var hostileNumberClass = []string{"neg", "neg", "zero", "gt63", "gt64", "gt128", "gt256", "gt256"}
var hostileCurrencyClass = []string{"unknown", "empty", "other", "other", "other", "unknown"}
var hostileCurrencies = []string{"XYZ", "", "VT", "ETH", "BTC", "olt"}

func (HostileValues) Gen(c *Ctx) []Tx {
	if len(c.S.Sent) == 0 || c.Rng.Intn(10) >= 4 {
		return nil
	}
	var out []Tx
	n := 1 + c.Rng.Intn(2)
	for i := 0; i < n; i++ {
		lo := 0
		if len(c.S.Sent) > 30 {
			lo = len(c.S.Sent) - 30
		}
		src := c.S.Sent[lo+c.Rng.Intn(len(c.S.Sent)-lo)]
		if t := hostileMutate(c, src); t != nil {
			out = append(out, *t)
		}
	}
	return out
}

// hostileMutate rewrites one amount-like field of the payload and re-signs.
func hostileMutate(c *Ctx, src Tx) *Tx {
	tx := core.DecodeTx(src.Bytes)
	if tx == nil || tx.Type == action.OLVM {
		return nil
	}
	var payload interface{}
	if err := json.Unmarshal(tx.Data, &payload); err != nil {
		return nil
	}
	// collect mutable spots: amount objects {"currency","value"} and plain numeric/string-number fields
	type spot struct {
		obj  map[string]interface{}
		key  string
		kind string
	}
	var spots []spot
	var walk func(v interface{})
	walk = func(v interface{}) {
		switch x := v.(type) {
		case map[string]interface{}:
			ks := make([]string, 0, len(x))
			for k := range x {
				ks = append(ks, k)
			}
			sort.Strings(ks)
			_, hasCur := x["currency"]
			_, hasVal := x["value"]
			if hasCur && hasVal {
				spots = append(spots, spot{x, "value", "amount-value"}, spot{x, "currency", "amount-currency"})
			}
			for _, k := range ks {
				switch vv := x[k].(type) {
				case float64:
					spots = append(spots, spot{x, k, "number"})
				case string:
					if _, ok := new(big.Int).SetString(vv, 10); ok && len(vv) > 0 && !(hasCur && hasVal && k == "value") {
						spots = append(spots, spot{x, k, "string-number"})
					} else if strings.HasPrefix(vv, "0lt") {
						spots = append(spots, spot{x, k, "address"})
					} else if len(vv) > 0 {
						spots = append(spots, spot{x, k, "string"})
					}
				case map[string]interface{}:
					spots = append(spots, spot{x, k, "object"})
					walk(vv)
				default:
					walk(vv)
				}
			}
		case []interface{}:
			for _, e := range x {
				walk(e)
			}
		}
	}
	walk(payload)
	if len(spots) == 0 {
		return nil
	}
	sp := spots[c.Rng.Intn(len(spots))]
	label := ""
	switch sp.kind {
	case "amount-value", "string-number":
		i := c.Rng.Intn(len(hostileNumbers))
		sp.obj[sp.key] = hostileNumbers[i]
		label = sp.key + ":" + hostileNumberClass[i]
	case "amount-currency":
		i := c.Rng.Intn(len(hostileCurrencies))
		sp.obj[sp.key] = hostileCurrencies[i]
		label = "currency:" + hostileCurrencyClass[i]
	case "address":
		vals := []string{"", "0lt", "0lt00", "0x" + strings.Repeat("ab", 20), "0lt" + strings.Repeat("ab", 32), "0lt" + strings.Repeat("0", 40), "0ltzz", strings.Repeat("f", 40)}
		cls := []string{"empty", "prefix-only", "short", "0x", "long", "zero", "nonhex", "noprefix"}
		i := c.Rng.Intn(len(vals))
		sp.obj[sp.key] = vals[i]
		label = sp.key + ":addr-" + cls[i]
	case "string":
		vals := []string{"", strings.Repeat("A", 70000), "\u0000", "../../x", "~", "_"}
		cls := []string{"empty", "huge", "nul", "path", "tilde", "underscore"}
		i := c.Rng.Intn(len(vals))
		sp.obj[sp.key] = vals[i]
		label = sp.key + ":str-" + cls[i]
	case "object":
		sp.obj[sp.key] = nil
		label = sp.key + ":null"
	case "number":
		vals := []json.Number{"-1", "0", "9223372036854775807", "-9223372036854775808", "4294967296"}
		cls := []string{"neg", "zero", "maxint64", "minint64", "gt32"}
		i := c.Rng.Intn(len(vals))
		sp.obj[sp.key] = vals[i]
		label = sp.key + ":" + cls[i]
	}
	data, err := json.Marshal(payload)
	if err != nil {
		return nil
	}
	raw := action.RawTx{Type: tx.Type, Data: data, Fee: tx.Fee, Memo: memo(c)}
	var signers []*core.Account
	for _, a := range core.SignerAddrs(tx) {
		acc := c.W.Lookup(a)
		if acc == nil {
			return nil
		}
		signers = append(signers, acc)
	}
	return &Tx{Bytes: core.SignRaw(raw, signers...), Kind: tx.Type.String() + "/hostile:" + label}
}

func clip(s string, n int) string {
	if len(s) > n {
		return s[:n] + "~"
	}
	return s
}

func init() { Register(HostileValues{}) }

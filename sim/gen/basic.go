package gen

import (
	"math/big"

	"github.com/Oneledger/protocol/action/network_delegation"
	"github.com/Oneledger/protocol/action/staking"
	"github.com/Oneledger/protocol/action/transfer"
	"github.com/Oneledger/protocol/data/keys"

	"olsim/core"
)

// Send: plain transfers between users, some overdrawn, some to fresh addresses, some non-OLT.
type Send struct{}

func (Send) Name() string { return "send" }
func (Send) Gen(c *Ctx) []Tx {
	var out []Tx
	n := 1 + c.Rng.Intn(3)
	for i := 0; i < n; i++ {
		from := c.W.Users[pick(c.Rng, len(c.W.Users))]
		to := c.W.Users[pick(c.Rng, len(c.W.Users))].Addr
		kind := "SEND"
		amt := new(big.Int).Add(big.NewInt(1), bigRand(c.Rng, nueOf(1000)))
		switch c.Rng.Intn(10) {
		case 0:
			bal := c.Ref.BalanceOf(from.Addr, "OLT")
			amt = new(big.Int).Add(bal, big.NewInt(1))
			kind = "SEND/overdraw"
		case 1:
			to = keys.Address(core.NewEdAccount(c.W.Seed, "fresh"+string(rune('a'+c.Rng.Intn(6)))).Addr)
			kind = "SEND/fresh"
		case 2:
			// exactly the whole balance: the fee step must fail after the handler succeeded
			amt = c.Ref.BalanceOf(from.Addr, "OLT")
			kind = "SEND/all"
		}
		msg := &transfer.Send{From: from.Addr, To: to, Amount: core.OLT(amt)}
		out = append(out, Tx{Bytes: core.BuildTx(msg, core.DefaultFee(), memo(c), from), Kind: kind})
	}
	return out
}

func memo(c *Ctx) string {
	const letters = "abcdefghijklmnopqrstuvwxyz0123456789"
	b := make([]byte, 8)
	for i := range b {
		b[i] = letters[c.Rng.Intn(len(letters))]
	}
	return string(b)
}

// SendPool: donations to named pools.
type SendPool struct{}

func (SendPool) Name() string { return "sendpool" }
func (SendPool) Gen(c *Ctx) []Tx {
	if c.Rng.Intn(3) != 0 {
		return nil
	}
	from := c.W.Users[pick(c.Rng, len(c.W.Users))]
	pools := []string{"RewardsPool", "BountyPool", "FeePool", "DelegationPool", "NoSuchPool"}
	p := pools[pick(c.Rng, len(pools))]
	msg := &transfer.SendPool{From: from.Addr, PoolName: p, Amount: core.OLT(new(big.Int).Add(big.NewInt(1), bigRand(c.Rng, nueOf(50))))}
	return []Tx{{Bytes: core.BuildTx(msg, core.DefaultFee(), memo(c), from), Kind: "SENDPOOL/" + p}}
}

// Staking: candidates stake/unstake/withdraw; genesis validators add and remove stake.
type Staking struct{}

func (Staking) Name() string { return "staking" }
func (Staking) Gen(c *Ctx) []Tx {
	if c.Rng.Intn(2) != 0 {
		return nil
	}
	all := c.W.AllValidatorKeys()
	vk := all[pick(c.Rng, len(all))]
	minStake := c.W.Knobs.MinSelfStake
	var out []Tx
	switch c.Rng.Intn(6) {
	case 0, 1:
		amt := minStake/2 + c.Rng.Int63n(minStake)
		if c.Rng.Intn(4) == 0 {
			amt = minStake
		}
		msg := &staking.Stake{ValidatorAddress: vk.ValKey.Addr, StakeAddress: vk.NodeKey.Addr, ValidatorPubKey: vk.ValKey.Pub,
			ValidatorECDSAPubKey: vk.EcPub, NodeName: vk.Name, Stake: core.OLTi(amt)}
		out = append(out, Tx{Bytes: core.BuildTx(msg, core.DefaultFee(), memo(c), vk.NodeKey, vk.ValKey), Kind: "STAKE"})
	case 2, 3:
		amt := 1 + c.Rng.Int63n(minStake)
		msg := &staking.Unstake{ValidatorAddress: vk.ValKey.Addr, StakeAddress: vk.NodeKey.Addr, Stake: core.OLTi(amt)}
		out = append(out, Tx{Bytes: core.BuildTx(msg, core.DefaultFee(), memo(c), vk.NodeKey, vk.ValKey), Kind: "UNSTAKE"})
	default:
		amt := 1 + c.Rng.Int63n(minStake)
		msg := &staking.Withdraw{ValidatorAddress: vk.ValKey.Addr, StakeAddress: vk.NodeKey.Addr, Stake: core.OLTi(amt)}
		out = append(out, Tx{Bytes: core.BuildTx(msg, core.DefaultFee(), memo(c), vk.NodeKey, vk.ValKey), Kind: "WITHDRAW"})
	}
	return out
}

// NetDeleg: network delegation add / undelegate.
type NetDeleg struct{}

func (NetDeleg) Name() string { return "netdeleg" }
func (NetDeleg) Gen(c *Ctx) []Tx {
	if c.Rng.Intn(2) != 0 {
		return nil
	}
	u := c.W.Users[pick(c.Rng, len(c.W.Users))]
	amt := new(big.Int).Add(big.NewInt(1), bigRand(c.Rng, nueOf(5000)))
	if c.Rng.Intn(3) != 0 {
		msg := &network_delegation.AddNetworkDelegation{DelegationAddress: u.Addr, Amount: core.OLT(amt)}
		return []Tx{{Bytes: core.BuildTx(msg, core.DefaultFee(), memo(c), u), Kind: "ADD_NETWORK_DELEGATE"}}
	}
	msg := &network_delegation.Undelegate{Delegator: u.Addr, Amount: core.OLT(amt)}
	return []Tx{{Bytes: core.BuildTx(msg, core.DefaultFee(), memo(c), u), Kind: "NETWORK_UNDELEGATE"}}
}

// OlvmTransfer: plain OLVM value transfers between eth accounts, with nonce tracked from state.
type OlvmTransfer struct{}

func (OlvmTransfer) Name() string { return "olvm-transfer" }
func (OlvmTransfer) Gen(c *Ctx) []Tx {
	if len(c.W.EthUsers) == 0 || c.Rng.Intn(2) != 0 {
		return nil
	}
	from := c.W.EthUsers[pick(c.Rng, len(c.W.EthUsers))]
	to := c.W.EthUsers[pick(c.Rng, len(c.W.EthUsers))].Addr
	nonce := c.S.EthNonce[from.Label]
	kind := "OLVM/transfer"
	switch c.Rng.Intn(8) {
	case 0:
		nonce += 2
		kind = "OLVM/nonce-gap"
	case 1:
		if nonce > 0 {
			nonce--
			kind = "OLVM/nonce-low"
		}
	}
	val := new(big.Int).Add(big.NewInt(1), bigRand(c.Rng, nueOf(10)))
	b := core.BuildOLVM(c.W.ChainID, from, &to, nonce, val, nil, 100000, big.NewInt(1000000000), nil, nil)
	if kind == "OLVM/transfer" {
		c.S.EthNonce[from.Label] = nonce + 1
	}
	return []Tx{{Bytes: b, Kind: kind}}
}

// Failures: transactions designed to fail after the handler has already written something.
type Failures struct{}

func (Failures) Name() string { return "failures" }
func (Failures) Gen(c *Ctx) []Tx {
	var out []Tx
	n := 1 + c.Rng.Intn(3)
	for i := 0; i < n; i++ {
		u := c.W.Users[pick(c.Rng, len(c.W.Users))]
		fee := core.DefaultFee()
		switch c.Rng.Intn(6) {
		case 0:
			// gas limit smaller than use: fee step fails after the handler succeeded
			fee.Gas = int64(1 + c.Rng.Intn(40))
			to := c.W.Users[pick(c.Rng, len(c.W.Users))].Addr
			msg := &transfer.Send{From: u.Addr, To: to, Amount: core.OLT(big.NewInt(1 + c.Rng.Int63n(1000)))}
			out = append(out, Tx{Bytes: core.BuildTx(msg, fee, memo(c), u), Kind: "SEND/gas-too-low"})
		case 1:
			// delegate the whole balance: handler debits, fee cannot be paid
			bal := c.Ref.BalanceOf(u.Addr, "OLT")
			msg := &network_delegation.AddNetworkDelegation{DelegationAddress: u.Addr, Amount: core.OLT(bal)}
			out = append(out, Tx{Bytes: core.BuildTx(msg, fee, memo(c), u), Kind: "ADD_NETWORK_DELEGATE/all"})
		case 2:
			// send to pool the whole balance
			bal := c.Ref.BalanceOf(u.Addr, "OLT")
			msg := &transfer.SendPool{From: u.Addr, PoolName: "BountyPool", Amount: core.OLT(bal)}
			out = append(out, Tx{Bytes: core.BuildTx(msg, fee, memo(c), u), Kind: "SENDPOOL/all"})
		case 3:
			// undelegate more than delegated
			msg := &network_delegation.Undelegate{Delegator: u.Addr, Amount: core.OLT(nueOf(100000000))}
			out = append(out, Tx{Bytes: core.BuildTx(msg, fee, memo(c), u), Kind: "NETWORK_UNDELEGATE/too-much"})
		case 4:
			// stake by a candidate with a huge amount
			if len(c.W.Candidates) > 0 {
				vk := c.W.Candidates[pick(c.Rng, len(c.W.Candidates))]
				msg := &staking.Stake{ValidatorAddress: vk.ValKey.Addr, StakeAddress: vk.NodeKey.Addr, ValidatorPubKey: vk.ValKey.Pub,
					ValidatorECDSAPubKey: vk.EcPub, NodeName: vk.Name, Stake: core.OLTi(1 << 40)}
				out = append(out, Tx{Bytes: core.BuildTx(msg, fee, memo(c), vk.NodeKey, vk.ValKey), Kind: "STAKE/huge"})
			}
		default:
			// OLVM transfer of more than the balance
			if len(c.W.EthUsers) > 0 {
				from := c.W.EthUsers[pick(c.Rng, len(c.W.EthUsers))]
				to := c.W.EthUsers[pick(c.Rng, len(c.W.EthUsers))].Addr
				bal := c.Ref.BalanceOf(from.Addr, "OLT")
				b := core.BuildOLVM(c.W.ChainID, from, &to, c.S.EthNonce[from.Label], bal, nil, 100000, big.NewInt(1000000000), nil, nil)
				out = append(out, Tx{Bytes: b, Kind: "OLVM/overdraw"})
			}
		}
	}
	return out
}

func init() {
	Register(Send{})
	Register(SendPool{})
	Register(Staking{})
	Register(NetDeleg{})
	Register(OlvmTransfer{})
}
